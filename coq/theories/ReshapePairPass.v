(* ReshapePairPass (C02): a faithful model of remove_redundant_reshape_pairs_ir
     Reshape T1 -> chain of <= 7 default-domain ALLOWED_ELEMWISE nodes -> Reshape T2, _shapes_compatible(src, dst)
   (backward walk over first inputs, isolation tests, the two replace_all_uses_with, the shape refresh of the chain
   nodes, the removal of T1 and T2, the while-changed loop) and its soundness for annotated SSA graphs over tensors
   of any element type.
   Encoding (harness/c02_passes.py): n_op is the operator name for domain "", "dom::op" otherwise (so only
   default-domain nodes match, as _is_standard_onnx_node / the domain test of the pass demand); absent optional
   inputs occur only at the end of an input list and are dropped.
   Domain restrictions of the MODEL (the real pass does not test them; they hold in every schema-valid acyclic ONNX
   graph, and the model takes no action otherwise): Reshape and chain nodes have exactly one output, chain nodes
   have no nested graphs, and src, T1's output, the chain outputs and T2's output are pairwise distinct names. *)
From Coq Require Import ZArith String List Bool Arith Lia.
From J2O Require Import PyLib Tensor Graph Redirect Preserve Reshape ElemCommute ChainSim C02Opt ElemSem.
From J2OGen Require Import GenOpt.
Import ListNotations.

(* ---------------------------------------------------------------- annotated graphs *)
Inductive dim := DInt (n : nat) | DSym (s : string) | DUnk.

Record pgraph := mkPG {
  pg_nodes : list node; pg_outputs : list name;
  pg_shape : name -> option (list dim);      (* declared shape (None: unknown rank) *)
  pg_scalar : name -> bool;                   (* _is_scalar_const_value *)
  pg_crank : name -> option nat }.            (* number of dims of the constant payload, if any *)
Definition pg_graph (g : pgraph) : graph := mkGraph (pg_nodes g) (pg_outputs g).

(* _shapes_compatible *)
Definition dim_compat (a b : dim) : bool :=
  match a, b with DInt x, DInt y => Nat.eqb x y | DSym s, DSym t => String.eqb s t | _, _ => false end.
Definition shapes_compatible (a b : option (list dim)) : bool :=
  match a, b with Some x, Some y => list_eqb dim_compat x y | _, _ => false end.

(* ---------------------------------------------------------------- _refresh_elementwise_output_shape *)
Definition dim_eqb (a b : dim) : bool :=       (* _dim_token equality *)
  match a, b with DInt x, DInt y => Nat.eqb x y | DSym s, DSym t => String.eqb s t | DUnk, DUnk => true | _, _ => false end.

Definition bc_dim (resolved d : dim) : option dim :=
  match d with
  | DInt n => if Nat.eqb n 1 then Some resolved else
              match resolved with
              | DInt r => if Nat.eqb r 1 then Some (DInt n) else if Nat.eqb r n then Some resolved else None
              | _ => Some (DInt n)
              end
  | _ => match resolved with
         | DInt r => if Nat.eqb r 1 then Some d else Some resolved
         | _ => if dim_eqb resolved d then Some resolved else None
         end
  end.
Fixpoint fold_opt {B C} (f : B -> C -> option B) (acc : B) (l : list C) : option B :=
  match l with [] => Some acc | d :: r => match f acc d with Some a => fold_opt f a r | None => None end end.
Definition broadcast_dims (shapes : list (list dim)) : option (list dim) :=
  match shapes with
  | [] => None
  | _ => let r := fold_right (fun s m => Nat.max (length s) m) 0 shapes in
         let padded := map (fun s => repeat (DInt 1) (r - length s) ++ s) shapes in
         mapM (fun axis => fold_opt bc_dim (DInt 1) (map (fun s => nth axis s (DInt 1)) padded)) (seq 0 r)
  end.

Definition put_shape (g : pgraph) (y : name) (os : option (list dim)) : pgraph :=
  mkPG (pg_nodes g) (pg_outputs g) (fun x => if Nat.eqb x y then os else pg_shape g x) (pg_scalar g) (pg_crank g).
Definition set_shape (g : pgraph) (y : name) (s : list dim) : pgraph := put_shape g y (Some s).
(* rewired=True: the node's inputs have just been re-pointed, the old annotation is stale: unknown rather than wrong *)
Definition clear_shape (g : pgraph) (y : name) : pgraph := put_shape g y None.

(* _elementwise_shape_source *)
Definition shape_source (g : pgraph) (ins : list name) : option name :=
  match find (fun x => negb (pg_scalar g x)) ins with Some x => Some x | None => hd_error ins end.

Definition refresh (g : pgraph) (n : node) : pgraph :=        (* _refresh_elementwise_output_shape(node, rewired=True) *)
  match n_outs n with
  | [] => g
  | y :: _ =>
      if String.eqb (n_op n) "CastLike" then
        match n_ins n with
        | x :: _ => match pg_shape g x with Some s => set_shape g y s | None => clear_shape g y end
        | [] => g
        end
      else
        match shape_source g (n_ins n) with
        | None => clear_shape g y
        | Some _ =>
            (* an operand of unknown shape or an impossible broadcast: the annotation is cleared;
               otherwise the broadcast of ALL operand shapes *)
            match mapM (pg_shape g) (n_ins n) with
            | None => clear_shape g y
            | Some cands => match broadcast_dims cands with None => clear_shape g y | Some m => set_shape g y m end
            end
        end
  end.

(* ---------------------------------------------------------------- the decision *)
Definition producer (ns : list node) (v : name) : option node := find (fun n => existsb (Nat.eqb v) (n_outs n)) ns.
Definition consumers (ns : list node) (v : name) : list node := filter (fun m => existsb (Nat.eqb v) (n_ins m)) ns.
Definition observed (g : pgraph) (v : name) : bool :=        (* _value_is_observed *)
  existsb (Nat.eqb v) (pg_outputs g) || existsb (fun m => existsb (Nat.eqb v) (n_caps m)) (pg_nodes g).
Definition is_reshape (n : node) : bool := String.eqb (n_op n) "Reshape".
Definition is_allowed (n : node) : bool := str_in (n_op n) ALLOWED_ELEMWISE.

(* backward walk from T2's data input over first inputs: (T1, chain in forward order) *)
Fixpoint walk (ns : list node) (fuel : nat) (v : name) (acc : list node) : option (node * list node) :=
  match fuel with
  | O => None
  | S k => match producer ns v with
           | None => None
           | Some p => if is_allowed p then match n_ins p with x :: _ => walk ns k x (p :: acc) | [] => None end
                       else if is_reshape p then Some (p, acc) else None
           end
  end.

(* _value_rank / _rank_at_most *)
Definition value_rank (g : pgraph) (x : name) : option nat :=
  match pg_shape g x with Some ds => Some (length ds) | None => pg_crank g x end.
Definition rank_at_most (g : pgraph) (x ref : name) : bool :=
  match value_rank g x, value_rank g ref with Some a, Some b => Nat.leb a b | _, _ => false end.

(* side operands of a chain member: the data value, CastLike's type operand (position 1), or a scalar constant whose
   rank does not exceed the rank of src.  [rk = false] is the decision BEFORE the repair of the rank defect. *)
Fixpoint side_ok (rk : bool) (g : pgraph) (src : name) (castlike : bool) (prev : name) (pos : nat) (ins : list name) : bool :=
  match ins with
  | [] => true
  | x :: r => (Nat.eqb x prev || (castlike && Nat.eqb pos 1) || (pg_scalar g x && (negb rk || rank_at_most g x src)))
              && side_ok rk g src castlike prev (S pos) r
  end.

Fixpoint chain_ok (rk : bool) (g : pgraph) (src : name) (prev : name) (chain : list node) : bool :=
  match chain with
  | [] => true
  | n :: r => match n_outs n, n_caps n, n_ins n with
              | [y], [], x :: _ =>
                  Nat.eqb x prev          (* implied by the walk when outputs are single *)
                  && side_ok rk g src (String.eqb (n_op n) "CastLike") prev 0 (n_ins n) && negb (observed g y) && chain_ok rk g src y r
              | _, _, _ => false
              end
  end.

Definition out_of (n : node) : name := match n_outs n with y :: _ => y | [] => 0 end.
Definition in_members (outs : list name) (m : node) : bool :=
  match n_outs m with [y] => existsb (Nat.eqb y) outs | _ => false end.

Record action := mkAct { ac_src : name; ac_t1 : name; ac_chain : list node; ac_t2 : name }.
Definition chain_outs (a : action) : list name := map out_of (ac_chain a).
Definition dirty (a : action) : list name := ac_t1 a :: chain_outs a.

Definition decide_gen (rk : bool) (g : pgraph) (T2 : node) : option action :=
  if negb (is_reshape T2) then None else
  match n_ins T2, n_outs T2 with
  | v :: _, [b] =>
      match walk (pg_nodes g) 8 v [] with
      | None => None
      | Some (T1, chain) =>
          match n_ins T1, n_outs T1 with
          | src :: _, [a0] =>
              let a := mkAct src a0 chain b in
              if shapes_compatible (pg_shape g src) (pg_shape g b)
                 && negb (observed g a0) && chain_ok rk g src a0 chain
                 && forallb (fun x => forallb (in_members (chain_outs a ++ [b])) (consumers (pg_nodes g) x)) (dirty a)
                 && nodupb (src :: dirty a ++ [b])      (* acyclicity *)
              then Some a else None
          | _, _ => None
          end
      end
  | _, _ => None
  end.

Definition decide := decide_gen true.
Fixpoint first_action_gen (rk : bool) (g : pgraph) (ns : list node) : option action :=
  match ns with [] => None | n :: r => match decide_gen rk g n with Some a => Some a | None => first_action_gen rk g r end end.
Definition first_action := first_action_gen true.

(* ---------------------------------------------------------------- the rewrite *)
Definition new_src (a : action) : name := last (chain_outs a) (ac_src a).

Definition apply_action (g : pgraph) (a : action) : pgraph :=
  let g1 := match ac_chain a with [] => pg_graph g | _ => replace_all_uses (ac_t1 a) (ac_src a) (pg_graph g) end in
  let gs := match ac_chain a with
            | [] => g
            | _ => fold_left refresh (map (subst_node (ac_t1 a) (ac_src a)) (ac_chain a))
                             (mkPG (g_nodes g1) (g_outputs g1) (pg_shape g) (pg_scalar g) (pg_crank g))
            end in
  let g2 := replace_all_uses (ac_t2 a) (new_src a) g1 in
  mkPG (remove_first (node_is (ac_t2 a)) (remove_first (node_is (ac_t1 a)) (g_nodes g2))) (g_outputs g2)
       (pg_shape gs) (pg_scalar g) (pg_crank g).

Definition reshape_pair_step_gen (rk : bool) (g : pgraph) : option pgraph :=
  option_map (apply_action g) (first_action_gen rk g (pg_nodes g)).
Fixpoint reshape_pair_pass_gen (rk : bool) (fuel : nat) (g : pgraph) : pgraph :=
  match fuel with O => g | S k => match reshape_pair_step_gen rk g with Some g' => reshape_pair_pass_gen rk k g' | None => g end end.
Definition reshape_pair_step := reshape_pair_step_gen true.
Definition reshape_pair_pass := reshape_pair_pass_gen true.
(* the pass as it was before the repair of the rank defect (history; see reshape_pair_prerepair_rank_defect) *)
Definition reshape_pair_pass_prerepair := reshape_pair_pass_gen false.

(* ================================================================ structure of an accepted action *)
Fixpoint chain_facts (g : pgraph) (src : name) (prev : name) (chain : list node) : Prop :=
  match chain with
  | [] => True
  | n :: r => exists y rest, n_outs n = [y] /\ n_caps n = [] /\ n_ins n = prev :: rest /\
                side_ok true g src (String.eqb (n_op n) "CastLike") prev 0 (n_ins n) = true /\ observed g y = false /\ chain_facts g src y r
  end.

Lemma chain_ok_facts g src : forall chain prev, chain_ok true g src prev chain = true -> chain_facts g src prev chain.
Proof.
  induction chain as [|n r IH]; simpl; intros prev H; auto.
  destruct (n_outs n) as [|y [|]] eqn:Ho; try discriminate. destruct (n_caps n) eqn:Hc; try discriminate.
  destruct (n_ins n) as [|x rest] eqn:Hi; try discriminate.
  apply andb_prop in H as [H H4]. apply andb_prop in H as [H H3]. apply andb_prop in H as [H1 H2].
  apply Nat.eqb_eq in H1. subst x. apply negb_true_iff in H3. exists y, rest. repeat split; auto.
Qed.

Lemma chain_facts_in g src : forall chain prev n, chain_facts g src prev chain -> In n chain ->
  exists p y rest, In p (prev :: map out_of chain) /\ n_outs n = [y] /\ In y (map out_of chain) /\ n_caps n = [] /\
    n_ins n = p :: rest /\ side_ok true g src (String.eqb (n_op n) "CastLike") p 0 (n_ins n) = true.
Proof.
  induction chain as [|m r IH]; simpl; intros prev n H Hin; [contradiction|].
  destruct H as (y & rest & Ho & Hc & Hi & Hs & Hobs & Hr).
  assert (Hoy : out_of m = y) by (unfold out_of; now rewrite Ho).
  destruct Hin as [<-|Hin].
  - exists prev, y, rest. rewrite Hoy. repeat split; auto.
  - destruct (IH y n Hr Hin) as (p & y' & rest' & Hp & H1 & H2 & H3 & H4 & H5).
    exists p, y', rest'. rewrite Hoy. repeat split; auto. all: try (destruct Hp as [<-|Hp]; [right; now left | right; now right]).
Qed.

Lemma chain_facts_unobs g src : forall chain prev y, chain_facts g src prev chain -> In y (map out_of chain) -> observed g y = false.
Proof.
  induction chain as [|m r IH]; simpl; intros prev y H Hin; [contradiction|].
  destruct H as (y0 & rest & Ho & _ & _ & _ & Hobs & Hr).
  destruct Hin as [<-|Hin]; [unfold out_of; now rewrite Ho | eauto].
Qed.

Lemma last_indep {B} (l : list B) (d d' : B) : l <> [] -> last l d = last l d'.
Proof. induction l as [|x r IH]; intro H; [congruence|]. destruct r as [|y r']; [reflexivity|]. apply IH. discriminate. Qed.

Lemma chain_facts_last g src : forall chain prev, chain_facts g src prev chain -> chain <> [] ->
  n_outs (last chain (mkNode "" [] [] [] [])) = [last (map out_of chain) prev].
Proof.
  induction chain as [|m r IH]; intros prev H Hne; [congruence|].
  destruct H as (y & rest & Ho & _ & _ & _ & _ & Hr). destruct r as [|m2 r2].
  - simpl. unfold out_of. now rewrite Ho.
  - change (last (m :: m2 :: r2) _) with (last (m2 :: r2) (mkNode "" [] [] [] [])).
    change (last (map out_of (m :: m2 :: r2)) prev) with (last (map out_of (m2 :: r2)) prev).
    rewrite (IH y Hr) by discriminate. f_equal. apply last_indep. discriminate.
Qed.

Lemma producer_spec ns v p : producer ns v = Some p -> In p ns /\ In v (n_outs p).
Proof.
  unfold producer. intro H. apply find_some in H as [H1 H2]. split; auto.
  apply existsb_exists in H2 as (y & Hy & E). apply Nat.eqb_eq in E. now subst.
Qed.

Lemma walk_spec ns : forall fuel v acc T1 chain, walk ns fuel v acc = Some (T1, chain) ->
  exists new, chain = new ++ acc /\ In T1 ns /\ is_reshape T1 = true /\
    (forall n, In n new -> In n ns /\ is_allowed n = true) /\ In v (n_outs (last new T1)).
Proof.
  induction fuel as [|k IH]; simpl; intros v acc T1 chain H; [discriminate|].
  destruct (producer ns v) as [p|] eqn:Ep; [|discriminate]. apply producer_spec in Ep as [Hp Hv].
  destruct (is_allowed p) eqn:Ea.
  - destruct (n_ins p) as [|x rest]; [discriminate|].
    destruct (IH _ _ _ _ H) as (new & -> & H1 & H2 & H3 & H4).
    exists (new ++ [p]). rewrite <- app_assoc. split; [reflexivity|]. split; [exact H1|]. split; [exact H2|]. split.
    + intros n Hn. apply in_app_or in Hn as [Hn|[<-|[]]]; [now apply H3 | split; assumption].
    + now rewrite last_last.
  - destruct (is_reshape p) eqn:Er; [|discriminate]. injection H as <- <-.
    exists []. split; [reflexivity|]. split; [exact Hp|]. split; [exact Er|]. split; [intros n []|exact Hv].
Qed.

Record action_facts (g : pgraph) (a : action) (T1 T2 : node) : Prop := {
  af_T1_in : In T1 (pg_nodes g);
  af_T1_op : n_op T1 = "Reshape"%string;
  af_T1_ins : exists r, n_ins T1 = ac_src a :: r;
  af_T1_outs : n_outs T1 = [ac_t1 a];
  af_T2_in : In T2 (pg_nodes g);
  af_T2_op : n_op T2 = "Reshape"%string;
  af_T2_ins : exists r, n_ins T2 = last (dirty a) 0 :: r;
  af_T2_outs : n_outs T2 = [ac_t2 a];
  af_chain_in : forall n, In n (ac_chain a) -> In n (pg_nodes g) /\ is_allowed n = true;
  af_compat : shapes_compatible (pg_shape g (ac_src a)) (pg_shape g (ac_t2 a)) = true;
  af_unobs : forall x, In x (dirty a) -> observed g x = false;
  af_chain : chain_facts g (ac_src a) (ac_t1 a) (ac_chain a);
  af_cons : forall x m, In x (dirty a) -> In m (pg_nodes g) -> In x (n_ins m) -> in_members (chain_outs a ++ [ac_t2 a]) m = true;
  af_nodup : NoDup (ac_src a :: dirty a ++ [ac_t2 a]) }.

Lemma decide_facts g T2 a : In T2 (pg_nodes g) -> decide g T2 = Some a -> exists T1, action_facts g a T1 T2.
Proof.
  intros HT2 H. unfold decide, decide_gen in H.
  destruct (is_reshape T2) eqn:Er2; [|discriminate]. cbn [negb] in H.
  destruct (n_ins T2) as [|v rest2] eqn:Hi2; [discriminate|].
  destruct (n_outs T2) as [|b [|]] eqn:Ho2; try discriminate.
  destruct (walk (pg_nodes g) 8 v []) as [[T1 chain]|] eqn:Ew; [|discriminate].
  destruct (n_ins T1) as [|src rest1] eqn:Hi1; [discriminate|].
  destruct (n_outs T1) as [|a0 [|]] eqn:Ho1; try discriminate.
  match type of H with (if ?c then _ else _) = _ => destruct c eqn:Ec; [|discriminate] end.
  injection H as <-.
  apply andb_prop in Ec as [Ec H5]. apply andb_prop in Ec as [Ec H4]. apply andb_prop in Ec as [Ec H3].
  apply andb_prop in Ec as [H1 H2]. apply negb_true_iff in H2.
  destruct (walk_spec _ _ _ _ _ _ Ew) as (new & Hnew & HT1 & Hr1 & Hch & Hlink). rewrite app_nil_r in Hnew. subst new.
  pose proof (chain_ok_facts _ _ _ _ H3) as Hcf.
  exists T1. constructor; cbn [ac_src ac_t1 ac_chain ac_t2]; auto.
  - unfold is_reshape in Hr1. now apply String.eqb_eq in Hr1.
  - eauto.
  - unfold is_reshape in Er2. now apply String.eqb_eq in Er2.
  - (* T2's data input is the last dirty name *)
    exists rest2. rewrite Hi2. f_equal. unfold dirty, chain_outs. cbn [ac_t1 ac_chain].
    destruct chain as [|c0 cr] eqn:Ech.
    + simpl in Hlink. rewrite Ho1 in Hlink. destruct Hlink as [<-|[]]. reflexivity.
    + rewrite <- Ech in *. assert (Hne : chain <> []) by (rewrite Ech; discriminate).
      rewrite (last_indep _ T1 (mkNode "" [] [] [] [])) in Hlink by exact Hne.
      rewrite (chain_facts_last g src chain a0 Hcf Hne) in Hlink. destruct Hlink as [<-|[]].
      rewrite Ech. change (last (map out_of (c0 :: cr)) a0 = last (a0 :: map out_of (c0 :: cr)) 0).
      change (last (a0 :: map out_of (c0 :: cr)) 0) with (last (map out_of (c0 :: cr)) 0). apply last_indep. discriminate.
  - intros x [<-|Hx]; [exact H2|]. eapply chain_facts_unobs; eauto.
  - intros x m Hx Hm Hin. rewrite forallb_forall in H4. specialize (H4 x Hx). rewrite forallb_forall in H4. apply H4.
    unfold consumers. apply filter_In. split; auto. apply existsb_exists. exists x. split; auto. apply Nat.eqb_refl.
  - now apply nodupb_NoDup.
Qed.

(* ================================================================ the rewrite as ONE renaming + a filter *)
Definition rho (a : action) (x : name) : name :=
  if Nat.eqb x (ac_t2 a) then new_src a else if Nat.eqb x (ac_t1 a) then ac_src a else x.
Definition keep (a : action) (n : node) : bool := negb (node_is (ac_t1 a) n) && negb (node_is (ac_t2 a) n).

Lemma remove_first_map (k : node -> bool) (f : node -> node) ns :
  (forall n, k (f n) = k n) -> remove_first k (map f ns) = map f (remove_first k ns).
Proof. intro H. induction ns as [|n r IH]; simpl; auto. rewrite H. destruct (k n); simpl; congruence. Qed.

Lemma filter_filter {B} (p q : B -> bool) l : filter q (filter p l) = filter (fun x => p x && q x) l.
Proof. induction l as [|x r IH]; simpl; auto. destruct (p x); simpl; [destruct (q x); simpl; congruence | exact IH]. Qed.

Lemma subst_map_ext r1 r2 n : (forall x, In x (n_uses n) -> r1 x = r2 x) -> subst_map r1 n = subst_map r2 n.
Proof.
  intro H. unfold subst_map. f_equal; apply map_ext_in; intros x Hx; apply H; unfold n_uses; apply in_or_app; auto.
Qed.

Lemma observed_false g v : observed g v = false ->
  ~ In v (pg_outputs g) /\ forall m, In m (pg_nodes g) -> ~ In v (n_caps m).
Proof.
  unfold observed. intro H. apply orb_false_iff in H as [H1 H2]. split.
  - intro Hin. assert (existsb (Nat.eqb v) (pg_outputs g) = true) by (apply existsb_exists; exists v; split; auto; apply Nat.eqb_refl). congruence.
  - intros m Hm Hin.
    assert (existsb (fun m => existsb (Nat.eqb v) (n_caps m)) (pg_nodes g) = true).
    { apply existsb_exists. exists m. split; auto. apply existsb_exists. exists v. split; auto. apply Nat.eqb_refl. }
    congruence.
Qed.

Lemma in_members_spec outs m : in_members outs m = true -> exists y, n_outs m = [y] /\ In y outs.
Proof.
  unfold in_members. destruct (n_outs m) as [|y [|]]; try discriminate. intro H.
  apply existsb_exists in H as (z & Hz & E). apply Nat.eqb_eq in E. subst. eauto.
Qed.

Lemma node_is_true o m : n_outs m = [o] -> node_is o m = true.
Proof. unfold node_is. intros ->. apply Nat.eqb_refl. Qed.

Section Facts.
  Variables (g : pgraph) (a : action) (T1 T2 : node).
  Hypothesis Hnd : NoDup (defs (pg_nodes g)).
  Hypothesis Haf : action_facts g a T1 T2.

  Lemma src_not_dirty : ~ In (ac_src a) (dirty a ++ [ac_t2 a]).
  Proof. pose proof (af_nodup _ _ _ _ Haf) as H. now apply NoDup_cons_iff in H as [H _]. Qed.
  Lemma t2_not_dirty : ~ In (ac_t2 a) (dirty a).
  Proof.
    pose proof (af_nodup _ _ _ _ Haf) as H. apply NoDup_cons_iff in H as [_ H].
    intro Hin. eapply (NoDup_app_disj (dirty a) [ac_t2 a]); eauto. now left.
  Qed.
  Lemma t1_dirty : In (ac_t1 a) (dirty a). Proof. now left. Qed.
  Lemma dirty_nodup : NoDup (dirty a).
  Proof. pose proof (af_nodup _ _ _ _ Haf) as H. apply NoDup_cons_iff in H as [_ H]. now apply NoDup_app_l in H. Qed.
  Lemma t1_not_chain : ~ In (ac_t1 a) (chain_outs a).
  Proof. pose proof dirty_nodup as H. unfold dirty in H. now apply NoDup_cons_iff in H as [H _]. Qed.
  Lemma t1_ne_t2 : ac_t1 a <> ac_t2 a.
  Proof. intro E. apply t2_not_dirty. rewrite <- E. apply t1_dirty. Qed.
  Lemma src_ne_t2 : ac_src a <> ac_t2 a.
  Proof. intro E. apply src_not_dirty. apply in_or_app. right. left. now symmetry. Qed.
  Lemma src_ne_t1 : ac_src a <> ac_t1 a.
  Proof. intro E. apply src_not_dirty. apply in_or_app. left. left. now symmetry. Qed.

  Lemma new_src_spec : new_src a = ac_src a /\ ac_chain a = [] \/ In (new_src a) (chain_outs a).
  Proof.
    unfold new_src, chain_outs. destruct (ac_chain a) as [|c r]; [left; auto|]. right.
    destruct (exists_last (l := map out_of (c :: r))) as (l' & x & E); [discriminate|]. rewrite E, last_last.
    apply in_or_app. right. now left.
  Qed.

  Lemma rho_chain_out y : In y (chain_outs a) -> rho a y = y.
  Proof.
    intro Hy. unfold rho.
    destruct (Nat.eqb_spec y (ac_t2 a)) as [E|_]; [exfalso; apply t2_not_dirty; rewrite <- E; now right|].
    destruct (Nat.eqb_spec y (ac_t1 a)) as [E|_]; [exfalso; apply t1_not_chain; now rewrite <- E | reflexivity].
  Qed.
  Lemma rho_t1 : rho a (ac_t1 a) = ac_src a.
  Proof.
    unfold rho. destruct (Nat.eqb_spec (ac_t1 a) (ac_t2 a)) as [E|_]; [exfalso; now apply t1_ne_t2|]. now rewrite Nat.eqb_refl.
  Qed.
  Lemma rho_t2 : rho a (ac_t2 a) = new_src a.
  Proof. unfold rho. now rewrite Nat.eqb_refl. Qed.
  Lemma rho_other x : x <> ac_t1 a -> x <> ac_t2 a -> rho a x = x.
  Proof. intros H1 H2. unfold rho. destruct (Nat.eqb_spec x (ac_t2 a)); [contradiction|]. destruct (Nat.eqb_spec x (ac_t1 a)); [contradiction | reflexivity]. Qed.

  Lemma last_dirty_eq : ac_chain a <> [] -> last (dirty a) 0 = new_src a.
  Proof.
    unfold dirty, new_src, chain_outs. destruct (ac_chain a) as [|c r]; [congruence|]. intros _.
    change (last (ac_t1 a :: map out_of (c :: r)) 0) with (last (map out_of (c :: r)) 0). apply last_indep. discriminate.
  Qed.

  Lemma last_dirty : rho a (last (dirty a) 0) = new_src a.
  Proof.
    destruct new_src_spec as [[Hn Hc]|Hin].
    - unfold dirty, chain_outs. rewrite Hc. simpl. rewrite rho_t1. now symmetry.
    - assert (Hne : ac_chain a <> []) by (intro E; unfold chain_outs in Hin; rewrite E in Hin; contradiction).
      rewrite (last_dirty_eq Hne). now apply rho_chain_out.
  Qed.

  Lemma last_dirty_in : In (last (dirty a) 0) (dirty a).
  Proof.
    unfold dirty. destruct (exists_last (l := ac_t1 a :: chain_outs a)) as (l' & x & E); [discriminate|].
    rewrite E, last_last. apply in_or_app. right. now left.
  Qed.

  (* the members of the chain are exactly the nodes whose single output is a chain output *)
  Lemma chain_member n : In n (pg_nodes g) -> in_members (chain_outs a) n = true -> In n (ac_chain a).
  Proof.
    intros Hn Hm. apply in_members_spec in Hm as (y & Ho & Hy). unfold chain_outs in Hy.
    apply in_map_iff in Hy as (c & Hc & Hcin).
    destruct (chain_facts_in g _ _ _ c (af_chain _ _ _ _ Haf) Hcin) as (_ & y' & _ & _ & Hoc & _).
    assert (y' = y) by (unfold out_of in Hc; rewrite Hoc in Hc; auto). subst y'.
    assert (n = c); [|now subst].
    eapply (defs_unique (pg_nodes g)); eauto.
    - now apply (af_chain_in _ _ _ _ Haf).
    - rewrite Ho. now left.
    - rewrite Hoc. now left.
  Qed.

  Lemma T1_unique n : In n (pg_nodes g) -> In (ac_t1 a) (n_outs n) -> n = T1.
  Proof.
    intros Hn Hin. eapply (defs_unique (pg_nodes g)); eauto; [apply (af_T1_in _ _ _ _ Haf) | rewrite (af_T1_outs _ _ _ _ Haf); now left].
  Qed.
  Lemma T2_unique n : In n (pg_nodes g) -> In (ac_t2 a) (n_outs n) -> n = T2.
  Proof.
    intros Hn Hin. eapply (defs_unique (pg_nodes g)); eauto; [apply (af_T2_in _ _ _ _ Haf) | rewrite (af_T2_outs _ _ _ _ Haf); now left].
  Qed.

  (* a kept node outside the chain reads no dirty name *)
  Lemma kept_clean n x : In n (pg_nodes g) -> keep a n = true -> in_members (chain_outs a) n = false ->
    In x (dirty a) -> ~ In x (n_uses n).
  Proof.
    intros Hn Hk Hnm Hx Hin. unfold n_uses in Hin. apply in_app_or in Hin as [Hi|Hc].
    - pose proof (af_cons _ _ _ _ Haf x n Hx Hn Hi) as Hm. apply in_members_spec in Hm as (y & Ho & Hy).
      apply in_app_or in Hy as [Hy|[<-|[]]].
      + assert (in_members (chain_outs a) n = true); [|congruence].
        unfold in_members. rewrite Ho. apply existsb_exists. exists y. split; auto. apply Nat.eqb_refl.
      + unfold keep in Hk. rewrite (node_is_true _ _ Ho) in Hk. now rewrite andb_false_r in Hk.
    - destruct (observed_false _ _ (af_unobs _ _ _ _ Haf x Hx)) as [_ H]. exact (H n Hn Hc).
  Qed.

  Lemma chain_nonempty_member c : In c (ac_chain a) -> in_members (chain_outs a) c = true /\ keep a c = true.
  Proof.
    intro Hc. destruct (chain_facts_in g _ _ _ c (af_chain _ _ _ _ Haf) Hc) as (_ & y & _ & _ & Ho & Hy & _).
    split.
    - unfold in_members. rewrite Ho. apply existsb_exists. exists y. split; auto. apply Nat.eqb_refl.
    - unfold keep, node_is. rewrite Ho.
      destruct (Nat.eqb_spec y (ac_t1 a)) as [E|_].
      { exfalso. apply t1_not_chain. now rewrite <- E. }
      destruct (Nat.eqb_spec y (ac_t2 a)) as [E|_]; auto.
      exfalso. apply t2_not_dirty. rewrite <- E. now right.
  Qed.

  Theorem apply_action_graph :
    pg_graph (apply_action g a) =
    mkGraph (map (subst_map (rho a)) (filter (keep a) (pg_nodes g))) (map (rho a) (pg_outputs g)).
  Proof.
    unfold apply_action, pg_graph. cbn [pg_nodes pg_outputs].
    set (f := fun n => subst_node (ac_t2 a) (new_src a) (match ac_chain a with [] => n | _ => subst_node (ac_t1 a) (ac_src a) n end)).
    assert (Hnodes : g_nodes (replace_all_uses (ac_t2 a) (new_src a)
               match ac_chain a with [] => mkGraph (pg_nodes g) (pg_outputs g)
                                | _ => replace_all_uses (ac_t1 a) (ac_src a) (mkGraph (pg_nodes g) (pg_outputs g)) end)
            = map f (pg_nodes g)).
    { unfold f. destruct (ac_chain a); simpl; [reflexivity | now rewrite map_map]. }
    rewrite Hnodes.
    assert (Hk : forall o n, node_is o (f n) = node_is o n) by (intros o n; unfold f; destruct (ac_chain a); reflexivity).
    rewrite (remove_first_map _ f) by (intro; apply Hk). rewrite (remove_first_map _ f) by (intro; apply Hk).
    rewrite (remove_first_filter (ac_t1 a)) by exact Hnd.
    rewrite (remove_first_filter (ac_t2 a)).
    2:{ rewrite <- (remove_first_filter (ac_t1 a)) by exact Hnd. now apply NoDup_defs_remove_first. }
    rewrite filter_filter. fold (keep a). f_equal.
    - apply map_ext_in. intros n Hn. apply filter_In in Hn as [Hn Hkn]. unfold f.
      destruct (ac_chain a) as [|c r] eqn:Ec.
      + rewrite subst_node_map. apply subst_map_ext. intros x Hx. unfold rn, rho.
        destruct (Nat.eqb_spec x (ac_t2 a)); auto.
        destruct (Nat.eqb_spec x (ac_t1 a)) as [->|]; auto.
        exfalso. refine (kept_clean n (ac_t1 a) Hn Hkn _ t1_dirty Hx).
        unfold in_members, chain_outs. rewrite Ec. simpl. destruct (n_outs n) as [|? [|]]; reflexivity.
      + rewrite !subst_node_map, subst_map_comp. apply subst_map_ext. intros x _. unfold rn, rho.
        destruct (Nat.eqb_spec x (ac_t1 a)) as [->|Hne].
        * destruct (Nat.eqb_spec (ac_src a) (ac_t2 a)) as [E|_]; [exfalso; now apply src_ne_t2|].
          destruct (Nat.eqb_spec (ac_t1 a) (ac_t2 a)) as [E|_]; [exfalso; now apply t1_ne_t2 | reflexivity].
        * reflexivity.
    - destruct (ac_chain a) as [|c r] eqn:Ec; simpl.
      + apply map_ext_in. intros x Hx. unfold rn, rho. destruct (Nat.eqb_spec x (ac_t2 a)); auto.
        destruct (Nat.eqb_spec x (ac_t1 a)) as [->|]; auto.
        exfalso. destruct (observed_false _ _ (af_unobs _ _ _ _ Haf _ t1_dirty)) as [H _]. contradiction.
      + rewrite map_map. apply map_ext. intro x. unfold rn, rho.
        destruct (Nat.eqb_spec x (ac_t1 a)) as [->|Hne].
        * destruct (Nat.eqb_spec (ac_src a) (ac_t2 a)) as [E|_]; [exfalso; now apply src_ne_t2|].
          destruct (Nat.eqb_spec (ac_t1 a) (ac_t2 a)) as [E|_]; [exfalso; now apply t1_ne_t2 | reflexivity].
        * reflexivity.
  Qed.
End Facts.

(* ================================================================ soundness *)
Definition dim_ok (sigma : string -> nat) (d : dim) (n : nat) : Prop :=
  match d with DInt k => n = k | DSym s => n = sigma s | DUnk => True end.

Lemma compat_shapes sigma : forall ds1 ds2 s1 s2, list_eqb dim_compat ds1 ds2 = true ->
  Forall2 (dim_ok sigma) ds1 s1 -> Forall2 (dim_ok sigma) ds2 s2 -> s1 = s2.
Proof.
  induction ds1 as [|d1 r1 IH]; intros [|d2 r2] s1 s2 H F1 F2; simpl in H; try discriminate.
  - inversion F1; inversion F2; reflexivity.
  - apply andb_prop in H as [Hd Hr]. inversion F1 as [|? n1 ? t1 Hd1 Ht1]; subst. inversion F2 as [|? n2 ? t2 Hd2 Ht2]; subst.
    f_equal; [|eapply IH; eauto].
    destruct d1, d2; simpl in *; try discriminate.
    + apply Nat.eqb_eq in Hd. congruence.
    + apply String.eqb_eq in Hd. congruence.
Qed.

(* ---- _broadcast_shape_dims is sound for the operand lists of a folded chain member: one data shape S0 (possibly several
        times) and one-element shapes of rank <= |S0| *)
Definition bv (cur v : nat) : nat := if Nat.eqb cur 1 then v else cur.     (* numpy broadcast of two compatible extents *)

Lemma bc_dim_sound sigma acc d cur v n r : (cur = 1 \/ cur = n) -> (v = 1 \/ v = n) ->
  dim_ok sigma acc cur -> dim_ok sigma d v -> bc_dim acc d = Some r -> dim_ok sigma r (bv cur v) /\ (bv cur v = 1 \/ bv cur v = n).
Proof.
  intros Hc Hv Ha Hd H.
  assert (Hm : bv cur v = 1 \/ bv cur v = n) by (unfold bv; destruct (Nat.eqb_spec cur 1); [exact Hv | destruct Hc; [contradiction | now right]]).
  split; [|exact Hm]. unfold bc_dim in H. unfold bv. destruct d as [k|s|].
  - simpl in Hd. subst v. destruct (Nat.eqb_spec k 1) as [->|Hk1].
    + injection H as <-. destruct (Nat.eqb_spec cur 1) as [->|]; exact Ha.
    + assert (k = n) by (destruct Hv; congruence). subst k.
      destruct acc as [ra|sa|].
      * simpl in Ha. subst ra. destruct (Nat.eqb_spec cur 1); [injection H as <-; reflexivity|].
        destruct (Nat.eqb_spec cur n); [injection H as <-; simpl; auto | discriminate].
      * injection H as <-. destruct (Nat.eqb_spec cur 1); [reflexivity|]. simpl. destruct Hc; congruence.
      * injection H as <-. destruct (Nat.eqb_spec cur 1); [reflexivity|]. simpl. destruct Hc; congruence.
  - destruct acc as [ra|sa|].
    + simpl in Ha. subst ra. destruct (Nat.eqb_spec cur 1); injection H as <-; [exact Hd | reflexivity].
    + simpl in H. destruct (String.eqb_spec sa s) as [->|]; [|discriminate]. injection H as <-. simpl in *.
      destruct (Nat.eqb_spec cur 1); congruence.
    + discriminate.
  - destruct acc as [ra|sa|].
    + simpl in Ha. subst ra. destruct (Nat.eqb_spec cur 1); injection H as <-; [exact I | reflexivity].
    + discriminate.
    + injection H as <-. exact I.
Qed.

Lemma fold_bc_sound sigma n : forall ds vs acc cur r, (cur = 1 \/ cur = n) -> dim_ok sigma acc cur ->
  Forall2 (dim_ok sigma) ds vs -> Forall (fun v => v = 1 \/ v = n) vs -> fold_opt bc_dim acc ds = Some r ->
  exists m, dim_ok sigma r m /\ (m = 1 \/ m = n) /\ (cur = n -> m = n) /\ (In n vs -> m = n).
Proof.
  induction ds as [|d ds IH]; intros vs acc cur r Hc Ha H2 Hv H; inversion H2 as [|? v ? vr Hd H2']; subst; simpl in H.
  - injection H as <-. exists cur. repeat split; auto. intros [].
  - destruct (bc_dim acc d) as [a1|] eqn:E; [|discriminate]. inversion Hv as [|? ? Hv1 Hvr]; subst.
    destruct (bc_dim_sound sigma acc d cur v n a1 Hc Hv1 Ha Hd E) as [Ha1 Hm1].
    destruct (IH vr a1 (bv cur v) r Hm1 Ha1 H2' Hvr H) as (m & Hrm & Hmn & Hcur & Hin).
    exists m. repeat split; auto.
    + intro E1. apply Hcur. unfold bv. destruct (Nat.eqb_spec cur 1); [|exact E1]. destruct Hv1; congruence.
    + intros [E1|Hin']; [|now apply Hin]. apply Hcur. unfold bv. destruct (Nat.eqb_spec cur 1); [now symmetry|]. destruct Hc; congruence.
Qed.

Lemma mapM_nth {B C} (f : B -> option C) : forall l m, mapM f l = Some m ->
  length m = length l /\ forall i db dc, i < length l -> f (nth i l db) = Some (nth i m dc).
Proof.
  induction l as [|x l IH]; simpl; intros m H.
  - injection H as <-. split; auto. intros; lia.
  - destruct (f x) as [y|] eqn:E; [|discriminate]. destruct (mapM f l) as [ys|] eqn:E2; [|discriminate]. injection H as <-.
    destruct (IH ys eq_refl) as [Hl Hn]. split; [simpl; lia|]. intros [|i] db dc Hi; simpl; auto. apply Hn. lia.
Qed.

Lemma Forall2_nth_dim sigma : forall ds s i, Forall2 (dim_ok sigma) ds s -> dim_ok sigma (nth i ds (DInt 1)) (nth i s 1).
Proof.
  intros ds s i H. revert i. induction H as [|d v ds s Hd _ IH]; intros [|i]; simpl; auto.
Qed.

Lemma all1_nth_1 s i : all1 s = true -> nth i s 1 = 1.
Proof.
  revert i. induction s as [|d s IH]; intros [|i] H; simpl; auto; unfold all1 in H; cbn [forallb] in H; apply andb_prop in H as [H1 H2].
  - now apply Nat.eqb_eq in H1.
  - now apply IH.
Qed.

Lemma nth_pad_dim k ds i : nth i (repeat (DInt 1) k ++ ds) (DInt 1) = if Nat.ltb i k then DInt 1 else nth (i - k) ds (DInt 1).
Proof.
  revert i. induction k as [|k IH]; intros i; simpl; [now rewrite Nat.sub_0_r|]. destruct i as [|i]; simpl; auto. rewrite IH.
  destruct (Nat.ltb_spec i k), (Nat.ltb_spec (S i) (S k)); auto; lia.
Qed.

Theorem broadcast_dims_data sigma S0 : forall dss ss m, Forall2 (Forall2 (dim_ok sigma)) dss ss ->
  Forall (fun s => s = S0 \/ (all1 s = true /\ length s <= length S0)) ss -> In S0 ss ->
  broadcast_dims dss = Some m -> Forall2 (dim_ok sigma) m S0.
Proof.
  intros dss ss m H2 Hss Hin H.
  assert (Hlen : Forall2 (fun ds s => length ds = length s) dss ss).
  { clear - H2. induction H2 as [|ds s l l' Hd _ IH]; constructor; auto. clear - Hd. induction Hd; simpl; auto. }
  set (R := fold_right (fun s m0 => Nat.max (length s) m0) 0 dss).
  assert (HR : R = length S0).
  { assert (Hle : R <= length S0).
    { unfold R. clear - Hlen Hss. induction Hlen as [|ds s l l' Hl _ IH]; simpl; [lia|]. inversion Hss as [|? ? Hs Hr]; subst.
      specialize (IH Hr). destruct Hs as [->|[_ Hs]]; lia. }
    assert (Hge : length S0 <= R).
    { unfold R. clear - Hlen Hin. induction Hlen as [|ds s l l' Hl _ IH]; [contradiction|]. simpl. destruct Hin as [->|Hin]; [lia | specialize (IH Hin); lia]. }
    lia. }
  assert (Hne : dss <> []) by (intro E; subst; inversion H2; subst; contradiction).
  assert (Hb : broadcast_dims dss =
               mapM (fun axis => fold_opt bc_dim (DInt 1) (map (fun s => nth axis s (DInt 1)) (map (fun s => repeat (DInt 1) (R - length s) ++ s) dss))) (seq 0 R))
    by (unfold broadcast_dims, R; destruct dss; [congruence | reflexivity]).
  rewrite Hb in H. clear Hb. rewrite HR in H. clear HR. clearbody R. clear R. set (R := length S0) in *.
  destruct (mapM_nth _ _ _ H) as [Hlm Hnth]. rewrite seq_length in Hlm.
  (* pointwise *)
  assert (Hpt : forall i, i < R -> dim_ok sigma (nth i m (DInt 1)) (nth i S0 1)).
  { intros i Hi. specialize (Hnth i 0 (DInt 1)). rewrite seq_length in Hnth. specialize (Hnth Hi). rewrite seq_nth in Hnth by exact Hi. simpl in Hnth.
    rewrite map_map in Hnth.
    set (n := nth i S0 1).
    destruct (fold_bc_sound sigma n (map (fun s => nth i (repeat (DInt 1) (R - length s) ++ s) (DInt 1)) dss)
                (map (fun s => nth i (repeat 1 (R - length s) ++ s) 1) ss) (DInt 1) 1 (nth i m (DInt 1))) as (mv & Hok & _ & _ & Hn); auto.
    - reflexivity.
    - clear - H2 Hlen. induction H2 as [|ds s l l' Hd _ IH]; simpl; constructor; [|inversion Hlen; subst; auto].
      inversion Hlen as [|? ? ? ? Hl _]; subst. rewrite Hl.
      assert (Hp : Forall2 (dim_ok sigma) (repeat (DInt 1) (R - length s) ++ ds) (repeat 1 (R - length s) ++ s)).
      { apply Forall2_app; auto. clear. induction (R - length s); simpl; constructor; simpl; auto. }
      now apply Forall2_nth_dim.
    - clear - Hss. apply Forall_forall. intros v Hv. apply in_map_iff in Hv as (s & <- & Hs). rewrite Forall_forall in Hss.
      destruct (Hss s Hs) as [->|[H1 Hl]].
      + right. unfold R. rewrite Nat.sub_diag. reflexivity.
      + left. apply all1_nth_1. unfold all1. rewrite forallb_app. rewrite andb_true_iff. split; [|exact H1]. clear. induction (R - length s); simpl; auto.
    - rewrite <- (Hn ltac:(apply in_map_iff; exists S0; split; auto; unfold R; rewrite Nat.sub_diag; reflexivity)). exact Hok. }
  unfold R in Hlm, Hpt. clear - Hlm Hpt. revert S0 Hlm Hpt. induction m as [|d m IH]; intros [|v S0] Hl Hpt; simpl in Hl; try discriminate; constructor.
  - apply (Hpt 0). simpl. lia.
  - apply IH; [lia|]. intros i Hi. apply (Hpt (S i)). simpl. lia.
Qed.

Section Sound.
  Variable A : Type.
  Notation V := (tensor A).
  Variable sem : string -> list nat -> list V -> option (list V).
  Hypothesis sem_proper : forall op ats vs vs' o, Forall2 teq vs vs' -> sem op ats vs = Some o ->
    exists o', sem op ats vs' = Some o' /\ Forall2 teq o o'.
  Hypothesis Hreshape : sem_reshape_spec A sem.
  Variable F : string -> list nat -> list A -> A.
  Hypothesis Hpw : sem_pointwise_spec A sem F.
  Variable Fcl : list nat -> V -> A -> A.
  Hypothesis Hcl : sem_castlike_spec A sem Fcl.
  Hypothesis Hcl_type : castlike_type_only A Fcl.
  Hypothesis Hacc : sem_accepts_spec A sem.

  Notation evalg := (eval V sem).
  Notation stepg := (step V sem).
  Notation refinesg := (refines V teq sem).

  (* what the theorem needs from the world: SSA and TRUE annotations (property C08): declared dims hold at run time
     under one binding of the symbolic dims, and values flagged by _is_scalar_const_value have one element *)
  Record admissible (g : pgraph) (e : env V) : Prop := {
    adm_ssa : ssa V (pg_nodes g) e;
    adm_shape : exists sigma, forall ef x ds v, evalg (pg_nodes g) e = Some ef -> pg_shape g x = Some ds -> ef x = Some v ->
                  Forall2 (dim_ok sigma) ds (shape v);
    adm_scalar : forall ef x v, evalg (pg_nodes g) e = Some ef -> pg_scalar g x = true -> ef x = Some v -> all1 (shape v) = true;
    adm_crank : forall ef x r v, evalg (pg_nodes g) e = Some ef -> pg_crank g x = Some r -> ef x = Some v -> length (shape v) = r;
    (* the output of an elementwise node carries no constant payload (a static property of the annotations) *)
    adm_crank_elem : forall n y, In n (pg_nodes g) -> is_allowed n = true -> In y (n_outs n) -> pg_crank g y = None }.

  Section Action.
    Variables (g : pgraph) (a : action) (T1 T2 : node) (e ef : env V) (xs : V).
    Hypothesis Hadm : admissible g e.
    Hypothesis Haf : action_facts g a T1 T2.
    Hypothesis Hev : evalg (pg_nodes g) e = Some ef.
    Hypothesis Hxs : ef (ac_src a) = Some xs.
    Let S0 := shape xs.
    Let Hnd : NoDup (defs (pg_nodes g)) := proj1 (adm_ssa _ _ Hadm).

    Definition inD (x : name) : bool := existsb (Nat.eqb x) (dirty a).
    Definition rel (x : name) (v w : V) : Prop :=
      if inD x then flat_eq v w /\ shape w = S0
      else if Nat.eqb x (ac_t2 a) then teq v w /\ shape w = S0 else teq v w.
    Notation Inv := (rinv V (rho a) rel).

    Lemma inD_In x : inD x = true <-> In x (dirty a).
    Proof.
      unfold inD. rewrite existsb_exists. split.
      - intros (y & Hy & E). apply Nat.eqb_eq in E. now subst.
      - intro H. exists x. split; auto. apply Nat.eqb_refl.
    Qed.
    Lemma inD_false x : ~ In x (dirty a) -> inD x = false.
    Proof. intro H. destruct (inD x) eqn:E; auto. apply inD_In in E. contradiction. Qed.

    Lemma rel_flat x v w : rel x v w -> flat_eq v w.
    Proof.
      unfold rel. destruct (inD x); [tauto|]. destruct (Nat.eqb x (ac_t2 a)); [intros [H _]|intro H]; now apply teq_flat_eq.
    Qed.
    Lemma rel_teq x v w : inD x = false -> rel x v w -> teq v w.
    Proof. unfold rel. intros ->. destruct (Nat.eqb x (ac_t2 a)); tauto. Qed.
    Lemma rel_shape x v w : In x (dirty a ++ [ac_t2 a]) -> rel x v w -> shape w = S0.
    Proof.
      unfold rel. intro Hin. destruct (inD x) eqn:E; [tauto|].
      apply in_app_or in Hin as [Hin|[<-|[]]]; [apply inD_In in Hin; congruence|]. rewrite Nat.eqb_refl. tauto.
    Qed.
    Lemma rel_of_teq x v w : inD x = false -> x <> ac_t2 a -> teq v w -> rel x v w.
    Proof. unfold rel. intros -> Hne H. destruct (Nat.eqb_spec x (ac_t2 a)); [contradiction | exact H]. Qed.

    Lemma rel_list_teq xs0 vs ws : (forall x, In x xs0 -> inD x = false) -> rel_list V rel xs0 vs ws -> Forall2 teq vs ws.
    Proof.
      intros H Hr. induction Hr as [|x v w xr vr wr Hx _ IH]; constructor.
      - apply (rel_teq x); auto. apply H. now left.
      - apply IH. intros; apply H; now right.
    Qed.
    Lemma rel_list_flat xs0 vs ws : rel_list V rel xs0 vs ws -> Forall2 flat_eq vs ws.
    Proof. induction 1; constructor; eauto using rel_flat. Qed.
    Lemma rel_list_of_teq : forall xs0 vs ws, Forall2 teq vs ws -> length vs = length xs0 ->
      (forall x, In x xs0 -> inD x = false /\ x <> ac_t2 a) -> rel_list V rel xs0 vs ws.
    Proof.
      induction xs0 as [|x xr IH]; intros vs ws H2 Hl Hx; destruct H2 as [|v w vr wr Hvw H2]; simpl in Hl; try discriminate; constructor.
      - destruct (Hx x (or_introl eq_refl)). now apply rel_of_teq.
      - apply IH; auto. intros; apply Hx; now right.
    Qed.

    Lemma inv_init : Inv e e.
    Proof.
      pose proof (proj2 (adm_ssa _ _ Hadm)) as Hfree. split; [|auto].
      intros x v Hx.
      assert (Hnd' : ~ In x (defs (pg_nodes g))) by (intro Hd; rewrite (Hfree _ Hd) in Hx; discriminate).
      assert (H1 : x <> ac_t1 a).
      { intros ->. apply Hnd'. unfold defs. apply in_flat_map. exists T1. split; [apply (af_T1_in _ _ _ _ Haf)|].
        rewrite (af_T1_outs _ _ _ _ Haf). now left. }
      assert (H2 : x <> ac_t2 a).
      { intros ->. apply Hnd'. unfold defs. apply in_flat_map. exists T2. split; [apply (af_T2_in _ _ _ _ Haf)|].
        rewrite (af_T2_outs _ _ _ _ Haf). now left. }
      rewrite (rho_other a x H1 H2). exists v. split; auto. apply rel_of_teq; auto; [|apply teq_refl].
      apply inD_false. intros [E|Hc]; [now symmetry in E|].
      apply Hnd'. unfold chain_outs in Hc. apply in_map_iff in Hc as (c & Hc & Hcin).
      destruct (chain_facts_in g _ _ _ c (af_chain _ _ _ _ Haf) Hcin) as (_ & y & _ & _ & Ho & _).
      unfold defs. apply in_flat_map. exists c. split; [now apply (af_chain_in _ _ _ _ Haf)|].
      unfold out_of in Hc. rewrite Ho in *. subst. now left.
    Qed.

    Lemma src_clean : inD (ac_src a) = false /\ ac_src a <> ac_t1 a /\ ac_src a <> ac_t2 a.
    Proof.
      split; [|split; [eapply src_ne_t1 | eapply src_ne_t2]; eauto].
      apply inD_false. intro H. apply (src_not_dirty g a T1 T2 Haf). apply in_or_app. now left.
    Qed.

    (* ---- the two removed Reshape nodes *)
    Lemma T1_step em em' e1 : (forall x v, em x = Some v -> ef x = Some v) -> em (ac_t1 a) = None ->
      Inv em em' -> stepg em T1 = Some e1 -> Inv e1 em'.
    Proof.
      intros Hle Hfresh Hi Hs.
      apply (rinv_dropped_step V sem (rho a) rel em em' T1 (ac_t1 a) e1 Hi Hs (af_T1_outs _ _ _ _ Haf) Hfresh).
      intros vs v Hl Hsem. rewrite (af_T1_op _ _ _ _ Haf) in Hsem.
      destruct (Hreshape _ _ _ Hsem) as (x & rest & y & -> & Hy & Hfl). injection Hy as <-.
      destruct (af_T1_ins _ _ _ _ Haf) as [r Hins]. unfold n_uses in Hl. rewrite Hins in Hl. simpl in Hl.
      destruct (em (ac_src a)) as [x0|] eqn:Ex; [|discriminate].
      destruct (lookups V em (r ++ n_caps T1)); [|discriminate]. injection Hl as <- _.
      destruct Hi as [Hi1 _]. destruct (Hi1 _ _ Ex) as (w & Ew & Hr).
      destruct src_clean as (Hc1 & Hc2 & Hc3). rewrite (rho_other a _ Hc2 Hc3) in Ew.
      pose proof (rel_teq _ _ _ Hc1 Hr) as Hxw.
      exists w. rewrite (rho_t1 g a T1 T2 Haf). split; auto.
      unfold rel. rewrite (proj2 (inD_In _) (t1_dirty a)). split.
      - eapply flat_eq_trans; [exact Hfl | now apply teq_flat_eq].
      - rewrite <- (proj1 Hxw). pose proof (Hle _ _ Ex) as E. rewrite Hxs in E. injection E as <-. reflexivity.
    Qed.

    Lemma T2_step em em' e1 : (forall x v, em x = Some v -> ef x = Some v) -> (forall x v, e1 x = Some v -> ef x = Some v) ->
      em (ac_t2 a) = None -> Inv em em' -> stepg em T2 = Some e1 -> Inv e1 em'.
    Proof.
      intros Hle Hle1 Hfresh Hi Hs.
      apply (rinv_dropped_step V sem (rho a) rel em em' T2 (ac_t2 a) e1 Hi Hs (af_T2_outs _ _ _ _ Haf) Hfresh).
      intros vs v Hl Hsem.
      assert (He1 : e1 (ac_t2 a) = Some v).
      { unfold step in Hs. rewrite Hl, Hsem, (af_T2_outs _ _ _ _ Haf) in Hs. simpl in Hs. injection Hs as <-.
        unfold upd. now rewrite Nat.eqb_refl. }
      rewrite (af_T2_op _ _ _ _ Haf) in Hsem.
      destruct (Hreshape _ _ _ Hsem) as (x & rest & y & -> & Hy & Hfl). injection Hy as <-.
      destruct (af_T2_ins _ _ _ _ Haf) as [r Hins]. unfold n_uses in Hl. rewrite Hins in Hl. cbn [app lookups] in Hl.
      destruct (em (last (dirty a) 0)) as [x0|] eqn:Ex; [|discriminate].
      destruct (lookups V em (r ++ n_caps T2)); [|discriminate]. injection Hl as <- _.
      destruct Hi as [Hi1 _]. destruct (Hi1 _ _ Ex) as (w & Ew & Hr).
      rewrite (last_dirty g a T1 T2 Haf) in Ew.
      pose proof (last_dirty_in a) as Hin.
      pose proof (rel_flat _ _ _ Hr) as Hxw.
      pose proof (rel_shape _ _ _ (in_or_app _ _ _ (or_introl Hin)) Hr) as Hsw.
      exists w. rewrite (rho_t2 a). split; auto.
      unfold rel. rewrite (inD_false _ (t2_not_dirty g a T1 T2 Haf)), Nat.eqb_refl. split; auto.
      apply flat_eq_shape_teq; [eapply flat_eq_trans; eauto|]. rewrite Hsw. unfold S0.
      (* declared shapes of src and dst are compatible and true *)
      pose proof (af_compat _ _ _ _ Haf) as Hc. unfold shapes_compatible in Hc.
      destruct (pg_shape g (ac_src a)) as [ds1|] eqn:E1; [|discriminate].
      destruct (pg_shape g (ac_t2 a)) as [ds2|] eqn:E2; [|discriminate].
      destruct (adm_shape _ _ Hadm) as [sigma Hsh].
      symmetry. eapply (compat_shapes sigma ds1 ds2); eauto.
    Qed.

    (* ---- a kept node outside the chain *)
    Lemma other_step n em em' e1 : In n (pg_nodes g) -> keep a n = true -> in_members (chain_outs a) n = false ->
      (forall y, In y (n_outs n) -> em y = None) -> NoDup (n_outs n) ->
      Inv em em' -> stepg em n = Some e1 -> exists e1', stepg em' (subst_map (rho a) n) = Some e1' /\ Inv e1 e1'.
    Proof.
      intros Hn Hk Hnm Hfresh Hndo Hi Hs.
      assert (Houts : forall y, In y (n_outs n) -> inD y = false /\ y <> ac_t2 a /\ y <> ac_t1 a).
      { intros y Hy. unfold keep in Hk. apply andb_prop in Hk as [Hk1 Hk2]. apply negb_true_iff in Hk1, Hk2.
        assert (H1 : y <> ac_t1 a).
        { intros ->. rewrite (T1_unique g a T1 T2 Hnd Haf n Hn Hy) in Hk1.
          rewrite (node_is_true _ _ (af_T1_outs _ _ _ _ Haf)) in Hk1. discriminate. }
        assert (H2 : y <> ac_t2 a).
        { intros ->. rewrite (T2_unique g a T1 T2 Hnd Haf n Hn Hy) in Hk2.
          rewrite (node_is_true _ _ (af_T2_outs _ _ _ _ Haf)) in Hk2. discriminate. }
        split; [|split]; auto. apply inD_false. intros [E|Hc]; [now symmetry in E|].
        unfold chain_outs in Hc. apply in_map_iff in Hc as (c & Hc & Hcin).
        destruct (chain_facts_in g _ _ _ c (af_chain _ _ _ _ Haf) Hcin) as (_ & y' & _ & _ & Ho & _).
        assert (y' = y) by (unfold out_of in Hc; rewrite Ho in Hc; auto). subst y'.
        assert (n = c).
        { eapply (defs_unique (pg_nodes g)); eauto; [now apply (af_chain_in _ _ _ _ Haf) | rewrite Ho; now left]. }
        subst c. destruct (chain_nonempty_member g a T1 T2 Haf n Hcin). congruence. }
      apply (rinv_kept_step V teq sem (rho a) rel em em' n e1 Hi Hs); auto.
      - intros y Hy. destruct (Houts y Hy) as (_ & H2 & H1). now apply rho_other.
      - intros vs vs' o Hl Hl' Hrl Hsem Hlen.
        assert (Hteq : Forall2 teq vs vs').
        { apply (rel_list_teq (n_uses n)); auto. intros x Hx. apply inD_false. intro Hd.
          exact (kept_clean g a T1 T2 Haf n x Hn Hk Hnm Hd Hx). }
        destruct (sem_proper _ _ _ _ _ Hteq Hsem) as (o' & Hs' & Ho). exists o'. split; auto.
        apply rel_list_of_teq; auto. intros y Hy. destruct (Houts y Hy) as (H1 & H2 & _). auto.
    Qed.

    (* ---- graph outputs *)
    Lemma outs_related ef' o : Inv ef ef' -> lookups V ef (pg_outputs g) = Some o ->
      exists o', lookups V ef' (map (rho a) (pg_outputs g)) = Some o' /\ Forall2 teq o o'.
    Proof.
      intros Hi Hl. destruct (rinv_lookups V (rho a) rel _ _ _ _ Hi Hl) as (o' & Hl' & Hr).
      exists o'. split; auto. apply (rel_list_teq (pg_outputs g)); auto.
      intros x Hx. apply inD_false. intro Hd.
      destruct (observed_false _ _ (af_unobs _ _ _ _ Haf x Hd)) as [H _]. contradiction.
    Qed.

    (* ---- a member of the chain: computes the same flattening in the other layout *)
    Lemma side_operands (E : env V) (r : name -> name) prev x :
      E (r prev) = Some x -> forall ins pos vs, side_ok true g (ac_src a) false prev pos ins = true ->
      (forall u w, In u ins -> pg_scalar g u = true -> E (r u) = Some w -> all1 (shape w) = true) ->
      lookups V E (map r ins) = Some vs -> Forall (fun v => all1 (shape v) = true \/ shape v = shape x) vs.
    Proof.
      intros Hp. induction ins as [|u rest IH]; intros pos vs Hs Hsc Hl.
      - simpl in Hl. injection Hl as <-. constructor.
      - cbn [map lookups] in Hl. destruct (E (r u)) as [w|] eqn:Eu; [|discriminate].
        destruct (lookups V E (map r rest)) as [ws|] eqn:El; [|discriminate]. injection Hl as <-.
        cbn [side_ok andb] in Hs. apply andb_prop in Hs as [H1 H2]. constructor.
        + rewrite orb_false_r in H1. apply orb_prop in H1 as [H1|H1].
          * apply Nat.eqb_eq in H1. subst u. rewrite Hp in Eu. injection Eu as <-. now right.
          * apply andb_prop in H1 as [H1 _]. left. apply (Hsc u w); auto. now left.
        + apply (IH (S pos)); auto. intros u0 w0 Hu0. apply Hsc. now right.
    Qed.

    Lemma side_rank : forall ins pos prev u, side_ok true g (ac_src a) false prev pos ins = true -> In u ins ->
      u = prev \/ rank_at_most g u (ac_src a) = true.
    Proof.
      induction ins as [|x rest IH]; intros pos prev u Hs Hu; [contradiction|].
      cbn [side_ok andb] in Hs. apply andb_prop in Hs as [H1 H2]. destruct Hu as [<-|Hu]; [|eapply IH; eauto].
      rewrite orb_false_r in H1. apply orb_prop in H1 as [H1|H1]; [left; now apply Nat.eqb_eq in H1|].
      apply andb_prop in H1 as [_ H1]. now right.
    Qed.

    Lemma value_rank_true x r v : value_rank g x = Some r -> ef x = Some v -> length (shape v) = r.
    Proof.
      unfold value_rank. intros Hr Hv. destruct (pg_shape g x) as [ds|] eqn:E.
      - injection Hr as <-. destruct (adm_shape _ _ Hadm) as [sigma Hsh]. symmetry.
        exact (Forall2_length_eq _ _ _ (Hsh ef x ds v Hev E Hv)).
      - exact (adm_crank _ _ Hadm ef x r v Hev Hr Hv).
    Qed.

    Lemma rank_ok c p u v w : In c (ac_chain a) -> In p (dirty a) ->
      side_ok true g (ac_src a) false p 0 (n_ins c) = true ->
      In u (n_ins c) -> ef u = Some v -> rel u v w -> length (shape w) <= length S0.
    Proof.
      intros Hc Hp Hside Hu Hv Hr.
      destruct (inD u) eqn:EDu.
      { apply inD_In in EDu. rewrite (rel_shape u v w (in_or_app _ _ _ (or_introl EDu)) Hr). auto. }
      destruct (side_rank _ _ _ _ Hside Hu) as [->|Hrk]; [apply inD_In in Hp; congruence|].
      pose proof (rel_teq _ _ _ EDu Hr) as [Hs _]. rewrite <- Hs.
      unfold rank_at_most in Hrk.
      destruct (value_rank g u) as [ru|] eqn:E1; [|discriminate]. destruct (value_rank g (ac_src a)) as [rs|] eqn:E2; [|discriminate].
      apply Nat.leb_le in Hrk. rewrite (value_rank_true _ _ _ E1 Hv). unfold S0. now rewrite (value_rank_true _ _ _ E2 Hxs).
    Qed.

    Lemma str_in_app_l s l l' : str_in s l = true -> str_in s (l ++ l') = true.
    Proof. unfold str_in. rewrite existsb_app. intros ->. reflexivity. Qed.

    Lemma chain_step c em em' e1 : In c (ac_chain a) ->
      (forall x v, em x = Some v -> ef x = Some v) ->
      (forall y, In y (n_outs c) -> em y = None) -> NoDup (n_outs c) ->
      Inv em em' -> stepg em c = Some e1 -> exists e1', stepg em' (subst_map (rho a) c) = Some e1' /\ Inv e1 e1'.
    Proof.
      intros Hc Hle Hfresh Hndo Hi Hs.
      destruct (chain_facts_in g _ _ _ c (af_chain _ _ _ _ Haf) Hc) as (p & y & rest & Hp & Ho & Hy & Hcaps & Hins & Hside).
      assert (HpD : In p (dirty a)) by exact Hp.
      apply (rinv_kept_step V teq sem (rho a) rel em em' c e1 Hi Hs); auto.
      { intros y0 Hy0. rewrite Ho in Hy0. destruct Hy0 as [<-|[]]. now apply (rho_chain_out g a T1 T2 Haf). }
      intros vs vs' o Hl Hl' Hrl Hsem Hlen.
      unfold n_uses in Hl, Hl', Hrl. rewrite Hcaps, app_nil_r in Hl, Hl', Hrl.
      pose proof (rel_list_flat _ _ _ Hrl) as Hflat.
      assert (Hse : Forall2 same_elems vs vs') by (eapply Forall2_imp; [|exact Hflat]; intros; now apply flat_eq_same_elems).
      pose proof Hl as Hl0. pose proof Hl' as Hl0'. rewrite Hins in Hl0, Hl0'. cbn [map] in Hl0'.
      destruct (lookups_cons_inv V _ _ _ _ Hl0) as (x & vr & Ex & _ & Evs).
      destruct (lookups_cons_inv V _ _ _ _ Hl0') as (x' & vr' & Ex' & _ & Evs').
      destruct Hi as [Hi1 Hi2].
      assert (Hrp : rel p x x') by (destruct (Hi1 _ _ Ex) as (w & Ew & Hr); rewrite Ex' in Ew; injection Ew as <-; exact Hr).
      pose proof (rel_shape p x x' (in_or_app _ _ _ (or_introl HpD)) Hrp) as Hsx'.
      assert (HyD : inD y = true) by (apply inD_In; now right).
      assert (Hrel_in : forall u, In u (n_ins c) -> exists v w, em u = Some v /\ em' (rho a u) = Some w /\ rel u v w).
      { intros u Hu. destruct (em u) as [v|] eqn:Eu.
        - destruct (Hi1 _ _ Eu) as (w & Ew & Hr). eauto.
        - exfalso. exact (lookups_defined V em _ _ u Hl Hu Eu). }
      destruct (allowed_in_pw _ (proj2 (af_chain_in _ _ _ _ Haf c Hc))) as [Hop|Hop].
      - (* CastLike *)
        rewrite Hop in *. destruct (Hcl _ _ _ Hsem) as (x0 & t & yv & Evs0 & -> & Hyv).
        rewrite Evs0 in Evs. injection Evs as -> <-. subst vs.
        assert (Hacc' : sem "CastLike" (n_attrs c) vs' <> None).
        { apply (Hacc "CastLike"%string (n_attrs c) [x; t] vs'); [reflexivity | congruence | exact Hse | now left]. }
        destruct (sem "CastLike" (n_attrs c) vs') as [o'|] eqn:Es'; [|contradiction].
        destruct (Hcl _ _ _ Es') as (x1 & t' & yv' & Evs1 & -> & Hyv').
        rewrite Evs1 in Evs'. injection Evs' as -> <-. subst vs'.
        exists [yv']. split; auto. rewrite Ho. constructor; [|constructor].
        unfold rel. rewrite HyD.
        inversion Hflat as [|? ? ? ? Hfx Hft]; subst. inversion Hft as [|? ? ? ? Hft1 _]; subst. split.
        + eapply flat_eq_trans; [apply teq_flat_eq; exact Hyv|].
          eapply flat_eq_trans; [|apply flat_eq_sym; apply teq_flat_eq; exact Hyv'].
          apply tmap_flat; auto. intro a0. apply Hcl_type. now apply flat_eq_same_elems.
        + rewrite (proj1 Hyv'). exact Hsx'.
      - (* pointwise with scalar side operands *)
        assert (Hcl0 : String.eqb (n_op c) "CastLike" = false).
        { destruct (String.eqb_spec (n_op c) "CastLike") as [E|]; auto. rewrite E in Hop. vm_compute in Hop. discriminate. }
        rewrite Hcl0 in Hside.
        assert (Hd : Forall (fun v => all1 (shape v) = true \/ shape v = shape x) vs).
        { apply (side_operands em (fun u => u) p x Ex (n_ins c) 0 vs Hside).
          - intros u w _ Hsc Eu. exact (adm_scalar _ _ Hadm ef u w Hev Hsc (Hle _ _ Eu)).
          - now rewrite map_id. }
        assert (Hok : operands_ok vs) by (apply (operands_ok_data x); auto; rewrite Evs; now left).
        assert (Hd' : Forall (fun v => all1 (shape v) = true \/ shape v = shape x') vs').
        { apply (side_operands em' (rho a) p x' Ex' (n_ins c) 0 vs' Hside); auto.
          intros u w Hu Hsc Eu. destruct (Hrel_in u Hu) as (v & w0 & Ev & Ew0 & Hr). rewrite Eu in Ew0. injection Ew0 as <-.
          pose proof (adm_scalar _ _ Hadm ef u v Hev Hsc (Hle _ _ Ev)) as H1.
          exact (proj1 (flat_eq_scalar _ _ H1 (rel_flat _ _ _ Hr))). }
        assert (Hok' : operands_ok vs') by (apply (operands_ok_data x'); auto; rewrite Evs'; now left).
        destruct (Hpw _ _ _ _ Hop Hsem Hok) as (yv & -> & Hyv).
        assert (Hacc' : sem (n_op c) (n_attrs c) vs' <> None).
        { apply (Hacc (n_op c) (n_attrs c) vs vs'); [now apply str_in_app_l | congruence | exact Hse | now right]. }
        destruct (sem (n_op c) (n_attrs c) vs') as [o'|] eqn:Es'; [|contradiction].
        destruct (Hpw _ _ _ _ Hop Es' Hok') as (yv' & -> & Hyv').
        exists [yv']. split; auto. rewrite Ho. constructor; [|constructor].
        unfold rel. rewrite HyD. split.
        + eapply flat_eq_trans; [apply teq_flat_eq; exact Hyv|].
          eapply flat_eq_trans; [|apply flat_eq_sym; apply teq_flat_eq; exact Hyv'].
          apply pwn_flat; auto.
        + rewrite (proj1 Hyv'). rewrite (pwn_shape_data (F (n_op c) (n_attrs c)) x' vs'); auto; [rewrite Evs'; now left|].
          apply (lookups_Forall V _ em' (map (rho a) (n_ins c)) vs' Hl').
          intros u' w Hu' Ew. apply in_map_iff in Hu' as (u & <- & Hu).
          destruct (Hrel_in u Hu) as (v & w0 & Ev & Ew0 & Hr). rewrite Ew in Ew0. injection Ew0 as <-.
          rewrite Hsx'. exact (rank_ok c p u v w Hc HpD Hside Hu (Hle _ _ Ev) Hr).
    Qed.

    (* ---- the action as a whole, for this run *)
    Lemma action_step_all pre n post em em' e1 : pg_nodes g = pre ++ n :: post -> evalg pre e = Some em ->
      (forall x v, em x = Some v -> ef x = Some v) -> Inv em em' -> stepg em n = Some e1 ->
      (forall x v, e1 x = Some v -> ef x = Some v) ->
      if keep a n then exists e1', stepg em' (subst_map (rho a) n) = Some e1' /\ Inv e1 e1' else Inv e1 em'.
    Proof.
      intros Hsplit Hpre Hle Hi Hs Hle1. pose proof (adm_ssa _ _ Hadm) as Hssa.
      destruct (fresh_at V sem _ _ _ _ _ _ Hssa Hsplit Hpre) as [Hfresh Hndo].
      assert (Hn : In n (pg_nodes g)) by (rewrite Hsplit; apply in_or_app; right; now left).
      destruct (keep a n) eqn:Hk.
      - destruct (in_members (chain_outs a) n) eqn:Hm.
        + apply (chain_step n em em' e1); auto. exact (chain_member g a T1 T2 Hnd Haf n Hn Hm).
        + apply (other_step n em em' e1); auto.
      - unfold keep in Hk. apply andb_false_iff in Hk as [Hk|Hk]; apply negb_false_iff in Hk; apply node_is_outs in Hk.
        + assert (n = T1) by (apply (T1_unique g a T1 T2 Hnd Haf n Hn); rewrite Hk; now left). subst n.
          apply (T1_step em em' e1); auto. apply Hfresh. rewrite Hk. now left.
        + assert (n = T2) by (apply (T2_unique g a T1 T2 Hnd Haf n Hn); rewrite Hk; now left). subst n.
          apply (T2_step em em' e1); auto. apply Hfresh. rewrite Hk. now left.
    Qed.

    Lemma action_run :
      refinesg (pg_graph g) (mkGraph (map (subst_map (rho a)) (filter (keep a) (pg_nodes g))) (map (rho a) (pg_outputs g))) e.
    Proof.
      pose proof (adm_ssa _ _ Hadm) as Hssa.
      apply (sim_refines V teq sem Inv (keep a) (subst_map (rho a)) (pg_nodes g) (pg_outputs g) (map (rho a) (pg_outputs g)) e Hssa inv_init).
      intros ef0 Hev0. rewrite Hev in Hev0. injection Hev0 as <-. split.
      - exact action_step_all.
      - intros ef' o Hi Hl. now apply outs_related.
    Qed.

    (* ---- the final environment of the rewritten graph; the annotations stay true *)
    Let nodes' := map (subst_map (rho a)) (filter (keep a) (pg_nodes g)).

    Lemma action_env : exists ef', evalg nodes' e = Some ef' /\ Inv ef ef'.
    Proof. exact (sim_env V sem Inv (keep a) (subst_map (rho a)) (pg_nodes g) e ef (adm_ssa _ _ Hadm) inv_init Hev action_step_all). Qed.

    Lemma other_outs n : In n (pg_nodes g) -> keep a n = true -> in_members (chain_outs a) n = false ->
      forall y, In y (n_outs n) -> inD y = false /\ y <> ac_t2 a /\ y <> ac_t1 a.
    Proof.
      intros Hn Hk Hnm y Hy. unfold keep in Hk. apply andb_prop in Hk as [Hk1 Hk2]. apply negb_true_iff in Hk1, Hk2.
      assert (H1 : y <> ac_t1 a).
      { intros ->. rewrite (T1_unique g a T1 T2 Hnd Haf n Hn Hy) in Hk1.
        rewrite (node_is_true _ _ (af_T1_outs _ _ _ _ Haf)) in Hk1. discriminate. }
      assert (H2 : y <> ac_t2 a).
      { intros ->. rewrite (T2_unique g a T1 T2 Hnd Haf n Hn Hy) in Hk2.
        rewrite (node_is_true _ _ (af_T2_outs _ _ _ _ Haf)) in Hk2. discriminate. }
      split; [|split]; auto. apply inD_false. intros [E|Hc]; [now symmetry in E|].
      unfold chain_outs in Hc. apply in_map_iff in Hc as (c & Hc & Hcin).
      destruct (chain_facts_in g _ _ _ c (af_chain _ _ _ _ Haf) Hcin) as (_ & y' & _ & _ & Ho & _).
      assert (y' = y) by (unfold out_of in Hc; rewrite Ho in Hc; auto). subst y'.
      assert (n = c).
      { eapply (defs_unique (pg_nodes g)); eauto; [now apply (af_chain_in _ _ _ _ Haf) | rewrite Ho; now left]. }
      subst c. destruct (chain_nonempty_member g a T1 T2 Haf n Hcin). congruence.
    Qed.

    Lemma kept_plain m y : In m (pg_nodes g) -> keep a m = true -> In y (n_outs m) -> rho a y = y.
    Proof.
      intros Hm Hk Hy. destruct (in_members (chain_outs a) m) eqn:Em.
      - pose proof (chain_member g a T1 T2 Hnd Haf m Hm Em) as Hc.
        destruct (chain_facts_in g _ _ _ m (af_chain _ _ _ _ Haf) Hc) as (_ & y' & _ & _ & Ho & Hy' & _). rewrite Ho in Hy. destruct Hy as [E|[]].
        rewrite <- E. now apply (rho_chain_out g a T1 T2 Haf).
      - destruct (other_outs m Hm Hk Em y Hy) as (_ & H2 & H1). now apply rho_other.
    Qed.

    Lemma new_defined ef' x w : evalg nodes' e = Some ef' -> Inv ef ef' -> ef' x = Some w ->
      rho a x = x /\ exists v, ef x = Some v /\ rel x v w.
    Proof.
      intros Hev' [Hi1 Hi2] Hx.
      assert (Hrho : rho a x = x).
      { assert (Hdef : ef' x <> None) by congruence. destruct (eval_dom V sem _ _ _ _ Hev' Hdef) as [He|Hd].
        - destruct (e x) as [v0|] eqn:Ex; [|congruence]. pose proof (proj2 (adm_ssa _ _ Hadm)) as Hfree.
          assert (Hnd' : ~ In x (defs (pg_nodes g))) by (intro Hd; rewrite (Hfree _ Hd) in Ex; discriminate).
          apply rho_other; intros ->; apply Hnd'; unfold defs; apply in_flat_map.
          + exists T1. split; [apply (af_T1_in _ _ _ _ Haf)|]. rewrite (af_T1_outs _ _ _ _ Haf). now left.
          + exists T2. split; [apply (af_T2_in _ _ _ _ Haf)|]. rewrite (af_T2_outs _ _ _ _ Haf). now left.
        - unfold defs, nodes' in Hd. apply in_flat_map in Hd as (m' & Hm' & Hy). apply in_map_iff in Hm' as (m & <- & Hm).
          apply filter_In in Hm as [Hm Hk]. exact (kept_plain m x Hm Hk Hy). }
      split; auto. assert (Hold : ef x <> None) by (apply Hi2; congruence).
      destruct (ef x) as [v|] eqn:Ev; [|congruence]. destruct (Hi1 _ _ Ev) as (w0 & Ew0 & Hr). rewrite Hrho, Hx in Ew0. injection Ew0 as <-.
      exists v. auto.
    Qed.

    (* ---- the refreshed annotations of the chain are true for the new values (all of shape S0) *)
    Variable sigma : string -> nat.
    Hypothesis Hsigma : forall x ds v, pg_shape g x = Some ds -> ef x = Some v -> Forall2 (dim_ok sigma) ds (shape v).

    Definition annot_ok (gs : pgraph) (done : list name) : Prop :=
      (forall x, ~ In x done -> pg_shape gs x = pg_shape g x) /\
      (forall y ds, In y done -> pg_shape gs y = Some ds -> Forall2 (dim_ok sigma) ds S0) /\
      pg_scalar gs = pg_scalar g /\ pg_crank gs = pg_crank g.

    Lemma put_shape_ok gs done y os : annot_ok gs done -> (forall ds, os = Some ds -> Forall2 (dim_ok sigma) ds S0) ->
      annot_ok (put_shape gs y os) (done ++ [y]).
    Proof.
      intros (Q1 & Q2 & Q3 & Q4) Hos. split; [|split; [|split]]; cbn [put_shape pg_shape pg_scalar pg_crank]; auto.
      - intros x Hx. destruct (Nat.eqb_spec x y) as [->|Hne]; [exfalso; apply Hx; apply in_or_app; right; now left|].
        apply Q1. intro H. apply Hx. apply in_or_app. now left.
      - intros y0 ds Hy0. destruct (Nat.eqb_spec y0 y) as [->|Hne]; [apply Hos|].
        apply in_app_or in Hy0 as [H|[E|[]]]; [now apply Q2 | congruence].
    Qed.

    (* the annotation of a (renamed) input of a chain member, if any, is true for S0 or for a one-element shape of rank <= |S0| *)
    Lemma input_annot gs done c prev u : annot_ok gs done -> In c (ac_chain a) -> In u (n_ins c) ->
      side_ok true g (ac_src a) false prev 0 (n_ins c) = true ->
      (forall ds, pg_shape gs (rn (ac_t1 a) (ac_src a) prev) = Some ds -> Forall2 (dim_ok sigma) ds S0) ->
      forall ds, pg_shape gs (rn (ac_t1 a) (ac_src a) u) = Some ds ->
      exists s, Forall2 (dim_ok sigma) ds s /\ (s = S0 \/ (all1 s = true /\ length s <= length S0)) /\ (u = prev -> s = S0).
    Proof.
      intros (Q1 & Q2 & Q3 & Q4) Hc Hu Hside Hprev ds Hds.
      destruct (Nat.eq_dec u prev) as [->|Hup]; [exists S0; auto|].
      destruct (side_rank _ _ _ _ Hside Hu) as [E|Hrk]; [contradiction|].
      assert (Hsc : pg_scalar g u = true).
      { clear - Hside Hu Hup. revert Hside. generalize 0. induction (n_ins c) as [|x r IH]; intros pos Hs; [contradiction|].
        cbn [side_ok andb] in Hs. apply andb_prop in Hs as [H1 H2]. destruct Hu as [<-|Hu]; [|eapply IH; eauto].
        rewrite orb_false_r in H1. apply orb_prop in H1 as [H1|H1]; [apply Nat.eqb_eq in H1; contradiction|]. now apply andb_prop in H1 as [H1 _]. }
      set (u' := rn (ac_t1 a) (ac_src a) u) in *.
      destruct (in_dec Nat.eq_dec u' done) as [Hd|Hd]; [exists S0; split; [exact (Q2 u' ds Hd Hds)|]; split; auto; intro; contradiction|].
      rewrite (Q1 u' Hd) in Hds.
      (* the old value of u' *)
      destruct (eval_consistent V sem _ _ _ c (adm_ssa _ _ Hadm) Hev (proj1 (af_chain_in _ _ _ _ Haf c Hc))) as (vs & o & Hl & _ & _).
      assert (Hudef : ef u <> None) by (apply (lookups_defined V ef _ _ u Hl); unfold n_uses; apply in_or_app; now left).
      destruct (ef u) as [vu|] eqn:Eu; [|congruence].
      unfold u', rn in *. destruct (Nat.eqb_spec u (ac_t1 a)) as [->|Hne].
      - exists S0. split; [exact (Hsigma _ _ _ Hds Hxs)|]. split; [now left | intro; contradiction].
      - exists (shape vu). split; [exact (Hsigma _ _ _ Hds Eu)|]. split; [|intro; contradiction]. right. split.
        + exact (adm_scalar _ _ Hadm ef u vu Hev Hsc Eu).
        + unfold rank_at_most in Hrk. destruct (value_rank g u) as [ru|] eqn:E1; [|discriminate].
          destruct (value_rank g (ac_src a)) as [rs|] eqn:E2; [|discriminate]. apply Nat.leb_le in Hrk.
          rewrite (value_rank_true _ _ _ E1 Eu). unfold S0. now rewrite (value_rank_true _ _ _ E2 Hxs).
    Qed.

    Lemma refresh_member_ok gs done c prev y rest : annot_ok gs done -> In c (ac_chain a) ->
      n_outs c = [y] -> n_ins c = prev :: rest ->
      side_ok true g (ac_src a) (String.eqb (n_op c) "CastLike") prev 0 (n_ins c) = true ->
      (forall ds, pg_shape gs (rn (ac_t1 a) (ac_src a) prev) = Some ds -> Forall2 (dim_ok sigma) ds S0) ->
      annot_ok (refresh gs (subst_node (ac_t1 a) (ac_src a) c)) (done ++ [y]).
    Proof.
      intros HQ Hc Ho Hins Hside Hprev. unfold refresh. cbn [subst_node n_outs n_op n_ins]. rewrite Ho, Hins. cbn [map].
      destruct (String.eqb (n_op c) "CastLike") eqn:Ecl.
      - destruct (pg_shape gs (rn (ac_t1 a) (ac_src a) prev)) as [ds|] eqn:Ep.
        + apply put_shape_ok; [exact HQ|]. intros ds0 E. injection E as <-. now apply Hprev.
        + apply put_shape_ok; [exact HQ|]. intros ds0 E. discriminate.
      - destruct (shape_source gs _); [|apply put_shape_ok; [exact HQ|]; intros ds0 E; discriminate].
        destruct (mapM (pg_shape gs) (rn (ac_t1 a) (ac_src a) prev :: map (rn (ac_t1 a) (ac_src a)) rest)) as [cands|] eqn:Em;
          [|apply put_shape_ok; [exact HQ|]; intros ds0 E; discriminate].
        destruct (broadcast_dims cands) as [m|] eqn:Eb; [|apply put_shape_ok; [exact HQ|]; intros ds0 E; discriminate].
        apply put_shape_ok; [exact HQ|]. intros ds0 E. injection E as <-.
        (* true shapes for the candidates *)
        assert (Hgen : forall ins cands0, (forall u, In u ins -> In u (n_ins c)) -> mapM (pg_shape gs) (map (rn (ac_t1 a) (ac_src a)) ins) = Some cands0 ->
                  exists ss, Forall2 (Forall2 (dim_ok sigma)) cands0 ss /\
                    Forall (fun s => s = S0 \/ (all1 s = true /\ length s <= length S0)) ss /\ (In prev ins -> In S0 ss)).
        { induction ins as [|u r IH]; intros cands0 Hsub Hm0; simpl in Hm0.
          - injection Hm0 as <-. exists []. split; [constructor|]. split; [constructor|]. intros [].
          - destruct (pg_shape gs (rn (ac_t1 a) (ac_src a) u)) as [ds|] eqn:Eu; [|discriminate].
            destruct (mapM (pg_shape gs) (map (rn (ac_t1 a) (ac_src a)) r)) as [cr|] eqn:Er; [|discriminate]. injection Hm0 as <-.
            destruct (IH cr (fun u0 H => Hsub u0 (or_intror H)) eq_refl) as (ss & H1 & H2 & H3).
            destruct (input_annot gs done c prev u HQ Hc (Hsub u (or_introl eq_refl)) Hside Hprev ds Eu) as (s0 & Hs1 & Hs2 & Hs3).
            exists (s0 :: ss). split; [constructor; auto|]. split; [constructor; auto|]. intros [E|Hin]; [left; apply Hs3; exact E | right; now apply H3]. }
        destruct (Hgen (prev :: rest) cands) as (ss & H1 & H2 & H3); auto.
        { intros u Hu. now rewrite Hins. }
        exact (broadcast_dims_data sigma S0 cands ss m H1 H2 (H3 (or_introl eq_refl)) Eb).
    Qed.

    Lemma refresh_chain_ok : forall chain prev gs done, chain_facts g (ac_src a) prev chain -> (forall c, In c chain -> In c (ac_chain a)) ->
      annot_ok gs done ->
      (forall ds, pg_shape gs (rn (ac_t1 a) (ac_src a) prev) = Some ds -> Forall2 (dim_ok sigma) ds S0) ->
      annot_ok (fold_left refresh (map (subst_node (ac_t1 a) (ac_src a)) chain) gs) (done ++ map out_of chain).
    Proof.
      induction chain as [|c r IH]; intros prev gs done Hcf Hsub HQ Hprev; simpl; [now rewrite app_nil_r|].
      destruct Hcf as (y & rest & Ho & Hcaps & Hins & Hside & Hobs & Hr).
      assert (Hoy : out_of c = y) by (unfold out_of; now rewrite Ho). rewrite Hoy.
      pose proof (refresh_member_ok gs done c prev y rest HQ (Hsub c (or_introl eq_refl)) Ho Hins Hside Hprev) as HQ1.
      replace (done ++ y :: map out_of r) with ((done ++ [y]) ++ map out_of r) by (rewrite <- app_assoc; reflexivity).
      apply (IH y); auto.
      - intros c0 H0. apply Hsub. now right.
      - intros ds Hds. destruct HQ1 as (_ & Q2 & _).
        assert (Hy : rn (ac_t1 a) (ac_src a) y = y).
        { unfold rn. destruct (Nat.eqb_spec y (ac_t1 a)) as [E|]; auto. exfalso. apply (t1_not_chain g a T1 T2 Haf). rewrite <- E.
          unfold chain_outs. apply in_map_iff. exists c. split; auto. apply Hsub. now left. }
        rewrite Hy in Hds. apply (Q2 y ds); auto. apply in_or_app. right. now left.
    Qed.

    Lemma apply_action_annot : annot_ok (apply_action g a) (chain_outs a).
    Proof.
      assert (Hbase : forall ns0 outs0, annot_ok (mkPG ns0 outs0 (pg_shape g) (pg_scalar g) (pg_crank g)) []).
      { intros. split; [|split; [|split]]; auto. intros y ds []. }
      assert (Hsrc : forall gs, pg_shape gs (ac_src a) = pg_shape g (ac_src a) ->
                forall ds, pg_shape gs (rn (ac_t1 a) (ac_src a) (ac_t1 a)) = Some ds -> Forall2 (dim_ok sigma) ds S0).
      { intros gs Hgs ds Hds. unfold rn in Hds. rewrite Nat.eqb_refl, Hgs in Hds. exact (Hsigma _ _ _ Hds Hxs). }
      unfold apply_action, chain_outs. destruct (ac_chain a) as [|c0 cr] eqn:Ech.
      - split; [|split; [|split]]; cbn [pg_shape pg_scalar pg_crank map]; auto. intros y ds [].
      - rewrite <- Ech.
        pose proof (refresh_chain_ok (ac_chain a) (ac_t1 a)
                      (mkPG (g_nodes (replace_all_uses (ac_t1 a) (ac_src a) (pg_graph g))) (g_outputs (replace_all_uses (ac_t1 a) (ac_src a) (pg_graph g)))
                            (pg_shape g) (pg_scalar g) (pg_crank g)) [] (af_chain _ _ _ _ Haf) (fun c H => H) (Hbase _ _) (Hsrc _ eq_refl)) as HQ.
        simpl in HQ. destruct HQ as (Q1 & Q2 & Q3 & Q4).
        split; [|split; [|split]]; cbn [pg_shape pg_scalar pg_crank]; auto.
    Qed.

    Theorem action_admissible : admissible (apply_action g a) e.
    Proof.
      destruct action_env as (ef' & Hev' & Hi). destruct apply_action_annot as (Q1 & Q2 & Q3 & Q4).
      assert (Hnodes : pg_nodes (apply_action g a) = nodes').
      { exact (f_equal g_nodes (apply_action_graph g a T1 T2 Hnd Haf)). }
      assert (Hplain : forall x w, ef' x = Some w -> ~ In x (chain_outs a) -> exists v, ef x = Some v /\ teq v w).
      { intros x w Hx Hnc. destruct (new_defined ef' x w Hev' Hi Hx) as (Hrho & v & Ev & Hr). exists v. split; auto.
        apply (rel_teq x); auto. apply inD_false. intros [E|Hc]; [|contradiction].
        subst x. rewrite (rho_t1 g a T1 T2 Haf) in Hrho. exact (src_ne_t1 g a T1 T2 Haf Hrho). }
      constructor.
      - rewrite Hnodes. apply ssa_sim; [reflexivity | exact (adm_ssa _ _ Hadm)].
      - exists sigma. intros ef2 x ds w Hev2 Hds Hx. rewrite Hnodes, Hev' in Hev2. injection Hev2 as <-.
        destruct (in_dec Nat.eq_dec x (chain_outs a)) as [Hc|Hc].
        + destruct (new_defined ef' x w Hev' Hi Hx) as (_ & v & Ev & Hr).
          assert (HxD : In x (dirty a ++ [ac_t2 a])) by (apply in_or_app; left; right; exact Hc).
          rewrite (rel_shape x v w HxD Hr). exact (Q2 x ds Hc Hds).
        + destruct (Hplain x w Hx Hc) as (v & Ev & Ht). rewrite (Q1 x Hc) in Hds. rewrite <- (proj1 Ht). exact (Hsigma _ _ _ Hds Ev).
      - intros ef2 x w Hev2 Hsc Hx. rewrite Hnodes, Hev' in Hev2. injection Hev2 as <-. rewrite Q3 in Hsc.
        destruct (new_defined ef' x w Hev' Hi Hx) as (_ & v & Ev & Hr).
        rewrite <- (flat_eq_all1 _ _ (rel_flat _ _ _ Hr)). exact (adm_scalar _ _ Hadm ef x v Hev Hsc Ev).
      - intros ef2 x r w Hev2 Hcr Hx. rewrite Hnodes, Hev' in Hev2. injection Hev2 as <-. rewrite Q4 in Hcr.
        assert (Hc : ~ In x (chain_outs a)).
        { intro Hc. unfold chain_outs in Hc. apply in_map_iff in Hc as (c & Ec & Hcin).
          destruct (chain_facts_in g _ _ _ c (af_chain _ _ _ _ Haf) Hcin) as (_ & y' & _ & _ & Ho & _).
          assert (y' = x) by (unfold out_of in Ec; rewrite Ho in Ec; auto). subst y'.
          destruct (af_chain_in _ _ _ _ Haf c Hcin) as [Hcn Hal].
          rewrite (adm_crank_elem _ _ Hadm c x Hcn Hal) in Hcr; [discriminate | rewrite Ho; now left]. }
        destruct (Hplain x w Hx Hc) as (v & Ev & Ht). rewrite <- (proj1 Ht). exact (adm_crank _ _ Hadm ef x r v Hev Hcr Ev).
      - intros n' y Hn' Hal Hy. rewrite Q4. rewrite Hnodes in Hn'. unfold nodes' in Hn'. apply in_map_iff in Hn' as (m & <- & Hm).
        apply filter_In in Hm as [Hm _]. exact (adm_crank_elem _ _ Hadm m y Hm Hal Hy).
    Qed.
  End Action.

  Lemma first_action_in g : forall ns a, (forall n, In n ns -> In n (pg_nodes g)) -> first_action g ns = Some a ->
    exists T1 T2, action_facts g a T1 T2.
  Proof.
    unfold first_action. induction ns as [|n r IH]; simpl; intros a Hsub H; [discriminate|].
    destruct (decide_gen true g n) as [b|] eqn:E.
    - injection H as <-. destruct (decide_facts g n b (Hsub n (or_introl eq_refl)) E) as [T1 HT]. eauto.
    - apply IH; auto.
  Qed.

  (* ONE rewrite of the pass is sound for every admissible annotated graph *)
  Theorem reshape_pair_action_sound g a T1 T2 e :
    admissible g e -> action_facts g a T1 T2 -> refinesg (pg_graph g) (pg_graph (apply_action g a)) e.
  Proof.
    intros Hadm Haf o Hrun. pose proof (adm_ssa _ _ Hadm) as Hssa.
    rewrite (apply_action_graph g a T1 T2 (proj1 Hssa) Haf).
    assert (Hev : exists ef, evalg (pg_nodes g) e = Some ef).
    { unfold run in Hrun. simpl in Hrun. destruct (evalg (pg_nodes g) e); [eauto|discriminate]. }
    destruct Hev as [ef Hev].
    destruct (eval_consistent V sem _ _ _ T1 Hssa Hev (af_T1_in _ _ _ _ Haf)) as (vs & oo & Hl & _ & _).
    destruct (af_T1_ins _ _ _ _ Haf) as [r Hins]. unfold n_uses in Hl. rewrite Hins in Hl. simpl in Hl.
    destruct (ef (ac_src a)) as [xs|] eqn:Hxs; [|discriminate].
    exact (action_run g a T1 T2 e ef xs Hadm Haf Hev Hxs o Hrun).
  Qed.

  Theorem reshape_pair_step_sound g g' e :
    admissible g e -> reshape_pair_step g = Some g' -> refinesg (pg_graph g) (pg_graph g') e.
  Proof.
    intros Hadm Hstep. unfold reshape_pair_step, reshape_pair_step_gen in Hstep. fold first_action in Hstep.
    destruct (first_action g (pg_nodes g)) as [a|] eqn:Efa; [|discriminate]. injection Hstep as <-.
    destruct (first_action_in g _ a (fun n H => H) Efa) as (T1 & T2 & Haf).
    eapply reshape_pair_action_sound; eauto.
  Qed.

  (* annotation truth (declared dims, one-element flags, payload ranks) carries over to the rewritten graph: the refreshed
     shapes of the chain are true for the new values, everything else is unchanged *)
  Theorem reshape_pair_step_admissible g g' e ef :
    admissible g e -> evalg (pg_nodes g) e = Some ef -> reshape_pair_step g = Some g' -> admissible g' e.
  Proof.
    intros Hadm Hev Hstep. unfold reshape_pair_step, reshape_pair_step_gen in Hstep. fold first_action in Hstep.
    destruct (first_action g (pg_nodes g)) as [a|] eqn:Efa; [|discriminate]. injection Hstep as <-.
    destruct (first_action_in g _ a (fun n H => H) Efa) as (T1 & T2 & Haf).
    pose proof (adm_ssa _ _ Hadm) as Hssa.
    destruct (eval_consistent V sem _ _ _ T1 Hssa Hev (af_T1_in _ _ _ _ Haf)) as (vs & oo & Hl & _ & _).
    destruct (af_T1_ins _ _ _ _ Haf) as [r Hins]. unfold n_uses in Hl. rewrite Hins in Hl. simpl in Hl.
    destruct (ef (ac_src a)) as [xs|] eqn:Hxs; [|discriminate].
    destruct (adm_shape _ _ Hadm) as [sigma Hsig].
    exact (action_admissible g a T1 T2 e ef xs Hadm Haf Hev Hxs sigma (fun x ds v H1 H2 => Hsig ef x ds v Hev H1 H2)).
  Qed.

  (* THE PASS, for every graph that is admissible WHEN THE PASS STARTS *)
  Theorem reshape_pair_pass_sound_start : forall fuel g e, admissible g e ->
    refinesg (pg_graph g) (pg_graph (reshape_pair_pass fuel g)) e.
  Proof.
    unfold reshape_pair_pass. induction fuel as [|k IH]; simpl; intros g e Hadm.
    - apply (refines_refl V teq (@teq_refl A) sem).
    - fold reshape_pair_step in *. destruct (reshape_pair_step g) as [g'|] eqn:Es; [|apply (refines_refl V teq (@teq_refl A) sem)].
      intros out Hrun.
      assert (Hev : exists ef, evalg (pg_nodes g) e = Some ef).
      { unfold run in Hrun. simpl in Hrun. destruct (evalg (pg_nodes g) e); [eauto|discriminate]. }
      destruct Hev as [ef Hev].
      pose proof (reshape_pair_step_admissible g g' e ef Hadm Hev Es) as Hadm'.
      revert out Hrun. eapply (refines_trans V teq (@teq_trans A) sem).
      + eapply reshape_pair_step_sound; eauto.
      + apply IH. exact Hadm'.
  Qed.

  (* every graph the while-changed loop passes through is admissible (SSA, true annotations: property C08) *)
  Fixpoint admissible_along (fuel : nat) (g : pgraph) (e : env V) : Prop :=
    admissible g e /\
    match fuel with
    | O => True
    | S k => match reshape_pair_step g with Some g' => admissible_along k g' e | None => True end
    end.

  Theorem reshape_pair_pass_sound : forall fuel g e, admissible_along fuel g e ->
    refinesg (pg_graph g) (pg_graph (reshape_pair_pass fuel g)) e.
  Proof.
    unfold reshape_pair_pass. induction fuel as [|k IH]; simpl; intros g e [Hadm Hrest].
    - apply (refines_refl V teq (@teq_refl A) sem).
    - fold reshape_pair_step in *. destruct (reshape_pair_step g) as [g'|] eqn:Es.
      + eapply (refines_trans V teq (@teq_trans A) sem).
        * eapply reshape_pair_step_sound; eauto.
        * apply IH. exact Hrest.
      + apply (refines_refl V teq (@teq_refl A) sem).
  Qed.
End Sound.

(* ---------------------------------------------------------------- non-vacuity and the rank defect *)
Definition ex_shape (n : name) : option (list dim) :=
  match n with 1 => Some [DInt 6] | 3 => Some [DInt 2; DInt 3] | 4 => Some [DInt 2; DInt 3] | 6 => Some [DInt 6]
             | 7 => Some [] | 8 => Some [DInt 1; DInt 1] | _ => None end.
Definition ex_scalar (n : name) : bool := match n with 7 => true | 8 => true | _ => false end.
(* x:[6] -Reshape-> [2,3] -Max(., c)-> -Reshape-> [6] -Relu-> out *)
Definition ex_graph (c : name) : pgraph :=
  mkPG [mkNode "Reshape" [] [1; 2] [] [3]; mkNode "Max" [] [3; c] [] [4]; mkNode "Reshape" [] [4; 5] [] [6]; mkNode "Relu" [] [6] [] [9]]
       [9] ex_shape ex_scalar (fun _ => None).

Example reshape_pair_folded :
  pg_nodes (reshape_pair_pass 5 (ex_graph 7)) = [mkNode "Max" [] [1; 7] [] [4]; mkNode "Relu" [] [4] [] [9]]
  /\ pg_shape (reshape_pair_pass 5 (ex_graph 7)) 4 = Some [DInt 6].
Proof. vm_compute. auto. Qed.

(* the repaired pass keeps the pair when the one-element constant c:[1,1] outranks src:[6] ... *)
Example reshape_pair_higher_rank_constant_kept :
  List.length (pg_nodes (reshape_pair_pass 5 (ex_graph 8))) = 4.
Proof. vm_compute. reflexivity. Qed.

(* ... HISTORY: before the repair (no rank test) the pass folded here as well, and the value that replaces the
   [6]-shaped Reshape output then has shape [1,6] (the model's own refreshed annotation says so; onnxruntime agreed:
   .scratch/c02p/defect_reshape_pair_rank.py) *)
Example reshape_pair_prerepair_rank_defect :
  pg_nodes (reshape_pair_pass_prerepair 5 (ex_graph 8)) = [mkNode "Max" [] [1; 8] [] [4]; mkNode "Relu" [] [4] [] [9]]
  /\ pg_shape (ex_graph 8) 6 = Some [DInt 6]
  /\ pg_shape (reshape_pair_pass_prerepair 5 (ex_graph 8)) 4 = Some [DInt 1; DInt 6].
Proof. vm_compute. auto. Qed.

Example observed_intermediate_kept :
  List.length (pg_nodes (reshape_pair_pass 5 (mkPG (pg_nodes (ex_graph 7)) [9; 4] ex_shape ex_scalar (fun _ => None)))) = 4.
Proof. vm_compute. reflexivity. Qed.
