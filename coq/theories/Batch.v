(* Batch: numpy broadcasting of index functions, the DEFINITION of vmap for a binary function
   (stack of per-example results), and a faithful Gallina image of
     jax2onnx/plugins/jax/_batching_utils.py : broadcast_batcher_compat + _handle_scalar_broadcasting
   (with jax.interpreters.batching.bdim_at_front / moveaxis / broadcast as they are called there).

   Main results
     batcher_correct_refuted  : the shared batcher of the unchanged tree is NOT vmap for an elementwise
                                primitive with numpy (rank-extending) broadcasting  (concrete witness)
     batcher_correct_partial  : it is, when every BATCHED operand has full per-example rank or a per-example
                                shape of ones (JAX's own lax primitives never leave that fragment)
     batcher_fixed_correct    : with the new axes inserted right AFTER the batch axis it is, for ALL shapes,
                                ranks and batch dims (no rank bound)
     batcher_nonelementwise_refuted : the hypothesis "the primitive is an elementwise map with numpy
                                broadcasting" cannot be dropped: a dot-product primitive registered with
                                this batcher is not vmapped correctly (by either version). *)
From Coq Require Import List Arith Lia Bool PeanoNat ZArith.
From J2O Require Import PyLib Tensor.
Import ListNotations.

Set Implicit Arguments.

(* ------------------------------------------------------------------ list helpers *)
Fixpoint map2 {A B C} (f : A -> B -> C) (l : list A) (m : list B) : list C :=
  match l, m with a :: l', b :: m' => f a b :: map2 f l' m' | _, _ => [] end.

Lemma map2_nil_r {A B C} (f : A -> B -> C) l : map2 f l [] = [].
Proof. destruct l; reflexivity. Qed.

Lemma map2_length {A B C} (f : A -> B -> C) : forall l m, length (map2 f l m) = Nat.min (length l) (length m).
Proof. induction l as [|a l IH]; intros [|b m]; simpl; auto. Qed.

Lemma map2_app {A B C} (f : A -> B -> C) : forall l1 m1 l2 m2, length l1 = length m1 ->
  map2 f (l1 ++ l2) (m1 ++ m2) = map2 f l1 m1 ++ map2 f l2 m2.
Proof.
  induction l1 as [|a l1 IH]; intros [|b m1] l2 m2 H; simpl in *; try discriminate; auto.
  f_equal. apply IH. lia.
Qed.

Lemma repeat_snoc {A} (a : A) n l : repeat a n ++ a :: l = a :: repeat a n ++ l.
Proof. induction n as [|n IH]; simpl; auto. now rewrite IH. Qed.

Lemma skipn_cons_nth {A} (d : A) : forall m l, m < length l -> skipn m l = nth m l d :: skipn (S m) l.
Proof.
  induction m as [|m IH]; intros [|a l] H; simpl in *; try lia; auto.
  apply IH. lia.
Qed.

(* ------------------------------------------------------------------ numpy broadcasting *)
(* shapes are aligned at the RIGHT; a missing or size-1 dimension is stretched *)
Definition lpad (n : nat) (s : list nat) : list nat := repeat 1 (n - length s) ++ s.
Definition bdim (a b : nat) : nat := if a =? 1 then b else a.
Definition bcast_shape (s t : list nat) : list nat :=
  let n := Nat.max (length s) (length t) in map2 bdim (lpad n s) (lpad n t).

(* np.broadcast_shapes raises unless this holds; the theorems below do not need it *)
Definition bcompat (s t : list nat) : Prop :=
  let n := Nat.max (length s) (length t) in
  Forall2 (fun a b => a = b \/ a = 1 \/ b = 1) (lpad n s) (lpad n t).

Fixpoint forallb2 {A B} (f : A -> B -> bool) (l : list A) (m : list B) : bool :=
  match l, m with a :: l', b :: m' => f a b && forallb2 f l' m' | [], [] => true | _, _ => false end.
Definition bcompatb (s t : list nat) : bool :=
  let n := Nat.max (length s) (length t) in
  forallb2 (fun a b => (a =? b) || (a =? 1) || (b =? 1)) (lpad n s) (lpad n t).

(* operand index for output index idx: drop the leading output axes the operand does not have,
   size-1 dims -> 0 *)
Definition sel (i d : nat) : nat := if d =? 1 then 0 else i.
Definition balign (s idx : list nat) : list nat := map2 sel (skipn (length idx - length s) idx) s.
Definition bcast_at {A} (x : tensor A) (idx : list nat) : A := at_ x (balign (shape x) idx).

(* elementwise binary op with numpy broadcasting *)
Definition tmap2b {A B C} (f : A -> B -> C) (x : tensor A) (y : tensor B) : tensor C :=
  mkT (bcast_shape (shape x) (shape y)) (fun idx => f (bcast_at x idx) (bcast_at y idx)).

Lemma sel_lt i d : i < d -> sel i d = i.
Proof. unfold sel. destruct (Nat.eqb_spec d 1); lia. Qed.

Lemma bdim_same a : bdim a a = a.
Proof. unfold bdim. destruct (Nat.eqb_spec a 1); auto. Qed.
Lemma bdim_1_r a : bdim a 1 = a.
Proof. unfold bdim. destruct (Nat.eqb_spec a 1); auto. Qed.
Lemma bdim_1_l a : bdim 1 a = a.
Proof. reflexivity. Qed.

Lemma lpad_length n s : length s <= n -> length (lpad n s) = n.
Proof. intro H. unfold lpad. rewrite app_length, repeat_length. lia. Qed.
Lemma lpad_full s : lpad (length s) s = s.
Proof. unfold lpad. now rewrite Nat.sub_diag. Qed.

Lemma map2_sel_in_range : forall s idx, in_range s idx -> map2 sel idx s = idx.
Proof.
  intros s idx H. induction H as [|i d idx s Hid H IH]; simpl; auto.
  now rewrite IH, sel_lt.
Qed.

Lemma map2_sel_ones : forall k l, length l = k -> map2 sel l (repeat 1 k) = repeat 0 k.
Proof. induction k as [|k IH]; intros [|a l] H; simpl in *; try discriminate; auto. f_equal. apply IH. lia. Qed.

Lemma map2_bdim_same : forall s, map2 bdim s s = s.
Proof. induction s as [|a s IH]; simpl; auto. now rewrite IH, bdim_same. Qed.
Lemma map2_bdim_ones_r : forall s, map2 bdim s (repeat 1 (length s)) = s.
Proof. induction s as [|a s IH]; simpl; auto. now rewrite IH, bdim_1_r. Qed.
Lemma map2_bdim_ones_l : forall s, map2 bdim (repeat 1 (length s)) s = s.
Proof. induction s as [|a s IH]; simpl; auto. now rewrite IH. Qed.

Lemma bcast_shape_same s : bcast_shape s s = s.
Proof. unfold bcast_shape. rewrite Nat.max_id, lpad_full. apply map2_bdim_same. Qed.
Lemma bcast_shape_nil_r s : bcast_shape s [] = s.
Proof.
  unfold bcast_shape. simpl. rewrite Nat.max_0_r, lpad_full. unfold lpad. simpl.
  rewrite Nat.sub_0_r, app_nil_r. apply map2_bdim_ones_r.
Qed.
Lemma bcast_shape_nil_l s : bcast_shape [] s = s.
Proof.
  unfold bcast_shape. simpl. rewrite lpad_full. unfold lpad. simpl.
  rewrite Nat.sub_0_r, app_nil_r. apply map2_bdim_ones_l.
Qed.

Lemma bcast_shape_length s t : length (bcast_shape s t) = Nat.max (length s) (length t).
Proof. unfold bcast_shape. rewrite map2_length, !lpad_length by lia. lia. Qed.

Lemma balign_full s idx : length idx = length s -> balign s idx = map2 sel idx s.
Proof. intro H. unfold balign. now rewrite H, Nat.sub_diag. Qed.
Lemma balign_in_range s idx : in_range s idx -> balign s idx = idx.
Proof. intro H. rewrite balign_full by (now apply in_range_length). now apply map2_sel_in_range. Qed.
Lemma balign_nil idx : balign [] idx = [].
Proof. unfold balign. apply map2_nil_r. Qed.
(* an output axis the operand does not have is ignored *)
Lemma balign_drop s b r : length s <= length r -> balign s (b :: r) = balign s r.
Proof.
  intro H. unfold balign. simpl length.
  replace (S (length r) - length s) with (S (length r - length s)) by lia. reflexivity.
Qed.
Lemma balign_cons_tl a s idx : S (length s) <= length idx -> tl (balign (a :: s) idx) = balign s idx.
Proof.
  intro H. unfold balign. simpl length.
  rewrite (skipn_cons_nth 0) by lia. cbn [map2 tl].
  replace (S (length idx - S (length s))) with (length idx - length s) by lia. reflexivity.
Qed.
Lemma balign_ones p idx : p <= length idx -> balign (repeat 1 p) idx = repeat 0 p.
Proof.
  intro H. unfold balign. rewrite repeat_length. apply map2_sel_ones. rewrite skipn_length. lia.
Qed.

(* ------------------------------------------------------------------ axes *)
Fixpoint insert_at {A} (d : nat) (a : A) (l : list A) : list A :=
  match d, l with
  | 0, _ => a :: l
  | S d', x :: r => x :: insert_at d' a r
  | S _, [] => [a]
  end.
Fixpoint remove_at {A} (d : nat) (l : list A) : list A :=
  match d, l with
  | _, [] => []
  | 0, _ :: r => r
  | S d', x :: r => x :: remove_at d' r
  end.

Lemma remove_at_length {A} : forall d (l : list A), d < length l -> length (remove_at d l) = length l - 1.
Proof.
  induction d as [|d IH]; intros [|a l] H; simpl in *; try lia.
  rewrite IH by lia. lia.
Qed.

Lemma in_range_insert : forall d s b r, d < length s ->
  in_range (nth d s 0 :: remove_at d s) (b :: r) -> in_range s (insert_at d b r).
Proof.
  induction d as [|d IH]; intros [|a s] b r Hd H; simpl in *; try lia.
  - exact H.
  - inversion H as [|? ? ? ? Hb Hr]; subst. inversion Hr as [|i ? r' ? Hi Hr']; subst.
    simpl. constructor; auto. apply IH; [lia|]. constructor; auto.
Qed.

(* x[..., b at axis d, ...]  : one example of a batch *)
Definition slice {A} (d : nat) (x : tensor A) (b : nat) : tensor A :=
  mkT (remove_at d (shape x)) (fun idx => at_ x (insert_at d b idx)).
(* batching.moveaxis(x, d, 0) *)
Definition front {A} (d : nat) (x : tensor A) : tensor A :=
  mkT (nth d (shape x) 0 :: remove_at d (shape x)) (fun idx => at_ x (insert_at d (hd 0 idx) (tl idx))).
(* batching.broadcast(x, 1, 0) *)
Definition bcast1 {A} (x : tensor A) : tensor A := mkT (1 :: shape x) (fun idx => at_ x (tl idx)).
(* jnp.stack([g 0, ..., g (B-1)]) *)
Definition stack0 {A} (B : nat) (g : nat -> tensor A) : tensor A :=
  mkT (B :: shape (g 0)) (fun idx => at_ (g (hd 0 idx)) (tl idx)).

(* lax.expand_dims(x, tuple(range(np.ndim(x), ndim))) : the new axes go to the END *)
Definition expand_end {A} (k : nat) (x : tensor A) : tensor A :=
  mkT (shape x ++ repeat 1 k) (fun idx => at_ x (firstn (rank x) idx)).
(* the repair: new axes right after the (front) batch axis = left-padding of the per-example shape *)
Definition expand_after_batch {A} (k : nat) (x : tensor A) : tensor A :=
  mkT (hd 0 (shape x) :: repeat 1 k ++ tl (shape x)) (fun idx => at_ x (hd 0 idx :: skipn (S k) idx)).

(* ------------------------------------------------------------------ the batcher *)
(* _handle_scalar_broadcasting(ndim, x, dim) *)
Definition handle_scalar_broadcasting {A} (ndim : nat) (x : tensor A) (d : option nat) : tensor A :=
  match d with
  | None => x
  | Some _ => if ndim =? rank x then x else expand_end (ndim - rank x) x
  end.
Definition handle_scalar_broadcasting_fixed {A} (ndim : nat) (x : tensor A) (d : option nat) : tensor A :=
  match d with
  | None => x
  | Some _ => if ndim =? rank x then x else expand_after_batch (ndim - rank x) x
  end.

(* batching.bdim_at_front(x, d, 1) *)
Definition bdim_at_front1 {A} (x : tensor A) (d : option nat) : tensor A :=
  match d with None => bcast1 x | Some d => front d x end.

Definition nat_list_eqb := list_eqb Nat.eqb.

(* `definitely_equal_shape(shape, x.shape) and d == dim`, only asked `if np.ndim(x)` *)
Definition agrees (sh : list nat) (dim : nat) (s : list nat) (d : option nat) : bool :=
  (length s =? 0) || (nat_list_eqb sh s && match d with Some d' => d' =? dim | None => false end).

Section Batcher.
  Variables A B C : Type.
  Variable hsb_x : nat -> tensor A -> option nat -> tensor A.
  Variable hsb_y : nat -> tensor B -> option nat -> tensor B.
  Variable prim : tensor A -> tensor B -> tensor C.       (* prim.bind *)

  (* next((x.shape, d) for x, d in zip(args, dims) if d is not NOT_MAPPED) *)
  Definition first_batched (x : tensor A) dx (y : tensor B) dy : option (list nat * nat) :=
    match dx, dy with
    | Some d, _ => Some (shape x, d)
    | None, Some d => Some (shape y, d)
    | None, None => None
    end.

  (* result and its batch dim; None = StopIteration (vmap never calls a batch rule with no mapped operand) *)
  Definition batcher_with (x : tensor A) (dx : option nat) (y : tensor B) (dy : option nat) : option (tensor C * nat) :=
    match first_batched x dx y dy with
    | None => None
    | Some (sh, dim) =>
        if agrees sh dim (shape x) dx && agrees sh dim (shape y) dy then Some (prim x y, dim)
        else
          let x1 := if rank x =? 0 then x else bdim_at_front1 x dx in
          let y1 := if rank y =? 0 then y else bdim_at_front1 y dy in
          let ndim := Nat.max (rank x1) (rank y1) in
          Some (prim (hsb_x ndim x1 dx) (hsb_y ndim y1 dy), 0)
    end.
End Batcher.

(* the unchanged tree *)
Definition batcher {A B C} := @batcher_with A B C (@handle_scalar_broadcasting A) (@handle_scalar_broadcasting B).
(* with the repaired _handle_scalar_broadcasting *)
Definition batcher_fixed {A B C} :=
  @batcher_with A B C (@handle_scalar_broadcasting_fixed A) (@handle_scalar_broadcasting_fixed B).

(* ------------------------------------------------------------------ the definition of vmap *)
Definition sel_ex {A} (x : tensor A) (d : option nat) (b : nat) : tensor A :=
  match d with Some d => slice d x b | None => x end.
Definition per_ex_shape {A} (x : tensor A) (d : option nat) : list nat :=
  match d with Some d => remove_at d (shape x) | None => shape x end.
Definition bsize {A B} (x : tensor A) dx (y : tensor B) dy : nat :=
  match dx, dy with
  | Some d, _ => nth d (shape x) 0
  | None, Some d => nth d (shape y) 0
  | None, None => 0
  end.
(* vmap(f, in_axes=(dx, dy), out_axes=0)(x, y) = stack over b of f(x[b], y[b]) *)
Definition vmap_spec {A B C} (f : tensor A -> tensor B -> tensor C) (x : tensor A) dx (y : tensor B) dy : tensor C :=
  stack0 (bsize x dx y dy) (fun b => f (sel_ex x dx b) (sel_ex y dy b)).

Definition wf_opd {A} (x : tensor A) (d : option nat) : Prop :=
  match d with Some d => d < rank x | None => True end.
(* what jax.vmap guarantees when it calls a batch rule *)
Definition batch_ok {A B} (x : tensor A) dx (y : tensor B) dy : Prop :=
  wf_opd x dx /\ wf_opd y dy /\ (dx <> None \/ dy <> None) /\
  (forall d e, dx = Some d -> dy = Some e -> nth d (shape x) 0 = nth e (shape y) 0).

(* THE HYPOTHESIS ON THE PRIMITIVE: an elementwise map with numpy broadcasting
   (true of jnp.add, jnp.maximum, ...; false of jnp.dot, jnp.matmul) *)
Definition elementwise {A B C} (prim : tensor A -> tensor B -> tensor C) (op : A -> B -> C) : Prop :=
  forall x y, teq (prim x y) (tmap2b op x y).

(* the statement, for a batch rule bt *)
Definition batcher_correct_for {A B C}
  (bt : (tensor A -> tensor B -> tensor C) -> tensor A -> option nat -> tensor B -> option nat -> option (tensor C * nat)) : Prop :=
  forall prim op x dx y dy, elementwise prim op -> batch_ok x dx y dy ->
  exists r od, bt prim x dx y dy = Some (r, od) /\ teq (front od r) (vmap_spec (tmap2b op) x dx y dy).

(* ================================================================== proofs *)
Lemma nat_list_eqb_eq : forall a b, nat_list_eqb a b = true -> a = b.
Proof.
  unfold nat_list_eqb. induction a as [|x r IH]; destruct b as [|y s]; cbn [list_eqb]; intro H;
    try reflexivity; try discriminate.
  apply andb_prop in H as [H1 H2]. apply Nat.eqb_eq in H1. apply IH in H2. congruence.
Qed.
Lemma nat_list_eqb_refl : forall a, nat_list_eqb a a = true.
Proof. unfold nat_list_eqb. induction a as [|x r IH]; cbn [list_eqb]; auto. now rewrite Nat.eqb_refl, IH. Qed.

Lemma firstn_repeat {A} (a : A) : forall p k, firstn p (repeat a (p + k)) = repeat a p.
Proof. induction p as [|p IH]; intro k; simpl; auto. now rewrite IH. Qed.

Lemma map2_sel_pad k sx r : length r = k + length sx ->
  map2 sel r (repeat 1 k ++ sx) = repeat 0 k ++ map2 sel (skipn k r) sx.
Proof.
  intro H. rewrite <- (firstn_skipn k r) at 1.
  rewrite map2_app by (rewrite firstn_length, repeat_length; lia).
  f_equal. apply map2_sel_ones. rewrite firstn_length. lia.
Qed.

Lemma shape_sel_ex {A} (x : tensor A) d b : shape (sel_ex x d b) = per_ex_shape x d.
Proof. destruct d; reflexivity. Qed.

Lemma front_teq {A} d (r r' : tensor A) : d < rank r -> teq r r' -> teq (front d r) (front d r').
Proof.
  intros Hd [Hs H]. unfold front, teq; simpl. split; [now rewrite Hs|].
  intros idx Hi. destruct idx as [|b r0]; [inversion Hi|]. simpl.
  apply H. now apply in_range_insert.
Qed.

(* the operand handed to prim.bind in the second branch *)
Definition pre_front {T} (x : tensor T) (d : option nat) : tensor T :=
  if rank x =? 0 then x else bdim_at_front1 x d.

Definition hd_dim (Bsz : nat) (d : option nat) : nat := match d with Some _ => Bsz | None => 1 end.

(* what a prepared operand p must satisfy: its (left-padded) shape is  [B or 1] ++ left-padded per-example
   shape, and broadcasting it against an output index (b :: r) reads the b-th example at r *)
Definition prep_ok {T} (n Bsz : nat) (x : tensor T) (d : option nat) (p : tensor T) : Prop :=
  lpad n (shape p) = hd_dim Bsz d :: lpad (n - 1) (per_ex_shape x d)
  /\ rank p <= n /\ (d <> None -> rank p = n)
  /\ forall b r, length r = n - 1 -> b < Bsz -> bcast_at p (b :: r) = bcast_at (sel_ex x d b) r.

Lemma len_pes {T} (x : tensor T) d : wf_opd x d ->
  length (per_ex_shape x d) = match d with Some _ => rank x - 1 | None => rank x end.
Proof. destruct d as [d|]; simpl; intro H; auto. now apply remove_at_length. Qed.

Lemma rank_pre_front {T} (x : tensor T) d : wf_opd x d ->
  rank (pre_front x d) = match d with Some _ => rank x | None => if rank x =? 0 then 0 else S (rank x) end.
Proof.
  unfold pre_front, rank. destruct d as [d|]; simpl; intro H.
  - destruct (Nat.eqb_spec (length (shape x)) 0) as [E|E]; [unfold rank in H; lia|].
    simpl. rewrite remove_at_length by exact H. unfold rank in H. lia.
  - destruct (Nat.eqb_spec (length (shape x)) 0) as [E|E]; auto.
Qed.

Lemma batched_ok {T} n Bsz (x : tensor T) d0 (p : tensor T) k sx :
  d0 < rank x -> nth d0 (shape x) 0 = Bsz -> sx = remove_at d0 (shape x) ->
  n = S (k + length sx) ->
  shape p = Bsz :: repeat 1 k ++ sx ->
  (forall j0 r, length r = k + length sx ->
     at_ p (j0 :: map2 sel r (repeat 1 k ++ sx)) = at_ x (insert_at d0 j0 (map2 sel (skipn k r) sx))) ->
  prep_ok n Bsz x (Some d0) p.
Proof.
  intros Hd HB Hsx Hn Hsh Hat. unfold prep_ok. simpl per_ex_shape. simpl hd_dim. rewrite <- Hsx.
  assert (Hlen : length (shape p) = n).
  { rewrite Hsh. simpl. rewrite app_length, repeat_length. lia. }
  repeat split.
  - unfold lpad at 1. rewrite Hlen, Nat.sub_diag. simpl. rewrite Hsh. f_equal.
    unfold lpad. f_equal. f_equal. lia.
  - unfold rank. lia.
  - intros _. exact Hlen.
  - intros b r Hr Hb. unfold bcast_at. rewrite Hsh.
    rewrite balign_full by (simpl; rewrite app_length, repeat_length; lia).
    cbn [map2]. rewrite Hat by lia. rewrite sel_lt by exact Hb.
    simpl. rewrite <- Hsx. unfold balign.
    replace (length r - length sx) with k by lia. reflexivity.
Qed.

Lemma unbatched_ok {T} n Bsz (x : tensor T) : rank (pre_front x None) <= n -> 1 <= n ->
  prep_ok n Bsz x None (pre_front x None).
Proof.
  intros Hn H1. unfold prep_ok, pre_front in *. simpl per_ex_shape. simpl hd_dim. simpl sel_ex.
  destruct (Nat.eqb_spec (rank x) 0) as [E|E].
  - unfold rank in E. apply length_zero_iff_nil in E. repeat split.
    + rewrite E. unfold lpad. simpl. rewrite !app_nil_r, !Nat.sub_0_r.
      destruct n as [|n]; [lia|]. simpl. now rewrite Nat.sub_0_r.
    + exact Hn.
    + intro H. now contradiction H.
    + intros b r _ _. unfold bcast_at. rewrite E. now rewrite !balign_nil.
  - simpl in Hn. unfold rank in *. simpl in Hn. repeat split.
    + simpl. unfold lpad. simpl length. rewrite repeat_snoc. f_equal. f_equal. f_equal. lia.
    + simpl. lia.
    + intro H. now contradiction H.
    + intros b r Hr _. unfold bcast_at. simpl.
      rewrite balign_cons_tl by (simpl; lia). now rewrite balign_drop by lia.
Qed.

(* the repaired helper prepares every operand correctly, whatever its rank *)
Lemma prep_fixed_ok {T} n Bsz (x : tensor T) d : wf_opd x d ->
  (forall d0, d = Some d0 -> nth d0 (shape x) 0 = Bsz) -> rank (pre_front x d) <= n -> 1 <= n ->
  prep_ok n Bsz x d (handle_scalar_broadcasting_fixed n (pre_front x d) d).
Proof.
  intros Hwf HB Hn H1. destruct d as [d0|]; [|now apply unbatched_ok].
  simpl in Hwf. pose proof (rank_pre_front x (Some d0) Hwf) as Hr. simpl in Hr.
  unfold handle_scalar_broadcasting_fixed.
  assert (Hpf : pre_front x (Some d0) = front d0 x).
  { unfold pre_front. destruct (Nat.eqb_spec (rank x) 0); [lia|reflexivity]. }
  assert (Hl : length (remove_at d0 (shape x)) = rank x - 1) by (now apply remove_at_length).
  assert (HB' : nth d0 (shape x) 0 = Bsz) by (now apply HB).
  destruct (Nat.eqb_spec n (rank (pre_front x (Some d0)))) as [E|E]; rewrite Hpf in *.
  - apply batched_ok with (k := 0) (sx := remove_at d0 (shape x)); auto; try lia; simpl; now rewrite HB'.
  - apply batched_ok with (k := n - rank (front d0 x)) (sx := remove_at d0 (shape x)); auto.
    + lia.
    + simpl. now rewrite HB'.
    + intros j0 r Hlr. cbn [expand_after_batch front at_ hd tl skipn].
      rewrite map2_sel_pad by exact Hlr.
      rewrite skipn_app, repeat_length, Nat.sub_diag, skipn_all2 by (rewrite repeat_length; lia).
      reflexivity.
Qed.

(* the unchanged helper: correct exactly on operands of full rank or with a per-example shape of ones *)
Definition full_or_unit {T} (n1 : nat) (x : tensor T) (d : option nat) : Prop :=
  match d with
  | Some _ => length (per_ex_shape x d) = n1 \/ per_ex_shape x d = repeat 1 (length (per_ex_shape x d))
  | None => True
  end.

Lemma prep_cur_ok {T} n Bsz (x : tensor T) d : wf_opd x d ->
  (forall d0, d = Some d0 -> nth d0 (shape x) 0 = Bsz) -> rank (pre_front x d) <= n -> 1 <= n ->
  full_or_unit (n - 1) x d ->
  prep_ok n Bsz x d (handle_scalar_broadcasting n (pre_front x d) d).
Proof.
  intros Hwf HB Hn H1 Hfu. destruct d as [d0|]; [|now apply unbatched_ok].
  simpl in Hwf. pose proof (rank_pre_front x (Some d0) Hwf) as Hr. simpl in Hr.
  unfold handle_scalar_broadcasting.
  assert (Hpf : pre_front x (Some d0) = front d0 x).
  { unfold pre_front. destruct (Nat.eqb_spec (rank x) 0); [lia|reflexivity]. }
  assert (Hl : length (remove_at d0 (shape x)) = rank x - 1) by (now apply remove_at_length).
  assert (HB' : nth d0 (shape x) 0 = Bsz) by (now apply HB).
  destruct (Nat.eqb_spec n (rank (pre_front x (Some d0)))) as [E|E]; rewrite Hpf in *.
  - apply batched_ok with (k := 0) (sx := remove_at d0 (shape x)); auto; try lia; simpl; now rewrite HB'.
  - simpl in Hfu. destruct Hfu as [Hfull|Hones]; [lia|].
    remember (remove_at d0 (shape x)) as sx eqn:Hsx.
    remember (length sx) as p eqn:Hp.
    apply batched_ok with (k := n - rank (front d0 x)) (sx := sx); auto; try lia.
    + simpl. rewrite HB'. f_equal. rewrite <- Hsx. rewrite Hones, <- !repeat_app. f_equal. lia.
    + intros j0 r Hlr. simpl. unfold rank. simpl. rewrite <- Hsx.
      rewrite <- Hp in *. rewrite Hones. rewrite <- repeat_app.
      rewrite map2_sel_ones by lia.
      rewrite (Nat.add_comm _ p), firstn_repeat.
      rewrite map2_sel_ones by (rewrite skipn_length; lia). reflexivity.
Qed.

Lemma in_range_cons_inv a s b r : in_range (a :: s) (b :: r) -> b < a /\ in_range s r.
Proof. intro H. inversion H; subst. auto. Qed.

(* ------------------------------------------------------------------ second branch: combine two prepared operands *)
Lemma combine_ok {A B C} (op : A -> B -> C) n Bsz (x : tensor A) dx px (y : tensor B) dy py :
  1 <= n -> n - 1 = Nat.max (length (per_ex_shape x dx)) (length (per_ex_shape y dy)) ->
  (dx <> None \/ dy <> None) -> Bsz = bsize x dx y dy ->
  prep_ok n Bsz x dx px -> prep_ok n Bsz y dy py ->
  teq (front 0 (tmap2b op px py)) (vmap_spec (tmap2b op) x dx y dy).
Proof.
  intros H1 Hmax Hsome HB (Hsx & Hrx & Hfx & Hvx) (Hsy & Hry & Hfy & Hvy).
  assert (Hn : Nat.max (rank px) (rank py) = n).
  { destruct Hsome as [H|H]; [specialize (Hfx H)|specialize (Hfy H)]; lia. }
  assert (Hhd : bdim (hd_dim Bsz dx) (hd_dim Bsz dy) = Bsz).
  { destruct dx, dy; simpl; try apply bdim_same; try apply bdim_1_r; auto.
    destruct Hsome as [H|H]; now contradiction H. }
  assert (Hshape : shape (tmap2b op px py) =
                   Bsz :: bcast_shape (per_ex_shape x dx) (per_ex_shape y dy)).
  { simpl. unfold bcast_shape. fold (rank px) (rank py). rewrite Hn, Hsx, Hsy. cbn [map2].
    rewrite Hhd, <- Hmax. reflexivity. }
  unfold teq. cbn [front shape at_]. rewrite Hshape. cbn [nth remove_at].
  split.
  - unfold vmap_spec, stack0. cbn [shape tmap2b]. rewrite !shape_sel_ex, <- HB. reflexivity.
  - intros idx Hi. destruct idx as [|b r]; [inversion Hi|].
    apply in_range_cons_inv in Hi as [Hb Hr].
    assert (Hlr : length r = n - 1).
    { apply in_range_length in Hr. rewrite Hr. unfold bcast_shape. rewrite map2_length.
      rewrite !lpad_length by lia. lia. }
    cbn [hd tl insert_at]. unfold vmap_spec, stack0. cbn [tmap2b at_ hd tl].
    now rewrite Hvx, Hvy.
Qed.

(* ------------------------------------------------------------------ first branch: agreeing batch dims and scalars *)
Definition agree_opd {T} (s : list nat) (dim : nat) (x : tensor T) (d : option nat) : Prop :=
  (shape x = s /\ d = Some dim) \/ (shape x = [] /\ d = None).

Lemma agrees_spec {T} sh dim (x : tensor T) d : wf_opd x d ->
  agrees sh dim (shape x) d = true -> agree_opd sh dim x d.
Proof.
  intros Hwf H. unfold agrees in H. apply orb_prop in H as [H|H].
  - right. apply Nat.eqb_eq in H. split; [now apply length_zero_iff_nil|].
    destruct d as [d|]; auto. simpl in Hwf. unfold rank in Hwf. lia.
  - left. apply andb_prop in H as [H1 H2]. apply nat_list_eqb_eq in H1.
    destruct d as [d|]; [|discriminate]. apply Nat.eqb_eq in H2. subst. auto.
Qed.

Lemma agree_value {T} s dim (x : tensor T) d b r : dim < length s -> agree_opd s dim x d ->
  in_range (nth dim s 0 :: remove_at dim s) (b :: r) ->
  bcast_at x (insert_at dim b r) = bcast_at (sel_ex x d b) r.
Proof.
  intros Hd [[Hs ->]|[Hs ->]] Hi; unfold bcast_at; simpl.
  - rewrite Hs. rewrite balign_in_range by (now apply in_range_insert).
    rewrite balign_in_range; [reflexivity|]. now inversion Hi.
  - rewrite Hs. now rewrite !balign_nil.
Qed.

Lemma agree_ok {A B C} (op : A -> B -> C) s dim (x : tensor A) dx (y : tensor B) dy :
  dim < length s -> agree_opd s dim x dx -> agree_opd s dim y dy -> (dx <> None \/ dy <> None) ->
  teq (front dim (tmap2b op x y)) (vmap_spec (tmap2b op) x dx y dy).
Proof.
  intros Hd Hx Hy Hsome.
  assert (Hshape : shape (tmap2b op x y) = s /\
                   bcast_shape (per_ex_shape x dx) (per_ex_shape y dy) = remove_at dim s /\
                   bsize x dx y dy = nth dim s 0).
  { destruct Hx as [[Hsx ->]|[Hsx ->]], Hy as [[Hsy ->]|[Hsy ->]]; simpl; rewrite ?Hsx, ?Hsy.
    - now rewrite !bcast_shape_same.
    - now rewrite !bcast_shape_nil_r.
    - now rewrite !bcast_shape_nil_l.
    - destruct Hsome as [H|H]; now contradiction H. }
  destruct Hshape as (Hs1 & Hs2 & Hs3).
  unfold teq. cbn [front shape at_]. rewrite Hs1. split.
  - unfold vmap_spec, stack0. cbn [shape tmap2b]. now rewrite !shape_sel_ex, Hs2, Hs3.
  - intros idx Hi. destruct idx as [|b r]; [inversion Hi|].
    cbn [hd tl]. unfold vmap_spec, stack0. cbn [tmap2b at_ hd tl].
    now rewrite (agree_value Hd Hx Hi), (agree_value Hd Hy Hi).
Qed.

(* ------------------------------------------------------------------ the batcher, for any operand-preparation helper *)
Section Generic.
  Variable hsb : forall T, nat -> tensor T -> option nat -> tensor T.
  Variable P : forall T, nat -> tensor T -> option nat -> Prop.
  Hypothesis hsb_ok : forall T n Bsz (x : tensor T) d, wf_opd x d ->
    (forall d0, d = Some d0 -> nth d0 (shape x) 0 = Bsz) -> rank (pre_front x d) <= n -> 1 <= n ->
    P (n - 1) x d -> prep_ok n Bsz x d (hsb n (pre_front x d) d).

  Theorem batcher_with_correct {A B C} (prim : tensor A -> tensor B -> tensor C) op x dx y dy :
    elementwise prim op -> batch_ok x dx y dy ->
    (let n1 := Nat.max (length (per_ex_shape x dx)) (length (per_ex_shape y dy)) in P n1 x dx /\ P n1 y dy) ->
    exists r od, batcher_with (@hsb A) (@hsb B) prim x dx y dy = Some (r, od) /\
                 teq (front od r) (vmap_spec (tmap2b op) x dx y dy).
  Proof.
    intros Hel (Hwx & Hwy & Hsome & Hsz) [HPx HPy].
    unfold batcher_with.
    destruct (first_batched x dx y dy) as [[sh dim]|] eqn:Hfb.
    2:{ exfalso. unfold first_batched in Hfb. destruct dx, dy; try discriminate. destruct Hsome as [H|H]; now apply H. }
    destruct (agrees sh dim (shape x) dx && agrees sh dim (shape y) dy) eqn:Hag.
    - (* just call the primitive *)
      apply andb_prop in Hag as [Hax Hay].
      apply agrees_spec in Hax; auto. apply agrees_spec in Hay; auto.
      assert (Hdim : dim < length sh).
      { unfold first_batched in Hfb. destruct dx as [d|]; [|destruct dy as [e|]]; try discriminate;
          injection Hfb as <- <-; [exact Hwx | exact Hwy]. }
      exists (prim x y), dim. split; [reflexivity|].
      pose proof (agree_ok op Hdim Hax Hay Hsome) as Hok.
      eapply teq_trans; [|exact Hok].
      apply front_teq; [|apply Hel].
      destruct (Hel x y) as [Hs _]. unfold rank. rewrite Hs.
      destruct Hok as [Hs' _]. cbn [front shape] in Hs'.
      (* rank of the elementwise result = |sh| *)
      assert (E : shape (tmap2b op x y) = sh).
      { destruct Hax as [[Hsx ->]|[Hsx ->]], Hay as [[Hsy ->]|[Hsy ->]]; simpl; rewrite ?Hsx, ?Hsy.
        - apply bcast_shape_same. - apply bcast_shape_nil_r. - apply bcast_shape_nil_l.
        - destruct Hsome as [H|H]; now contradiction H. }
      now rewrite E.
    - (* move batch dims to the front, pad ranks, call the primitive *)
      fold (pre_front x dx) (pre_front y dy).
      set (n := Nat.max (rank (pre_front x dx)) (rank (pre_front y dy))).
      set (Bsz := bsize x dx y dy).
      pose proof (rank_pre_front x dx Hwx) as Hrx. pose proof (rank_pre_front y dy Hwy) as Hry.
      pose proof (len_pes x dx Hwx) as Hlx. pose proof (len_pes y dy Hwy) as Hly.
      assert (H1 : 1 <= n /\ n - 1 = Nat.max (length (per_ex_shape x dx)) (length (per_ex_shape y dy))).
      { unfold n. rewrite Hrx, Hry, Hlx, Hly. clear -Hwx Hwy Hsome.
        destruct dx as [d|], dy as [e|]; simpl in *;
          try (destruct (Nat.eqb_spec (rank x) 0)); try (destruct (Nat.eqb_spec (rank y) 0)); try lia.
        destruct Hsome as [H|H]; now contradiction H. }
      destruct H1 as [H1 Hmax].
      assert (HBx : forall d0, dx = Some d0 -> nth d0 (shape x) 0 = Bsz).
      { intros d0 ->. reflexivity. }
      assert (HBy : forall d0, dy = Some d0 -> nth d0 (shape y) 0 = Bsz).
      { intros d0 ->. unfold Bsz, bsize. destruct dx as [d|]; auto. symmetry. now apply Hsz. }
      assert (Hpx : prep_ok n Bsz x dx (hsb n (pre_front x dx) dx)).
      { apply hsb_ok; auto; [unfold n; lia|]. rewrite Hmax. exact HPx. }
      assert (Hpy : prep_ok n Bsz y dy (hsb n (pre_front y dy) dy)).
      { apply hsb_ok; auto; [unfold n; lia|]. rewrite Hmax. exact HPy. }
      eexists _, 0. split; [reflexivity|].
      pose proof (combine_ok op H1 Hmax Hsome eq_refl Hpx Hpy) as Hok.
      eapply teq_trans; [|exact Hok].
      apply front_teq; [|apply Hel].
      destruct (Hel (hsb n (pre_front x dx) dx) (hsb n (pre_front y dy) dy)) as [Hs _].
      unfold rank. rewrite Hs.
      cbn [tmap2b shape]. rewrite bcast_shape_length.
      destruct Hpx as (_ & _ & Hfx & _), Hpy as (_ & _ & Hfy & _). unfold rank in Hfx, Hfy.
      destruct Hsome as [H|H]; [specialize (Hfx H)|specialize (Hfy H)]; lia.
  Qed.
End Generic.

(* ================================================================== the three results *)
(* (fixed) for ALL shapes, ranks and batch dims *)
Theorem batcher_fixed_correct {A B C} : batcher_correct_for (@batcher_fixed A B C).
Proof.
  intros prim op x dx y dy Hel Hok.
  apply (@batcher_with_correct (@handle_scalar_broadcasting_fixed) (fun _ _ _ _ => True)); auto.
  intros T n Bsz x0 d Hwf HB Hn H1 _. now apply prep_fixed_ok.
Qed.

(* (unchanged tree) exactly the fragment on which appending the axes at the end is harmless: every BATCHED
   operand has the full per-example rank, or a per-example shape of ones (e.g. a scalar per example);
   unbatched operands may have any rank *)
Definition ranks_uniform_or_unit {A B} (x : tensor A) dx (y : tensor B) dy : Prop :=
  let n1 := Nat.max (length (per_ex_shape x dx)) (length (per_ex_shape y dy)) in
  full_or_unit n1 x dx /\ full_or_unit n1 y dy.

Theorem batcher_correct_partial {A B C} (prim : tensor A -> tensor B -> tensor C) op x dx y dy :
  elementwise prim op -> batch_ok x dx y dy -> ranks_uniform_or_unit x dx y dy ->
  exists r od, batcher prim x dx y dy = Some (r, od) /\ teq (front od r) (vmap_spec (tmap2b op) x dx y dy).
Proof.
  intros Hel Hok Hp.
  apply (@batcher_with_correct (@handle_scalar_broadcasting) (@full_or_unit)); auto.
  intros T n Bsz x0 d Hwf HB Hn H1 Hfu. now apply prep_cur_ok.
Qed.

(* ------------------------------------------------------------------ concrete integer tensors *)
Fixpoint all_idx (s : list nat) : list (list nat) :=
  match s with [] => [[]] | d :: r => flat_map (fun i => map (cons i) (all_idx r)) (seq 0 d) end.
Definition flat {A} (t : tensor A) : list A := map (at_ t) (all_idx (shape t)).
Fixpoint ravel_aux (acc : nat) (s idx : list nat) : nat :=
  match s, idx with d :: s', i :: idx' => ravel_aux (acc * d + i) s' idx' | _, _ => acc end.
Definition of_flat (s : list nat) (data : list Z) : tensor Z := mkT s (fun idx => nth (ravel_aux 0 s idx) data 0%Z).

Lemma all_idx_complete : forall s idx, in_range s idx -> In idx (all_idx s).
Proof.
  intros s idx H. induction H as [|i d idx s Hid H IH]; simpl; [now left|].
  apply in_flat_map. exists i. split; [apply in_seq; lia|]. now apply in_map.
Qed.

Definition teqb (x y : tensor Z) : bool :=
  nat_list_eqb (shape x) (shape y) && forallb (fun idx => Z.eqb (at_ x idx) (at_ y idx)) (all_idx (shape x)).
Lemma teqb_sound x y : teqb x y = true -> teq x y.
Proof.
  unfold teqb. intro H. apply andb_prop in H as [H1 H2]. apply nat_list_eqb_eq in H1. split; auto.
  intros idx Hi. rewrite forallb_forall in H2. apply Z.eqb_eq. apply H2. now apply all_idx_complete.
Qed.

(* witness (1):  vmap(lambda xi: jnp.add(xi, y))(x),  x : [3,3] batched on axis 0,  y : [3,3] unbatched *)
Definition wx : tensor Z := mkT [3; 3] (fun idx => Z.of_nat (10 * nth 0 idx 0 + nth 1 idx 0)).
Definition wy : tensor Z := mkT [3; 3] (fun idx => Z.of_nat (1000 * nth 0 idx 0 + 100 * nth 1 idx 0)).

Lemma elementwise_tmap2b {A B C} (op : A -> B -> C) : elementwise (tmap2b op) op.
Proof. intros x y. apply teq_refl. Qed.

Lemma wxy_batch_ok : batch_ok wx (Some 0) wy None.
Proof. unfold batch_ok, wf_opd, rank. simpl. repeat split; try lia; [left; discriminate | intros d e _ H; discriminate]. Qed.

(* the unchanged batcher computes x[b,i] + y[i,j] where vmap is x[b,j] + y[i,j] *)
Theorem batcher_correct_refuted :
  exists (op : Z -> Z -> Z) x dx y dy, batch_ok x dx y dy /\
    exists r od, batcher (tmap2b op) x dx y dy = Some (r, od) /\
                 ~ teq (front od r) (vmap_spec (tmap2b op) x dx y dy).
Proof.
  exists Z.add, wx, (Some 0), wy, None. split; [exact wxy_batch_ok|].
  eexists _, 0. split; [reflexivity|].
  intros [_ H]. specialize (H [0; 1; 0]).
  assert (Hr : in_range (shape (front 0 (tmap2b Z.add
            (handle_scalar_broadcasting 3 (pre_front wx (Some 0)) (Some 0))
            (handle_scalar_broadcasting 3 (pre_front wy None) None)))) [0; 1; 0]).
  { vm_compute. repeat constructor. }
  specialize (H Hr). vm_compute in H. discriminate.
Qed.

Corollary batcher_not_correct : ~ batcher_correct_for (@batcher Z Z Z).
Proof.
  intro H. destruct batcher_correct_refuted as (op & x & dx & y & dy & Hok & r & od & Hb & Hn).
  destruct (H (tmap2b op) op x dx y dy (elementwise_tmap2b op) Hok) as (r' & od' & Hb' & Ht).
  rewrite Hb in Hb'. injection Hb' as <- <-. contradiction.
Qed.

(* the witness violates the partial theorem's hypothesis, and the repaired batcher is right on it *)
Example witness_outside_fragment : ~ ranks_uniform_or_unit wx (Some 0) wy None.
Proof. intros [[H|H] _]; vm_compute in H; discriminate. Qed.
Example witness_fixed_ok :
  match batcher_fixed (tmap2b Z.add) wx (Some 0) wy None with
  | Some (r, od) => teqb (front od r) (vmap_spec (tmap2b Z.add) wx (Some 0) wy None)
  | None => false
  end = true.
Proof. vm_compute. reflexivity. Qed.
(* non-vacuity of the partial theorem: a batched scalar-per-example operand against an unbatched matrix *)
Example fragment_inhabited :
  let xs := mkT [3] (fun idx => Z.of_nat (nth 0 idx 0)) in
  batch_ok xs (Some 0) wy None /\ ranks_uniform_or_unit xs (Some 0) wy None.
Proof. split; [unfold batch_ok, wf_opd, rank; simpl; repeat split; try lia; [left; discriminate | intros d e _ H; discriminate]|].
  split; simpl; auto. Qed.

(* ------------------------------------------------------------------ the hypothesis `elementwise` is needed *)
(* jnp.dot on two matrices / two vectors (all the model needs to show the point) *)
Definition zsum (l : list Z) : Z := fold_left Z.add l 0%Z.
Definition dotZ (x y : tensor Z) : tensor Z :=
  match shape x, shape y with
  | [n; k], [_; m] => mkT [n; m] (fun idx => let i := nth 0 idx 0 in let l := nth 1 idx 0 in
                                           zsum (map (fun j => Z.mul (at_ x [i; j]) (at_ y [j; l])) (seq 0 k)))
  | [k], [_] => mkT [] (fun _ => zsum (map (fun j => Z.mul (at_ x [j]) (at_ y [j])) (seq 0 k)))
  | _, _ => mkT [] (fun _ => 0%Z)
  end.

(* vmap(jnp.dot)(A[3,3], B[3,3]) is the vector of row-wise inner products (shape [3]); both versions of the
   shared batcher just call the primitive on the matrices (shape [3,3]) *)
Theorem batcher_nonelementwise_refuted :
  batch_ok wx (Some 0) wy (Some 0) /\
  shape (vmap_spec dotZ wx (Some 0) wy (Some 0)) = [3] /\
  (exists r, batcher dotZ wx (Some 0) wy (Some 0) = Some (r, 0) /\ shape (front 0 r) = [3; 3]) /\
  (exists r, batcher_fixed dotZ wx (Some 0) wy (Some 0) = Some (r, 0) /\ shape (front 0 r) = [3; 3]).
Proof.
  split; [unfold batch_ok, wf_opd, rank; simpl; repeat split; try lia; [left; discriminate | intros d e H1 H2; now inversion H1; inversion H2]|].
  split; [reflexivity|]. split; eexists; split; reflexivity.
Qed.

(* ================================================================== REDUCTION-type batch rules *)
(* An axis-parameterised primitive (softmax, standardize, ...): every output element is a function k of the FIBER of
   the operand along the given axes (extents, fiber as an index function, position inside the fiber).
   Images  jax2onnx/plugins/jax/nn/standardize.py : _standardize_batch_rule  (move the batch axis to the front, shift the
   canonical axes past it, bind the primitive on the batched array)  and  nn/softmax.py : _softmax_batch_rule  (move to
   front, canonicalise the axis against the PER-EXAMPLE rank, jax.vmap the original over axis 0). *)
Fixpoint set_nth {A} (n : nat) (a : A) (l : list A) : list A :=
  match n, l with
  | _, [] => []
  | 0, _ :: r => a :: r
  | S n', x :: r => x :: set_nth n' a r
  end.
(* idx with the coordinates at `axes` replaced by `sub` *)
Fixpoint scatter (idx axes sub : list nat) : list nat :=
  match axes, sub with a :: ar, v :: vr => scatter (set_nth a v idx) ar vr | _, _ => idx end.

Definition kernel (A : Type) := list nat -> (list nat -> A) -> list nat -> A.
Definition fiberop {A} (k : kernel A) (axes : list nat) (x : tensor A) : tensor A :=
  mkT (shape x) (fun idx => k (gather 0 axes (shape x)) (fun sub => at_ x (scatter idx axes sub)) (gather 0 axes idx)).
(* the only hypothesis on the primitive: the kernel looks at the fiber through its values *)
Definition kernel_ext {A} (k : kernel A) : Prop :=
  forall e f g p, (forall sub, f sub = g sub) -> k e f p = k e g p.

(* Python axis canonicalisation  a if a >= 0 else a + rank *)
Definition canon (r : nat) (a : Z) : nat := Z.to_nat (if (a <? 0)%Z then (a + Z.of_nat r)%Z else a).
Definition axis_valid (r : nat) (a : Z) : Prop := (- Z.of_nat r <= a < Z.of_nat r)%Z.
(* what the USER wrote: prim(x, axis=axes) on the unbatched operand *)
Definition prim_axes {A} (k : kernel A) (axes : list Z) (x : tensor A) : tensor A :=
  fiberop k (map (canon (rank x)) axes) x.

(* vmap(f, in_axes=d, out_axes=0)(x) *)
Definition vmap_spec1 {A} (f : tensor A -> tensor A) (x : tensor A) (d : nat) : tensor A :=
  stack0 (nth d (shape x) 0) (fun b => f (slice d x b)).

Lemma scatter_shift : forall axes sub b r, scatter (b :: r) (map S axes) sub = b :: scatter r axes sub.
Proof. induction axes as [|a ar IH]; intros [|v vr] b r; simpl; auto. Qed.
Lemma gather_shift {T} (dflt : T) axes b r : gather dflt (map S axes) (b :: r) = gather dflt axes r.
Proof. unfold gather. rewrite map_map. reflexivity. Qed.

(* binding the primitive on the batched array with the axes shifted past a FRONT batch axis = per-example application *)
Lemma fiberop_shift {A} (k : kernel A) axes (x' : tensor A) Bsz s (g : nat -> tensor A) :
  kernel_ext k -> shape x' = Bsz :: s ->
  (forall b, shape (g b) = s) -> (forall b idx, at_ (g b) idx = at_ x' (b :: idx)) ->
  teq (fiberop k (map S axes) x') (stack0 Bsz (fun b => fiberop k axes (g b))).
Proof.
  intros Hk Hs Hgs Hga. unfold teq. cbn [fiberop stack0 shape at_]. rewrite Hs, Hgs. split; [reflexivity|].
  intros idx Hi. destruct idx as [|b r]; [inversion Hi|]. cbn [hd tl].
  rewrite !gather_shift, Hgs. apply Hk. intro sub. now rewrite scatter_shift, Hga.
Qed.

(* ---- standardize-style rule (current code, commit 910bb71) *)
Definition reduce_rule {A} (k : kernel A) (axes : list Z) (x : tensor A) (d : nat) : tensor A * nat :=
  let x' := front d x in
  (fiberop k (map (fun a => S (canon (rank x' - 1) a)) axes) x', 0).

Theorem reduce_rule_correct {A} (k : kernel A) axes (x : tensor A) d :
  kernel_ext k -> d < rank x ->
  teq (front (snd (reduce_rule k axes x d)) (fst (reduce_rule k axes x d))) (vmap_spec1 (prim_axes k axes) x d).
Proof.
  intros Hk Hd. unfold reduce_rule. cbn [fst snd].
  assert (Hr : rank (front d x) - 1 = rank x - 1).
  { unfold rank. simpl. rewrite remove_at_length by exact Hd. unfold rank in Hd. lia. }
  assert (Hrs : forall b, rank (slice d x b) = rank x - 1).
  { intro b. unfold rank. simpl. now apply remove_at_length. }
  rewrite Hr, <- map_map.
  set (y := fiberop k (map S (map (canon (rank x - 1)) axes)) (front d x)).
  assert (Hy : teq y (vmap_spec1 (prim_axes k axes) x d)).
  { unfold y, vmap_spec1, prim_axes.
    eapply teq_trans.
    - apply (@fiberop_shift A k (map (canon (rank x - 1)) axes) (front d x) (nth d (shape x) 0) (remove_at d (shape x))
               (fun b => slice d x b)); auto.
    - unfold teq. cbn [stack0 shape at_ fiberop slice]. split; [reflexivity|].
      intros idx _. now rewrite Hrs. }
  eapply teq_trans; [|exact Hy].
  (* front 0 of a tensor of rank >= 1 is the tensor itself *)
  unfold teq, front. cbn [shape at_]. unfold y. cbn [fiberop shape front]. cbn [nth remove_at]. split; [reflexivity|].
  intros idx Hi. destruct idx as [|b r]; [inversion Hi|]. reflexivity.
Qed.

(* HISTORY (before 910bb71): standardize used the unary ELEMENTWISE rule: bind with the user's axes on the batched
   array, keep the batch dim.  Refuted below (reduce_elementwise_rule_refuted). *)
Definition reduce_elementwise_rule {A} (k : kernel A) (axes : list Z) (x : tensor A) (d : nat) : tensor A * nat :=
  (prim_axes k axes x, d).

(* ---- softmax-style rule: move to front, vmap the original over axis 0 with the body axis `body` *)
Definition softmax_rule_with {A} (body : nat) (k : kernel A) (x : tensor A) (d : nat) : tensor A * nat :=
  let x' := front d x in (stack0 (nth d (shape x) 0) (fun b => fiberop k [body] (slice 0 x' b)), 0).
(* current code (commit c86dca6): canonicalised against the per-example rank *)
Definition softmax_rule {A} (k : kernel A) (a : Z) (x : tensor A) (d : nat) := softmax_rule_with (canon (rank x - 1) a) k x d.
(* historical: canonicalised against the rank of the BATCHED array, then corrected relative to the batch dim *)
Definition softmax_body_axis_old (rb : nat) (a : Z) (d : nat) : nat :=
  let c := canon rb a in if c =? d then 0 else if c <? d then c else c - 1.

Theorem softmax_rule_correct {A} (k : kernel A) a (x : tensor A) d :
  d < rank x ->
  teq (front (snd (softmax_rule k a x d)) (fst (softmax_rule k a x d))) (vmap_spec1 (prim_axes k [a]) x d).
Proof.
  intro Hd. unfold softmax_rule, softmax_rule_with, vmap_spec1, prim_axes. cbn [fst snd].
  assert (Hrs : forall b, rank (slice d x b) = rank x - 1).
  { intro b. unfold rank. simpl. now apply remove_at_length. }
  unfold teq, front, stack0. cbn [shape at_ nth remove_at fiberop slice map]. split; [reflexivity|].
  intros idx Hi. destruct idx as [|b r]; [inversion Hi|]. cbn [hd tl insert_at]. now rewrite Hrs.
Qed.

(* the historical body axis equals the per-example axis EXACTLY when ... (r = per-example rank, p = canonical axis) *)
Theorem softmax_old_axis_iff r a d : axis_valid r a -> d <= r ->
  let p := canon r a in
  softmax_body_axis_old (S r) a d = p <->
  ((a < 0)%Z /\ (d <= p \/ (p = 0 /\ d = 1))) \/ ((0 <= a)%Z /\ (p < d \/ (p = 0 /\ d = 0))).
Proof.
  unfold axis_valid, softmax_body_axis_old, canon. intros Ha Hd. cbv zeta.
  destruct (Z.ltb_spec a 0);
    repeat match goal with |- context [?u =? ?v] => destruct (Nat.eqb_spec u v) | |- context [?u <? ?v] => destruct (Nat.ltb_spec u v) end;
    lia.
Qed.
Example softmax_old_axis_refuted : softmax_body_axis_old 4 2 0 <> canon 3 2.
Proof. vm_compute. discriminate. Qed.

(* ---- an integer kernel for refutations and for the differential tie: 100 * own value + position-weighted fiber sum *)
Definition kz : kernel Z := fun ext fib pos =>
  (100 * fib pos + fold_left Z.add (map (fun sub => Z.of_nat (1 + ravel_aux 0 ext sub) * fib sub) (all_idx ext)) 0)%Z.
Lemma kz_ext : kernel_ext kz.
Proof.
  intros e f g p H. unfold kz. rewrite H. f_equal.
  f_equal. apply map_ext. intro sub. now rewrite H.
Qed.

(* standardize(x, axis=(1,)) on per-example [2,2], batched on axis 0: the elementwise rule reduces per-example axis 0 *)
Definition wr : tensor Z := mkT [2; 2; 2] (fun idx => Z.of_nat (4 * nth 0 idx 0 + 2 * nth 1 idx 0 + nth 2 idx 0)).
Theorem reduce_elementwise_rule_refuted :
  ~ teq (front (snd (reduce_elementwise_rule kz [1%Z] wr 0)) (fst (reduce_elementwise_rule kz [1%Z] wr 0)))
        (vmap_spec1 (prim_axes kz [1%Z]) wr 0).
Proof.
  intros [_ H]. specialize (H [0; 0; 1]).
  assert (Hr : in_range (shape (front 0 (fst (reduce_elementwise_rule kz [1%Z] wr 0)))) [0; 0; 1]) by (vm_compute; repeat constructor).
  specialize (H Hr). vm_compute in H. discriminate.
Qed.
Example reduce_rule_on_witness :
  teqb (front 0 (fst (reduce_rule kz [1%Z] wr 0))) (vmap_spec1 (prim_axes kz [1%Z]) wr 0) = true.
Proof. vm_compute. reflexivity. Qed.

(* ================================================================== axis-list REDUCTIONS with keepdims *)
(* Images jax2onnx/plugins/jax/numpy/_reduction_utils.py : register_reduction_batch_rule, the shared vmap rule of the
   jnp.sum / max / min / amax / amin / any / all substitutes: move the batch axis to the front, shift the (canonical) axes by
   one, bind the primitive on the batched array with the user's keepdims, report batch dim 0.
   A reduction is a kernel on fibers; which dimensions are reduced is a boolean mask over the dimensions. *)
Definition rkernel (A : Type) := list nat -> (list nat -> A) -> A.
Definition rkernel_ext {A} (rk : rkernel A) : Prop := forall e f g, (forall sub, f sub = g sub) -> rk e f = rk e g.

Fixpoint rshape (keep : bool) (mask : list bool) (s : list nat) : list nat :=
  match mask, s with
  | true :: m, _ :: r => if keep then 1 :: rshape keep m r else rshape keep m r
  | false :: m, d :: r => d :: rshape keep m r
  | _, _ => []
  end.
Fixpoint rext (mask : list bool) (s : list nat) : list nat :=
  match mask, s with
  | true :: m, d :: r => d :: rext m r
  | false :: m, _ :: r => rext m r
  | _, _ => []
  end.
(* operand index from the output index o and the coordinates `sub` along the reduced axes *)
Fixpoint rmerge (keep : bool) (mask : list bool) (o sub : list nat) : list nat :=
  match mask with
  | [] => []
  | true :: m => hd 0 sub :: rmerge keep m (if keep then tl o else o) (tl sub)
  | false :: m => hd 0 o :: rmerge keep m (tl o) sub
  end.
Definition reduceop {A} (rk : rkernel A) (mask : list bool) (keep : bool) (x : tensor A) : tensor A :=
  mkT (rshape keep mask (shape x)) (fun o => rk (rext mask (shape x)) (fun sub => at_ x (rmerge keep mask o sub))).

Definition mask_of (n : nat) (axes : list nat) : list bool := map (fun i => existsb (Nat.eqb i) axes) (seq 0 n).
(* int(ax) % slice_rank ;  axes=None means all *)
Definition canonmod (r : nat) (a : Z) : nat := Z.to_nat (a mod Z.of_nat r)%Z.
Definition axes_nat (r : nat) (axes : option (list Z)) : list nat :=
  match axes with None => seq 0 r | Some l => map (canonmod r) l end.
(* what the USER wrote: prim(x, axes, keepdims) on the unbatched operand *)
Definition reduce_axes {A} (rk : rkernel A) (axes : option (list Z)) (keep : bool) (x : tensor A) : tensor A :=
  reduceop rk (mask_of (rank x) (axes_nat (rank x) axes)) keep x.

(* the shared rule: operand = bdim_at_front(operand); axes_full = (ax + 1 for ax in axes_norm) / range(1, ndim);
   out = prim.bind(operand, axes=axes_full, keepdims=...); return out, 0 *)
Definition reduction_batch_rule {A} (rk : rkernel A) (axes : option (list Z)) (keep : bool) (x : tensor A) (d : nat) : tensor A * nat :=
  let x' := front d x in
  let slice_rank := rank x' - 1 in
  (reduceop rk (mask_of (rank x') (map S (axes_nat slice_rank axes))) keep x', 0).

Lemma mask_of_shift r ax : mask_of (S r) (map S ax) = false :: mask_of r ax.
Proof.
  unfold mask_of. cbn [seq map]. f_equal.
  - induction ax as [|a ax IH]; simpl; auto.
  - rewrite <- seq_shift, map_map. apply map_ext. intro i.
    induction ax as [|a ax IH]; simpl; auto. f_equal. exact IH.
Qed.

Theorem reduction_batch_rule_correct {A} (rk : rkernel A) axes keep (x : tensor A) d :
  rkernel_ext rk -> d < rank x ->
  teq (front (snd (reduction_batch_rule rk axes keep x d)) (fst (reduction_batch_rule rk axes keep x d)))
      (vmap_spec1 (reduce_axes rk axes keep) x d).
Proof.
  intros Hk Hd. unfold reduction_batch_rule. cbn [fst snd].
  assert (Hl : length (remove_at d (shape x)) = rank x - 1) by (now apply remove_at_length).
  assert (Hr : rank (front d x) = S (rank x - 1)).
  { unfold rank. simpl. rewrite Hl. reflexivity. }
  assert (Hrs : forall b, rank (slice d x b) = rank x - 1).
  { intro b. unfold rank. simpl. exact Hl. }
  rewrite Hr. replace (S (rank x - 1) - 1) with (rank x - 1) by lia. rewrite mask_of_shift.
  unfold teq, front, vmap_spec1, stack0, reduce_axes, reduceop. cbn [shape at_ slice]. rewrite Hrs.
  cbn [rshape nth remove_at]. split; [reflexivity|].
  intros idx Hi. destruct idx as [|b r]; [inversion Hi|]. cbn [hd tl insert_at rext rmerge]. rewrite ?Hrs.
  unfold rkernel_ext in Hk. apply Hk. intro sub. reflexivity.
Qed.

(* integer reduction kernel for the differential tie: position-weighted fiber sum *)
Definition rkz : rkernel Z := fun ext fib =>
  fold_left Z.add (map (fun sub => Z.of_nat (1 + ravel_aux 0 ext sub) * fib sub)%Z (all_idx ext)) 0%Z.
Lemma rkz_ext : rkernel_ext rkz.
Proof. intros e f g H. unfold rkz. f_equal. apply map_ext. intro sub. now rewrite H. Qed.

(* keepdims matters: sum(axis=0, keepdims=True) on per-example [2,2] mapped along axis 1 is [B,1,2], batch dim 0 *)
Example reduction_rule_keepdims_witness :
  let x := of_flat [2; 3; 2] [1; 2; 3; 4; 5; 6; 7; 8; 9; 10; 11; 12]%Z in
  shape (fst (reduction_batch_rule rkz (Some [0%Z]) true x 1)) = [3; 1; 2] /\
  teqb (front 0 (fst (reduction_batch_rule rkz (Some [0%Z]) true x 1))) (vmap_spec1 (reduce_axes rkz (Some [0%Z]) true) x 1) = true.
Proof. vm_compute. split; reflexivity. Qed.

(* ================================================================== primitives with an OUTPUT-axis parameter (one_hot) *)
(* jax.nn.one_hot(x, C, axis=a) inserts a class axis of extent C at position a of the OUTPUT: out[idx] = k (x[idx without a]) idx[a].
   The batch rule that is right for every rank / axis / batch dim (fix proposed for jax2onnx/plugins/jax/nn/one_hot.py): move the
   batch axis to the front, canonicalise a against the PER-EXAMPLE output rank, bind with a + 1, report batch dim 0. *)
Definition insop {A B} (k : A -> nat -> B) (a C : nat) (x : tensor A) : tensor B :=
  mkT (insert_at a C (shape x)) (fun idx => k (at_ x (remove_at a idx)) (nth a idx 0)).
Definition prim_out_axis {A B} (k : A -> nat -> B) (a : Z) (C : nat) (x : tensor A) : tensor B :=
  insop k (canon (S (rank x)) a) C x.
Definition out_axis_rule {A B} (k : A -> nat -> B) (a : Z) (C : nat) (x : tensor A) (d : nat) : tensor B * nat :=
  let x' := front d x in (insop k (S (canon (rank x') a)) C x', 0).

Theorem out_axis_rule_correct {A B} (k : A -> nat -> B) a C (x : tensor A) d :
  d < rank x ->
  teq (front (snd (out_axis_rule k a C x d)) (fst (out_axis_rule k a C x d)))
      (stack0 (nth d (shape x) 0) (fun b => prim_out_axis k a C (slice d x b))).
Proof.
  intro Hd. unfold out_axis_rule, prim_out_axis. cbn [fst snd].
  assert (Hl : length (remove_at d (shape x)) = rank x - 1) by (now apply remove_at_length).
  assert (Hr : rank (front d x) = S (rank x - 1)) by (unfold rank; simpl; now rewrite Hl).
  assert (Hrs : forall b, S (rank (slice d x b)) = S (rank x - 1)) by (intro b; unfold rank; simpl; now rewrite Hl).
  rewrite Hr. unfold teq, front, stack0, insop. cbn [shape at_ slice insert_at nth remove_at]. rewrite Hrs.
  split; [reflexivity|].
  intros idx Hi. destruct idx as [|b r]; [inversion Hi|]. cbn [hd tl insert_at remove_at nth]. now rewrite Hrs.
Qed.

(* the rule of the unchanged tree binds with the user's axis on the batched operand and reports bd (+1 if axis <= bd):
   wrong e.g. for per-example x : [2], axis = 1, mapped along axis 0 (classes land in front of the per-example axis) *)
Definition out_axis_rule_old {A B} (k : A -> nat -> B) (a : Z) (C : nat) (x : tensor A) (d : nat) : tensor B * nat :=
  let ai := canon (S (rank x)) a in (insop k ai C x, if ai <=? d then S d else d).
Example out_axis_rule_old_refuted :
  let x := of_flat [3; 2] [0; 1; 2; 1; 0; 2]%Z in
  let k := fun (v : Z) (c : nat) => if Z.eqb v (Z.of_nat c) then 1%Z else 0%Z in
  shape (front (snd (out_axis_rule_old k 1%Z 3 x 0)) (fst (out_axis_rule_old k 1%Z 3 x 0))) = [3; 3; 2] /\
  shape (stack0 3 (fun b => prim_out_axis k 1%Z 3 (slice 0 x b))) = [3; 2; 3] /\
  teqb (front (snd (out_axis_rule k 1%Z 3 x 0)) (fst (out_axis_rule k 1%Z 3 x 0))) (stack0 3 (fun b => prim_out_axis k 1%Z 3 (slice 0 x b))) = true.
Proof. vm_compute. repeat split; reflexivity. Qed.
