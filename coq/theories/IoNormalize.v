(* IoNormalize (C05): jax2onnx.user_interface._normalize_io_names, the validation of a user-supplied name list
   before anything is renamed (the renaming itself: IoResolve.v, IoAlias.v, IoNames.v).

     normalized = []; seen = set()
     for idx, entry in enumerate(names):
         if not isinstance(entry, str): raise TypeError(idx)
         if not entry.strip():          raise ValueError("non-empty", idx)
         if entry in seen:              raise ValueError("duplicate", entry)
         seen.add(entry); normalized.append(entry)
     return normalized

   An entry is [Some s] for a str and [None] for any other object.  (names is None -> None and the
   single-string TypeError are outside: they do not depend on the entries.) *)
From Coq Require Import List String Bool Arith Lia.
From J2O Require Import PyLib.
Import ListNotations.

Inductive norm_err := NotStr (idx : nat) | Blank (idx : nat) | Dup (name : string).

Definition blank (s : string) : bool := String.eqb (str_strip s) EmptyString.

Fixpoint norm_loop (idx : nat) (seen : list string) (names : list (option string)) : list string + norm_err :=
  match names with
  | [] => inl []
  | None :: _ => inr (NotStr idx)
  | Some s :: r =>
      if blank s then inr (Blank idx)
      else if existsb (String.eqb s) seen then inr (Dup s)
      else match norm_loop (S idx) (s :: seen) r with
           | inl l => inl (s :: l)
           | inr e => inr e
           end
  end.

Definition normalize (names : list (option string)) : list string + norm_err := norm_loop 0 [] names.

Lemma existsb_eqb_In x l : existsb (String.eqb x) l = true <-> In x l.
Proof.
  rewrite existsb_exists. split.
  - intros (y & Hy & E). apply String.eqb_eq in E. subst. exact Hy.
  - intros H. exists x. split; [exact H | apply String.eqb_refl].
Qed.

Lemma norm_loop_ok names : forall idx seen l, norm_loop idx seen names = inl l ->
  names = map Some l /\ NoDup l /\ (forall s, In s l -> ~ In s seen) /\ (forall s, In s l -> blank s = false).
Proof.
  induction names as [|[s|] r IH]; simpl; intros idx seen l H.
  - injection H as <-. repeat split; [constructor | intros s [] | intros s []].
  - destruct (blank s) eqn:B; [discriminate|].
    destruct (existsb (String.eqb s) seen) eqn:E; [discriminate|].
    destruct (norm_loop (S idx) (s :: seen) r) as [l'|e] eqn:R; [|discriminate]. injection H as <-.
    apply IH in R as (-> & ND & Hs & Hb). repeat split.
    + constructor; [|exact ND]. intros Hin. apply (Hs _ Hin). left. reflexivity.
    + intros x [<-|Hx] Hin.
      * apply existsb_eqb_In in Hin. congruence.
      * apply (Hs _ Hx). right. exact Hin.
    + intros x [<-|Hx]; auto.
  - discriminate.
Qed.

(* accepted lists are returned UNCHANGED (no stripping, no renaming): the names the user wrote are the names applied;
   they are strings, pairwise distinct and not blank *)
Lemma normalize_ok names l : normalize names = inl l ->
  names = map Some l /\ NoDup l /\ (forall s, In s l -> blank s = false).
Proof. intros H. apply norm_loop_ok in H as (H1 & H2 & _ & H4). auto. Qed.

(* completeness: every list of pairwise distinct non-blank strings is accepted *)
Lemma norm_loop_complete l : forall idx seen,
  NoDup l -> (forall s, In s l -> ~ In s seen) -> (forall s, In s l -> blank s = false) ->
  norm_loop idx seen (map Some l) = inl l.
Proof.
  induction l as [|s r IH]; simpl; intros idx seen ND Hs Hb; [reflexivity|].
  inversion ND as [|? ? Hnot ND']; subst.
  rewrite (Hb s (or_introl eq_refl)).
  destruct (existsb (String.eqb s) seen) eqn:E.
  - apply existsb_eqb_In in E. exfalso. apply (Hs s); [left; reflexivity | exact E].
  - rewrite IH; auto.
    intros x Hx [<-|Hin]; [contradiction | apply (Hs x); auto; right; exact Hx].
Qed.

Lemma normalize_complete l : NoDup l -> (forall s, In s l -> blank s = false) -> normalize (map Some l) = inl l.
Proof. intros ND Hb. apply norm_loop_complete; auto. Qed.

(* a non-string, a blank entry or a repeated name is refused, whatever surrounds it *)
Lemma norm_loop_refuses_dup pre s mid post : forall idx seen l,
  norm_loop idx seen (pre ++ Some s :: mid ++ Some s :: post) <> inl l.
Proof.
  intros idx seen l H. apply norm_loop_ok in H as (E & ND & _ & _).
  assert (map Some l = pre ++ Some s :: mid ++ Some s :: post) as E' by congruence. clear E.
  assert (exists a b c, l = a ++ s :: b ++ s :: c) as (a & b & c & ->).
  { revert l E' ND. induction pre as [|p pre IHp]; simpl; intros l E' ND.
    - destruct l as [|x l]; [discriminate|]. injection E' as -> E'.
      revert l E' ND. induction mid as [|m mid IHm]; simpl; intros l E' ND.
      + destruct l as [|y l]; [discriminate|]. injection E' as -> _. exists [], [], l. reflexivity.
      + destruct l as [|y l]; [discriminate|]. injection E' as _ E'.
        inversion ND as [|? ? Hn ND']; subst. inversion ND' as [|? ? Hn2 ND'']; subst.
        destruct (IHm l E') as (a & b & c & Hl).
        { constructor; [|exact ND'']. intros Hin. apply Hn. right. exact Hin. }
        destruct a as [|a0 a]; simpl in Hl.
        * injection Hl as Hl. exists [], (y :: b), c. simpl. rewrite Hl. reflexivity.
        * injection Hl as -> Hl. exfalso. apply Hn. right. rewrite Hl. apply in_or_app. right. left. reflexivity.
    - destruct l as [|x l]; [discriminate|]. injection E' as _ E'.
      inversion ND; subst. destruct (IHp l E') as (a & b & c & ->); [assumption|].
      exists (x :: a), b, c. reflexivity. }
  apply NoDup_remove_2 in ND. apply ND. apply in_or_app. right. apply in_or_app. right. left. reflexivity.
Qed.

Lemma normalize_refuses_dup pre s mid post l : normalize (pre ++ Some s :: mid ++ Some s :: post) <> inl l.
Proof. apply norm_loop_refuses_dup. Qed.

Lemma normalize_refuses_nonstr pre post l : normalize (pre ++ None :: post) <> inl l.
Proof.
  unfold normalize. intros H. apply norm_loop_ok in H as (E & _).
  assert (In None (map Some l)) as Hin by (rewrite <- E; apply in_or_app; right; left; reflexivity).
  apply in_map_iff in Hin as (x & Hx & _). discriminate.
Qed.

Example normalize_ex1 : normalize [Some "x"; Some " y "; Some "z"]%string = inl ["x"; " y "; "z"]%string.
Proof. reflexivity. Qed.
Example normalize_ex2 : normalize [Some "x"; Some "  "; None]%string = inr (Blank 1).
Proof. reflexivity. Qed.
Example normalize_ex3 : normalize [Some "x"; Some "y"; Some "x"]%string = inr (Dup "x"%string).
Proof. reflexivity. Qed.
