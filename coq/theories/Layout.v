(* Layout (C12): the NCHW boundary adapter.  The permutation constants and which constant each
   adapter site uses are read from the current source (gen/GenLayout.v). *)
From Coq Require Import List Arith Lia Bool ZArith.
From J2O Require Import PyLib Tensor.
From J2OGen Require Import GenLayout.
Import ListNotations.

(* The specification of "the NCHW version of an NHWC image tensor": axis i of the result is axis
   spec_perm[i] of the argument (N,C,H,W <- N,H,W,C). *)
Definition spec_nhwc_to_nchw : list nat := [0; 3; 1; 2].
Definition nchw {A} (x : tensor A) : tensor A := transpose spec_nhwc_to_nchw x.

Definition p_in : list nat := perm_of_Z bind_input_transpose_perm.
Definition p_out : list nat := perm_of_Z bind_output_transpose_perm.
Definition p_in_shape : list nat := perm_of_Z bind_input_shape_perm.
Definition p_out_shape : list nat := perm_of_Z bind_output_shape_perm.

Definition nonneg (l : list Z) : bool := forallb (fun z => (0 <=? z)%Z) l.

(* facts about the translated constants; each line breaks if a constant or its use site is edited *)
Lemma consts_nonneg : nonneg NHWC_TO_NCHW_PERM = true /\ nonneg NCHW_TO_NHWC_PERM = true.
Proof. split; reflexivity. Qed.
Lemma p_out_is_spec : p_out = spec_nhwc_to_nchw. Proof. reflexivity. Qed.
Lemma p_in_shape_is_spec : p_in_shape = spec_nhwc_to_nchw. Proof. reflexivity. Qed.
Lemma p_out_shape_is_spec : p_out_shape = spec_nhwc_to_nchw. Proof. reflexivity. Qed.
Lemma p_in_perm : is_perm p_in. Proof. apply is_permb_spec. reflexivity. Qed.
Lemma spec_perm : is_perm spec_nhwc_to_nchw. Proof. apply is_permb_spec. reflexivity. Qed.
Lemma p_in_inverts_spec : is_inverse spec_nhwc_to_nchw p_in. Proof. split; reflexivity. Qed.
Lemma perms_inverse :
  is_inverse (perm_of_Z NHWC_TO_NCHW_PERM) (perm_of_Z NCHW_TO_NHWC_PERM) /\
  is_inverse (perm_of_Z NCHW_TO_NHWC_PERM) (perm_of_Z NHWC_TO_NCHW_PERM).
Proof. split; split; reflexivity. Qed.

(* ---- one flagged input / one flagged output around an arbitrary (teq-respecting) function *)
Section Adapter1.
  Context {A : Type}.
  Variable f : tensor A -> tensor A.
  Hypothesis f_proper : forall x y, teq x y -> teq (f x) (f y).

  (* what the flagged export computes on the NCHW-laid-out input *)
  Definition adapted (xn : tensor A) : tensor A := transpose p_out (f (transpose p_in xn)).

  Lemma restore_input (x : tensor A) : rank x = 4 -> teq (transpose p_in (nchw x)) x.
  Proof.
    intro Hr. apply transpose_inverse;
      [apply spec_perm | apply p_in_perm | now rewrite Hr | apply p_in_inverts_spec].
  Qed.

  Theorem adapter_correct_1 : forall x, rank x = 4 -> rank (f x) = 4 ->
    teq (adapted (nchw x)) (nchw (f x)).
  Proof.
    intros x Hr Hfr. unfold adapted, nchw. rewrite p_out_is_spec.
    pose proof (f_proper _ _ (restore_input x Hr)) as E.
    apply transpose_teq; auto; [apply spec_perm|].
    destruct E as [Hs _]. unfold rank, nchw in *. rewrite Hs, Hfr. reflexivity.
  Qed.
End Adapter1.

(* ---- any number of inputs/outputs, any subset flagged *)
Fixpoint map_flagged {A} (flags : list bool) (g : A -> A) (xs : list A) : list A :=
  match flags, xs with
  | b :: fr, x :: xr => (if b then g x else x) :: map_flagged fr g xr
  | _, _ => xs
  end.

Fixpoint flagged_rank4 {A} (flags : list bool) (xs : list (tensor A)) : Prop :=
  match flags, xs with
  | b :: fr, x :: xr => (b = true -> rank x = 4) /\ flagged_rank4 fr xr
  | _, _ => True
  end.

Section AdapterN.
  Context {A : Type}.
  Variable F : list (tensor A) -> list (tensor A).
  Hypothesis F_proper : forall xs ys, Forall2 teq xs ys -> Forall2 teq (F xs) (F ys).

  Definition adapted_n (fI fO : list bool) (xs : list (tensor A)) : list (tensor A) :=
    map_flagged fO (transpose p_out) (F (map_flagged fI (transpose p_in) xs)).

  Lemma Forall2_teq_refl (xs : list (tensor A)) : Forall2 teq xs xs.
  Proof. induction xs; constructor; auto. apply teq_refl. Qed.

  Lemma restore_inputs fI (xs : list (tensor A)) : flagged_rank4 fI xs ->
    Forall2 teq (map_flagged fI (transpose p_in) (map_flagged fI nchw xs)) xs.
  Proof.
    revert xs. induction fI as [|b fr IH]; intros [|x xr] H; simpl in *.
    - constructor.
    - apply Forall2_teq_refl.
    - constructor.
    - constructor.
      + destruct b; [apply restore_input; now apply H | apply teq_refl].
      + apply IH. apply H.
  Qed.

  Lemma map_flagged_out fO (ys zs : list (tensor A)) : Forall2 teq ys zs -> flagged_rank4 fO zs ->
    Forall2 teq (map_flagged fO (transpose p_out) ys) (map_flagged fO nchw zs).
  Proof.
    intro H. revert fO. induction H as [|y z yr zr Hyz H IH]; intros [|b fr] Hr; simpl in *.
    - constructor.
    - constructor.
    - constructor; auto.
    - constructor.
      + destruct b; auto. unfold nchw. rewrite p_out_is_spec.
        apply transpose_teq; auto; [apply spec_perm|].
        destruct Hyz as [Hs _]. destruct Hr as [Hr _]. unfold rank in *. rewrite Hs, Hr; auto.
      + apply IH. apply Hr.
  Qed.

  (* MAIN: feeding the NCHW versions of the flagged inputs yields the NCHW versions of the flagged
     outputs of the plain function; non-flagged positions are untouched (map_flagged leaves them). *)
  Theorem adapter_correct : forall fI fO xs,
    flagged_rank4 fI xs -> flagged_rank4 fO (F xs) ->
    Forall2 teq (adapted_n fI fO (map_flagged fI nchw xs)) (map_flagged fO nchw (F xs)).
  Proof.
    intros fI fO xs HI HO. unfold adapted_n.
    apply map_flagged_out; auto. apply F_proper. now apply restore_inputs.
  Qed.
End AdapterN.

(* ---- index validation (hand model of _validate_layout_indices; tie D in harness/c12.py) *)
Inductive pyobj := PyInt (z : Z) | PyBool (b : bool) | PyOther.

Fixpoint validate_go (l : list pyobj) (ub : Z) (seen : list Z) : option (list Z) :=
  match l with
  | [] => Some []
  | PyInt z :: r =>
      if ((z <? 0) || (z >=? ub))%Z then None
      else if Z_in z seen then None
      else match validate_go r ub (z :: seen) with Some t => Some (z :: t) | None => None end
  | _ :: _ => None
  end.
Definition validate_layout_indices (l : option (list pyobj)) (ub : Z) : option (list Z) :=
  match l with None => Some [] | Some l => validate_go l ub [] end.

Lemma Z_in_In z l : Z_in z l = true <-> In z l.
Proof.
  unfold Z_in. rewrite existsb_exists. split.
  - intros (x & Hx & E). apply Z.eqb_eq in E. now subst.
  - intro H. exists z. split; auto. apply Z.eqb_refl.
Qed.

Lemma validate_go_spec l ub seen r : validate_go l ub seen = Some r ->
  l = map PyInt r /\ Forall (fun z => (0 <= z < ub)%Z) r /\ NoDup r /\ (forall z, In z r -> ~ In z seen).
Proof.
  revert seen r. induction l as [|o l IH]; simpl; intros seen r H.
  - injection H as <-. split; [reflexivity|]. split; [constructor|]. split; [constructor|]. intros z [].
  - destruct o as [z| |]; try discriminate.
    destruct ((z <? 0) || (z >=? ub))%Z eqn:E1; [discriminate|].
    destruct (Z_in z seen) eqn:E2; [discriminate|].
    destruct (validate_go l ub (z :: seen)) as [t|] eqn:E3; [|discriminate].
    injection H as <-. destruct (IH _ _ E3) as (-> & Hf & Hnd & Hs).
    apply orb_false_iff in E1 as [Ea Eb].
    repeat split.
    + constructor; auto. lia.
    + constructor; auto. intro Hin. apply (Hs z Hin). now left.
    + intros y [<-|Hy] Hin.
      * assert (Z_in z seen = true) by now apply Z_in_In. congruence.
      * apply (Hs y Hy). now right.
Qed.

Lemma validate_go_complete r ub seen :
  Forall (fun z => (0 <= z < ub)%Z) r -> NoDup r -> (forall z, In z r -> ~ In z seen) ->
  validate_go (map PyInt r) ub seen = Some r.
Proof.
  revert seen. induction r as [|z r IH]; simpl; intros seen Hf Hnd Hs; auto.
  inversion Hf as [|? ? Hz Hf']; subst. inversion Hnd as [|? ? Hni Hnd']; subst.
  replace ((z <? 0) || (z >=? ub))%Z with false by (symmetry; apply orb_false_iff; split; lia).
  destruct (Z_in z seen) eqn:E.
  - apply Z_in_In in E. exfalso. apply (Hs z); auto.
  - rewrite IH; auto. intros y Hy [Heq|Hin].
    + subst. contradiction.
    + apply (Hs y); auto.
Qed.

(* accepts exactly duplicate-free, in-range, genuine-integer (non-bool) index lists *)
Theorem validate_spec l ub r :
  validate_layout_indices (Some l) ub = Some r <->
  (l = map PyInt r /\ Forall (fun z => (0 <= z < ub)%Z) r /\ NoDup r).
Proof.
  unfold validate_layout_indices. split.
  - intro H. apply validate_go_spec in H as (H1 & H2 & H3 & _). auto.
  - intros (-> & Hf & Hnd). apply validate_go_complete; auto.
Qed.

Example validate_ok : validate_layout_indices (Some [PyInt 2; PyInt 0]) 3 = Some [2; 0]%Z. Proof. reflexivity. Qed.
Example validate_dup : validate_layout_indices (Some [PyInt 1; PyInt 1]) 3 = None. Proof. reflexivity. Qed.
Example validate_bool : validate_layout_indices (Some [PyBool true]) 3 = None. Proof. reflexivity. Qed.
