(* C19: Python's call-binding algorithm (PEP 3102 / PEP 570) over signatures, a decision procedure for
   "every call form the original accepts, the substitute accepts", its soundness for ALL call forms
   (unbounded number of positionals, arbitrary keyword names) and a computed counterexample.

   A signature is what inspect.signature returns, reduced to (name, kind, has-default) per parameter.
   A call form is (number of positional arguments, list of keyword names).  Argument VALUES are
   irrelevant to binding: CPython's binder only looks at positions and keyword names. *)
From Coq Require Import String Ascii List Bool Arith Lia.
Import ListNotations.

Inductive kind := PosOnly | PosOrKw | VarPos | KwOnly | VarKw.
Record param := { p_name : string; p_kind : kind; p_default : bool }.
Record call := { c_npos : nat; c_kws : list string }.

Definition kind_eqb (a b : kind) : bool :=
  match a, b with
  | PosOnly, PosOnly | PosOrKw, PosOrKw | VarPos, VarPos | KwOnly, KwOnly | VarKw, VarKw => true
  | _, _ => false
  end.

Definition mem (s : string) (l : list string) : bool := existsb (String.eqb s) l.

Definition is_kind (k : kind) (p : param) : bool := kind_eqb (p_kind p) k.
Definition is_positional (p : param) : bool := is_kind PosOnly p || is_kind PosOrKw p.
Definition names (l : list param) : list string := map p_name l.

Definition positional (sig : list param) : list param := filter is_positional sig.
Definition kwonly (sig : list param) : list param := filter (is_kind KwOnly) sig.
Definition has_varpos (sig : list param) : bool := existsb (is_kind VarPos) sig.
Definition has_varkw (sig : list param) : bool := existsb (is_kind VarKw) sig.

(* ---- state of the binder after n positional arguments have been consumed *)
(* positional parameters that received a positional argument / that did not *)
Definition pos_filled (sig : list param) (n : nat) : list param := firstn n (positional sig).
Definition pos_open (sig : list param) (n : nat) : list param := skipn n (positional sig).
(* a keyword with one of these names: "got multiple values for argument" (even with **kwargs) *)
Definition dup_names (sig : list param) (n : nat) : list string :=
  names (filter (is_kind PosOrKw) (pos_filled sig n)).
(* parameters a keyword can still fill *)
Definition kw_fillable (sig : list param) (n : nat) : list param :=
  filter (is_kind PosOrKw) (pos_open sig n) ++ kwonly sig.
Definition kw_targets (sig : list param) (n : nat) : list string := names (kw_fillable sig n).
(* too many positional arguments unless *args *)
Definition arity_ok (sig : list param) (n : nat) : bool :=
  Nat.leb n (length (positional sig)) || has_varpos sig.
(* keyword k: rejected when it names an already filled parameter; otherwise it must name a fillable
   parameter, or fall into **kwargs (this includes names of positional-only parameters, PEP 570) *)
Definition kw_ok (sig : list param) (n : nat) (k : string) : bool :=
  negb (mem k (dup_names sig n)) && (mem k (kw_targets sig n) || has_varkw sig).
(* keyword names that MUST be present: unfilled parameters without default *)
Definition required (sig : list param) (n : nat) : list string :=
  names (filter (fun p => negb (p_default p)) (kw_fillable sig n)).
(* a positional-only parameter without default that got no positional argument can never be filled *)
Definition unfillable (sig : list param) (n : nat) : bool :=
  existsb (fun p => is_kind PosOnly p && negb (p_default p)) (pos_open sig n).

Definition binds (sig : list param) (c : call) : bool :=
  let n := c_npos c in
  arity_ok sig n && negb (unfillable sig n)
  && forallb (kw_ok sig n) (c_kws c)
  && forallb (fun r => mem r (c_kws c)) (required sig n).

(* ---- well-formedness enforced by CPython (compiler for `def`, inspect.Signature.__init__ otherwise) *)
Definition kind_rank (k : kind) : nat :=
  match k with PosOnly => 0 | PosOrKw => 1 | VarPos => 2 | KwOnly => 3 | VarKw => 4 end.
Fixpoint sorted_kinds (l : list param) : bool :=
  match l with
  | [] => true
  | p :: r => forallb (fun q => Nat.leb (kind_rank (p_kind p)) (kind_rank (p_kind q))) r && sorted_kinds r
  end.
Fixpoint nodupb (l : list string) : bool :=
  match l with [] => true | x :: r => negb (mem x r) && nodupb r end.
Definition at_most_one (k : kind) (sig : list param) : bool :=
  Nat.leb (length (filter (is_kind k) sig)) 1.
(* "non-default argument follows default argument" among positional parameters *)
Fixpoint defaults_ok (l : list param) : bool :=
  match l with
  | [] => true
  | p :: r => (if p_default p then forallb p_default r else true) && defaults_ok r
  end.
Definition var_no_default (sig : list param) : bool :=
  forallb (fun p => negb ((is_kind VarPos p || is_kind VarKw p) && p_default p)) sig.
Definition wf_sigb (sig : list param) : bool :=
  sorted_kinds sig && nodupb (names sig) && at_most_one VarPos sig && at_most_one VarKw sig
  && defaults_ok (positional sig) && var_no_default sig.
Definition wf_sig (sig : list param) : Prop := wf_sigb sig = true.

(* ---- the decision procedure: a finite set of probe call forms that is exhaustive (proved below) *)
Fixpoint rep (n : nat) : string := match n with O => EmptyString | S m => String "z"%char (rep m) end.
Definition maxlen (l : list string) : nat := fold_right (fun s m => Nat.max (String.length s) m) 0 l.
(* a keyword name occurring in neither signature *)
Definition fresh (l : list string) : string := rep (S (maxlen l)).

Definition allnames (w o : list param) : list string := names o ++ names w.
Definition probe_names (w o : list param) : list string := allnames w o ++ [fresh (allnames w o)].
Definition bound (w o : list param) : nat :=
  S (Nat.max (length (positional o)) (length (positional w))).
Definition mk (n : nat) (K : list string) : call := {| c_npos := n; c_kws := nodup string_dec K |}.
(* for every number of positionals up to one beyond both signatures: the minimal keyword set the
   original demands, and that set plus one more keyword (every known name, and one unknown name) *)
Definition cands (w o : list param) : list call :=
  flat_map (fun n => mk n (required o n) :: map (fun k => mk n (k :: required o n)) (probe_names w o))
           (seq 0 (S (bound w o))).
Definition is_cex (w o : list param) (c : call) : bool := binds o c && negb (binds w c).

Definition subsumes_witness (w o : list param) : option call := find (is_cex w o) (cands w o).
Definition sig_subsumes (w o : list param) : bool :=
  match subsumes_witness w o with None => true | Some _ => false end.

(* ================================================================== proofs *)
Lemma mem_In s l : mem s l = true <-> In s l.
Proof.
  unfold mem. rewrite existsb_exists. split.
  - intros [x [Hx He]]. apply String.eqb_eq in He. now subst.
  - intro H. exists s. split; [exact H | apply String.eqb_refl].
Qed.

Lemma mem_false s l : mem s l = false <-> ~ In s l.
Proof.
  rewrite <- mem_In. destruct (mem s l); split; intro H.
  - discriminate.
  - exfalso. now apply H.
  - intro; discriminate.
  - reflexivity.
Qed.

Lemma forallb_false_ex {A} (f : A -> bool) l :
  forallb f l = false -> exists x, In x l /\ f x = false.
Proof.
  induction l as [|a l IH]; simpl; [discriminate|].
  destruct (f a) eqn:Ea; simpl.
  - intro H. destruct (IH H) as [x [Hx Hf]]. exists x. auto.
  - intros _. exists a. auto.
Qed.

Lemma In_firstn {A} (x : A) n l : In x (firstn n l) -> In x l.
Proof.
  revert l. induction n as [|n IH]; intros [|a l]; simpl; try tauto.
  intros [H|H]; auto.
Qed.

Lemma In_skipn {A} (x : A) n l : In x (skipn n l) -> In x l.
Proof.
  revert l. induction n as [|n IH]; intros [|a l]; simpl; auto.
Qed.

(* binds, as a conjunction of its four reasons to reject *)
Lemma binds_true_iff sig n K :
  binds sig {| c_npos := n; c_kws := K |} = true <->
  arity_ok sig n = true /\ unfillable sig n = false /\
  (forall k, In k K -> kw_ok sig n k = true) /\
  (forall r, In r (required sig n) -> In r K).
Proof.
  unfold binds; simpl. rewrite !andb_true_iff, negb_true_iff, !forallb_forall.
  split.
  - intros [[[Ha Hu] Hk] Hr]. repeat split; auto. intros r Hin. apply mem_In. auto.
  - intros (Ha & Hu & Hk & Hr). repeat split; auto. intros r Hin. apply mem_In. auto.
Qed.

(* keyword names the binder distinguishes are names of the signature *)
Lemma dup_names_sub sig n k : In k (dup_names sig n) -> In k (names sig).
Proof.
  unfold dup_names, names, pos_filled, positional. rewrite !in_map_iff.
  intros [p [Hn Hp]]. exists p. split; auto.
  apply filter_In in Hp. destruct Hp as [Hp _]. apply In_firstn in Hp.
  apply filter_In in Hp. tauto.
Qed.

Lemma kw_targets_sub sig n k : In k (kw_targets sig n) -> In k (names sig).
Proof.
  unfold kw_targets, kw_fillable, names, pos_open, positional, kwonly. rewrite !in_map_iff.
  intros [p [Hn Hp]]. exists p. split; auto.
  apply in_app_or in Hp. destruct Hp as [Hp|Hp].
  - apply filter_In in Hp. destruct Hp as [Hp _]. apply In_skipn in Hp.
    apply filter_In in Hp. tauto.
  - apply filter_In in Hp. tauto.
Qed.

(* a name occurring nowhere in the signature is accepted exactly when there is **kwargs *)
Lemma kw_ok_unknown sig n k : ~ In k (names sig) -> kw_ok sig n k = has_varkw sig.
Proof.
  intro H. unfold kw_ok.
  assert (H1 : mem k (dup_names sig n) = false).
  { apply mem_false. intro Hc. apply H. eapply dup_names_sub; eauto. }
  assert (H2 : mem k (kw_targets sig n) = false).
  { apply mem_false. intro Hc. apply H. eapply kw_targets_sub; eauto. }
  now rewrite H1, H2.
Qed.

(* beyond the last positional parameter the number of positional arguments no longer matters *)
Lemma binds_saturate sig n1 n2 K :
  length (positional sig) < n1 -> length (positional sig) < n2 ->
  binds sig {| c_npos := n1; c_kws := K |} = binds sig {| c_npos := n2; c_kws := K |}.
Proof.
  intros H1 H2.
  assert (Ef : pos_filled sig n1 = pos_filled sig n2).
  { unfold pos_filled. rewrite !firstn_all2 by lia. reflexivity. }
  assert (Eo : pos_open sig n1 = pos_open sig n2).
  { unfold pos_open. rewrite !skipn_all2 by lia. reflexivity. }
  assert (Ea : arity_ok sig n1 = arity_ok sig n2).
  { unfold arity_ok.
    replace (Nat.leb n1 (length (positional sig))) with false by (symmetry; apply Nat.leb_gt; lia).
    replace (Nat.leb n2 (length (positional sig))) with false by (symmetry; apply Nat.leb_gt; lia).
    reflexivity. }
  unfold binds; simpl.
  unfold unfillable, required, kw_ok, kw_targets, kw_fillable, dup_names.
  rewrite Ef, Eo, Ea. reflexivity.
Qed.

(* acceptance only needs: every given keyword is individually acceptable, and the required ones are there *)
Lemma binds_shrink sig n K K' :
  binds sig {| c_npos := n; c_kws := K |} = true ->
  (forall k, In k K' -> kw_ok sig n k = true) ->
  (forall r, In r (required sig n) -> In r K') ->
  binds sig {| c_npos := n; c_kws := K' |} = true.
Proof.
  rewrite !binds_true_iff. intros (Ha & Hu & _ & _) Hk Hr. auto.
Qed.

(* a rejection is either independent of which (sub)set of keywords is given, or caused by one keyword *)
Lemma binds_reject sig n K :
  binds sig {| c_npos := n; c_kws := K |} = false ->
  (forall K', (forall k, In k K' -> In k K) -> binds sig {| c_npos := n; c_kws := K' |} = false)
  \/ (exists k, In k K /\ kw_ok sig n k = false).
Proof.
  intro H.
  destruct (forallb (kw_ok sig n) K) eqn:Ek.
  - left. intros K' Hsub.
    destruct (binds sig {| c_npos := n; c_kws := K' |}) eqn:Eb; [|reflexivity].
    exfalso. apply binds_true_iff in Eb. destruct Eb as (Ha & Hu & _ & Hr).
    assert (Hb : binds sig {| c_npos := n; c_kws := K |} = true).
    { apply binds_true_iff. repeat split; auto.
      rewrite forallb_forall in Ek. exact Ek. }
    congruence.
  - right. apply forallb_false_ex in Ek. exact Ek.
Qed.

Lemma binds_has_bad_kw sig n K k :
  In k K -> kw_ok sig n k = false -> binds sig {| c_npos := n; c_kws := K |} = false.
Proof.
  intros Hin Hk. destruct (binds sig {| c_npos := n; c_kws := K |}) eqn:Eb; [|reflexivity].
  apply binds_true_iff in Eb. destruct Eb as (_ & _ & Hall & _). rewrite (Hall k Hin) in Hk. discriminate.
Qed.

(* the fresh name is fresh *)
Lemma rep_length n : String.length (rep n) = n.
Proof. induction n; simpl; auto. Qed.

Lemma maxlen_ge s l : In s l -> String.length s <= maxlen l.
Proof.
  induction l as [|a l IH]; simpl; [tauto|].
  intros [->|H]; [lia|]. specialize (IH H). lia.
Qed.

Lemma fresh_not_in l : ~ In (fresh l) l.
Proof.
  intro H. apply maxlen_ge in H. unfold fresh in H. rewrite rep_length in H. lia.
Qed.

Lemma In_cands w o n ks :
  n <= bound w o ->
  (ks = required o n \/ exists k, In k (probe_names w o) /\ ks = k :: required o n) ->
  In (mk n ks) (cands w o).
Proof.
  intros Hn H. unfold cands. apply in_flat_map. exists n. split.
  - apply in_seq. lia.
  - destruct H as [->|[k [Hk ->]]]; [left; reflexivity|].
    right. apply in_map_iff. exists k. auto.
Qed.

(* exhaustiveness of the probe set: any counterexample call form yields a probe that is one *)
Lemma cex_reduces w o c :
  binds o c = true -> binds w c = false ->
  exists c', In c' (cands w o) /\ is_cex w o c' = true.
Proof.
  destruct c as [n0 K]. intros Ho0 Hw0.
  (* 1. bring the number of positionals into the probed range *)
  set (n := Nat.min n0 (bound w o)).
  assert (Hn : n <= bound w o) by (unfold n; lia).
  assert (Ho : binds o {| c_npos := n; c_kws := K |} = true).
  { destruct (Nat.le_gt_cases n0 (bound w o)) as [Hle|Hgt].
    - replace n with n0 by (unfold n; lia). exact Ho0.
    - rewrite <- Ho0. apply binds_saturate; unfold n, bound in *; lia. }
  assert (Hw : binds w {| c_npos := n; c_kws := K |} = false).
  { destruct (Nat.le_gt_cases n0 (bound w o)) as [Hle|Hgt].
    - replace n with n0 by (unfold n; lia). exact Hw0.
    - rewrite <- Hw0. apply binds_saturate; unfold n, bound in *; lia. }
  clearbody n. clear Ho0 Hw0 n0.
  pose proof (proj1 (binds_true_iff o n K) Ho) as (Hoa & Hou & Hok & Hor).
  unfold is_cex.
  destruct (binds_reject w n K Hw) as [Hany | [k [HkK Hkbad]]].
  - (* 2a. rejection independent of optional keywords: the minimal call form *)
    exists (mk n (required o n)). split.
    + apply In_cands; auto.
    + unfold mk. rewrite andb_true_iff, negb_true_iff. split.
      * eapply binds_shrink; [exact Ho| |].
        -- intros k Hk. apply nodup_In in Hk. auto.
        -- intros r Hr. apply nodup_In. exact Hr.
      * apply Hany. intros k Hk. apply nodup_In in Hk. auto.
  - (* 2b. one keyword k is rejected by the substitute *)
    destruct (in_dec string_dec k (allnames w o)) as [Hknown | Hunknown].
    + exists (mk n (k :: required o n)). split.
      * apply In_cands; auto. right. exists k. split; auto.
        unfold probe_names. apply in_or_app. auto.
      * unfold mk. rewrite andb_true_iff, negb_true_iff. split.
        -- eapply binds_shrink; [exact Ho| |].
           ++ intros k' Hk'. apply nodup_In in Hk'. destruct Hk' as [<-|Hk']; auto.
           ++ intros r Hr. apply nodup_In. right. exact Hr.
        -- apply binds_has_bad_kw with (k := k); auto. apply nodup_In. left. reflexivity.
    + (* k occurs in neither signature: any other such name behaves identically *)
      set (f := fresh (allnames w o)).
      assert (Hf : ~ In f (allnames w o)) by apply fresh_not_in.
      unfold allnames in Hunknown, Hf.
      assert (Hfo : kw_ok o n f = true).
      { rewrite kw_ok_unknown by (intro; apply Hf; apply in_or_app; auto).
        rewrite <- (kw_ok_unknown o n k) by (intro; apply Hunknown; apply in_or_app; auto). auto. }
      assert (Hfw : kw_ok w n f = false).
      { rewrite kw_ok_unknown by (intro; apply Hf; apply in_or_app; auto).
        rewrite <- (kw_ok_unknown w n k) by (intro; apply Hunknown; apply in_or_app; auto). auto. }
      exists (mk n (f :: required o n)). split.
      * apply In_cands; auto. right. exists f. split; auto.
        unfold probe_names. apply in_or_app. right. left. reflexivity.
      * unfold mk. rewrite andb_true_iff, negb_true_iff. split.
        -- eapply binds_shrink; [exact Ho| |].
           ++ intros k' Hk'. apply nodup_In in Hk'. destruct Hk' as [<-|Hk']; auto.
           ++ intros r Hr. apply nodup_In. right. exact Hr.
        -- apply binds_has_bad_kw with (k := f); auto. apply nodup_In. left. reflexivity.
Qed.

(* MAIN (stronger than asked: no well-formedness and no NoDup needed, because `binds` only asks
   membership questions of the keyword list) *)
Theorem subsumes_sound_strong w o :
  sig_subsumes w o = true -> forall c, binds o c = true -> binds w c = true.
Proof.
  unfold sig_subsumes, subsumes_witness. intros H c Ho.
  destruct (binds w c) eqn:Hw; [reflexivity|]. exfalso.
  destruct (cex_reduces w o c Ho Hw) as [c' [Hin Hcex]].
  destruct (find (is_cex w o) (cands w o)) eqn:Ef; [discriminate|].
  pose proof (find_none _ _ Ef c' Hin) as Hn. congruence.
Qed.

Theorem subsumes_sound : forall w o, wf_sig w -> wf_sig o -> sig_subsumes w o = true ->
  forall c, NoDup (c_kws c) -> binds o c = true -> binds w c = true.
Proof. intros w o _ _ H c _. apply subsumes_sound_strong. exact H. Qed.

(* the computed counterexample is a real one, and a legal call (no repeated keyword) *)
Theorem witness_sound w o c :
  subsumes_witness w o = Some c -> binds o c = true /\ binds w c = false.
Proof.
  unfold subsumes_witness. intro H. apply find_some in H. destruct H as [_ H].
  unfold is_cex in H. apply andb_true_iff in H. destruct H as [H1 H2].
  apply negb_true_iff in H2. auto.
Qed.

Theorem witness_nodup w o c : subsumes_witness w o = Some c -> NoDup (c_kws c).
Proof.
  unfold subsumes_witness. intro H. apply find_some in H. destruct H as [H _].
  unfold cands in H. apply in_flat_map in H. destruct H as [n [_ H]].
  destruct H as [<-|H]; [apply NoDup_nodup|].
  apply in_map_iff in H. destruct H as [k [<- _]]. apply NoDup_nodup.
Qed.

(* completeness: the procedure answers false only with a counterexample in hand, so it is exact *)
Theorem subsumes_complete w o :
  sig_subsumes w o = false ->
  exists c, subsumes_witness w o = Some c /\ NoDup (c_kws c) /\ binds o c = true /\ binds w c = false.
Proof.
  unfold sig_subsumes. destruct (subsumes_witness w o) as [c|] eqn:E; [|discriminate].
  intros _. exists c. split; [reflexivity|]. split; [eapply witness_nodup; eauto|].
  eapply witness_sound; eauto.
Qed.

Theorem subsumes_iff w o :
  sig_subsumes w o = true <-> (forall c, binds o c = true -> binds w c = true).
Proof.
  split; [apply subsumes_sound_strong|].
  intro H. destruct (sig_subsumes w o) eqn:E; [reflexivity|].
  destruct (subsumes_complete w o E) as [c (_ & _ & Ho & Hw)]. rewrite (H c Ho) in Hw. discriminate.
Qed.


(* every probe that is a counterexample (the harness picks the most natural-looking one to report) *)
Definition all_witnesses (w o : list param) : list call := filter (is_cex w o) (cands w o).

Theorem all_witnesses_sound w o c :
  In c (all_witnesses w o) -> NoDup (c_kws c) /\ binds o c = true /\ binds w c = false.
Proof.
  unfold all_witnesses. intro H. apply filter_In in H. destruct H as [Hin H]. split.
  - unfold cands in Hin. apply in_flat_map in Hin. destruct Hin as [n [_ Hin]].
    destruct Hin as [<-|Hin]; [apply NoDup_nodup|].
    apply in_map_iff in Hin. destruct Hin as [k [<- _]]. apply NoDup_nodup.
  - unfold is_cex in H. apply andb_true_iff in H. destruct H as [H1 H2].
    apply negb_true_iff in H2. auto.
Qed.

Theorem all_witnesses_nil_iff w o : all_witnesses w o = [] <-> sig_subsumes w o = true.
Proof.
  unfold all_witnesses, sig_subsumes, subsumes_witness. split.
  - intro H. destruct (find (is_cex w o) (cands w o)) as [c|] eqn:E; [|reflexivity].
    apply find_some in E. destruct E as [Hin Hc].
    assert (Hf : In c (filter (is_cex w o) (cands w o))) by (apply filter_In; auto).
    rewrite H in Hf. destruct Hf.
  - destruct (find (is_cex w o) (cands w o)) as [c|] eqn:E; [discriminate|]. intros _.
    destruct (filter (is_cex w o) (cands w o)) as [|c l] eqn:Ef; [reflexivity|].
    assert (Hf : In c (filter (is_cex w o) (cands w o))) by (rewrite Ef; left; reflexivity).
    apply filter_In in Hf. destruct Hf as [Hin Hc]. rewrite (find_none _ _ E c Hin) in Hc. discriminate.
Qed.

(* ================================================================== declarative reading of binds *)
(* PEP 3102 / PEP 570 binding stated per argument and per parameter, by POSITION among the positional
   parameters (`pos`), the way the language reference describes it:
   1. no surplus positional argument unless *args;
   2. a keyword never names a positional-or-keyword parameter that already got a positional argument
      ("multiple values", even with **kwargs); it names a positional-or-keyword parameter beyond the
      positional arguments, or a keyword-only parameter, or is collected by **kwargs (which includes
      names of positional-only parameters);
   3. every positional parameter without default is given positionally, or (unless positional-only) by keyword;
   4. every keyword-only parameter without default is given by keyword. *)
Definition Binds (sig : list param) (c : call) : Prop :=
  let n := c_npos c in let K := c_kws c in let pos := positional sig in
  (n <= length pos \/ has_varpos sig = true) /\
  (forall k, In k K ->
     (forall i p, i < n -> nth_error pos i = Some p -> p_kind p = PosOrKw -> p_name p <> k) /\
     ((exists i p, n <= i /\ nth_error pos i = Some p /\ p_kind p = PosOrKw /\ p_name p = k)
      \/ (exists p, In p sig /\ p_kind p = KwOnly /\ p_name p = k)
      \/ has_varkw sig = true)) /\
  (forall i p, nth_error pos i = Some p -> p_default p = false ->
     i < n \/ (p_kind p = PosOrKw /\ In (p_name p) K)) /\
  (forall p, In p sig -> p_kind p = KwOnly -> p_default p = false -> In (p_name p) K).

Lemma kind_eqb_eq a b : kind_eqb a b = true <-> a = b.
Proof. destruct a, b; simpl; split; intro H; try reflexivity; try discriminate. Qed.

Lemma In_firstn_nth {A} (x : A) n l :
  In x (firstn n l) <-> exists i, i < n /\ nth_error l i = Some x.
Proof.
  revert l. induction n as [|n IH]; intro l.
  - simpl. split; [tauto|]. intros [i [Hi _]]. lia.
  - destruct l as [|a l]; simpl.
    + split; [tauto|]. intros [i [_ Hi]]. destruct i; discriminate.
    + rewrite IH. split.
      * intros [->|[i [Hi Hn]]]; [exists 0; split; [lia|reflexivity]|].
        exists (S i). split; [lia|exact Hn].
      * intros [[|i] [Hi Hn]]; simpl in Hn.
        -- left. congruence.
        -- right. exists i. split; [lia|exact Hn].
Qed.

Lemma In_skipn_nth {A} (x : A) n l :
  In x (skipn n l) <-> exists i, n <= i /\ nth_error l i = Some x.
Proof.
  revert l. induction n as [|n IH]; intro l.
  - simpl. split.
    + intro H. apply In_nth_error in H. destruct H as [i Hi]. exists i. split; [lia|exact Hi].
    + intros [i [_ Hi]]. eapply nth_error_In; eauto.
  - destruct l as [|a l]; simpl.
    + split; [tauto|]. intros [i [_ Hi]]. destruct i; discriminate.
    + rewrite IH. split.
      * intros [i [Hi Hn]]. exists (S i). split; [lia|exact Hn].
      * intros [[|i] [Hi Hn]]; [lia|]. exists i. split; [lia|exact Hn].
Qed.

Lemma positional_kind sig p : In p (positional sig) -> p_kind p = PosOnly \/ p_kind p = PosOrKw.
Proof.
  unfold positional. intro H. apply filter_In in H. destruct H as [_ H].
  unfold is_positional, is_kind in H. apply orb_true_iff in H.
  destruct H as [H|H]; apply kind_eqb_eq in H; auto.
Qed.

Lemma kw_fillable_cases sig n p :
  In p (kw_fillable sig n) <->
  (exists i, n <= i /\ nth_error (positional sig) i = Some p /\ p_kind p = PosOrKw)
  \/ (In p sig /\ p_kind p = KwOnly).
Proof.
  unfold kw_fillable, kwonly, pos_open. rewrite in_app_iff, !filter_In, In_skipn_nth.
  unfold is_kind. rewrite !kind_eqb_eq. split.
  - intros [[[i [Hi Hn]] Hk]|H]; [left; exists i; auto|right; exact H].
  - intros [[i (Hi & Hn & Hk)]|H]; [left; split; [exists i; auto|exact Hk]|right; exact H].
Qed.

Theorem binds_spec sig c : binds sig c = true <-> Binds sig c.
Proof.
  destruct c as [n K]. rewrite binds_true_iff. unfold Binds; simpl. split.
  - intros (Ha & Hu & Hk & Hr). split; [|split; [|split]].
    + unfold arity_ok in Ha. apply orb_true_iff in Ha. destruct Ha as [Ha|Ha]; auto.
      left. now apply Nat.leb_le.
    + intros k Hin. specialize (Hk k Hin). unfold kw_ok in Hk.
      apply andb_true_iff in Hk. destruct Hk as [Hd Ht]. apply negb_true_iff, mem_false in Hd. split.
      * intros i p Hi Hn Hkd Hnm. apply Hd. unfold dup_names, names. apply in_map_iff.
        exists p. split; auto. apply filter_In. split.
        -- unfold pos_filled. apply In_firstn_nth. exists i. auto.
        -- unfold is_kind. now apply kind_eqb_eq.
      * apply orb_true_iff in Ht. destruct Ht as [Ht|Ht]; auto.
        apply mem_In in Ht. unfold kw_targets, names in Ht. apply in_map_iff in Ht.
        destruct Ht as [p [Hn Hp]]. apply kw_fillable_cases in Hp.
        destruct Hp as [[i (Hi & Hnth & Hkd)]|[Hs Hkd]].
        -- left. exists i, p. auto.
        -- right. left. exists p. auto.
    + intros i p Hnth Hdef. destruct (Nat.lt_ge_cases i n) as [Hlt|Hge]; [left; exact Hlt|right].
      assert (Hin : In p (positional sig)) by (eapply nth_error_In; eauto).
      destruct (positional_kind sig p Hin) as [Hkd|Hkd].
      * exfalso. unfold unfillable in Hu. apply not_true_iff_false in Hu. apply Hu.
        apply existsb_exists. exists p. split.
        -- unfold pos_open. apply In_skipn_nth. exists i. auto.
        -- unfold is_kind. rewrite Hkd, Hdef. reflexivity.
      * split; auto. apply Hr. unfold required, names. apply in_map_iff. exists p. split; auto.
        apply filter_In. split; [|now rewrite Hdef].
        apply kw_fillable_cases. left. exists i. auto.
    + intros p Hs Hkd Hdef. apply Hr. unfold required, names. apply in_map_iff. exists p. split; auto.
      apply filter_In. split; [|now rewrite Hdef]. apply kw_fillable_cases. right. auto.
  - intros (Ha & Hk & Hp & Hko). repeat split.
    + unfold arity_ok. apply orb_true_iff. destruct Ha as [Ha|Ha]; auto. left. now apply Nat.leb_le.
    + unfold unfillable. apply not_true_iff_false. intro Hex. apply existsb_exists in Hex.
      destruct Hex as [p [Hin Hc]]. apply andb_true_iff in Hc. destruct Hc as [Hkd Hdef].
      unfold is_kind in Hkd. apply kind_eqb_eq in Hkd. apply negb_true_iff in Hdef.
      unfold pos_open in Hin. apply In_skipn_nth in Hin. destruct Hin as [i [Hi Hnth]].
      destruct (Hp i p Hnth Hdef) as [Hlt|[Hc _]]; [lia|congruence].
    + intros k Hin. destruct (Hk k Hin) as [Hnd Hok]. unfold kw_ok. apply andb_true_iff. split.
      * apply negb_true_iff, mem_false. intro Hd. unfold dup_names, names in Hd.
        apply in_map_iff in Hd. destruct Hd as [p [Hn Hf]]. apply filter_In in Hf. destruct Hf as [Hf Hkd].
        unfold is_kind in Hkd. apply kind_eqb_eq in Hkd.
        unfold pos_filled in Hf. apply In_firstn_nth in Hf. destruct Hf as [i [Hi Hnth]].
        exact (Hnd i p Hi Hnth Hkd Hn).
      * apply orb_true_iff. destruct Hok as [[i [p (Hi & Hnth & Hkd & Hn)]]|[[p (Hs & Hkd & Hn)]|Hv]]; auto; left;
          apply mem_In; unfold kw_targets, names; apply in_map_iff; exists p; split; auto;
          apply kw_fillable_cases; [left; exists i; auto|right; auto].
    + intros r Hr. unfold required, names in Hr. apply in_map_iff in Hr. destruct Hr as [p [Hn Hf]].
      apply filter_In in Hf. destruct Hf as [Hf Hdef]. apply negb_true_iff in Hdef. subst r.
      apply kw_fillable_cases in Hf. destruct Hf as [[i (Hi & Hnth & Hkd)]|[Hs Hkd]].
      * destruct (Hp i p Hnth Hdef) as [Hlt|[_ HK]]; [lia|exact HK].
      * exact (Hko p Hs Hkd Hdef).
Qed.

(* ================================================================== the call-signature adapter *)
(* Model of jax2onnx.plugins._patching.plan_call: how a call reaches a substitute w installed for an
   original o.  Values are abstracted by one oracle: dflt a = "the value given for the original's parameter a
   is that parameter's default".  The harness compares this model with the real plan_call on random call
   forms over the real signature pairs (tie), so the theorems below speak about the installed adapter. *)
Inductive plan :=
| Direct                                   (* the substitute binds the call itself: passed on unchanged *)
| Foreign                                  (* not a call form of the original either: the substitute's own TypeError *)
| Routed (c' : call) (dropped : list string)  (* re-routed by name; `dropped` arguments are not delivered *)
| Original.                                (* an argument cannot be delivered: the original is called instead *)

Definition named (sig : list param) : list param :=
  filter (fun p => negb (is_kind VarPos p || is_kind VarKw p)) sig.
Definition find_param (a : string) (l : list param) : option param :=
  find (fun p => String.eqb (p_name p) a) l.
Fixpoint index_of (a : string) (l : list param) : option nat :=
  match l with
  | [] => None
  | p :: r => if String.eqb (p_name p) a then Some 0 else option_map S (index_of a r)
  end.
(* a positional parameter that only changed its name keeps its position *)
Definition renamed (w o : list param) (a : string) : option string :=
  match index_of a (positional o) with
  | Some i =>
      match nth_error (positional w) i with
      | Some q => if negb (mem a (names (named w))) && negb (mem (p_name q) (names (named o)))
                  then Some (p_name q) else None
      | None => None
      end
  | None => None
  end.

Inductive dest := ToParam (b : string) | ToVarKw (k : string) | Dropped (a : string) | Undeliverable.

(* an argument given for the original's declared parameter a *)
Definition dest_named (w o : list param) (dflt : string -> bool) (a : string) : dest :=
  if mem a (names (named w)) then ToParam a
  else match renamed w o a with
       | Some b => ToParam b
       | None =>
           let posonly := match find_param a o with Some p => is_kind PosOnly p | None => false end in
           if has_varkw w && negb posonly then ToVarKw a
           else if dflt a then Dropped a else Undeliverable
       end.
(* a keyword collected by the original's **kwargs *)
Definition dest_extra (w : list param) (k : string) : dest :=
  match find_param k (named w) with
  | Some p => if is_kind PosOnly p then (if has_varkw w then ToVarKw k else Undeliverable) else ToParam k
  | None => if has_varkw w then ToVarKw k else Undeliverable
  end.

Definition route (w o : list param) (dflt : string -> bool) (c : call) : plan :=
  let n := c_npos c in
  let given_pos := names (pos_filled o n) in
  let extras := n - length (positional o) in
  let k_named := filter (fun k => mem k (kw_targets o n)) (c_kws c) in
  let k_extra := filter (fun k => negb (mem k (kw_targets o n))) (c_kws c) in
  let dests := map (dest_named w o dflt) (given_pos ++ k_named) ++ map (dest_extra w) k_extra in
  if existsb (fun d => match d with Undeliverable => true | _ => false end) dests then Original else
  let vals := flat_map (fun d => match d with ToParam b => [b] | _ => [] end) dests in
  let xkw := flat_map (fun d => match d with ToVarKw k => [k] | _ => [] end) dests in
  let dropped := flat_map (fun d => match d with Dropped a => [a] | _ => [] end) dests in
  if negb (nodupb vals) || negb (nodupb xkw) || existsb (fun k => mem k vals) xkw then Original else
  if Nat.ltb 0 extras && negb (has_varpos w) then Original else
  (* longest prefix of the substitute's positional parameters that all have a value *)
  let fix prefix (l : list param) : nat :=
      match l with [] => 0 | p :: r => if mem (p_name p) vals then S (prefix r) else 0 end in
  let k := prefix (positional w) in
  let rest := filter (fun p => mem (p_name p) vals) (skipn k (positional w)) in
  if existsb (is_kind PosOnly) rest then Original else
  if Nat.ltb 0 extras && Nat.ltb k (length (positional w)) then Original else
  let kws' := names rest ++ names (filter (fun p => mem (p_name p) vals) (kwonly w)) ++ xkw in
  let c' := {| c_npos := k + extras; c_kws := kws' |} in
  if negb (nodupb kws') then Original else
  if negb (Nat.eqb (c_npos c' + length kws' + length dropped) (n + length (c_kws c))) then Original else
  if binds w c' then Routed c' dropped else Original.

Definition adapter (w o : list param) (dflt : string -> bool) (c : call) : plan :=
  if binds w c then Direct
  else if negb (binds o c) then Foreign
  else route w o dflt c.

(* 1. a call the substitute accepts today is passed on unchanged *)
Theorem adapter_conservative w o dflt c : binds w c = true -> adapter w o dflt c = Direct.
Proof. unfold adapter. now intros ->. Qed.

(* 2. every call form of the original is handled: never the substitute's binding error *)
Theorem adapter_accepts w o dflt c : binds o c = true -> adapter w o dflt c <> Foreign.
Proof.
  unfold adapter, route. intro H. destruct (binds w c); [discriminate|]. rewrite H. simpl.
  repeat match goal with |- context [if ?b then _ else _] => destruct b end; discriminate.
Qed.

Theorem adapter_foreign w o dflt c :
  adapter w o dflt c = Foreign -> binds o c = false /\ binds w c = false.
Proof.
  intro H. destruct (binds o c) eqn:Eo.
  - exfalso. eapply adapter_accepts; eauto.
  - split; [reflexivity|]. destruct (binds w c) eqn:Ew; [|reflexivity].
    rewrite (adapter_conservative w o dflt c Ew) in H. discriminate.
Qed.

Lemma route_routed w o dflt c c' d :
  route w o dflt c = Routed c' d ->
  binds w c' = true /\ NoDup (c_kws c') /\
  c_npos c' + length (c_kws c') + length d = c_npos c + length (c_kws c) /\
  (forall a, In a d -> dflt a = true).
Proof.
  unfold route.
  repeat match goal with
  | |- context [if ?b then _ else _] => let E := fresh "E" in destruct b eqn:E; try discriminate
  end.
  intro H. injection H as <- <-. simpl.
  split; [assumption|]. split.
  - match goal with E : negb (nodupb ?l) = false |- NoDup ?l =>
      apply negb_false_iff in E; revert E; generalize l end.
    induction l as [|x l IH]; simpl; intro Hn; [constructor|].
    apply andb_true_iff in Hn. destruct Hn as [Hx Hl]. constructor; [|auto].
    apply negb_true_iff, mem_false in Hx. exact Hx.
  - split.
    + match goal with E : negb (Nat.eqb _ _) = false |- _ =>
        apply negb_false_iff, Nat.eqb_eq in E; simpl in E; exact E end.
    + intros a Ha. apply in_flat_map in Ha. destruct Ha as [dd [Hin Hd]].
      destruct dd; simpl in Hd; try tauto. destruct Hd as [<-|[]].
      apply in_app_or in Hin. destruct Hin as [Hin|Hin]; apply in_map_iff in Hin; destruct Hin as [x [Hx _]].
      * unfold dest_named in Hx.
        destruct (mem x (names (named w))); [discriminate|].
        destruct (renamed w o x); [discriminate|].
        destruct (has_varkw w && negb _); [discriminate|].
        destruct (dflt x) eqn:Ed; [|discriminate]. now injection Hx as <-.
      * unfold dest_extra in Hx. destruct (find_param x (named w)) as [p|].
        -- destruct (is_kind PosOnly p); [destruct (has_varkw w)|]; discriminate.
        -- destruct (has_varkw w); discriminate.
Qed.

(* 3. a re-routed call: the substitute receives a legal call form it accepts; every argument is delivered
      exactly once or dropped; an argument is dropped only when its value is the original's default *)
Theorem adapter_routed w o dflt c c' d :
  adapter w o dflt c = Routed c' d ->
  binds o c = true /\ binds w c = false /\ binds w c' = true /\ NoDup (c_kws c') /\
  c_npos c' + length (c_kws c') + length d = c_npos c + length (c_kws c) /\
  (forall a, In a d -> dflt a = true).
Proof.
  unfold adapter. destruct (binds w c) eqn:Ew; [discriminate|].
  destruct (binds o c) eqn:Eo; simpl; [|discriminate]. intro H.
  split; [reflexivity|]. split; [reflexivity|]. eapply route_routed; eauto.
Qed.

(* 4. with the adapter installed no call form of the original fails at binding *)
Corollary adapter_total w o dflt c :
  binds o c = true ->
  adapter w o dflt c = Direct \/ adapter w o dflt c = Original \/ exists c' d, adapter w o dflt c = Routed c' d.
Proof.
  intro H. pose proof (adapter_accepts w o dflt c H) as Hf.
  destruct (adapter w o dflt c) as [| |c' d|]; auto; [tauto|]. right. right. eauto.
Qed.

(* ================================================================== non-vacuity / sanity examples *)
Local Open Scope string_scope.
Definition P (n : string) (k : kind) (d : bool) : param := {| p_name := n; p_kind := k; p_default := d |}.
Definition C (n : nat) (K : list string) : call := {| c_npos := n; c_kws := K |}.

(* def f(a, b=0, /, c=0, *args, d, e=0, **kw) *)
Definition ex_full : list param :=
  [P "a" PosOnly false; P "b" PosOnly true; P "c" PosOrKw true; P "args" VarPos false;
   P "d" KwOnly false; P "e" KwOnly true; P "kw" VarKw false].
Example ex_wf : wf_sig ex_full. Proof. reflexivity. Qed.
Example ex_b1 : binds ex_full (C 1 ["d"]) = true. Proof. reflexivity. Qed.
Example ex_b2 : binds ex_full (C 7 ["d"; "zzz"]) = true. Proof. reflexivity. Qed.
Example ex_b3 : binds ex_full (C 0 ["d"]) = false. Proof. reflexivity. Qed.           (* missing a *)
Example ex_b4 : binds ex_full (C 1 []) = false. Proof. reflexivity. Qed.               (* missing d *)
Example ex_b5 : binds ex_full (C 3 ["c"; "d"]) = false. Proof. reflexivity. Qed.       (* multiple values for c *)
Example ex_b6 : binds ex_full (C 2 ["c"; "d"]) = true. Proof. reflexivity. Qed.
Example ex_b7 : binds ex_full (C 1 ["a"; "d"]) = true. Proof. reflexivity. Qed.        (* a goes to **kw (PEP 570) *)
Example ex_b8 : binds ex_full (C 0 ["a"; "d"]) = false. Proof. reflexivity. Qed.       (* a still missing *)

(* def g(x, y=None): no *args / **kwargs *)
Definition ex_g : list param := [P "x" PosOrKw false; P "y" PosOrKw true].
Example ex_g1 : binds ex_g (C 3 []) = false. Proof. reflexivity. Qed.                  (* too many positionals *)
Example ex_g2 : binds ex_g (C 1 ["x"]) = false. Proof. reflexivity. Qed.               (* multiple values *)
Example ex_g3 : binds ex_g (C 1 ["q"]) = false. Proof. reflexivity. Qed.               (* unexpected keyword *)
Example ex_g4 : binds ex_g (C 0 ["y"; "x"]) = true. Proof. reflexivity. Qed.

(* jnp.where(condition, x=None, y=None, /, *, size=None, fill_value=None) vs its substitute
   (condition, x=None, y=None): the original accepts where(c, size=..), the substitute does not *)
Definition ex_where_o : list param :=
  [P "condition" PosOnly false; P "x" PosOnly true; P "y" PosOnly true; P "size" KwOnly true; P "fill_value" KwOnly true].
Definition ex_where_w : list param := [P "condition" PosOrKw false; P "x" PosOrKw true; P "y" PosOrKw true].
Example ex_where_no : sig_subsumes ex_where_w ex_where_o = false. Proof. reflexivity. Qed.
Example ex_where_wit : subsumes_witness ex_where_w ex_where_o = Some (C 1 ["size"]). Proof. reflexivity. Qed.
(* a generic forwarding substitute `def w( *args, **kwargs )` subsumes everything *)
Definition ex_star : list param := [P "args" VarPos false; P "kwargs" VarKw false].
Example ex_star_yes : sig_subsumes ex_star ex_full = true. Proof. reflexivity. Qed.
Lemma star_subsumes_all o : sig_subsumes ex_star o = true.
Proof.
  apply subsumes_iff. intros [n K] _. apply binds_true_iff.
  unfold arity_ok, unfillable, kw_ok, required, dup_names, kw_targets, kw_fillable, pos_filled, pos_open.
  change (positional ex_star) with (@nil param).
  rewrite firstn_nil, skipn_nil. simpl. rewrite orb_true_r. repeat split; auto. tauto.
Qed.
(* making a positional-only parameter also nameable is harmless; renaming a nameable one is not *)
Example ex_posonly_relaxed : sig_subsumes [P "x" PosOrKw false] [P "x" PosOnly false] = true. Proof. reflexivity. Qed.
Example ex_posonly_renamed : sig_subsumes [P "y" PosOrKw false] [P "x" PosOnly false] = true. Proof. reflexivity. Qed.
Example ex_renamed : subsumes_witness [P "a" PosOrKw false] [P "A" PosOrKw false] = Some (C 0 ["A"]). Proof. reflexivity. Qed.
(* a parameter that became keyword-only: positional use breaks *)
Example ex_kwonly : subsumes_witness [P "x" PosOrKw false; P "k" KwOnly true] [P "x" PosOrKw false; P "k" PosOrKw true]
                    = Some (C 2 []). Proof. reflexivity. Qed.
(* an unknown keyword accepted through **kwargs of the original only *)
Example ex_varkw : subsumes_witness [P "x" PosOrKw false] [P "x" PosOrKw false; P "kw" VarKw false]
                   = Some (C 0 ["kw"; "x"]). Proof. reflexivity. Qed.
(* reflexivity of subsumption on a signature using every kind *)
Example ex_refl : sig_subsumes ex_full ex_full = true. Proof. reflexivity. Qed.

(* adapter: a renamed positional parameter given by keyword; an optional keyword the substitute lacks *)
Definition ex_lin_o : list param := [P "inputs" PosOrKw false; P "out_sharding" PosOrKw true].
Definition ex_lin_w : list param := [P "x" PosOrKw false].
Example ex_ad1 : adapter ex_lin_w ex_lin_o (fun _ => true) (C 0 ["inputs"]) = Routed (C 1 []) []. Proof. reflexivity. Qed.
Example ex_ad2 : adapter ex_lin_w ex_lin_o (fun _ => true) (C 1 ["out_sharding"]) = Routed (C 1 []) ["out_sharding"]. Proof. reflexivity. Qed.
Example ex_ad3 : adapter ex_lin_w ex_lin_o (fun _ => false) (C 1 ["out_sharding"]) = Original. Proof. reflexivity. Qed.
Example ex_ad4 : adapter ex_lin_w ex_lin_o (fun _ => false) (C 1 []) = Direct. Proof. reflexivity. Qed.
Example ex_ad5 : adapter ex_lin_w ex_lin_o (fun _ => false) (C 3 []) = Foreign. Proof. reflexivity. Qed.
(* positional argument for a parameter the substitute made keyword-only *)
Example ex_ad6 : adapter [P "x" PosOrKw false; P "k" KwOnly true] [P "x" PosOrKw false; P "k" PosOrKw true]
                   (fun _ => false) (C 2 []) = Routed (C 1 ["k"]) []. Proof. reflexivity. Qed.
