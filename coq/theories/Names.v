(* Names (property C03, producer side): the naming discipline of the converter, over gen/GenNames.v =
   the string-building expressions TRANSLATED from the current /repo
     IRContext.fresh_name  (counter family _name_counters):  base ++ sep ++ str(i), sep = "" when base ends in "_" or "/"
     IRBuilder.fresh_name  (counter family _counters):       base ++ "_" ++ str(i)
     make_subgraph_context wrappers:                          _orig(pref ++ "/" ++ base), pref = parent_ctx.fresh_name(prefix)
   Results:
     - the builder family is injective in (base, counter) unconditionally;
     - the context family is NOT (bases "b" and "b_" collide; refuted by computation); it is injective exactly up to
       that clash, hence injective on every set of bases without such a pair;
     - the two families are independent, so ctx.fresh_name("X") and ctx.builder.fresh_name("X") collide (refuted);
       jointly injective when no context base equals a builder base or a builder base followed by "_";
     - names issued in nested body contexts: for "/"-free, clash-free bases the map (scope path, base, counter) -> name
       is injective for every nesting depth, hence names of a body are disjoint from the parent's, the siblings'
       and every other scope's. *)
From Coq Require Import String Ascii List Bool Arith Lia DecimalString DecimalNat Decimal.
From J2O Require Import PyLib.
From J2OGen Require Import GenNames.
Import ListNotations.
Local Open Scope string_scope.
Local Open Scope list_scope.

Notation "a +++ b" := (String.append a b) (at level 60, right associativity).

(* ------------------------------------------------------------------ strings *)
Lemma sapp_assoc a b c : (a +++ b) +++ c = a +++ (b +++ c).
Proof. induction a as [|x a IH]; cbn; [reflexivity|]. now rewrite IH. Qed.

Lemma sapp_nil_r a : a +++ "" = a.
Proof. induction a as [|x a IH]; cbn; [reflexivity|]. now rewrite IH. Qed.

Lemma str_all_app P a b : str_all P (a +++ b) = str_all P a && str_all P b.
Proof. induction a as [|x a IH]; cbn; [reflexivity|]. rewrite IH. now rewrite andb_assoc. Qed.

(* a string has at most one decomposition  s ++ [c] ++ t  with c violating P and t satisfying P everywhere *)
Lemma split_unique (P : ascii -> bool) : forall s1 s2 c1 c2 t1 t2,
  P c1 = false -> P c2 = false -> str_all P t1 = true -> str_all P t2 = true ->
  s1 +++ String c1 t1 = s2 +++ String c2 t2 -> s1 = s2 /\ c1 = c2 /\ t1 = t2.
Proof.
  induction s1 as [|a s1 IH]; intros s2 c1 c2 t1 t2 H1 H2 Ht1 Ht2 E; destruct s2 as [|b s2]; cbn in E.
  - injection E as -> ->. auto.
  - injection E as -> ->. rewrite str_all_app in Ht1. cbn in Ht1. rewrite H2 in Ht1.
    rewrite andb_false_r in Ht1. discriminate.
  - injection E as <- <-. rewrite str_all_app in Ht2. cbn in Ht2. rewrite H1 in Ht2.
    rewrite andb_false_r in Ht2. discriminate.
  - injection E as -> E. destruct (IH _ _ _ _ _ H1 H2 Ht1 Ht2 E) as (-> & -> & ->). auto.
Qed.

Lemma str_last_spec s c : str_last s = Some c <-> exists p, s = p +++ String c "".
Proof.
  induction s as [|a s IH]; cbn.
  - split; [discriminate|]. intros [p Hp]. destruct p; discriminate.
  - destruct s as [|b s].
    + split.
      * intro H. injection H as ->. now exists "".
      * intros [p Hp]. destruct p as [|x p]; cbn in Hp.
        -- now injection Hp as ->.
        -- injection Hp as _ Hp. destruct p; discriminate.
    + rewrite IH. split.
      * intros [p Hp]. exists (String a p). cbn. now rewrite Hp.
      * intros [p Hp]. destruct p as [|x p]; cbn in Hp; [discriminate|].
        injection Hp as _ Hp. now exists p.
Qed.

Lemma endswith_char_spec s c : str_endswith_char s c = true <-> exists p, s = p +++ String c "".
Proof.
  unfold str_endswith_char. rewrite <- str_last_spec. destruct (str_last s) as [d|].
  - split.
    + intro H. apply Ascii.eqb_eq in H. now subst.
    + intro H. injection H as ->. apply Ascii.eqb_refl.
  - split; discriminate.
Qed.

(* ------------------------------------------------------------------ decimal numerals *)
Lemma uint_digits d : str_all is_digit (NilEmpty.string_of_uint d) = true.
Proof. induction d; cbn; auto. Qed.

Lemma str_of_nat_digits n : str_all is_digit (py_str_of_nat n) = true.
Proof. apply uint_digits. Qed.

Lemma str_of_nat_inj n1 n2 : py_str_of_nat n1 = py_str_of_nat n2 -> n1 = n2.
Proof.
  unfold py_str_of_nat. intro H. apply (f_equal NilEmpty.uint_of_string) in H.
  rewrite !NilEmpty.usu in H. injection H as H. apply (f_equal Nat.of_uint) in H.
  now rewrite !Unsigned.of_to in H.
Qed.

(* ------------------------------------------------------------------ the two string builders *)
Definition ends_sep (b : string) : bool := str_endswith_char b "_"%char || str_endswith_char b "/"%char.

(* bases that can produce the same context name although they differ *)
Definition clash (b1 b2 : string) : Prop := b1 = b2 +++ "_" /\ ends_sep b2 = false.

Lemma ctx_decomp base i : exists s c,
  ctx_fresh_string base i = s +++ String c (py_str_of_nat i) /\ is_digit c = false /\
  ((base = s /\ c = "_"%char /\ ends_sep base = false) \/ base = s +++ String c "").
Proof.
  unfold ctx_fresh_string. fold (ends_sep base). destruct (ends_sep base) eqn:E.
  - unfold ends_sep in E. apply orb_prop in E as [E|E]; apply endswith_char_spec in E as [p ->].
    + exists p, "_"%char. rewrite sapp_assoc. cbn. auto 10.
    + exists p, "/"%char. rewrite sapp_assoc. cbn. auto 10.
  - exists base, "_"%char. cbn. auto 10.
Qed.

Theorem ctx_string_inj b1 i1 b2 i2 :
  ctx_fresh_string b1 i1 = ctx_fresh_string b2 i2 -> i1 = i2 /\ (b1 = b2 \/ clash b1 b2 \/ clash b2 b1).
Proof.
  intro E. destruct (ctx_decomp b1 i1) as (s1 & c1 & E1 & D1 & C1).
  destruct (ctx_decomp b2 i2) as (s2 & c2 & E2 & D2 & C2).
  rewrite E1, E2 in E.
  destruct (split_unique is_digit _ _ _ _ _ _ D1 D2 (str_of_nat_digits i1) (str_of_nat_digits i2) E) as (-> & -> & Hd).
  split; [now apply str_of_nat_inj|].
  destruct C1 as [(-> & -> & N1)| -> ].
  - destruct C2 as [(-> & _ & N2)| -> ]; [auto|].
    right; right. split; auto.
  - destruct C2 as [(-> & -> & N2)| -> ]; [|auto].
    right; left. split; auto.
Qed.

Theorem bld_string_inj b1 i1 b2 i2 :
  bld_fresh_string b1 i1 = bld_fresh_string b2 i2 -> b1 = b2 /\ i1 = i2.
Proof.
  unfold bld_fresh_string. cbn. intro E.
  destruct (split_unique is_digit b1 b2 "_"%char "_"%char _ _ eq_refl eq_refl
              (str_of_nat_digits i1) (str_of_nat_digits i2) E) as (-> & _ & Hd).
  split; [reflexivity | now apply str_of_nat_inj].
Qed.

Theorem cross_string_inj bc ic bb ib :
  ctx_fresh_string bc ic = bld_fresh_string bb ib -> ic = ib /\ (bc = bb \/ bc = bb +++ "_").
Proof.
  intro E. destruct (ctx_decomp bc ic) as (s & c & E1 & D & C). rewrite E1 in E.
  unfold bld_fresh_string in E. cbn in E.
  destruct (split_unique is_digit s bb c "_"%char _ _ D eq_refl (str_of_nat_digits ic) (str_of_nat_digits ib) E) as (-> & -> & Hd).
  split; [now apply str_of_nat_inj|]. destruct C as [(-> & _)| -> ]; auto.
Qed.

(* ------------------------------------------------------------------ the counters: a family of fresh_name calls *)
Definition counters := list (string * nat).
Fixpoint cget (c : counters) (b : string) (dflt : nat) : nat :=
  match c with [] => dflt | (k, v) :: r => if String.eqb k b then v else cget r b dflt end.
Definition cset (c : counters) (b : string) (v : nat) : counters := (b, v) :: c.

Lemma cget_cset c b v b' d : cget (cset c b v) b' d = if String.eqb b b' then v else cget c b' d.
Proof. reflexivity. Qed.

Section Family.
  Variable str : string -> nat -> string.
  Variable init : nat.
  Variable next : nat -> nat.
  Hypothesis next_gt : forall i, i < next i.
  Variable Clash : string -> string -> Prop.
  Hypothesis str_inj : forall b1 i1 b2 i2,
    str b1 i1 = str b2 i2 -> i1 = i2 /\ (b1 = b2 \/ Clash b1 b2 \/ Clash b2 b1).

  (* i = self.C.get(base, init); self.C[base] = next i; return str base i *)
  Definition fresh (c : counters) (b : string) : string * counters :=
    let i := cget c b init in (str b i, cset c b (next i)).

  Fixpoint run (c : counters) (bs : list string) : list string * counters :=
    match bs with
    | [] => ([], c)
    | b :: r => let nc := fresh c b in let rc := run (snd nc) r in (fst nc :: fst rc, snd rc)
    end.

  Lemma run_issued : forall bs c n, In n (fst (run c bs)) ->
    exists b i, In b bs /\ n = str b i /\ cget c b init <= i.
  Proof.
    induction bs as [|b r IH]; intros c n H; cbn in H; [destruct H|].
    destruct H as [<-|H].
    - exists b, (cget c b init). split; [now left|]. split; [reflexivity|lia].
    - destruct (IH _ _ H) as (b' & i & Hb & -> & Hi). exists b', i. split; [now right|]. split; [reflexivity|].
      rewrite cget_cset in Hi. destruct (String.eqb b b') eqn:E; [|exact Hi].
      apply String.eqb_eq in E. subst. pose proof (next_gt (cget c b' init)). lia.
  Qed.

  (* two calls on one counter family never return the same string, PROVIDED no two of the bases clash *)
  Theorem run_NoDup : forall bs c,
    (forall b1 b2, In b1 bs -> In b2 bs -> ~ Clash b1 b2) -> NoDup (fst (run c bs)).
  Proof.
    induction bs as [|b r IH]; intros c Hok; cbn; constructor.
    - intro Hin. destruct (run_issued _ _ _ Hin) as (b' & i & Hb & E & Hi).
      destruct (str_inj _ _ _ _ E) as [<- [<-|[Hc|Hc]]].
      + rewrite cget_cset, String.eqb_refl in Hi. pose proof (next_gt (cget c b init)). lia.
      + apply (Hok b b'); [now left | now right | exact Hc].
      + apply (Hok b' b); [now right | now left | exact Hc].
    - apply IH. intros b1 b2 H1 H2. apply Hok; now right.
  Qed.
End Family.

Definition ctx_fresh := fresh ctx_fresh_string ctx_counter_init ctx_counter_next.
Definition ctx_run := run ctx_fresh_string ctx_counter_init ctx_counter_next.
Definition bld_fresh := fresh bld_fresh_string bld_counter_init bld_counter_next.
Definition bld_run := run bld_fresh_string bld_counter_init bld_counter_next.

Lemma ctx_next_gt i : i < ctx_counter_next i. Proof. unfold ctx_counter_next. lia. Qed.
Lemma bld_next_gt i : i < bld_counter_next i. Proof. unfold bld_counter_next. lia. Qed.

Definition no_clash (bs : list string) : Prop := forall b1 b2, In b1 bs -> In b2 bs -> ~ clash b1 b2.

(* the statement at full strength is false of the current code: *)
Theorem ctx_fresh_name_injective_refuted :
  exists b1 b2 n, b1 <> b2 /\ fst (ctx_run [] [b1; b2]) = [n; n].
Proof. exists "b", "b_", "b_0". split; [discriminate | vm_compute; reflexivity]. Qed.

(* ... and true under the exact side condition *)
Theorem ctx_fresh_name_injective bs c : no_clash bs -> NoDup (fst (ctx_run c bs)).
Proof.
  intro H. unfold ctx_run. apply run_NoDup with (Clash := clash); auto using ctx_next_gt, ctx_string_inj.
Qed.

(* the side condition is exact: whenever two bases clash, the two calls do return the same string *)
Theorem ctx_clash_collides b1 b2 : clash b1 b2 -> forall i, ctx_fresh_string b1 i = ctx_fresh_string b2 i.
Proof.
  intros [-> N] i. unfold ctx_fresh_string. fold (ends_sep b2). rewrite N.
  assert (E : (str_endswith_char (b2 +++ "_") "_"%char || str_endswith_char (b2 +++ "_") "/"%char) = true).
  { apply orb_true_intro. left. apply endswith_char_spec. now exists b2. }
  rewrite E. cbn. now rewrite sapp_assoc.
Qed.

Theorem bld_fresh_name_injective bs c : NoDup (fst (bld_run c bs)).
Proof.
  unfold bld_run. apply run_NoDup with (Clash := fun _ _ => False); auto using bld_next_gt.
  intros b1 i1 b2 i2 E. destruct (bld_string_inj _ _ _ _ E) as [-> ->]. auto.
Qed.

(* the two counter families are independent *)
Theorem two_families_collide_refuted :
  exists b, fst (ctx_fresh [] b) = fst (bld_fresh [] b).
Proof. exists "X". vm_compute. reflexivity. Qed.

Definition cross_ok (cbs bbs : list string) : Prop :=
  forall c b, In c cbs -> In b bbs -> c <> b /\ c <> b +++ "_".

Lemma NoDup_app_intro {A} (l1 l2 : list A) :
  NoDup l1 -> NoDup l2 -> (forall x, In x l1 -> ~ In x l2) -> NoDup (l1 ++ l2).
Proof.
  induction l1 as [|a r IH]; intros H1 H2 Hd; cbn; [exact H2|].
  inversion H1; subst. constructor.
  - intro Hc. apply in_app_or in Hc as [Hc|Hc]; [contradiction|]. apply (Hd a); [now left|exact Hc].
  - apply IH; auto. intros x Hx. apply Hd. now right.
Qed.

(* all names issued by one context (its own family, fed the bases cbs, and its builder's family, fed bbs; the
   families do not share state, so the interleaving of the calls is irrelevant) are pairwise distinct *)
Theorem fresh_name_injective cbs bbs cc cb :
  no_clash cbs -> cross_ok cbs bbs -> NoDup (fst (ctx_run cc cbs) ++ fst (bld_run cb bbs)).
Proof.
  intros H1 H2. apply NoDup_app_intro.
  - now apply ctx_fresh_name_injective.
  - apply bld_fresh_name_injective.
  - intros n Hc Hb.
    destruct (run_issued _ _ _ ctx_next_gt _ _ _ Hc) as (c & i & Hcin & -> & _).
    destruct (run_issued _ _ _ bld_next_gt _ _ _ Hb) as (b & j & Hbin & E & _).
    destruct (cross_string_inj _ _ _ _ E) as [_ [E'|E']]; destruct (H2 c b Hcin Hbin); contradiction.
Qed.

(* ------------------------------------------------------------------ nested body contexts *)
(* A scope is identified by its path, innermost first: (prefix passed to make_subgraph_context, value of the
   parent's counter for the qualified prefix).  The child is a freshly constructed context whose fresh_name is
   wrapped:  child.fresh_name(base) = IRContext.fresh_name(child)(pref ++ "/" ++ base)  with
   pref = parent.fresh_name(prefix)  (the parent's own, possibly wrapped, fresh_name). *)
Fixpoint qual (path : list (string * nat)) (base : string) : string :=
  match path with
  | [] => base
  | (p, k) :: rest => child_ctx_qualify (ctx_fresh_string (qual rest p) k) base
  end.
Definition scoped_ctx_name (path : list (string * nat)) (base : string) (i : nat) : string :=
  ctx_fresh_string (qual path base) i.
Definition scoped_bld_name (path : list (string * nat)) (base : string) (i : nat) : string :=
  bld_fresh_string (match path with [] => base
                    | (p, k) :: rest => child_bld_qualify (ctx_fresh_string (qual rest p) k) base end) i.

Definition not_slash (c : ascii) : bool := negb (Ascii.eqb c "/"%char).
Definition slash_free (s : string) : Prop := str_all not_slash s = true.

Lemma slash_free_us b : slash_free b -> slash_free (b +++ "_").
Proof. unfold slash_free. intro H. rewrite str_all_app, H. reflexivity. Qed.

Lemma qual_us path b : qual path b +++ "_" = qual path (b +++ "_").
Proof. destruct path as [|[p k] r]; cbn; [reflexivity|]. unfold child_ctx_qualify. now rewrite !sapp_assoc. Qed.

Definition same_prefix (path1 path2 : list (string * nat)) : Prop :=
  match path1, path2 with
  | [], [] => True
  | (p1, k1) :: r1, (p2, k2) :: r2 => ctx_fresh_string (qual r1 p1) k1 = ctx_fresh_string (qual r2 p2) k2
  | _, _ => False
  end.

Lemma qual_eq path1 path2 b1 b2 : slash_free b1 -> slash_free b2 ->
  qual path1 b1 = qual path2 b2 -> b1 = b2 /\ same_prefix path1 path2.
Proof.
  intros F1 F2 E. destruct path1 as [|[p1 k1] r1], path2 as [|[p2 k2] r2]; cbn in E |- *.
  - auto.
  - exfalso. subst b1. unfold child_ctx_qualify, slash_free in F1. rewrite str_all_app in F1. cbn in F1.
    rewrite andb_false_r in F1. discriminate.
  - exfalso. subst b2. unfold child_ctx_qualify, slash_free in F2. rewrite str_all_app in F2. cbn in F2.
    rewrite andb_false_r in F2. discriminate.
  - unfold child_ctx_qualify in E. cbn in E.
    destruct (split_unique not_slash _ _ "/"%char "/"%char _ _ eq_refl eq_refl F1 F2 E) as (Hp & _ & Hb). auto.
Qed.

Definition path_bases (path : list (string * nat)) : list string := map fst path.

Lemma endswith_char_app a b c : str_endswith_char b c = true -> str_endswith_char (a +++ b) c = true.
Proof.
  intro H. apply endswith_char_spec in H as [q ->]. apply endswith_char_spec. exists (a +++ q).
  now rewrite sapp_assoc.
Qed.

Lemma ends_sep_qual path b : ends_sep (qual path b) = false -> ends_sep b = false.
Proof.
  destruct path as [|[p k] r]; cbn; [auto|]. unfold child_ctx_qualify, ends_sep. intro N.
  apply orb_false_elim in N as [N1 N2]. apply orb_false_intro.
  - destruct (str_endswith_char b "_"%char) eqn:E; [|reflexivity].
    rewrite <- N1. symmetry. rewrite <- sapp_assoc. now apply endswith_char_app.
  - destruct (str_endswith_char b "/"%char) eqn:E; [|reflexivity].
    rewrite <- N2. symmetry. rewrite <- sapp_assoc. now apply endswith_char_app.
Qed.

Lemma scoped_step (bases : list string) :
  (forall b, In b bases -> slash_free b) -> no_clash bases ->
  forall path1 path2 b1 b2 i1 i2, In b1 bases -> In b2 bases ->
    scoped_ctx_name path1 b1 i1 = scoped_ctx_name path2 b2 i2 ->
    i1 = i2 /\ b1 = b2 /\ same_prefix path1 path2.
Proof.
  intros Hsf Hnc path1 path2 b1 b2 i1 i2 Hb1 Hb2 E. unfold scoped_ctx_name in E.
  destruct (ctx_string_inj _ _ _ _ E) as [-> C]. split; [reflexivity|].
  pose proof (Hsf _ Hb1) as F1. pose proof (Hsf _ Hb2) as F2.
  destruct C as [C|[[C N]|[C N]]].
  - now apply qual_eq.
  - exfalso. rewrite qual_us in C. destruct (qual_eq _ _ _ _ F1 (slash_free_us _ F2) C) as [Hb _].
    apply (Hnc b1 b2 Hb1 Hb2). split; [exact Hb|]. now apply ends_sep_qual in N.
  - exfalso. rewrite qual_us in C. destruct (qual_eq _ _ _ _ F2 (slash_free_us _ F1) C) as [Hb _].
    apply (Hnc b2 b1 Hb2 Hb1). split; [exact Hb|]. now apply ends_sep_qual in N.
Qed.

(* MAIN: for "/"-free and clash-free bases, (scope path, base, counter) |-> name is injective, at every depth *)
Theorem scoped_name_injective (bases : list string) :
  (forall b, In b bases -> slash_free b) -> no_clash bases ->
  forall path1 path2 b1 b2 i1 i2,
    incl (b1 :: path_bases path1) bases -> incl (b2 :: path_bases path2) bases ->
    scoped_ctx_name path1 b1 i1 = scoped_ctx_name path2 b2 i2 ->
    path1 = path2 /\ b1 = b2 /\ i1 = i2.
Proof.
  intros Hsf Hnc.
  induction path1 as [|[p1 k1] r1 IH]; intros path2 b1 b2 i1 i2 I1 I2 E;
    destruct (scoped_step bases Hsf Hnc _ _ _ _ _ _ (I1 _ (or_introl eq_refl)) (I2 _ (or_introl eq_refl)) E)
      as (-> & -> & Hp); destruct path2 as [|[p2 k2] r2]; cbn in Hp.
  - auto.
  - destruct Hp.
  - destruct Hp.
  - destruct (IH r2 p1 p2 k1 k2) as (-> & -> & ->); auto.
    + intros x Hx. apply I1. right. exact Hx.
    + intros x Hx. apply I2. right. exact Hx.
Qed.

(* names issued in a body context are disjoint from those of its parent, of its siblings and of every other scope *)
Corollary child_scope_disjoint (bases : list string) :
  (forall b, In b bases -> slash_free b) -> no_clash bases ->
  forall path1 path2 b1 b2 i1 i2,
    incl (b1 :: path_bases path1) bases -> incl (b2 :: path_bases path2) bases ->
    path1 <> path2 -> scoped_ctx_name path1 b1 i1 <> scoped_ctx_name path2 b2 i2.
Proof.
  intros Hsf Hnc path1 path2 b1 b2 i1 i2 I1 I2 Hne E.
  destruct (scoped_name_injective bases Hsf Hnc _ _ _ _ _ _ I1 I2 E) as [Hp _]. contradiction.
Qed.

(* in particular parent vs child, for every depth: *)
Corollary child_vs_parent (bases : list string) :
  (forall b, In b bases -> slash_free b) -> no_clash bases ->
  forall path p k b1 b2 i1 i2,
    incl (b1 :: p :: path_bases path) bases -> incl (b2 :: path_bases path) bases ->
    scoped_ctx_name ((p, k) :: path) b1 i1 <> scoped_ctx_name path b2 i2.
Proof.
  intros Hsf Hnc path p k b1 b2 i1 i2 I1 I2. apply (child_scope_disjoint bases Hsf Hnc); auto.
  clear. intro E. apply (f_equal (@length _)) in E. cbn in E. lia.
Qed.

(* siblings: two make_subgraph_context calls on one parent receive different (prefix, counter) pairs *)
Corollary sibling_scopes_disjoint (bases : list string) :
  (forall b, In b bases -> slash_free b) -> no_clash bases ->
  forall path p1 k1 p2 k2 b1 b2 i1 i2,
    incl (b1 :: p1 :: path_bases path) bases -> incl (b2 :: p2 :: path_bases path) bases ->
    (p1, k1) <> (p2, k2) ->
    scoped_ctx_name ((p1, k1) :: path) b1 i1 <> scoped_ctx_name ((p2, k2) :: path) b2 i2.
Proof.
  intros Hsf Hnc path p1 k1 p2 k2 b1 b2 i1 i2 I1 I2 Hne. apply (child_scope_disjoint bases Hsf Hnc); auto.
  intro E. injection E as -> ->. now apply Hne.
Qed.

(* the builder of a body context qualifies in the same way; its names are injective in (path, base, counter) too *)
Theorem scoped_bld_name_injective (bases : list string) :
  (forall b, In b bases -> slash_free b) -> no_clash bases ->
  forall path1 path2 b1 b2 i1 i2,
    incl (b1 :: path_bases path1) bases -> incl (b2 :: path_bases path2) bases ->
    scoped_bld_name path1 b1 i1 = scoped_bld_name path2 b2 i2 ->
    path1 = path2 /\ b1 = b2 /\ i1 = i2.
Proof.
  intros Hsf Hnc path1 path2 b1 b2 i1 i2 I1 I2 E. unfold scoped_bld_name in E.
  assert (Q : forall path b, match path with [] => b | (p, k) :: rest => child_bld_qualify (ctx_fresh_string (qual rest p) k) b end
                             = qual path b) by (intros [|[p k] r] b; reflexivity).
  rewrite !Q in E. apply bld_string_inj in E as [E ->].
  assert (F1 : slash_free b1) by (apply Hsf, I1; now left).
  assert (F2 : slash_free b2) by (apply Hsf, I2; now left).
  destruct (qual_eq _ _ _ _ F1 F2 E) as [-> Hp]. split; [|auto].
  destruct path1 as [|[p1 k1] r1], path2 as [|[p2 k2] r2]; cbn in Hp.
  - reflexivity.
  - destruct Hp.
  - destruct Hp.
  - destruct (scoped_name_injective bases Hsf Hnc r1 r2 p1 p2 k1 k2) as (-> & -> & ->); auto.
    + intros x Hx. apply I1. right. exact Hx.
    + intros x Hx. apply I2. right. exact Hx.
Qed.

(* the side conditions of child_scope_disjoint are needed: a base containing "/" lets a parent forge a child's name *)
Theorem child_scope_disjoint_refuted :
  exists b1 b2 p, scoped_ctx_name [] b1 0 = scoped_ctx_name [(p, 0)] b2 0.
Proof. exists "fori_body_0/x", "x", "fori_body". vm_compute. reflexivity. Qed.

(* ------------------------------------------------------------------ computable side conditions (evaluated per run
   by the harness on the literal bases found at the fresh_name call sites of /repo) *)
Definition clashb (b1 b2 : string) : bool := String.eqb b1 (b2 +++ "_") && negb (ends_sep b2).
(* only a base ending in "_" can be the longer member of a clashing pair *)
Definition no_clashb (bs : list string) : bool :=
  forallb (fun b1 => negb (str_endswith_char b1 "_"%char) || forallb (fun b2 => negb (clashb b1 b2)) bs) bs.
Definition slash_freeb (bs : list string) : bool := forallb (str_all not_slash) bs.
Definition cross_okb (cbs bbs : list string) : bool :=
  forallb (fun c => forallb (fun b => negb (String.eqb c b) && negb (String.eqb c (b +++ "_"))) bbs) cbs.
Definition clashing_pairs (bs : list string) : list (string * string) :=
  flat_map (fun b1 => map (fun b2 => (b1, b2)) (filter (clashb b1) bs)) bs.
Definition cross_pairs (cbs bbs : list string) : list (string * string) :=
  flat_map (fun c => map (fun b => (c, b)) (filter (fun b => String.eqb c b || String.eqb c (b +++ "_")) bbs)) cbs.

Lemma no_clashb_sound bs : no_clashb bs = true -> no_clash bs.
Proof.
  unfold no_clashb, no_clash. intros H b1 b2 H1 H2 [E N].
  rewrite forallb_forall in H. specialize (H b1 H1).
  assert (Hend : str_endswith_char b1 "_"%char = true) by (apply endswith_char_spec; now exists b2).
  rewrite Hend in H. cbn in H. rewrite forallb_forall in H. specialize (H b2 H2).
  unfold clashb in H. rewrite N in H. subst b1. rewrite String.eqb_refl in H. discriminate.
Qed.

Lemma slash_freeb_sound bs : slash_freeb bs = true -> forall b, In b bs -> slash_free b.
Proof. unfold slash_freeb. rewrite forallb_forall. auto. Qed.

Lemma cross_okb_sound cbs bbs : cross_okb cbs bbs = true -> cross_ok cbs bbs.
Proof.
  unfold cross_okb, cross_ok. intros H c b Hc Hb.
  rewrite forallb_forall in H. specialize (H c Hc). rewrite forallb_forall in H. specialize (H b Hb).
  apply andb_prop in H as [H1 H2]. apply negb_true_iff in H1, H2. apply String.eqb_neq in H1, H2. auto.
Qed.

(* non-vacuity of the side conditions *)
Example side_conditions_satisfiable :
  (no_clashb ["Constant"; "v"; "fori_body"; "loop_iter"; "a_"; "a__"] = true) /\
  (slash_freeb ["Constant"; "v"; "fori_body"] = true) /\ (cross_okb ["v"; "in0"] ["Constant"; "Not"] = true).
Proof. vm_compute. auto. Qed.
Example scoped_example :
  scoped_ctx_name [("cond_then", 0); ("fori_body", 2)] "x" 3 = "fori_body_2/cond_then_0/x_3".
Proof. vm_compute. reflexivity. Qed.

(* ------------------------------------------------------------------ executable image of a tree of contexts, used by
   the differential tie of harness/c03.py against the REAL IRContext / IRBuilder / make_subgraph_context:
   ECall b = ctx.fresh_name(b), EBld b = ctx.builder.fresh_name(b),
   ESpawn p body = child = make_subgraph_context(ctx, prefix=p); run body on child.  Names in call order. *)
Inductive ev := ECall (b : string) | EBld (b : string) | ESpawn (p : string) (body : list ev).

Fixpoint sim1 (e : ev) (qc qb : string -> string) (cc cb : counters) {struct e} : list string * (counters * counters) :=
  match e with
  | ECall b => let nc := ctx_fresh cc (qc b) in ([fst nc], (snd nc, cb))
  | EBld b => let nb := bld_fresh cb (qb b) in ([fst nb], (cc, snd nb))
  | ESpawn p body =>
      let nc := ctx_fresh cc (qc p) in
      let qc' := child_ctx_qualify (fst nc) in
      let qb' := child_bld_qualify (fst nc) in
      ((fix go (l : list ev) (c1 c2 : counters) {struct l} : list string :=
          match l with
          | [] => []
          | x :: r => let res := sim1 x qc' qb' c1 c2 in fst res ++ go r (fst (snd res)) (snd (snd res))
          end) body [] [],
       (snd nc, cb))
  end.
Fixpoint sim (qc qb : string -> string) (cc cb : counters) (evs : list ev) : list string :=
  match evs with
  | [] => []
  | x :: r => let res := sim1 x qc qb cc cb in fst res ++ sim qc qb (fst (snd res)) (snd (snd res)) r
  end.
Definition sim_root (evs : list ev) : list string := sim (fun b => b) (fun b => b) [] [] evs.

Example sim_example :
  sim_root [ECall "v"; ESpawn "fori_body" [ECall "x"; EBld "Add"; ESpawn "cond" [ECall "y_"]]; ECall "v"; ESpawn "fori_body" [ECall "x"]]
  = ["v_0"; "fori_body_0/x_0"; "fori_body_0/Add_0"; "fori_body_0/cond_0/y_0"; "v_1"; "fori_body_1/x_0"].
Proof. vm_compute. reflexivity. Qed.
