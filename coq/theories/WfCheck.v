(* WfCheck (property C03): a boolean validator of the name/scope/function discipline of an exported
   model (the flattened graph table of Onnx.v), its declarative specification WF, the soundness
   theorem  wf_model m = true -> WF m,  and the meta-theorem that makes WF matter: the evaluation of a
   WF model over UNINTERPRETED operators never fails on a name lookup (nested bodies included).

   What is modelled is what onnx/checker.cc enforces (determined by experiments with the installed
   onnx 1.22 checker, see harness/c03.py `checker_probe`), plus the function-call rules that only
   ONNX Runtime enforces:
     - graph inputs pairwise distinct; initializers pairwise distinct and named; an initializer MAY share
       its name with a graph input (default value, IR >= 4);
     - node inputs ("" = omitted) are defined earlier in the same scope or in an enclosing scope BEFORE the
       node that owns the nested graph (transitively);
     - node outputs ("" = omitted) are new: neither defined earlier in the same scope nor visible from an
       enclosing scope (the checker's LexicalScopeContext rule), AND -- stricter, position independent, needed for
       onnxruntime -- not equal to ANY name an enclosing scope defines at any position, except the outputs of the
       owner node(s) on the path: onnxruntime checks a nested body against the names its own topological order has
       produced so far, and that order may place an independent LATER node of the parent before the owner
       ("Graph must be in single static assignment (SSA) form" on a model onnx.checker accepts; observed with a
       mutated converter).  A body may reuse the name of its owner's output and sibling bodies may reuse each
       other's names (both tools accept);  inner graph INPUTS/INITIALIZERS may shadow (both tools accept);
     - graph outputs are defined in the graph itself (the checker and ORT reject a body output that is only
       an outer-scope value);
     - function bodies: the enclosing scope is EMPTY (only the function inputs), SSA, outputs defined in the
       body; FunctionProto has no initializer field (Onnx.ofunction has none), so "function bodies own no
       initializers" is structural: a body that needed one would read an undefined name and be rejected here;
     - every node: its domain is imported by the model and, inside a function body, by that function; if
       (domain, op_type) names a model function there is exactly one such function and the call has equal
       input/output arity; a node in a non-standard domain must name a model function;
     - function calls are not recursive (every chain of calls is shorter than the number of functions + 1). *)
From Coq Require Import ZArith String List Bool Lia Arith.
From J2O Require Import Onnx.
Import ListNotations.
Local Open Scope string_scope.
Local Open Scope list_scope.

(* ------------------------------------------------------------------ small boolean helpers *)
Definition nonempty (l : list string) : list string := filter (fun s => negb (String.eqb s "")) l.

Fixpoint nodupb (l : list string) : bool :=
  match l with [] => true | x :: r => negb (str_mem x r) && nodupb r end.

Lemma str_mem_In s l : str_mem s l = true <-> In s l.
Proof.
  unfold str_mem. rewrite existsb_exists. split.
  - intros [x [Hx He]]. apply String.eqb_eq in He. now subst.
  - intro H. exists s. split; [exact H | apply String.eqb_refl].
Qed.

Lemma str_mem_false s l : str_mem s l = false <-> ~ In s l.
Proof.
  rewrite <- str_mem_In. destruct (str_mem s l); split; intro H.
  - discriminate.
  - exfalso. now apply H.
  - intro; discriminate.
  - reflexivity.
Qed.

Lemma nodupb_NoDup l : nodupb l = true -> NoDup l.
Proof.
  induction l as [|x r IH]; intro H; [constructor|].
  cbn in H. apply andb_prop in H as [H1 H2]. constructor.
  - apply str_mem_false. now destruct (str_mem x r).
  - now apply IH.
Qed.

Lemma nonempty_In x l : In x (nonempty l) <-> In x l /\ x <> "".
Proof.
  unfold nonempty. rewrite filter_In. split; intros [H1 H2]; split; auto.
  - intro E. subst. discriminate.
  - apply negb_true_iff. now apply String.eqb_neq.
Qed.

(* ------------------------------------------------------------------ per-node rules (imports, calls) *)
Definition norm_dom (d : string) : string := if String.eqb d "ai.onnx" then "" else d.
Definition imported (ops : list (string * Z)) (d : string) : bool :=
  existsb (fun kv => String.eqb (norm_dom (fst kv)) (norm_dom d)) ops.
Definition is_fun (d op : string) (f : ofunction) : bool :=
  String.eqb (of_domain f) d && String.eqb (of_name f) op.
Definition find_fun (m : omodel) (d op : string) : list ofunction := filter (is_fun d op) (om_functions m).
Definition builtin_domains : list string :=
  [""; "ai.onnx"; "ai.onnx.ml"; "ai.onnx.training"; "ai.onnx.preview.training"; "com.microsoft"].

(* `scopes` = the opset tables that must import the node's domain: [model] for nodes of the main graph and
   its nested bodies, [function; model] for nodes of a function body and its nested bodies *)
Definition node_ok (m : omodel) (scopes : list (list (string * Z))) (n : onode) : bool :=
  forallb (fun ops => imported ops (on_domain n)) scopes &&
  match find_fun m (on_domain n) (on_op n) with
  | [] => str_mem (on_domain n) builtin_domains
  | [f] => Nat.eqb (length (on_ins n)) (length (of_inputs f)) &&
           Nat.eqb (length (on_outs n)) (length (of_outputs f))
  | _ => false
  end.

Definition NodeOK (m : omodel) (scopes : list (list (string * Z))) (n : onode) : Prop :=
  (forall ops, In ops scopes -> exists kv, In kv ops /\ norm_dom (fst kv) = norm_dom (on_domain n)) /\
  ((forall f, In f (om_functions m) -> ~ (of_domain f = on_domain n /\ of_name f = on_op n)) /\
     In (on_domain n) builtin_domains
   \/
   exists f, find_fun m (on_domain n) (on_op n) = [f] /\       (* defined exactly once *)
     In f (om_functions m) /\ of_domain f = on_domain n /\ of_name f = on_op n /\
     length (on_ins n) = length (of_inputs f) /\ length (on_outs n) = length (of_outputs f)).

Lemma is_fun_spec d op f : is_fun d op f = true <-> of_domain f = d /\ of_name f = op.
Proof. unfold is_fun. rewrite andb_true_iff, !String.eqb_eq. tauto. Qed.

Lemma node_ok_sound m scopes n : node_ok m scopes n = true -> NodeOK m scopes n.
Proof.
  unfold node_ok, NodeOK. intro H. apply andb_prop in H as [H1 H2]. split.
  - intros ops Hin. rewrite forallb_forall in H1. specialize (H1 ops Hin).
    unfold imported in H1. apply existsb_exists in H1 as [kv [Hk He]].
    exists kv. split; [exact Hk|]. now apply String.eqb_eq.
  - destruct (find_fun m (on_domain n) (on_op n)) as [|f [|f' r]] eqn:E; [left|right|discriminate].
    + split; [|now apply str_mem_In].
      intros f Hf Hm. assert (In f (find_fun m (on_domain n) (on_op n))) as Hc.
      { unfold find_fun. apply filter_In. split; [exact Hf|]. now apply is_fun_spec. }
      rewrite E in Hc. exact Hc.
    + exists f. apply andb_prop in H2 as [Ha Hb]. apply Nat.eqb_eq in Ha, Hb.
      assert (In f (find_fun m (on_domain n) (on_op n))) as Hc by (rewrite E; now left).
      unfold find_fun in Hc. apply filter_In in Hc as [Hc1 Hc2]. apply is_fun_spec in Hc2 as [Hd Hn].
      repeat split; auto.
Qed.

(* ------------------------------------------------------------------ the validator *)
Section Check.
  Variable m : omodel.
  Variable nodeP : onode -> bool.

  Definition ins_ok (vis : list string) (n : onode) : bool :=
    forallb (fun i => String.eqb i "" || str_mem i vis) (on_ins n).
  Definition outs_ok (vis : list string) (n : onode) : bool :=
    nodupb (nonempty (on_outs n)) && forallb (fun o => negb (str_mem o vis)) (nonempty (on_outs n)).

  Definition minus (l r : list string) : list string := filter (fun x => negb (str_mem x r)) l.

  (* returns the names defined in this scope after the nodes, None = rejected.
     `outer` = names visible from enclosing scopes (defined before the owner), `loc` = names defined so far in
     this scope, `alld` = ALL names this scope defines (any position), `forb` = all names the enclosing scopes
     define at any position, minus the outputs of the owner nodes on the path *)
  Fixpoint chk_nodes (sub : list string -> list string -> nat -> bool) (alld forb outer loc : list string)
    (ns : list onode) : option (list string) :=
    match ns with
    | [] => Some loc
    | n :: r =>
        let vis := loc ++ outer in
        if nodeP n && ins_ok vis n &&
           forallb (sub vis (minus (forb ++ alld) (on_outs n))) (node_subgraph_ids n) &&
           outs_ok (forb ++ vis) n
        then chk_nodes sub alld forb outer (nonempty (on_outs n) ++ loc) r
        else None
    end.

  Definition scope_defs (header : list string) (ns : list onode) : list string :=
    header ++ nonempty (flat_map on_outs ns).

  Definition graph_header_ok (g : ograph) : bool :=
    let ins := map vi_name (og_inputs g) in
    let inits := map vi_name (og_inits g) in
    nodupb ins && nodupb inits && negb (str_mem "" ins) && negb (str_mem "" inits).

  Fixpoint chk_graph (fuel : nat) (outer forb : list string) (gid : nat) : bool :=
    match fuel with
    | O => false
    | S f =>
        match graph_by_id m gid with
        | None => false
        | Some g =>
            let header := map vi_name (og_inits g) ++ map vi_name (og_inputs g) in
            graph_header_ok g &&
            match chk_nodes (chk_graph f) (scope_defs header (og_nodes g)) forb outer header (og_nodes g) with
            | Some final => forallb (fun o => str_mem o final) (map vi_name (og_outputs g))
            | None => false
            end
        end
    end.

  (* function body: enclosing scope empty, local scope starts with the function inputs *)
  Definition chk_function (fuel : nat) (f : ofunction) : bool :=
    nodupb (of_inputs f) && nodupb (of_outputs f) && negb (str_mem "" (of_inputs f)) &&
    match chk_nodes (chk_graph fuel) (scope_defs (of_inputs f) (of_nodes f)) [] [] (of_inputs f) (of_nodes f) with
    | Some final => forallb (fun o => str_mem o final) (of_outputs f)
    | None => false
    end.
End Check.

Definition fun_keys (m : omodel) : list string :=
  map (fun f => (of_domain f ++ "::" ++ of_name f)%string) (om_functions m).

Definition wf_fuel (m : omodel) : nat := S (length (om_graphs m)).

(* function calls are not recursive (onnx.checker: "Cycle detected in model-local function references") *)
Section Calls.
  Variable m : omodel.
  (* the nodes of a scope together with the nodes of its nested bodies, to nesting depth `fuel` *)
  Fixpoint nodes_deep (fuel : nat) (ns : list onode) : list onode :=
    match fuel with
    | O => ns
    | S f => flat_map (fun n => n :: flat_map (fun gid => match graph_by_id m gid with
                                                        | Some g => nodes_deep f (og_nodes g)
                                                        | None => [] end) (node_subgraph_ids n)) ns
    end.
  Definition callees (f : ofunction) : list ofunction :=
    flat_map (fun n => find_fun m (on_domain n) (on_op n)) (nodes_deep (wf_fuel m) (of_nodes f)).
  Fixpoint call_depth_ok (k : nat) (f : ofunction) : bool :=
    match k with O => false | S k' => forallb (call_depth_ok k') (callees f) end.
  (* every chain of calls starting in f is shorter than k *)
  Fixpoint CallDepth (k : nat) (f : ofunction) : Prop :=
    match k with O => False | S k' => forall g, In g (callees f) -> CallDepth k' g end.
  Lemma call_depth_ok_sound : forall k f, call_depth_ok k f = true -> CallDepth k f.
  Proof.
    induction k as [|k IH]; intros f H; cbn in H |- *; [discriminate|].
    intros g Hg. rewrite forallb_forall in H. apply IH. now apply H.
  Qed.
End Calls.

Definition fn_acyclic (m : omodel) : bool :=
  forallb (call_depth_ok m (S (length (om_functions m)))) (om_functions m).

Definition wf_model (m : omodel) : bool :=
  chk_graph m (node_ok m [om_opsets m]) (wf_fuel m) [] [] 0 &&
  forallb (fun f => chk_function m (node_ok m [of_opsets f; om_opsets m]) (wf_fuel m) f) (om_functions m) &&
  fn_acyclic m.

(* ------------------------------------------------------------------ the declarative specification *)
Section Spec.
  Variable m : omodel.
  Variable NodeP : onode -> Prop.

  (* WFNodes Sub outer loc ns final: the nodes ns, run in a scope whose enclosing scopes make `outer`
     visible and in which `loc` is already defined, are well scoped and leave `final` defined *)
  Fixpoint WFNodes (Sub : list string -> list string -> nat -> Prop) (alld forb outer loc : list string)
    (ns : list onode) (final : list string) : Prop :=
    match ns with
    | [] => final = loc
    | n :: r =>
        NodeP n /\
        (forall i, In i (on_ins n) -> i <> "" -> In i loc \/ In i outer) /\      (* defined before use *)
        (* bodies see what the node sees; they must avoid every name of this and the enclosing scopes
           (any position) except the outputs of their owner n *)
        (forall gid, In gid (node_subgraph_ids n) -> Sub (loc ++ outer) (minus (forb ++ alld) (on_outs n)) gid) /\
        NoDup (nonempty (on_outs n)) /\
        (forall o, In o (on_outs n) -> o <> "" -> ~ In o loc /\ ~ In o outer /\ ~ In o forb) /\ (* single assignment, no redefinition *)
        WFNodes Sub alld forb outer (nonempty (on_outs n) ++ loc) r final
    end.

  Definition WFHeader (g : ograph) : Prop :=
    NoDup (map vi_name (og_inputs g)) /\ NoDup (map vi_name (og_inits g)) /\
    ~ In "" (map vi_name (og_inputs g)) /\ ~ In "" (map vi_name (og_inits g)).

  (* d bounds the nesting depth below this graph *)
  Fixpoint WFGraph (d : nat) (outer forb : list string) (gid : nat) : Prop :=
    match d with
    | O => False
    | S d' =>
        exists g, graph_by_id m gid = Some g /\ WFHeader g /\
          exists final,
            WFNodes (WFGraph d') (scope_defs (map vi_name (og_inits g) ++ map vi_name (og_inputs g)) (og_nodes g))
                    forb outer (map vi_name (og_inits g) ++ map vi_name (og_inputs g)) (og_nodes g) final /\
            (forall o, In o (map vi_name (og_outputs g)) -> In o final)
    end.

  Definition WFFunction (d : nat) (f : ofunction) : Prop :=
    NoDup (of_inputs f) /\ NoDup (of_outputs f) /\ ~ In "" (of_inputs f) /\
    exists final, WFNodes (WFGraph d) (scope_defs (of_inputs f) (of_nodes f)) [] [] (of_inputs f) (of_nodes f) final /\
                  (forall o, In o (of_outputs f) -> In o final).
End Spec.

Definition WF (m : omodel) : Prop :=
  (exists d,
    WFGraph m (NodeOK m [om_opsets m]) d [] [] 0 /\
    forall f, In f (om_functions m) -> WFFunction m (NodeOK m [of_opsets f; om_opsets m]) d f) /\
  (exists k, forall f, In f (om_functions m) -> CallDepth m k f).

(* ------------------------------------------------------------------ soundness of the validator *)
Section Sound.
  Variable m : omodel.
  Variable nodeP : onode -> bool.
  Variable NodeP : onode -> Prop.
  Hypothesis nodeP_sound : forall n, nodeP n = true -> NodeP n.

  Lemma chk_nodes_sound (sub : list string -> list string -> nat -> bool) (Sub : list string -> list string -> nat -> Prop) :
    (forall vis fb gid, sub vis fb gid = true -> Sub vis fb gid) ->
    forall ns alld forb outer loc final,
      chk_nodes nodeP sub alld forb outer loc ns = Some final -> WFNodes NodeP Sub alld forb outer loc ns final.
  Proof.
    intros Hsub. induction ns as [|n r IH]; intros alld forb outer loc final H; cbn in H |- *.
    - now injection H as <-.
    - destruct (nodeP n) eqn:E1; [|discriminate].
      destruct (ins_ok (loc ++ outer) n) eqn:E2; [|discriminate].
      destruct (forallb (sub (loc ++ outer) (minus (forb ++ alld) (on_outs n))) (node_subgraph_ids n)) eqn:E3; [|discriminate].
      destruct (outs_ok (forb ++ loc ++ outer) n) eqn:E4; [|discriminate].
      cbn in H. split; [now apply nodeP_sound|]. split; [|split; [|split; [|split]]].
      + intros i Hi Hne. unfold ins_ok in E2. rewrite forallb_forall in E2. specialize (E2 i Hi).
        apply orb_prop in E2 as [E|E]; [apply String.eqb_eq in E; contradiction|].
        apply str_mem_In in E. apply in_app_or in E. exact E.
      + intros gid Hg. rewrite forallb_forall in E3. apply Hsub. now apply E3.
      + unfold outs_ok in E4. apply andb_prop in E4 as [E4 _]. now apply nodupb_NoDup.
      + intros o Ho Hne. unfold outs_ok in E4. apply andb_prop in E4 as [_ E4].
        rewrite forallb_forall in E4. assert (In o (nonempty (on_outs n))) as Hn by (now apply nonempty_In).
        specialize (E4 o Hn). apply negb_true_iff in E4. apply str_mem_false in E4.
        repeat split; intro Hc; apply E4; rewrite !in_app_iff; auto.
      + now apply IH.
  Qed.

  Lemma header_sound g : graph_header_ok g = true -> WFHeader g.
  Proof.
    unfold graph_header_ok, WFHeader. intro H.
    apply andb_prop in H as [H H4]. apply andb_prop in H as [H H3]. apply andb_prop in H as [H1 H2].
    apply negb_true_iff in H3, H4. apply str_mem_false in H3, H4.
    repeat split; auto using nodupb_NoDup.
  Qed.

  Lemma chk_graph_sound : forall fuel outer forb gid,
    chk_graph m nodeP fuel outer forb gid = true -> WFGraph m NodeP fuel outer forb gid.
  Proof.
    induction fuel as [|f IH]; intros outer forb gid H; cbn in H |- *; [discriminate|].
    destruct (graph_by_id m gid) as [g|] eqn:Eg; [|discriminate].
    apply andb_prop in H as [Hh H].
    destruct (chk_nodes nodeP (chk_graph m nodeP f) _ forb outer _ (og_nodes g)) as [final|] eqn:En; [|discriminate].
    exists g. split; [reflexivity|]. split; [now apply header_sound|].
    exists final. split.
    - eapply chk_nodes_sound; [|exact En]. intros vis fb gid' Hs. now apply IH.
    - intros o Ho. rewrite forallb_forall in H. apply str_mem_In. now apply H.
  Qed.

  Lemma chk_function_sound fuel f :
    chk_function m nodeP fuel f = true -> WFFunction m NodeP fuel f.
  Proof.
    unfold chk_function, WFFunction. intro H.
    apply andb_prop in H as [H Hn]. apply andb_prop in H as [H H3]. apply andb_prop in H as [H1 H2].
    destruct (chk_nodes nodeP (chk_graph m nodeP fuel) _ [] [] (of_inputs f) (of_nodes f)) as [final|] eqn:En; [|discriminate].
    apply negb_true_iff in H3. apply str_mem_false in H3.
    repeat split; auto using nodupb_NoDup.
    exists final. split.
    - eapply chk_nodes_sound; [|exact En]. intros vis fb gid Hs. now apply chk_graph_sound.
    - intros o Ho. rewrite forallb_forall in Hn. apply str_mem_In. now apply Hn.
  Qed.
End Sound.

Theorem wf_model_sound m : wf_model m = true -> WF m.
Proof.
  unfold wf_model, WF. intro H. apply andb_prop in H as [H H3]. apply andb_prop in H as [H1 H2]. split.
  - exists (wf_fuel m). split.
    + eapply chk_graph_sound; [|exact H1]. intros n Hn. now apply node_ok_sound.
    + intros f Hf. rewrite forallb_forall in H2. specialize (H2 f Hf).
      eapply chk_function_sound; [|exact H2]. intros n Hn. now apply node_ok_sound.
  - exists (S (length (om_functions m))). intros f Hf. apply call_depth_ok_sound.
    unfold fn_acyclic in H3. rewrite forallb_forall in H3. now apply H3.
Qed.

(* ------------------------------------------------------------------ positional reading of WFNodes *)
Section Reading.
  Variable NodeP : onode -> Prop.
  Variable Sub : list string -> list string -> nat -> Prop.

  Definition defs (ns : list onode) : list string := nonempty (flat_map on_outs ns).

  Lemma nonempty_app a b : nonempty (a ++ b) = nonempty a ++ nonempty b.
  Proof. unfold nonempty. apply filter_app. Qed.

  Lemma WFNodes_final : forall ns alld forb outer loc final,
    WFNodes NodeP Sub alld forb outer loc ns final -> forall x, In x final <-> In x (defs ns) \/ In x loc.
  Proof.
    induction ns as [|n r IH]; intros alld forb outer loc final H x; cbn in H.
    - subst. cbn. tauto.
    - destruct H as (_ & _ & _ & _ & _ & H). rewrite (IH _ _ _ _ _ H x).
      unfold defs. cbn [flat_map]. rewrite nonempty_app, !in_app_iff. tauto.
  Qed.

  Lemma NoDup_app_intro {A} (l1 l2 : list A) :
    NoDup l1 -> NoDup l2 -> (forall x, In x l1 -> ~ In x l2) -> NoDup (l1 ++ l2).
  Proof.
    induction l1 as [|a r IH]; intros H1 H2 Hd; cbn; [exact H2|].
    inversion H1; subst. constructor.
    - intro Hc. apply in_app_or in Hc as [Hc|Hc]; [contradiction|]. apply (Hd a); [now left|exact Hc].
    - apply IH; auto. intros x Hx. apply Hd. now right.
  Qed.

  (* single assignment: the names defined in one scope are pairwise distinct ... *)
  Lemma WFNodes_ssa : forall ns alld forb outer loc final,
    WFNodes NodeP Sub alld forb outer loc ns final -> NoDup loc -> NoDup final.
  Proof.
    induction ns as [|n r IH]; intros alld forb outer loc final H Hl; cbn in H.
    - now subst.
    - destruct H as (_ & _ & _ & Hnd & Hfresh & H). apply (IH _ _ _ _ _ H).
      apply NoDup_app_intro; auto. intros x Hx. apply nonempty_In in Hx as [Hx Hne].
      now destruct (Hfresh x Hx Hne).
  Qed.

  (* ... and none of them redefines a name visible from an enclosing scope, nor any name `forb` that the
     enclosing scopes define at any position (outputs of the owner nodes excepted) *)
  Lemma WFNodes_no_redefinition : forall ns alld forb outer loc final,
    WFNodes NodeP Sub alld forb outer loc ns final -> forall x, In x (defs ns) -> ~ In x outer /\ ~ In x forb.
  Proof.
    induction ns as [|n r IH]; intros alld forb outer loc final H x Hx; cbn in H.
    - destruct Hx.
    - destruct H as (_ & _ & _ & _ & Hfresh & H). unfold defs in Hx. cbn [flat_map] in Hx.
      rewrite nonempty_app in Hx. apply in_app_or in Hx as [Hx|Hx].
      + apply nonempty_In in Hx as [Hx Hne]. destruct (Hfresh x Hx Hne) as (_ & H1 & H2). auto.
      + now apply (IH _ _ _ _ _ H).
  Qed.

  (* definition before use, positionally: an input of the k-th node is defined by the scope header,
     by an EARLIER node of the same scope, or is visible from an enclosing scope *)
  Lemma WFNodes_def_before_use : forall pre n post alld forb outer loc final,
    WFNodes NodeP Sub alld forb outer loc (pre ++ n :: post) final ->
    forall i, In i (on_ins n) -> i <> "" -> In i loc \/ In i (defs pre) \/ In i outer.
  Proof.
    induction pre as [|p pre IH]; intros n post alld forb outer loc final H i Hi Hne; cbn in H.
    - destruct H as (_ & Hin & _). destruct (Hin i Hi Hne); auto.
    - destruct H as (_ & _ & _ & _ & _ & H). specialize (IH _ _ _ _ _ _ _ H i Hi Hne).
      unfold defs. cbn [flat_map]. rewrite nonempty_app, in_app_iff.
      destruct IH as [IH|[IH|IH]]; auto. apply in_app_or in IH as [IH|IH]; auto.
  Qed.

  Lemma minus_In l r x : In x (minus l r) <-> In x l /\ ~ In x r.
  Proof.
    unfold minus. rewrite filter_In, negb_true_iff. split; intros [H1 H2]; split; auto; now apply str_mem_false.
  Qed.

  (* every nested body of the k-th node is checked against exactly the names visible at that node, and must avoid
     exactly the names of this and the enclosing scopes other than the outputs of its owner *)
  Lemma WFNodes_bodies : forall pre n post alld forb outer loc final,
    WFNodes NodeP Sub alld forb outer loc (pre ++ n :: post) final ->
    forall gid, In gid (node_subgraph_ids n) ->
      exists vis fb, Sub vis fb gid /\
        (forall x, In x vis <-> In x (defs pre) \/ In x loc \/ In x outer) /\
        (forall x, In x fb <-> (In x forb \/ In x alld) /\ ~ In x (on_outs n)).
  Proof.
    induction pre as [|p pre IH]; intros n post alld forb outer loc final H gid Hg; cbn in H.
    - destruct H as (_ & _ & Hs & _). exists (loc ++ outer), (minus (forb ++ alld) (on_outs n)).
      split; [now apply Hs|]. split.
      + intro x. rewrite in_app_iff. unfold defs. cbn. tauto.
      + intro x. rewrite minus_In, in_app_iff. tauto.
    - destruct H as (_ & _ & _ & _ & _ & H). destruct (IH _ _ _ _ _ _ _ H gid Hg) as (vis & fb & Hv & Hx & Hf).
      exists vis, fb. split; [exact Hv|]. split; [|exact Hf]. intro x. rewrite Hx. unfold defs. cbn [flat_map].
      rewrite nonempty_app, !in_app_iff. tauto.
  Qed.

  Lemma WFNodes_nodeP : forall ns alld forb outer loc final,
    WFNodes NodeP Sub alld forb outer loc ns final -> forall n, In n ns -> NodeP n.
  Proof.
    induction ns as [|a r IH]; intros alld forb outer loc final H n Hn; cbn in H; [destruct Hn|].
    destruct H as (Hp & _ & _ & _ & _ & H). destruct Hn as [<-|Hn]; [exact Hp|]. now apply (IH _ _ _ _ _ H).
  Qed.
End Reading.

(* monotonicity in the depth bound *)
Lemma WFNodes_mono NodeP (S1 S2 : list string -> list string -> nat -> Prop) :
  (forall v fb g, S1 v fb g -> S2 v fb g) ->
  forall ns alld forb outer loc final,
    WFNodes NodeP S1 alld forb outer loc ns final -> WFNodes NodeP S2 alld forb outer loc ns final.
Proof.
  intros HS. induction ns as [|n r IH]; intros alld forb outer loc final H; cbn in H |- *; [exact H|].
  destruct H as (H1 & H2 & H3 & H4 & H5 & H6). split; [exact H1|]. split; [exact H2|].
  split; [intros gid Hg; apply HS; now apply H3|]. split; [exact H4|]. split; [exact H5|]. now apply IH.
Qed.

Lemma WFGraph_mono m NodeP : forall d outer forb gid,
  WFGraph m NodeP d outer forb gid -> WFGraph m NodeP (S d) outer forb gid.
Proof.
  induction d as [|d IH]; intros outer forb gid H; [destruct H|].
  cbn [WFGraph] in H. destruct H as (g & Hg & Hh & final & Hn & Ho).
  cbn [WFGraph]. exists g. split; [exact Hg|]. split; [exact Hh|]. exists final. split; [|exact Ho].
  eapply WFNodes_mono; [|exact Hn]. intros v fb g' Hs. now apply IH.
Qed.

(* ------------------------------------------------------------------ evaluation over uninterpreted operators *)
Section Eval.
  Variable V : Type.
  Variable m : omodel.
  (* uninterpreted operator: k-th output of node n from its (optional) input values and the results of its bodies *)
  Variable op_out : onode -> list (option V) -> list (list V) -> nat -> V.
  (* abstract body runner: the value the owner node n passes to the k-th formal input of its j-th body.
     A body is evaluated with the environment visible at its owner (it may read exactly those names).
     Every body is run once per evaluation of its owner: which names are looked up does not depend on values,
     so further iterations of a Loop/Scan body perform the same lookups. *)
  Variable body_arg : onode -> nat -> list (option V) -> nat -> V.
  Variable init_val : nat -> string -> V.           (* payload of an initializer of graph gid *)

  Inductive res (A : Type) : Type :=
  | Ok (a : A) | LookupFail (name : string) | NoGraph (gid : nat) | OutOfFuel.
  Arguments Ok {A}. Arguments LookupFail {A}. Arguments NoGraph {A}. Arguments OutOfFuel {A}.

  Definition env := list (string * V).
  Fixpoint lookup (e : env) (x : string) : option V :=
    match e with [] => None | (y, v) :: r => if String.eqb x y then Some v else lookup r x end.

  Definition bind {A B} (r : res A) (k : A -> res B) : res B :=
    match r with Ok a => k a | LookupFail s => LookupFail s | NoGraph g => NoGraph g | OutOfFuel => OutOfFuel end.

  Fixpoint mapR {A B} (f : A -> res B) (l : list A) : res (list B) :=
    match l with
    | [] => Ok []
    | x :: r => bind (f x) (fun y => bind (mapR f r) (fun ys => Ok (y :: ys)))
    end.

  Fixpoint mapRi {A B} (f : nat -> A -> res B) (j : nat) (l : list A) : res (list B) :=
    match l with
    | [] => Ok []
    | x :: r => bind (f j x) (fun y => bind (mapRi f (S j) r) (fun ys => Ok (y :: ys)))
    end.

  Definition read (e : env) (i : string) : res (option V) :=
    if String.eqb i "" then Ok None
    else match lookup e i with Some v => Ok (Some v) | None => LookupFail i end.

  Fixpoint bind_names (names : list string) (k : nat) (val : nat -> V) : env :=
    match names with
    | [] => []
    | x :: r => if String.eqb x "" then bind_names r (S k) val else (x, val k) :: bind_names r (S k) val
    end.

  Fixpoint eval_nodes (sub : env -> nat -> (nat -> V) -> res (list V)) (outer loc : env) (ns : list onode)
    : res env :=
    match ns with
    | [] => Ok loc
    | n :: r =>
        let vis := loc ++ outer in
        bind (mapR (read vis) (on_ins n)) (fun ins =>
        bind (mapRi (fun j gid => sub vis gid (body_arg n j ins)) 0 (node_subgraph_ids n)) (fun bodies =>
        eval_nodes sub outer (bind_names (on_outs n) 0 (op_out n ins bodies) ++ loc) r))
    end.

  Definition read_out (e : env) (o : string) : res V :=
    match lookup e o with Some v => Ok v | None => LookupFail o end.

  Fixpoint eval_graph (fuel : nat) (outer : env) (gid : nat) (args : nat -> V) : res (list V) :=
    match fuel with
    | O => OutOfFuel
    | S f =>
        match graph_by_id m gid with
        | None => NoGraph gid
        | Some g =>
            let loc0 := bind_names (map vi_name (og_inputs g)) 0 args ++
                        bind_names (map vi_name (og_inits g)) 0 (fun k => init_val gid (nth k (map vi_name (og_inits g)) "")) in
            bind (eval_nodes (eval_graph f) outer loc0 (og_nodes g)) (fun loc =>
            mapR (read_out loc) (map vi_name (og_outputs g)))
        end
    end.

  Definition eval_function (fuel : nat) (f : ofunction) (args : nat -> V) : res (list V) :=
    bind (eval_nodes (eval_graph fuel) [] (bind_names (of_inputs f) 0 args) (of_nodes f)) (fun loc =>
    mapR (read_out loc) (of_outputs f)).

  (* -------- the environment covers a list of names *)
  Definition covers (l : list string) (e : env) : Prop := forall x, In x l -> x <> "" -> lookup e x <> None.

  Lemma lookup_app e1 e2 x : lookup (e1 ++ e2) x = match lookup e1 x with Some v => Some v | None => lookup e2 x end.
  Proof. induction e1 as [|[y v] r IH]; cbn; [reflexivity|]. destruct (String.eqb x y); auto. Qed.

  Lemma covers_app l1 l2 e1 e2 : covers l1 e1 -> covers l2 e2 -> covers (l1 ++ l2) (e1 ++ e2).
  Proof.
    intros H1 H2 x Hx Hne. rewrite lookup_app. apply in_app_or in Hx as [Hx|Hx].
    - specialize (H1 x Hx Hne). destruct (lookup e1 x); congruence.
    - destruct (lookup e1 x); [discriminate|]. now apply H2.
  Qed.

  Lemma lookup_bind_names names : forall k val x, In x names -> x <> "" -> lookup (bind_names names k val) x <> None.
  Proof.
    induction names as [|y r IH]; intros k val x Hx Hne; [destruct Hx|]. cbn.
    destruct (String.eqb y "") eqn:Ey.
    - destruct Hx as [->|Hx]; [apply String.eqb_eq in Ey; contradiction|]. now apply IH.
    - cbn. destruct (String.eqb x y) eqn:Exy; [discriminate|].
      destruct Hx as [->|Hx]; [rewrite String.eqb_refl in Exy; discriminate|]. now apply IH.
  Qed.

  Lemma covers_bind_names names k val : covers names (bind_names names k val).
  Proof. intros x Hx Hne. now apply lookup_bind_names. Qed.

  Lemma covers_nonempty l e : covers (nonempty l) e <-> covers l e.
  Proof.
    split; intros H x Hx Hne; apply H; auto.
    - now apply nonempty_In.
    - now apply nonempty_In in Hx as [Hx _].
  Qed.

  Lemma mapR_ok {A B} (f : A -> res B) l : (forall x, In x l -> exists y, f x = Ok y) -> exists ys, mapR f l = Ok ys.
  Proof.
    induction l as [|x r IH]; intro H; cbn; [eauto|].
    destruct (H x (or_introl eq_refl)) as [y ->]. cbn.
    destruct IH as [ys ->]; [intros; apply H; now right|]. cbn. eauto.
  Qed.

  Lemma mapRi_ok {A B} (f : nat -> A -> res B) l : forall j,
    (forall j x, In x l -> exists y, f j x = Ok y) -> exists ys, mapRi f j l = Ok ys.
  Proof.
    induction l as [|x r IH]; intros j H; cbn; [eauto|].
    destruct (H j x (or_introl eq_refl)) as [y ->]. cbn.
    destruct (IH (S j)) as [ys ->]; [intros; apply H; now right|]. cbn. eauto.
  Qed.

  Section NodesOk.
    Variable NodeP : onode -> Prop.
    Variable Sub : list string -> list string -> nat -> Prop.
    Variable sub : env -> nat -> (nat -> V) -> res (list V).
    Hypothesis sub_ok : forall vis fb e gid args, Sub vis fb gid -> covers vis e -> exists vs, sub e gid args = Ok vs.

    Lemma eval_nodes_ok : forall ns alld forb outer loc final eo el,
      WFNodes NodeP Sub alld forb outer loc ns final -> covers outer eo -> covers loc el ->
      exists ef, eval_nodes sub eo el ns = Ok ef /\ covers final ef.
    Proof.
      induction ns as [|n r IH]; intros alld forb outer loc final eo el H Ho Hl; cbn in H |- *.
      - subst. eauto.
      - destruct H as (_ & Hin & Hsub & _ & _ & H).
        assert (Hvis : covers (loc ++ outer) (el ++ eo)) by now apply covers_app.
        destruct (mapR_ok (read (el ++ eo)) (on_ins n)) as [ins ->].
        { intros i Hi. unfold read. destruct (String.eqb i "") eqn:Ei; [eauto|].
          apply String.eqb_neq in Ei. assert (In i (loc ++ outer)) as Hiv.
          { apply in_or_app. now apply Hin. }
          specialize (Hvis i Hiv Ei). destruct (lookup (el ++ eo) i); [eauto|congruence]. }
        cbn.
        destruct (mapRi_ok (fun j gid => sub (el ++ eo) gid (body_arg n j ins)) (node_subgraph_ids n) 0) as [bodies ->].
        { intros j gid Hg. eapply sub_ok; [apply Hsub; exact Hg | exact Hvis]. }
        cbn. eapply IH; [exact H | exact Ho |].
        apply covers_app; [|exact Hl]. apply covers_nonempty. apply covers_bind_names.
    Qed.
  End NodesOk.

  Lemma read_outs_ok final ef outs :
    covers final ef -> ~ In "" final -> (forall o, In o outs -> In o final) ->
    exists vs, mapR (read_out ef) outs = Ok vs.
  Proof.
    intros Hc Hne Ho. apply mapR_ok. intros o Hin. unfold read_out.
    assert (o <> "") as Hn by (intro; subst; apply Hne; now apply Ho).
    specialize (Hc o (Ho o Hin) Hn). destruct (lookup ef o); [eauto|congruence].
  Qed.

  Lemma final_no_empty NodeP Sub ns alld forb outer loc final :
    WFNodes NodeP Sub alld forb outer loc ns final -> ~ In "" loc -> ~ In "" final.
  Proof.
    intros H Hl Hc. apply (WFNodes_final _ _ _ _ _ _ _ _ H) in Hc as [Hc|Hc]; [|contradiction].
    unfold defs in Hc. apply nonempty_In in Hc as [_ Hc]. now apply Hc.
  Qed.

  (* MAIN LEMMA: a graph that is WF at depth d under the visible names `outer` evaluates (fuel d) without any
     failed lookup in every environment that binds the visible names, whatever the operators do *)
  Theorem eval_graph_ok NodeP : forall d outer forb gid eo args,
    WFGraph m NodeP d outer forb gid -> covers outer eo -> exists vs, eval_graph d eo gid args = Ok vs.
  Proof.
    induction d as [|d IH]; intros outer forb gid eo args H Ho; [destruct H|].
    cbn [WFGraph] in H. destruct H as (g & Hg & (Hi1 & Hi2 & Hi3 & Hi4) & final & Hn & Hout).
    cbn [eval_graph]. rewrite Hg.
    set (loc0 := bind_names (map vi_name (og_inputs g)) 0 args ++ _).
    destruct (eval_nodes_ok NodeP (WFGraph m NodeP d) (eval_graph d)) with
      (ns := og_nodes g) (outer := outer) (loc := map vi_name (og_inits g) ++ map vi_name (og_inputs g))
      (alld := scope_defs (map vi_name (og_inits g) ++ map vi_name (og_inputs g)) (og_nodes g)) (forb := forb)
      (final := final) (eo := eo) (el := loc0) as [ef [-> Hf]]; auto.
    - intros vis fb e gid' args' Hs Hc. eapply IH; eauto.
    - intros x Hx Hne. subst loc0. rewrite lookup_app. apply in_app_or in Hx as [Hx|Hx].
      + destruct (lookup (bind_names (map vi_name (og_inputs g)) 0 args) x); [discriminate|].
        now apply lookup_bind_names.
      + pose proof (lookup_bind_names _ 0 args x Hx Hne) as Hl.
        destruct (lookup (bind_names (map vi_name (og_inputs g)) 0 args) x); [discriminate|congruence].
    - cbn. eapply read_outs_ok; eauto. eapply final_no_empty; [exact Hn|].
      intro Hc. apply in_app_or in Hc as [Hc|Hc]; contradiction.
  Qed.

  Theorem eval_function_ok NodeP d f args :
    WFFunction m NodeP d f -> exists vs, eval_function d f args = Ok vs.
  Proof.
    intros (H1 & H2 & H3 & final & Hn & Hout). unfold eval_function.
    destruct (eval_nodes_ok NodeP (WFGraph m NodeP d) (eval_graph d)) with
      (ns := of_nodes f) (outer := @nil string) (loc := of_inputs f)
      (alld := scope_defs (of_inputs f) (of_nodes f)) (forb := @nil string)
      (final := final) (eo := @nil (string * V)) (el := bind_names (of_inputs f) 0 args) as [ef [-> Hf]]; auto.
    - intros vis fb e gid args' Hs Hc. eapply eval_graph_ok; eauto.
    - intros x Hx. destruct Hx.
    - apply covers_bind_names.
    - cbn. eapply read_outs_ok; eauto. eapply final_no_empty; eauto.
  Qed.
End Eval.

Arguments Ok {A}. Arguments LookupFail {A}. Arguments NoGraph {A}. Arguments OutOfFuel {A}.

(* META-THEOREM: for a WF model, for EVERY interpretation of the operators, of the body runner and of the
   initializers, and for every argument list, the evaluation of the main graph (all nested bodies included)
   and of every function body performs only successful name lookups and terminates with outputs. *)
Theorem WF_eval_never_fails m : WF m ->
  exists fuel, forall (V : Type) op_out body_arg init_val,
    (forall args, exists vs, eval_graph V m op_out body_arg init_val fuel [] 0 args = Ok vs) /\
    (forall f args, In f (om_functions m) ->
       exists vs, eval_function V m op_out body_arg init_val fuel f args = Ok vs).
Proof.
  intros [[d [Hg Hf]] _]. exists d. intros V op_out body_arg init_val. split.
  - intro args. eapply eval_graph_ok; [exact Hg|]. intros x Hx. destruct Hx.
  - intros f args Hin. eapply eval_function_ok. now apply Hf.
Qed.

Corollary wf_model_eval_never_fails m : wf_model m = true ->
  forall (V : Type) op_out body_arg init_val,
    (forall args, exists vs, eval_graph V m op_out body_arg init_val (wf_fuel m) [] 0 args = Ok vs) /\
    (forall f args, In f (om_functions m) ->
       exists vs, eval_function V m op_out body_arg init_val (wf_fuel m) f args = Ok vs).
Proof.
  intros H V op_out body_arg init_val. unfold wf_model in H. apply andb_prop in H as [H _].
  apply andb_prop in H as [H1 H2]. split.
  - intro args. eapply eval_graph_ok with (outer := @nil string) (forb := @nil string); [|intros x Hx; destruct Hx].
    eapply chk_graph_sound; [|exact H1]. intros n Hn. exact (node_ok_sound _ _ _ Hn).
  - intros f args Hin. rewrite forallb_forall in H2. specialize (H2 f Hin).
    eapply eval_function_ok. eapply chk_function_sound; [|exact H2]. intros n Hn. exact (node_ok_sound _ _ _ Hn).
Qed.

(* ------------------------------------------------------------------ diagnostics (not trusted: the harness checks
   per model that  wf_first_bad m = None  exactly when  wf_model m = true) *)
Section Diag.
  Variable m : omodel.
  Variable scopes : list (list (string * Z)).

  Definition node_label (n : onode) : string := (on_op n ++ "(" ++ on_name n ++ ")")%string.
  Fixpoint first_dup (l : list string) : option string :=
    match l with [] => None | x :: r => if str_mem x r then Some x else first_dup r end.

  Definition diag_node_ok (n : onode) : option string :=
    if negb (forallb (fun ops => imported ops (on_domain n)) scopes)
    then Some ("domain-not-imported|" ++ on_domain n ++ "@" ++ node_label n)%string
    else match find_fun m (on_domain n) (on_op n) with
         | [] => if str_mem (on_domain n) builtin_domains then None
                 else Some ("call-undefined-function|" ++ on_domain n ++ "::" ++ on_op n ++ "@" ++ node_label n)%string
         | [f] => if Nat.eqb (length (on_ins n)) (length (of_inputs f)) &&
                     Nat.eqb (length (on_outs n)) (length (of_outputs f)) then None
                  else Some ("call-arity|" ++ on_domain n ++ "::" ++ on_op n ++ "@" ++ node_label n)%string
         | _ => Some ("function-defined-twice|" ++ on_domain n ++ "::" ++ on_op n)%string
         end.

  Fixpoint first_some {A} (f : A -> option string) (l : list A) : option string :=
    match l with [] => None | x :: r => match f x with Some e => Some e | None => first_some f r end end.

  Fixpoint diag_nodes (sub : list string -> list string -> nat -> option string) (alld forb outer loc : list string)
    (ns : list onode) : string + list string :=
    match ns with
    | [] => inr loc
    | n :: r =>
        let vis := loc ++ outer in
        match diag_node_ok n with Some e => inl e | None =>
        match find (fun i => negb (String.eqb i "" || str_mem i vis)) (on_ins n) with
        | Some i => inl ("use-before-def|" ++ i ++ "@" ++ node_label n)%string
        | None =>
        match first_some (sub vis (minus (forb ++ alld) (on_outs n))) (node_subgraph_ids n) with Some e => inl e | None =>
        match first_dup (nonempty (on_outs n)) with
        | Some o => inl ("redefined|" ++ o ++ "@" ++ node_label n)%string
        | None =>
        match find (fun o => str_mem o vis) (nonempty (on_outs n)) with
        | Some o => inl ("redefined|" ++ o ++ "@" ++ node_label n)%string
        | None =>
        match find (fun o => str_mem o forb) (nonempty (on_outs n)) with
        | Some o => inl ("redefines-enclosing-scope-name|" ++ o ++ "@" ++ node_label n)%string
        | None => diag_nodes sub alld forb outer (nonempty (on_outs n) ++ loc) r
        end end end end end end
    end.

  Fixpoint diag_graph (fuel : nat) (outer forb : list string) (gid : nat) : option string :=
    match fuel with
    | O => Some "nesting-deeper-than-table|"
    | S f =>
        match graph_by_id m gid with
        | None => Some "missing-graph|"
        | Some g =>
            let ins := map vi_name (og_inputs g) in
            let inits := map vi_name (og_inits g) in
            match first_dup ins with Some x => Some ("duplicate-graph-input|" ++ x)%string | None =>
            match first_dup inits with Some x => Some ("duplicate-initializer|" ++ x)%string | None =>
            if str_mem "" ins || str_mem "" inits then Some "unnamed-input-or-initializer|" else
            match diag_nodes (diag_graph f) (scope_defs (inits ++ ins) (og_nodes g)) forb outer (inits ++ ins) (og_nodes g) with
            | inl e => Some e
            | inr final =>
                match find (fun o => negb (str_mem o final)) (map vi_name (og_outputs g)) with
                | Some o => Some ("graph-output-undefined|" ++ o)%string
                | None => None
                end
            end end end
        end
    end.

  Definition diag_function (fuel : nat) (f : ofunction) : option string :=
    match first_dup (of_inputs f) with Some x => Some ("duplicate-function-input|" ++ x ++ "@" ++ of_name f)%string | None =>
    match first_dup (of_outputs f) with Some x => Some ("duplicate-function-output|" ++ x ++ "@" ++ of_name f)%string | None =>
    if str_mem "" (of_inputs f) then Some ("unnamed-function-input|@" ++ of_name f)%string else
    match diag_nodes (diag_graph fuel) (scope_defs (of_inputs f) (of_nodes f)) [] [] (of_inputs f) (of_nodes f) with
    | inl e => Some ("in-function " ++ of_domain f ++ "::" ++ of_name f ++ " " ++ e)%string
    | inr final =>
        match find (fun o => negb (str_mem o final)) (of_outputs f) with
        | Some o => Some ("function-output-undefined|" ++ o ++ "@" ++ of_name f)%string
        | None => None
        end
    end end end.
End Diag.

Definition wf_first_bad (m : omodel) : option string :=
  match diag_graph m [om_opsets m] (wf_fuel m) [] [] 0 with
  | Some e => Some e
  | None =>
      match first_some (fun f => diag_function m [of_opsets f; om_opsets m] (wf_fuel m) f) (om_functions m) with
      | Some e => Some e
      | None => if fn_acyclic m then None else Some "recursive-function-calls|"
      end
  end.

(* ------------------------------------------------------------------ sanity of the converter output (trusted base):
   ids are positions, every graph but 0 is referenced by exactly one graph attribute, parent links agree with
   the references and point to smaller ids (so every graph is reachable from graph 0 or from a function body) *)
Definition all_refs (m : omodel) : list (option nat * nat) :=
  flat_map (fun g => map (fun i => (Some (og_id g), i)) (flat_map node_subgraph_ids (og_nodes g))) (om_graphs m) ++
  flat_map (fun f => map (fun i => (@None nat, i)) (flat_map node_subgraph_ids (of_nodes f))) (om_functions m).

Fixpoint nodupb_nat (l : list nat) : bool :=
  match l with [] => true | x :: r => negb (existsb (Nat.eqb x) r) && nodupb_nat r end.

Definition onat_eqb (a b : option nat) : bool :=
  match a, b with Some x, Some y => Nat.eqb x y | None, None => true | _, _ => false end.

Definition table_ok (m : omodel) : bool :=
  let n := length (om_graphs m) in
  let refs := all_refs m in
  forallb (fun p => Nat.eqb (og_id (snd p)) (fst p)) (combine (seq 0 n) (om_graphs m)) &&
  nodupb_nat (map snd refs) && Nat.eqb (S (length refs)) n &&
  forallb (fun r => (0 <? snd r)%nat && (snd r <? n)%nat &&
                    match graph_by_id m (snd r) with
                    | Some g => onat_eqb (og_parent g) (fst r) &&
                                match fst r with Some p => (p <? snd r)%nat | None => true end
                    | None => false end) refs &&
  match graph_by_id m 0 with Some g => onat_eqb (og_parent g) None | None => false end.

(* ------------------------------------------------------------------ non-vacuity *)
Definition ex_then : ograph := mkOG 1 (Some 0%nat) [] []
  [mkON "Abs" "" "a" ["x"] ["t"] []] [mkVI "t" 1 None] [].
Definition ex_else : ograph := mkOG 2 (Some 0%nat) [] []
  [mkON "F" "custom.F.1" "c" ["x"] ["t"] []] [mkVI "t" 1 None] [].
Definition ex_main : ograph := mkOG 0 None [mkVI "c" 9 None; mkVI "x" 1 None] [mkVI "w" 1 None]
  [mkON "Add" "" "n0" ["x"; "w"] ["p"] [];
   mkON "If" "" "n1" ["c"] ["y"] [("then_branch", AGraph 1); ("else_branch", AGraph 2)]]
  [mkVI "y" 1 None] [].
Definition ex_fun : ofunction := mkOF "F" "custom.F.1" ["a"] ["b"] [mkON "Neg" "" "" ["a"] ["b"] []] [("", 21%Z)] [].
Definition ex_model : omodel := mkOM 10 [("", 21%Z); ("custom.F.1", 1%Z)] [ex_main; ex_then; ex_else] [ex_fun].

Example ex_model_wf : wf_model ex_model = true /\ table_ok ex_model = true /\ wf_first_bad ex_model = None.
Proof. vm_compute. repeat split. Qed.

(* a body that redefines a visible outer name, a body that reads a value defined after its owner, a call with the
   wrong arity, a function body that reads a main-graph value: all rejected *)
Definition with_then (ns : list onode) : omodel :=
  mkOM 10 [("", 21%Z); ("custom.F.1", 1%Z)]
    [ex_main; mkOG 1 (Some 0%nat) [] [] ns [mkVI "t" 1 None] []; ex_else] [ex_fun].
(* position-independent part of the rule: a body may not define a name that the parent defines LATER (here "late"),
   but may reuse the name of its owner's output ("y") *)
Definition with_later (inner_out : string) : omodel :=
  mkOM 10 [("", 21%Z)]
    [mkOG 0 None [mkVI "c" 9 None; mkVI "x" 1 None] []
       [mkON "If" "" "n1" ["c"] ["y"] [("then_branch", AGraph 1); ("else_branch", AGraph 2)];
        mkON "Relu" "" "n2" ["x"] ["late"] []]
       [mkVI "y" 1 None; mkVI "late" 1 None] [];
     mkOG 1 (Some 0%nat) [] [] [mkON "Abs" "" "a" ["x"] [inner_out] []] [mkVI inner_out 1 None] [];
     mkOG 2 (Some 0%nat) [] [] [mkON "Neg" "" "b" ["x"] ["e"] []] [mkVI "e" 1 None] []] [].
Example ex_position_independent :
  wf_model (with_later "late") = false /\ wf_model (with_later "y") = true /\ wf_model (with_later "t") = true /\
  wf_first_bad (with_later "late") = Some "redefines-enclosing-scope-name|late@Abs(a)".
Proof. vm_compute. repeat split. Qed.

Example ex_rejects :
  wf_model (with_then [mkON "Abs" "" "a" ["x"] ["p"] []; mkON "Abs" "" "b" ["p"] ["t"] []]) = false /\
  wf_model (with_then [mkON "Abs" "" "a" ["y"] ["t"] []]) = false /\
  wf_model (with_then [mkON "F" "custom.F.1" "a" ["x"; "x"] ["t"] []]) = false /\
  wf_model (mkOM 10 [("", 21%Z); ("custom.F.1", 1%Z)] [ex_main; ex_then; ex_else]
              [mkOF "F" "custom.F.1" ["a"] ["b"] [mkON "Neg" "" "" ["x"] ["b"] []] [("", 21%Z)] []]) = false /\
  wf_model (mkOM 10 [("", 21%Z)] [ex_main; ex_then; ex_else] [ex_fun]) = false.
Proof. vm_compute. repeat split. Qed.

(* ------------------------------------------------------------------ call sites of one function agree on argument types
   The AST carries no FunctionProto.value_info, so the formal element types of a function are not available; what IS
   checkable statically: every call site (in the main graph and its nested bodies) of one model function passes the
   same KNOWN element type at each argument position (known = declared by a graph input / initializer / value_info /
   graph output of the calling graph; 0 = unknown).  A FunctionProto built for one element type and bound to a call
   with another (second seeded regression: function registry keyed on the dtype KIND) violates this whenever the
   export also contains the call the definition was built for. *)
Definition dtype_in (g : ograph) (x : string) : Z :=
  match find (fun v => String.eqb (vi_name v) x) (og_inputs g ++ og_inits g ++ og_vinfos g ++ og_outputs g) with
  | Some v => vi_dtype v
  | None => 0%Z
  end.

Definition call_sites (m : omodel) : list ((string * string) * list Z) :=
  flat_map (fun g => flat_map (fun n => match find_fun m (on_domain n) (on_op n) with
                                        | [] => []
                                        | _ => [((on_domain n, on_op n), map (dtype_in g) (on_ins n))]
                                        end) (og_nodes g)) (om_graphs m).

Definition ty_compat (a b : Z) : bool := (a =? 0)%Z || (b =? 0)%Z || (a =? b)%Z.
Fixpoint tys_compat (a b : list Z) : bool :=
  match a, b with x :: r, y :: s => ty_compat x y && tys_compat r s | _, _ => true end.
Definition key_eqb (a b : string * string) : bool := String.eqb (fst a) (fst b) && String.eqb (snd a) (snd b).

Definition call_types_ok (m : omodel) : bool :=
  let cs := call_sites m in
  forallb (fun c1 => forallb (fun c2 => negb (key_eqb (fst c1) (fst c2)) || tys_compat (snd c1) (snd c2)) cs) cs.

Definition CallTypesAgree (m : omodel) : Prop :=
  forall k a b, In (k, a) (call_sites m) -> In (k, b) (call_sites m) ->
  forall i ta tb, nth_error a i = Some ta -> nth_error b i = Some tb -> ta <> 0%Z -> tb <> 0%Z -> ta = tb.

Lemma tys_compat_nth : forall a b, tys_compat a b = true ->
  forall i ta tb, nth_error a i = Some ta -> nth_error b i = Some tb -> ta <> 0%Z -> tb <> 0%Z -> ta = tb.
Proof.
  induction a as [|x r IH]; intros b H i ta tb Ha Hb Na Nb; [destruct i; discriminate|].
  destruct b as [|y s]; [destruct i; discriminate|]. cbn in H. apply andb_prop in H as [H1 H2].
  destruct i as [|i]; cbn in Ha, Hb.
  - injection Ha as ->. injection Hb as ->. unfold ty_compat in H1.
    apply orb_prop in H1 as [H1|H1]; [apply orb_prop in H1 as [H1|H1]|]; apply Z.eqb_eq in H1; congruence.
  - eapply IH; eauto.
Qed.

Lemma call_types_ok_sound m : call_types_ok m = true -> CallTypesAgree m.
Proof.
  unfold call_types_ok, CallTypesAgree. intros H k a b Ha Hb.
  rewrite forallb_forall in H. specialize (H _ Ha). rewrite forallb_forall in H. specialize (H _ Hb).
  cbn [fst snd] in H. unfold key_eqb in H. rewrite !String.eqb_refl in H. cbn in H. now apply tys_compat_nth.
Qed.

Definition wf_model_typed (m : omodel) : bool := wf_model m && call_types_ok m.

Theorem wf_model_typed_sound m : wf_model_typed m = true -> WF m /\ CallTypesAgree m.
Proof.
  unfold wf_model_typed. intro H. apply andb_prop in H as [H1 H2].
  split; [now apply wf_model_sound | now apply call_types_ok_sound].
Qed.

Definition first_type_clash (m : omodel) : option string :=
  let cs := call_sites m in
  match find (fun c1 => negb (forallb (fun c2 => negb (key_eqb (fst c1) (fst c2)) || tys_compat (snd c1) (snd c2)) cs)) cs with
  | Some c => Some ("call-argument-types-differ|" ++ fst (fst c) ++ "::" ++ snd (fst c))%string
  | None => None
  end.
Definition wf_first_bad_typed (m : omodel) : option string :=
  match wf_first_bad m with Some e => Some e | None => first_type_clash m end.

(* non-vacuity: one definition bound to an int32 call (6) and an int8 call (3) is rejected; with separate definitions
   (the unchanged exporter) or equal types it is accepted *)
Definition ex_calls (d2 : string) (t2 : Z) : omodel :=
  mkOM 10 [("", 21%Z); ("custom.F.1", 1%Z); ("custom.F.2", 1%Z)]
    [mkOG 0 None [mkVI "a" 6 None; mkVI "b" t2 None] []
       [mkON "F" "custom.F.1" "c1" ["a"] ["y"] []; mkON "F" d2 "c2" ["b"] ["z"] []]
       [mkVI "y" 6 None; mkVI "z" t2 None] []]
    [mkOF "F" "custom.F.1" ["a"] ["b"] [mkON "Neg" "" "" ["a"] ["b"] []] [("", 21%Z)] [];
     mkOF "F" "custom.F.2" ["a"] ["b"] [mkON "Neg" "" "" ["a"] ["b"] []] [("", 21%Z)] []].
Example ex_call_types :
  wf_model_typed (ex_calls "custom.F.1" 3) = false /\ wf_model (ex_calls "custom.F.1" 3) = true /\
  wf_model_typed (ex_calls "custom.F.2" 3) = true /\ wf_model_typed (ex_calls "custom.F.1" 6) = true /\
  wf_first_bad_typed (ex_calls "custom.F.1" 3) = Some "call-argument-types-differ|custom.F.1::F".
Proof. vm_compute. repeat split. Qed.
