(* ElemBroadcast (C02): n-ary pointwise operators under GENERAL numpy broadcasting (right-aligned shapes, a dimension of an
   operand is 1 or the common one), and the two facts the transpose folds need of it:
     - on operand lists without genuine broadcasting ([operands_ok]: one-element tensors and copies of one shape) it is the
       operator [pwn] of ElemCommute.v;
     - it commutes with Transpose when every operand is either transposed with the same permutation (rank = len perm) or a
       one-element tensor of rank <= len perm: also when two transposed operands broadcast against each other
       (e.g. shapes [2;1;4] and [1;3;4]). *)
From Coq Require Import String List Bool Arith Lia.
From J2O Require Import PyLib Tensor Reshape ElemCommute C02Opt ElemSem.
Import ListNotations.

Section Bcast.
  Variable A : Type.
  Notation T := (tensor A).

  (* dimension i of shape s right-aligned in rank r (1 where it is padded) *)
  Definition pdim (r : nat) (s : list nat) (i : nat) : nat :=
    if i <? r - length s then 1 else nth (i - (r - length s)) s 1.
  Definition bd (a b : nat) : nat := if a =? 1 then b else a.
  Definition bdim_at (r : nat) (vs : list T) (i : nat) : nat := fold_right (fun v acc => bd (pdim r (shape v) i) acc) 1 vs.
  Definition bshape (vs : list T) : list nat := map (bdim_at (prank vs) vs) (seq 0 (prank vs)).
  (* the index into an operand: 0 along its dimensions of extent 1 *)
  Definition bidx (s idx : list nat) : list nat := map (fun k => if nth k s 0 =? 1 then 0 else nth k idx 0) (seq 0 (length s)).
  Definition oval (r : nat) (v : T) (idx : list nat) : A := at_ v (bidx (shape v) (skipn (r - length (shape v)) idx)).
  Definition pwg (F : list A -> A) (vs : list T) : T :=
    mkT (bshape vs) (fun idx => F (map (fun v => oval (prank vs) v idx) vs)).
  (* the operands broadcast: every (padded) dimension is 1 or the common one *)
  Definition bcast_ok (vs : list T) : Prop :=
    forall v, In v vs -> forall i, i < prank vs -> pdim (prank vs) (shape v) i = 1 \/ pdim (prank vs) (shape v) i = bdim_at (prank vs) vs i.

  Lemma nth_map_seq {B} (f : nat -> B) n k d : k < n -> nth k (map f (seq 0 n)) d = f k.
  Proof. intro H. rewrite (nth_indep _ d (f 0)) by (now rewrite map_length, seq_length). rewrite map_nth. now rewrite seq_nth. Qed.

  Lemma bidx_length s idx : length (bidx s idx) = length s.
  Proof. unfold bidx. now rewrite map_length, seq_length. Qed.
  Lemma nth_bidx s idx k : k < length s -> nth k (bidx s idx) 0 = if nth k s 0 =? 1 then 0 else nth k idx 0.
  Proof.
    intro Hk. unfold bidx. now rewrite nth_map_seq.
  Qed.
  Lemma bidx_all1 s idx : all1 s = true -> bidx s idx = repeat 0 (length s).
  Proof.
    intro H. apply nth_ext with (d := 0) (d' := 0); [now rewrite bidx_length, repeat_length|].
    intros k Hk. rewrite bidx_length in Hk. rewrite nth_bidx by exact Hk. rewrite (proj1 (all1_nth s) H k Hk). simpl.
    symmetry. apply nth_repeat.
  Qed.
  Lemma oval_all1 r v idx : all1 (shape v) = true -> oval r v idx = sval v.
  Proof. intro H. unfold oval, sval. now rewrite bidx_all1. Qed.

  Lemma pdim_all1 r s i : all1 s = true -> pdim r s i = 1.
  Proof.
    intro H. unfold pdim. destruct (i <? r - length s); [reflexivity|].
    destruct (Nat.lt_ge_cases (i - (r - length s)) (length s)) as [Hl|Hl].
    - rewrite (nth_indep _ 1 0) by exact Hl. now apply (proj1 (all1_nth s) H).
    - now apply nth_overflow.
  Qed.
  Lemma pdim_full r s i : length s = r -> pdim r s i = nth i s 1.
  Proof. intros <-. unfold pdim. rewrite Nat.sub_diag. cbn. now rewrite Nat.sub_0_r. Qed.

  Lemma bdim_at_ext r (vs ws : list T) i j : Forall2 (fun v w => pdim r (shape v) i = pdim r (shape w) j) vs ws ->
    bdim_at r vs i = bdim_at r ws j.
  Proof. unfold bdim_at. induction 1 as [|v w l l' H _ IH]; simpl; [reflexivity|]. now rewrite H, IH. Qed.

  (* ---- no genuine broadcasting: pwg is pwn *)
  Lemma bdim_at_cons r v (l : list T) i : bdim_at r (v :: l) i = bd (pdim r (shape v) i) (bdim_at r l i).
  Proof. reflexivity. Qed.
  Lemma bd_1 b : bd 1 b = b. Proof. reflexivity. Qed.

  Lemma bd_fold_ones r (vs : list T) i : Forall (fun v => all1 (shape v) = true) vs -> bdim_at r vs i = 1.
  Proof. induction 1 as [|v l Hv _ IH]; [reflexivity|]. now rewrite bdim_at_cons, (pdim_all1 _ _ _ Hv), bd_1. Qed.

  Lemma bd_fold_common r (vs : list T) s i : Forall (fun v => all1 (shape v) = true \/ shape v = s) vs ->
    bdim_at r vs i = 1 \/ bdim_at r vs i = pdim r s i.
  Proof.
    induction 1 as [|v l Hv _ IH]; [now left|]. rewrite bdim_at_cons. destruct Hv as [Hv|Hv].
    - now rewrite (pdim_all1 _ _ _ Hv), bd_1.
    - rewrite Hv. unfold bd. destruct (pdim r s i =? 1) eqn:E; [exact IH | now right].
  Qed.
  Lemma bd_fold_member r (vs : list T) s i x : Forall (fun v => all1 (shape v) = true \/ shape v = s) vs -> In x vs -> shape x = s ->
    bdim_at r vs i = pdim r s i.
  Proof.
    intros Hall. induction Hall as [|v l Hv Hall IH]; intros Hin Hx; [contradiction|]. rewrite bdim_at_cons.
    destruct Hin as [->|Hin].
    - rewrite Hx. unfold bd. destruct (pdim r s i =? 1) eqn:E; [|reflexivity]. apply Nat.eqb_eq in E.
      destruct (bd_fold_common r l s i Hall) as [H|H]; rewrite H; congruence.
    - specialize (IH Hin Hx). destruct Hv as [Hv|Hv].
      + now rewrite (pdim_all1 _ _ _ Hv), bd_1.
      + rewrite Hv. unfold bd. destruct (pdim r s i =? 1) eqn:E; [exact IH | reflexivity].
  Qed.

  Lemma pad_pdim r s : length s <= r -> map (pdim r s) (seq 0 r) = repeat 1 (r - length s) ++ s.
  Proof.
    intro Hl. apply nth_ext with (d := 1) (d' := 1).
    - rewrite map_length, seq_length, app_length, repeat_length. lia.
    - intros i Hi. rewrite map_length, seq_length in Hi.
      rewrite nth_map_seq by exact Hi.
      unfold pdim. destruct (Nat.ltb_spec i (r - length s)) as [H|H].
      + rewrite app_nth1 by (now rewrite repeat_length). symmetry. apply nth_repeat.
      + rewrite app_nth2 by (now rewrite repeat_length). now rewrite repeat_length.
  Qed.

  Lemma in_range_skipn d s idx : in_range (repeat 1 d ++ s) idx -> in_range s (skipn d idx).
  Proof.
    revert idx. induction d as [|d IH]; intros idx H; [exact H|]. simpl in H. inversion H as [|a b l l' Hab Hr]; subst. simpl. now apply IH.
  Qed.
  Lemma bidx_in_range s idx : in_range s idx -> bidx s idx = idx.
  Proof.
    intro H. apply nth_ext with (d := 0) (d' := 0); [rewrite bidx_length; symmetry; now apply in_range_length|].
    intros k Hk. rewrite bidx_length in Hk. rewrite nth_bidx by exact Hk.
    destruct (nth k s 0 =? 1) eqn:E; [|reflexivity]. apply Nat.eqb_eq in E. pose proof (@in_range_nth s idx k H Hk) as Hlt. lia.
  Qed.

  Lemma ok_shape (vs : list T) : operands_ok vs ->
    bshape vs = repeat 1 (prank vs - length (full_shape vs)) ++ full_shape vs /\
    (forall v, In v vs -> all1 (shape v) = false -> shape v = full_shape vs /\ length (full_shape vs) <= prank vs) /\
    (forall i, i < prank vs -> bdim_at (prank vs) vs i = pdim (prank vs) (full_shape vs) i).
  Proof.
    intro Hok. unfold operands_ok in Hok.
    { unfold full_shape in *. destruct (find (fun v => negb (all1 (shape v))) vs) as [x|] eqn:Ef.
      - apply find_some in Ef as [Hx Hxn]. apply negb_true_iff in Hxn.
        assert (Hlen : length (shape x) <= prank vs) by now apply prank_ge.
        assert (Hb : forall i, bdim_at (prank vs) vs i = pdim (prank vs) (shape x) i) by (intro i; apply (bd_fold_member _ vs (shape x) i x Hok Hx eq_refl)).
        split; [|split].
        + unfold bshape. rewrite <- (pad_pdim _ _ Hlen). apply map_ext. exact Hb.
        + intros v Hv Hv1. rewrite Forall_forall in Hok. destruct (Hok v Hv) as [H|H]; [congruence|]. split; [exact H | exact Hlen].
        + intros i _. apply Hb.
      - assert (Hall : Forall (fun v => all1 (shape v) = true) vs).
        { apply Forall_forall. intros v Hv. pose proof (find_none _ _ Ef v Hv) as H. now apply negb_false_iff in H. }
        split; [|split].
        + unfold bshape. cbn [length]. rewrite Nat.sub_0_r, app_nil_r.
          apply nth_ext with (d := 1) (d' := 1); [now rewrite map_length, seq_length, repeat_length|].
          intros i Hi. rewrite map_length, seq_length in Hi.
          rewrite nth_map_seq by exact Hi.
          rewrite nth_repeat. now apply bd_fold_ones.
        + intros v Hv Hv1. rewrite Forall_forall in Hall. rewrite (Hall v Hv) in Hv1. discriminate.
        + intros i _. rewrite bd_fold_ones by exact Hall. unfold pdim. cbn [length]. rewrite Nat.sub_0_r.
          destruct (i <? prank vs); [reflexivity | now destruct (i - prank vs)]. }
  Qed.

  Lemma operands_ok_bcast (vs : list T) : operands_ok vs -> bcast_ok vs.
  Proof.
    intro Hok. destruct (ok_shape vs Hok) as (Hsh & Hfull & Hbd).
    intros v Hv i Hi. destruct (all1 (shape v)) eqn:Ev; [left; now apply pdim_all1|]. right.
    destruct (Hfull v Hv Ev) as [Hs _]. rewrite Hs. symmetry. now apply Hbd.
  Qed.

  Theorem pwg_pwn F (vs : list T) : operands_ok vs -> teq (pwg F vs) (pwn F vs).
  Proof.
    intro Hok. destruct (ok_shape vs Hok) as (Hsh & Hfull & Hbd).
    split; cbn [pwg pwn shape at_]; [exact Hsh|]. intros idx Hidx. f_equal. apply map_ext_in. intros v Hv.
    unfold opnd. destruct (all1 (shape v)) eqn:Ev; [now apply oval_all1|].
    destruct (Hfull v Hv Ev) as [Hs Hl]. unfold oval. rewrite Hs. f_equal. apply bidx_in_range. apply in_range_skipn. now rewrite <- Hsh.
  Qed.
End Bcast.
Arguments bdim_at {A}. Arguments bshape {A}. Arguments oval {A}. Arguments pwg {A}. Arguments bcast_ok {A}.
Arguments bdim_at_ext {A}. Arguments oval_all1 {A}. Arguments pwg_pwn {A}. Arguments operands_ok_bcast {A}. Arguments bd_fold_ones {A}.

Section BcastTransp.
  Variable A : Type.
  Notation T := (tensor A).

  Lemma trel_pdim p (v w : T) i : is_perm p -> trel p v w -> length (shape v) <= length p -> i < length p ->
    pdim (length p) (shape v) i = pdim (length p) (shape w) (nth i p 0).
  Proof.
    intros Hp Hr Hle Hi.
    assert (Hpi : nth i p 0 < length p) by (destruct Hp as [_ H]; rewrite Forall_forall in H; apply H; now apply nth_In).
    destruct Hr as [[Ht Hl]|[H1 Ht]].
    - destruct Ht as [Hs _]. cbn [transpose shape] in Hs.
      assert (Hlv : length (shape v) = length p) by (rewrite Hs; apply gather_length).
      rewrite !pdim_full by auto. rewrite Hs.
      rewrite (nth_indep _ 1 0) by (now rewrite gather_length). rewrite nth_gather by exact Hi.
      apply nth_indep. now rewrite Hl.
    - destruct Ht as [Hs _]. rewrite <- Hs. now rewrite !pdim_all1.
  Qed.

  Theorem pwg_transpose F p (vs vs' : list T) : is_perm p ->
    Forall2 (trel p) vs vs' -> Exists (fun v => length (shape v) = length p) vs ->
    Forall (fun v => length (shape v) <= length p) vs -> bcast_ok vs ->
    bcast_ok vs' /\ teq (pwg F vs) (transpose p (pwg F vs')) /\ length (shape (pwg F vs')) = length p.
  Proof.
    intros Hp H2 Hex Hle Hok.
    assert (Hfacts : Forall2 (fun v w => trel p v w /\ all1 (shape v) = all1 (shape w) /\ length (shape v) = length (shape w) /\
                                          (all1 (shape v) = true -> sval v = sval w)) vs vs').
    { eapply Forall2_imp; [|exact H2]. intros v w H. split; auto. now apply (trel_facts p). }
    assert (Hpr : prank vs = prank vs') by (apply prank_Forall2; eapply Forall2_imp; [|exact Hfacts]; intros v w (_ & _ & H & _); exact H).
    assert (Hpn : prank vs = length p).
    { apply Nat.le_antisymm; [now apply prank_le|]. apply Exists_exists in Hex as (v & Hv & <-). now apply prank_ge. }
    assert (Hpn' : prank vs' = length p) by congruence.
    assert (Hlt : forall i, i < length p -> nth i p 0 < length p).
    { intros i Hi. destruct Hp as [_ H]. rewrite Forall_forall in H. apply H. now apply nth_In. }
    (* the dimensions, operand by operand and in total *)
    assert (Hc : Forall2 (fun v w => (trel p v w /\ all1 (shape v) = all1 (shape w) /\ length (shape v) = length (shape w) /\
                                     (all1 (shape v) = true -> sval v = sval w)) /\ In v vs /\ In w vs') vs vs').
    { clear - Hfacts. induction Hfacts as [|v w l l' H _ IH]; constructor; [split; auto; split; now left|].
      eapply Forall2_imp; [|exact IH]. intros b c [Hb [Hin Hin']]. split; auto. split; now right. }
    assert (Hdim : forall i, i < length p -> bdim_at (length p) vs i = bdim_at (length p) vs' (nth i p 0)).
    { intros i Hi. apply bdim_at_ext. eapply Forall2_imp; [|exact Hc]. cbv beta. intros v w ((Hr & _) & Hin & _).
      apply trel_pdim; auto. rewrite Forall_forall in Hle. now apply Hle. }
    assert (Hshape : bshape vs = gather 0 p (bshape vs')).
    { unfold bshape. rewrite Hpn, Hpn'. apply nth_ext with (d := 0) (d' := 0); [now rewrite gather_length, map_length, seq_length|].
      intros i Hi. rewrite map_length, seq_length in Hi. rewrite nth_map_seq by exact Hi. rewrite nth_gather by exact Hi.
      rewrite nth_map_seq by (now apply Hlt). now apply Hdim. }
    assert (Hok' : bcast_ok vs').
    { intros w Hw j Hj. rewrite Hpn' in *.
      (* j = p[i] for i = inv p [j] *)
      set (i := index_of j p). assert (Hin : In j p) by (apply perm_In; auto).
      assert (Hi : i < length p) by (now apply index_of_lt). assert (Hij : nth i p 0 = j) by (now apply nth_index_of).
      assert (Hv : exists v, In v vs /\ trel p v w).
      { clear - Hw H2. induction H2 as [|v0 w0 l l' Hr _ IH]; [contradiction|]. destruct Hw as [<-|Hw]; [exists v0; split; [now left | exact Hr]|].
        destruct (IH Hw) as (v & Hv & Hrv). exists v. split; [now right | exact Hrv]. }
      destruct Hv as (v & Hv & Hrv). specialize (Hok v Hv i). rewrite Hpn in Hok. specialize (Hok Hi).
      assert (Hlev : length (shape v) <= length p) by (rewrite Forall_forall in Hle; now apply Hle).
      rewrite (trel_pdim p v w i Hp Hrv Hlev Hi), (Hdim i Hi), Hij in Hok. exact Hok. }
    split; [exact Hok'|]. split; [|cbn [pwg shape]; unfold bshape; now rewrite map_length, seq_length].
    split; cbn [pwg shape at_ transpose]; [exact Hshape|]. intros idx Hidx. f_equal. apply map_Forall2_eq.
    assert (Hlidx : length idx = length p).
    { apply in_range_length in Hidx. rewrite Hidx. unfold bshape. now rewrite map_length, seq_length. }
    eapply Forall2_imp; [|exact Hc]. cbv beta. intros v w ((Hr & Ha & Hl & Hs) & Hin & Hin'). rewrite Hpn, Hpn'.
    destruct (all1 (shape v)) eqn:Ev.
    - rewrite oval_all1 by exact Ev. rewrite oval_all1 by (now rewrite <- Ha). now apply Hs.
    - destruct Hr as [[Ht Hlw]|[H1 _]]; [|congruence]. destruct Ht as [Hsv Hval]. cbn [transpose shape at_] in Hsv, Hval.
      assert (Hlv : length (shape v) = length p) by (rewrite Hsv; apply gather_length).
      unfold oval. rewrite Hlv, Hlw, Nat.sub_diag. cbn [skipn].
      rewrite Hval.
      + f_equal. apply nth_ext with (d := 0) (d' := 0); [now rewrite gather_length, inv_perm_length, bidx_length|].
        intros j Hj. rewrite gather_length, inv_perm_length in Hj.
        assert (Hin_j : In j p) by (apply perm_In; auto).
        assert (Hk : index_of j p < length p) by (now apply index_of_lt).
        rewrite nth_gather by (now rewrite inv_perm_length). rewrite nth_inv_perm by exact Hj.
        rewrite nth_bidx by (now rewrite Hlv). rewrite nth_bidx by (now rewrite Hlw).
        rewrite Hsv. rewrite nth_gather by exact Hk. rewrite nth_index_of by exact Hin_j.
        rewrite nth_gather by (now rewrite inv_perm_length). now rewrite nth_inv_perm by exact Hj.
      + (* the clamped index is in range of the operand *)
        apply in_range_intro; [now rewrite bidx_length|]. intros k Hk. rewrite nth_bidx by exact Hk.
        destruct (nth k (shape v) 0 =? 1) eqn:E; [apply Nat.eqb_eq in E; lia|]. apply Nat.eqb_neq in E.
        rewrite Hlv in Hk. pose proof (Hok v Hin k) as Hd. rewrite Hpn in Hd. specialize (Hd Hk). rewrite pdim_full in Hd by exact Hlv.
        rewrite (nth_indep _ 1 0) in Hd by (now rewrite Hlv). destruct Hd as [Hd|Hd]; [congruence|].
        rewrite Hd. assert (Hb : nth k idx 0 < nth k (bshape vs) 0).
        { apply in_range_nth; auto. unfold bshape. now rewrite map_length, seq_length, Hpn. }
        unfold bshape in Hb. rewrite Hpn in Hb. now rewrite nth_map_seq in Hb by exact Hk.
  Qed.
End BcastTransp.
Arguments pwg_transpose {A}.

Lemma pwg_rank {A} (F : list A -> A) (vs : list (tensor A)) : length (shape (pwg F vs)) = prank vs.
Proof. cbn [pwg shape]. unfold bshape. now rewrite map_length, seq_length. Qed.

Lemma pwg_all1_shape {A} (F : list A -> A) (vs : list (tensor A)) : Forall (fun v => all1 (shape v) = true) vs -> all1 (shape (pwg F vs)) = true.
Proof.
  intro Hall. cbn [pwg shape]. unfold bshape. apply all1_nth. intros k Hk. rewrite map_length, seq_length in Hk.
  rewrite nth_map_seq by exact Hk. now apply bd_fold_ones.
Qed.

(* ---- what the region folds of the transpose passes assume of the pointwise operators: general numpy broadcasting.
        It implies the restricted reading [sem_pointwise_spec_a] the chain folds use. *)
Section SpecG.
  Variable A : Type.
  Notation V := (tensor A).
  Variable sem : string -> list nat -> list V -> option (list V).
  Variable norm : string -> string.

  Definition sem_pointwise_spec_g (F : string -> list nat -> list A -> A) : Prop :=
    forall op ats vs o, str_in (norm op) pw_ops_all = true -> sem op ats vs = Some o ->
      bcast_ok vs /\ exists y, o = [y] /\ teq y (pwg (F (norm op) ats) vs).
  Definition sem_accepts_spec_g : Prop := forall op ats vs vs',
    str_in (norm op) (pw_ops_all ++ ["CastLike"%string]) = true -> sem op ats vs <> None -> Forall2 same_elems vs vs' ->
    (norm op = "CastLike"%string \/ bcast_ok vs') -> sem op ats vs' <> None.

  Lemma spec_g_a F : sem_pointwise_spec_g F -> sem_pointwise_spec_a A sem norm F.
  Proof.
    intros H op ats vs o Hop Hs Hok. destruct (H op ats vs o Hop Hs) as (_ & y & Ho & Hy). exists y. split; [exact Ho|].
    eapply teq_trans; [exact Hy|]. exact (pwg_pwn _ vs Hok).
  Qed.
  Lemma accepts_g_a : sem_accepts_spec_g -> sem_accepts_spec_a A sem norm.
  Proof.
    intros H op ats vs vs' Hop Hs Hse Hor. apply (H op ats vs vs' Hop Hs Hse). destruct Hor as [Hc|Hok]; [now left | right].
    now apply operands_ok_bcast.
  Qed.
End SpecG.

Theorem pwg_restricts {A} (F : list A -> A) (vs : list (tensor A)) : operands_ok vs -> bcast_ok vs /\ teq (pwg F vs) (pwn F vs).
Proof. intro H. split; [exact (operands_ok_bcast vs H) | exact (pwg_pwn F vs H)]. Qed.
