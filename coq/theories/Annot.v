(* Annot (C08): static shape annotations never contradict run time.
   - concrete numpy/ONNX multidirectional broadcasting [bcast], its relational characterisation [Broadcast];
   - what an annotation dim claims under a binding of the symbols [dim_ok] / [denote_dim];
   - the TRANSLATED annotation helpers of jax2onnx (gen/GenShapes.v, regenerated from /repo on every run):
     [broadcast_shape_dims] never claims something false, [unknown_shape_like] only weakens;
   - hand models (tied differentially by harness/c08.py) of [_loosen_graph_value_shapes] and
     [_refresh_elementwise_output_shape]; the latter is REFUTED at full strength and proved under the exact hypothesis;
   - a checker [annot_consistent] for real exports (omodel) with soundness theorems. *)
From Coq Require Import ZArith String List Bool Lia Arith PeanoNat.
From J2O Require Import Onnx.
From J2OGen Require Import GenShapes.
Import ListNotations.
Local Open Scope nat_scope.
(* every automation call runs under a time limit *)
Ltac tlia := timeout 20 lia.
Ltac au := timeout 20 auto.
Ltac eau := timeout 20 eauto.
Ltac tau := timeout 20 tauto.
Ltac cong := timeout 20 congruence.

(* ================================================================= 1. concrete broadcasting *)
Definition bdim (a b : nat) : option nat :=
  if Nat.eqb a b then Some a else if Nat.eqb a 1 then Some b else if Nat.eqb b 1 then Some a else None.

(* on reversed shapes: innermost axis first, the shorter shape is padded with 1 at the end *)
Fixpoint bcast_rev (a b : list nat) : option (list nat) :=
  match a, b with
  | [], _ => Some b
  | _, [] => Some a
  | x :: a', y :: b' =>
      match bdim x y, bcast_rev a' b' with Some d, Some r => Some (d :: r) | _, _ => None end
  end.
Definition bcast (a b : list nat) : option (list nat) :=
  option_map (@rev nat) (bcast_rev (rev a) (rev b)).
Definition bcast_list (l : list (list nat)) : option (list nat) :=
  fold_right (fun s acc => match acc with Some r => bcast s r | None => None end) (Some []) l.

Example bcast_ex1 : bcast [3] [1; 1] = Some [1; 3]. Proof. reflexivity. Qed.
Example bcast_ex2 : bcast [2; 1; 4] [3; 1] = Some [2; 3; 4]. Proof. reflexivity. Qed.
Example bcast_ex3 : bcast [2; 3] [4] = None. Proof. reflexivity. Qed.
Example bcast_ex4 : bcast [0; 3] [1; 3] = Some [0; 3]. Proof. reflexivity. Qed.
Example bcast_ex5 : bcast_list [[3]; [1; 1]; [2; 1; 1]] = Some [2; 1; 3]. Proof. reflexivity. Qed.

(* the numpy rule, relationally: extent k-th from the right (1 when the shape is shorter) *)
Definition dim_at (s : list nat) (k : nat) : nat := nth k (rev s) 1.
Definition ColP (col : list nat) (m : nat) : Prop :=
  (forall x, In x col -> x = 1 \/ x = m) /\ (m = 1 \/ In m col).
Definition Broadcast (cs : list (list nat)) (cr : list nat) : Prop :=
  length cr = list_max_nat (map (@length nat) cs) /\
  forall k, ColP (map (fun c => dim_at c k) cs) (dim_at cr k).

Lemma bdim_1_l y : bdim 1 y = Some y.
Proof. unfold bdim. destruct (Nat.eqb_spec 1 y); [subst|]; reflexivity. Qed.
Lemma bdim_1_r x : bdim x 1 = Some x.
Proof.
  unfold bdim. destruct (Nat.eqb_spec x 1); [subst; reflexivity|].
  destruct (Nat.eqb_spec x 1); [contradiction|]. reflexivity.
Qed.
Lemma bdim_cases x y m : bdim x y = Some m -> (x = m /\ y = m) \/ (x = 1 /\ y = m) \/ (y = 1 /\ x = m).
Proof.
  unfold bdim. destruct (Nat.eqb_spec x y); [intro H; injection H as <-; subst; au|].
  destruct (Nat.eqb_spec x 1); [intro H; injection H as <-; au|].
  destruct (Nat.eqb_spec y 1); [intro H; injection H as <-; au|]. discriminate.
Qed.

Lemma nth_nil_1 k : nth k (@nil nat) 1 = 1.
Proof. destruct k; reflexivity. Qed.

Lemma bcast_rev_spec a : forall b r, bcast_rev a b = Some r ->
  length r = Nat.max (length a) (length b) /\
  forall k, bdim (nth k a 1) (nth k b 1) = Some (nth k r 1).
Proof.
  induction a as [|x a IH]; intros b r H.
  - simpl in H. injection H as <-. split; [reflexivity|]. intro k. rewrite nth_nil_1. apply bdim_1_l.
  - destruct b as [|y b].
    + simpl in H. injection H as <-. split; [simpl; tlia|]. intro k. rewrite nth_nil_1. apply bdim_1_r.
    + simpl in H. destruct (bdim x y) as [d|] eqn:Ed; [|discriminate].
      destruct (bcast_rev a b) as [r'|] eqn:Er; [|discriminate]. injection H as <-.
      destruct (IH _ _ Er) as [Hl Hk]. split; [simpl; tlia|].
      intros [|k]; simpl; au.
Qed.

Definition cfold (col : list nat) : option nat :=
  fold_right (fun x acc => match acc with Some a => bdim x a | None => None end) (Some 1) col.

Lemma cfold_P col : forall m, cfold col = Some m -> ColP col m.
Proof.
  induction col as [|x col IH]; intros m H.
  - simpl in H. injection H as <-. split; [intros x []|au].
  - simpl in H. destruct (cfold col) as [a|] eqn:Ea; [|discriminate].
    destruct (IH _ eq_refl) as [H1 H2].
    destruct (bdim_cases _ _ _ H) as [[-> ->]|[[-> ->]|[-> ->]]].
    + split; [intros y [<-|Hy]; au|right; left; reflexivity].
    + split; [intros y [<-|Hy]; au|]. destruct H2; [au|right; right; au].
    + split; [intros y [<-|Hy]; au|right; left; reflexivity].
      destruct (H1 _ Hy); subst; au.
Qed.

Lemma list_max_nat_cons {A} (f : A -> nat) x l :
  list_max_nat (map f (x :: l)) = Nat.max (f x) (list_max_nat (map f l)).
Proof. reflexivity. Qed.

Lemma bcast_inv s acc r : bcast s acc = Some r ->
  exists r', bcast_rev (rev s) (rev acc) = Some r' /\ r = rev r'.
Proof.
  unfold bcast. destruct (bcast_rev (rev s) (rev acc)) as [r'|]; simpl; [|discriminate].
  intro H. injection H as <-. eau.
Qed.

Lemma ColP_cons x col a m : ColP col a -> bdim x a = Some m -> ColP (x :: col) m.
Proof.
  intros [H1 H2] H. destruct (bdim_cases _ _ _ H) as [[E1 E2]|[[E1 E2]|[E1 E2]]]; subst.
  - split; [intros y [<-|Hy]; au|right; left; reflexivity].
  - split; [intros y [<-|Hy]; au|]. destruct H2; [au|right; right; au].
  - split; [|right; left; reflexivity]. intros y [<-|Hy]; au. destruct (H1 _ Hy); au.
Qed.

Theorem bcast_list_Broadcast cs : forall cr, bcast_list cs = Some cr -> Broadcast cs cr.
Proof.
  induction cs as [|s cs IH]; intros cr H.
  - simpl in H. injection H as <-. split; [reflexivity|]. intro k. split; [intros x []|left].
    unfold dim_at. simpl. apply nth_nil_1.
  - simpl in H. destruct (bcast_list cs) as [acc|] eqn:Ea; [|discriminate].
    destruct (IH _ eq_refl) as [Hl Hc].
    destruct (bcast_inv _ _ _ H) as (r' & Hr & ->).
    destruct (bcast_rev_spec _ _ _ Hr) as [Hl' Hk].
    split.
    + rewrite rev_length, Hl', !rev_length, Hl. reflexivity.
    + intro k. simpl map. apply (ColP_cons _ _ (dim_at acc k)); [apply Hc|].
      unfold dim_at. rewrite rev_involutive. apply Hk.
Qed.

Lemma bcast_nil_r s : bcast s [] = Some s.
Proof.
  unfold bcast. simpl. destruct (rev s) eqn:E; simpl.
  - apply (f_equal (@rev nat)) in E. rewrite rev_involutive in E. simpl in E. now subst.
  - apply (f_equal (@rev nat)) in E. rewrite rev_involutive in E. simpl in E. now subst.
Qed.

Lemma bcast_list_2 a b : bcast_list [a; b] = match bcast b [] with Some r => bcast a r | None => None end.
Proof. reflexivity. Qed.

Corollary bcast_Broadcast a b cr : bcast a b = Some cr -> Broadcast [a; b] cr.
Proof. intro H. apply bcast_list_Broadcast. rewrite bcast_list_2, bcast_nil_r. exact H. Qed.

(* ================================================================= 2. what an annotation claims *)
Definition env := string -> nat.
(* DUnk: no claim.  A negative declared extent can never be true. *)
Definition dim_ok (rho : env) (d : dim) (n : nat) : Prop :=
  match d with DInt z => z = Z.of_nat n | DSym s => rho s = n | DUnk => True end.
Definition shape_ok (rho : env) (ds : list dim) (cs : list nat) : Prop := Forall2 (dim_ok rho) ds cs.
Definition oshape_ok (rho : env) (o : option (list dim)) (cs : list nat) : Prop :=
  match o with Some ds => shape_ok rho ds cs | None => True end.

Definition denote_dim (rho : env) (d : dim) : option nat :=
  match d with
  | DInt z => if (z <? 0)%Z then None else Some (Z.to_nat z)
  | DSym s => Some (rho s)
  | DUnk => None
  end.
Lemma dim_ok_denote rho d n : dim_ok rho d n -> forall m, denote_dim rho d = Some m -> m = n.
Proof.
  destruct d; simpl; intros H m E.
  - destruct (n0 <? 0)%Z eqn:L; [discriminate|]. injection E as <-. subst. apply Nat2Z.id.
  - injection E as <-. exact H.
  - discriminate.
Qed.
Lemma denote_dim_ok rho d n : (forall z, d = DInt z -> (0 <= z)%Z) ->
  (forall m, denote_dim rho d = Some m -> m = n) -> dim_ok rho d n.
Proof.
  destruct d; simpl; intros Hz H; au.
  specialize (Hz _ eq_refl). destruct (n0 <? 0)%Z eqn:L; [apply Z.ltb_lt in L; tlia|].
  rewrite <- (H _ eq_refl). symmetry. apply Z2Nat.id. exact Hz.
Qed.

(* ================================================================= 3. the translated _broadcast_shape_dims *)
(* generic facts about the loop combinator of the translation *)
Lemma py_for_ext {A S} (l : list A) (b1 b2 : A -> S -> step S) :
  (forall x s, b1 x s = b2 x s) -> forall s, py_for l s b1 = py_for l s b2.
Proof. intro E. induction l as [|x l IH]; intro s; simpl; [reflexivity|]. rewrite E. destruct (b2 x s); au. Qed.

Lemma py_for_map {A B S} (f : A -> B) (l : list A) (body : B -> S -> step S) : forall s,
  py_for (map f l) s body = py_for l s (fun x => body (f x)).
Proof. induction l as [|x l IH]; intro s; simpl; [reflexivity|]. destruct (body (f x) s); au. Qed.

Lemma py_for_snoc_map {A B} (f : A -> B) (l : list A) (body : A -> list B -> step (list B)) :
  (forall x st, body x st = Next (st ++ [f x])) -> forall st, py_for l st body = Some (st ++ map f l).
Proof.
  intro E. induction l as [|x l IH]; intro st; simpl.
  - now rewrite app_nil_r.
  - rewrite E, IH, <- app_assoc. reflexivity.
Qed.

Fixpoint all_some {A} (l : list (option A)) : option (list A) :=
  match l with
  | [] => Some []
  | Some x :: r => match all_some r with Some xs => Some (x :: xs) | None => None end
  | None :: _ => None
  end.

Lemma py_for_snoc_opt {A B} (g : A -> option B) (l : list A) (body : A -> list B -> step (list B)) :
  (forall x st, body x st = match g x with Some y => Next (st ++ [y]) | None => Abort end) ->
  forall st, py_for l st body = match all_some (map g l) with Some ys => Some (st ++ ys) | None => None end.
Proof.
  intro E. induction l as [|x l IH]; intro st; simpl.
  - now rewrite app_nil_r.
  - rewrite E. destruct (g x) as [y|]; [|reflexivity]. rewrite IH.
    destruct (all_some (map g l)); [|reflexivity]. now rewrite <- app_assoc.
Qed.

Lemma all_some_nth {A} (l : list (option A)) : forall r, all_some l = Some r ->
  length r = length l /\ forall i d, i < length l -> nth i l None = Some (nth i r d).
Proof.
  induction l as [|[x|] l IH]; intros r H; simpl in H; try discriminate.
  - injection H as <-. split; [reflexivity|]. intros i d Hi. simpl in Hi. tlia.
  - destruct (all_some l) as [xs|]; [|discriminate]. injection H as <-.
    destruct (IH _ eq_refl) as [Hl Hn]. split; [simpl; tlia|].
    intros [|i] d Hi; simpl; [reflexivity|]. apply Hn. simpl in Hi. tlia.
Qed.

(* a readable form of the loop body: how one more operand dim [d] updates the resolved dim of an axis *)
Definition resolve_step (resolved d : dim) : step dim :=
  match d with
  | DInt k =>
      if Z.eqb k 1 then Next resolved else
      match resolved with
      | DInt n => if Z.eqb n 1 then Next (DInt k) else if Z.eqb n k then Next resolved else Abort
      | _ => Next (DInt k)
      end
  | _ =>
      match resolved with
      | DInt n => if Z.eqb n 1 then Next d else Next resolved
      | _ => if tok_eqb (dim_token resolved) (dim_token d) then Next resolved else Abort
      end
  end.
Definition pad_to (R : nat) (s : list dim) : list dim := repeat (DInt 1) (R - length s) ++ s.
Definition resolve_axis (padded : list (list dim)) (axis : nat) : option dim :=
  py_for (map (fun s => nth axis s DUnk) padded) (DInt 1) (fun d res => resolve_step res d).
Definition bsd_spec (shapes : list (list dim)) : option (list dim) :=
  match shapes with
  | [] => None
  | _ =>
    let R := list_max_nat (map (@length dim) shapes) in
    if Nat.eqb R 0 then Some [] else
    all_some (map (resolve_axis (map (pad_to R) shapes)) (seq 0 R))
  end.

(* the translated function IS this readable form (re-checked against every regenerated GenShapes.v) *)
Theorem broadcast_shape_dims_eq shapes : broadcast_shape_dims shapes = bsd_spec shapes.
Proof.
  unfold broadcast_shape_dims, bsd_spec, pydim. destruct shapes as [|s0 shapes]; [reflexivity|].
  set (S := s0 :: shapes). cbv zeta.
  set (R := list_max_nat (map (fun shape : list dim => length shape) S)).
  change (list_max_nat (map (@length dim) S)) with R.
  destruct (Nat.eqb R 0); [reflexivity|].
  erewrite (py_for_snoc_map (pad_to R)).
  2:{ intros x st. cbv beta. unfold pad_to. destruct (Nat.ltb_spec (length x) R) as [L|L]; [reflexivity|].
      replace (R - length x) with 0 by tlia. reflexivity. }
  simpl app.
  erewrite (py_for_snoc_opt (resolve_axis (map (pad_to R) S))).
  2:{ intros axis st. cbv beta. unfold resolve_axis. rewrite py_for_map.
      erewrite py_for_ext; [reflexivity|]. intros shape res. cbv beta zeta.
      destruct (nth axis shape DUnk) as [k| |], res as [n| |]; cbn;
        repeat match goal with
               | |- context [Z.eqb ?a ?b] => destruct (Z.eqb a b)
               | |- context [String.eqb ?a ?b] => destruct (String.eqb a b)
               end; reflexivity. }
  simpl app. destruct (all_some _); reflexivity.
Qed.

(* ---- soundness of one axis.  [m] is the run-time extent of the axis of the result. *)
Definition is_one (rho : env) (d : dim) : Prop :=
  match d with DInt z => z = 1%Z | DSym s => rho s = 1 | DUnk => False end.

Lemma resolve_step_inv rho m res d v res' vs :
  dim_ok rho d v -> v = 1 \/ v = m ->
  dim_ok rho res m \/ (is_one rho res /\ In m (v :: vs)) ->
  resolve_step res d = Next res' ->
  dim_ok rho res' m \/ (is_one rho res' /\ In m vs).
Proof.
  intros Hd Hv Hinv Hs.
  destruct d as [k|s|], res as [n|t|]; cbn in Hs;
    repeat match type of Hs with
           | context [Z.eqb ?a ?b] => destruct (Z.eqb_spec a b)
           | context [String.eqb ?a ?b] => destruct (String.eqb_spec a b)
           end; try discriminate; injection Hs as <-; simpl in *; subst;
    repeat match goal with
           | H : _ \/ _ |- _ => destruct H
           | H : _ /\ _ |- _ => destruct H
           end; subst; try tlia; try tau; au;
    try (left; tlia); try (right; split; [assumption|]; tau).
Qed.

Lemma col_sound rho m ds vs : Forall2 (dim_ok rho) ds vs ->
  (forall v, In v vs -> v = 1 \/ v = m) ->
  forall res r, dim_ok rho res m \/ (is_one rho res /\ In m vs) ->
  py_for ds res (fun d res => resolve_step res d) = Some r -> dim_ok rho r m.
Proof.
  induction 1 as [|d v ds vs Hd HF IH]; intros Hall res r Hinv Hp; simpl in Hp.
  - injection Hp as <-. destruct Hinv as [H|[_ []]]. exact H.
  - destruct (resolve_step res d) as [res'|] eqn:Es; [|discriminate].
    apply (IH (fun x Hx => Hall x (or_intror Hx)) res' r); [|exact Hp].
    eapply resolve_step_inv; eau. apply Hall. left. reflexivity.
Qed.

Lemma col_sound_P rho ds vs m r : Forall2 (dim_ok rho) ds vs -> ColP vs m ->
  py_for ds (DInt 1) (fun d res => resolve_step res d) = Some r -> dim_ok rho r m.
Proof.
  intros HF [H1 H2] Hp. eapply col_sound; eau.
  destruct H2 as [->|H2]; [left; reflexivity|right; split; [reflexivity|exact H2]].
Qed.

Lemma Forall2_nth {A B} (P : A -> B -> Prop) (l : list A) (l' : list B) da db :
  length l = length l' -> (forall i, i < length l -> P (nth i l da) (nth i l' db)) -> Forall2 P l l'.
Proof.
  revert l'. induction l as [|x l IH]; intros [|y l'] Hl Hn; simpl in Hl; try discriminate; constructor.
  - apply (Hn 0). simpl. tlia.
  - apply IH; [tlia|]. intros i Hi. apply (Hn (S i)). simpl. tlia.
Qed.
Lemma Forall2_nth_inv {A B} (P : A -> B -> Prop) (l : list A) (l' : list B) da db :
  Forall2 P l l' -> forall i, i < length l -> P (nth i l da) (nth i l' db).
Proof.
  induction 1 as [|x y l l' Hxy HF IH]; intros i Hi; simpl in Hi; [tlia|].
  destruct i; simpl; [exact Hxy|]. apply IH. tlia.
Qed.

Lemma F2_length {A B} (P : A -> B -> Prop) l l' : Forall2 P l l' -> length l = length l'.
Proof. induction 1; simpl; cong. Qed.

Lemma nth_repeat_lt {A} (a d : A) n : forall i, i < n -> nth i (repeat a n) d = a.
Proof. induction n as [|n IH]; intros i Hi; [tlia|]. destruct i; simpl; [reflexivity|]. apply IH. tlia. Qed.

Lemma list_max_nat_ge l x : In x l -> x <= list_max_nat l.
Proof. induction l as [|y l IH]; intros []; simpl; [subst; tlia|]. specialize (IH H). tlia. Qed.

(* the dim of a padded annotation at [axis] and the run-time extent [R-1-axis]-th from the right agree *)
Lemma padded_dim_ok rho R s c axis : shape_ok rho s c -> length s <= R -> axis < R ->
  dim_ok rho (nth axis (pad_to R s) DUnk) (dim_at c (R - 1 - axis)).
Proof.
  intros HF HL Ha. pose proof (F2_length _ _ _ HF) as El. unfold pad_to, dim_at.
  destruct (Nat.lt_ge_cases axis (R - length s)) as [Lt|Ge].
  - rewrite app_nth1 by (rewrite repeat_length; exact Lt).
    rewrite nth_repeat_lt by exact Lt. rewrite nth_overflow by (rewrite rev_length; tlia). reflexivity.
  - rewrite app_nth2 by (rewrite repeat_length; exact Ge). rewrite repeat_length.
    rewrite rev_nth by tlia.
    replace (length c - S (R - 1 - axis)) with (axis - (R - length s)) by tlia.
    apply Forall2_nth_inv; [exact HF|tlia].
Qed.

Lemma cols_ok rho R i S cs : Forall2 (shape_ok rho) S cs -> (forall s, In s S -> length s <= R) -> i < R ->
  Forall2 (dim_ok rho) (map (fun s => nth i (pad_to R s) DUnk) S) (map (fun c => dim_at c (R - 1 - i)) cs).
Proof.
  induction 1 as [|s c S cs H HF IH]; intros HR Hi; simpl; constructor.
  - apply padded_dim_ok; au. apply HR. left. reflexivity.
  - apply IH; au. intros s' Hs'. apply HR. right. exact Hs'.
Qed.

(* MAIN (relational form): whenever the annotations of the operands are not false for the run-time shapes [cs] under
   the binding [rho], and [cr] is the numpy broadcast of [cs], the merged annotation is not false for [cr]. *)
Theorem bsd_spec_sound rho shapes cs r cr :
  bsd_spec shapes = Some r -> Forall2 (shape_ok rho) shapes cs -> Broadcast cs cr -> shape_ok rho r cr.
Proof.
  intros Hb HF [Hlen Hcol]. unfold bsd_spec in Hb. destruct shapes as [|s0 shapes']; [discriminate|].
  set (S := s0 :: shapes') in *. cbv zeta in Hb.
  set (R := list_max_nat (map (@length dim) S)) in *.
  assert (ER : list_max_nat (map (@length nat) cs) = R).
  { unfold R. clear -HF. induction HF as [|s c l l' H HF' IH]; [reflexivity|]. simpl.
    rewrite IH. now rewrite (F2_length _ _ _ H). }
  rewrite ER in Hlen.
  destruct (Nat.eqb_spec R 0) as [E0|N0].
  - injection Hb as <-. rewrite E0 in Hlen. destruct cr; [constructor|discriminate].
  - destruct (all_some_nth _ _ Hb) as [Hl Hn]. rewrite map_length, seq_length in Hl.
    apply (Forall2_nth _ _ _ DUnk 1); [tlia|]. intros i Hi. rewrite Hl in Hi.
    specialize (Hn i DUnk). rewrite map_length, seq_length in Hn. specialize (Hn Hi).
    rewrite (nth_indep _ None (resolve_axis (map (pad_to R) S) 0)) in Hn by (rewrite map_length, seq_length; exact Hi).
    rewrite map_nth, seq_nth in Hn by exact Hi. rewrite Nat.add_0_l in Hn. unfold resolve_axis in Hn. rewrite map_map in Hn.
    replace (nth i cr 1) with (dim_at cr (R - 1 - i)).
    2:{ unfold dim_at. rewrite rev_nth by tlia. f_equal. tlia. }
    eapply col_sound_P; [|apply (Hcol (R - 1 - i))|exact Hn].
    apply cols_ok; au. intros s Hs. apply list_max_nat_ge, in_map, Hs.
Qed.

Theorem broadcast_dims_sound rho shapes cs r cr :
  broadcast_shape_dims shapes = Some r -> Forall2 (shape_ok rho) shapes cs -> bcast_list cs = Some cr ->
  shape_ok rho r cr.
Proof.
  rewrite broadcast_shape_dims_eq. intros Hb HF Hc. eapply bsd_spec_sound; eau. now apply bcast_list_Broadcast.
Qed.

(* the binary form: every KNOWN dim of the merged annotation equals the corresponding dim of the numpy broadcast *)
Corollary broadcast_dims_sound2 rho a b ca cb r cr :
  broadcast_shape_dims [a; b] = Some r -> shape_ok rho a ca -> shape_ok rho b cb -> bcast ca cb = Some cr ->
  length r = length cr /\
  (forall i d, nth_error r i = Some d -> forall n, denote_dim rho d = Some n -> nth_error cr i = Some n).
Proof.
  intros Hb Ha Hb' Hc.
  assert (H : shape_ok rho r cr).
  { eapply broadcast_dims_sound; eau. rewrite bcast_list_2, bcast_nil_r. exact Hc. }
  split; [exact (F2_length _ _ _ H)|].
  clear -H. induction H as [|d c r cr Hd HF IH]; intros [|i] d' E n Hn; simpl in *; try discriminate.
  - injection E as <-. f_equal. symmetry. eapply dim_ok_denote; eau.
  - eapply IH; eau.
Qed.

(* the merged annotation may say LESS: symbols that cannot be identified make the function give up *)
Example bsd_gives_up : broadcast_shape_dims [[DSym "B"]; [DSym "C"]] = None. Proof. reflexivity. Qed.
Example bsd_keeps_concrete : broadcast_shape_dims [[DSym "B"; DInt 1]; [DInt 3; DUnk]] = Some [DInt 3; DUnk].
Proof. reflexivity. Qed.
Example bsd_rank : broadcast_shape_dims [[DInt 3]; [DInt 1; DInt 1]] = Some [DInt 1; DInt 3]. Proof. reflexivity. Qed.

(* ================================================================= 4. post-processing only weakens *)
Lemma dim_is_known_true d : dim_is_known d = true.
Proof. destruct d; reflexivity. Qed.
Lemma normalize_dim_id d : normalize_dim d = d.
Proof. destruct d; reflexivity. Qed.

Lemma py_for_pair_snoc {A B C} (f : A -> B) (g : A -> C -> C) (l : list A) (body : A -> C * list B -> step (C * list B)) :
  (forall x c acc, body x (c, acc) = Next (g x c, acc ++ [f x])) ->
  forall c acc, py_for l (c, acc) body = Some (fold_left (fun c x => g x c) l c, acc ++ map f l).
Proof.
  intro E. induction l as [|x l IH]; intros c acc; simpl.
  - now rewrite app_nil_r.
  - rewrite E, IH, <- app_assoc. reflexivity.
Qed.

(* readable form of the translated _unknown_shape_like on dims of an ir.Shape *)
Definition usl_spec (dims : option (list dim)) (force : bool) : option (list dim) :=
  match dims with
  | Some (d :: l) => if force then Some (map (fun _ => DUnk) (d :: l)) else None
  | _ => None
  end.

Theorem unknown_shape_like_eq dims force : unknown_shape_like dims force = usl_spec dims force.
Proof.
  unfold unknown_shape_like, usl_spec, pydim. destruct dims as [[|d l]|]; try reflexivity. cbv zeta.
  destruct force.
  - erewrite (py_for_pair_snoc (fun _ : dim => DUnk) (fun _ _ => true)); [|intros; reflexivity].
    replace (fold_left (fun (_ : bool) (_ : dim) => true) (d :: l) false) with true; [reflexivity|].
    simpl. generalize l. intro l0. induction l0; simpl; au.
  - erewrite (py_for_pair_snoc (fun x : dim => x) (fun _ c => c)).
    2:{ intros x c acc. cbv beta iota. rewrite dim_is_known_true, normalize_dim_id. reflexivity. }
    replace (fold_left (fun (c : bool) (_ : dim) => c) (d :: l) false) with false; [reflexivity|].
    generalize (d :: l). intro l0. induction l0; simpl; au.
Qed.

Definition weaker_dim (d d' : dim) : Prop := d' = DUnk \/ d' = d.

Lemma weaker_all_unknown l : Forall2 weaker_dim l (map (fun _ => DUnk) l).
Proof. induction l; simpl; constructor; au. left. reflexivity. Qed.

Theorem unknown_shape_like_weakens dims force l' : unknown_shape_like dims force = Some l' ->
  exists l, dims = Some l /\ Forall2 weaker_dim l l'.
Proof.
  rewrite unknown_shape_like_eq. unfold usl_spec. destruct dims as [[|d l]|]; try discriminate.
  destruct force; [|discriminate]. intro H. injection H as <-. exists (d :: l). split; [reflexivity|].
  apply (weaker_all_unknown (d :: l)).
Qed.

(* outside Loop/Scan bodies the loosening is the identity on annotations that come from an ir.Shape *)
Theorem unknown_shape_like_unforced dims : unknown_shape_like dims false = None.
Proof. rewrite unknown_shape_like_eq. destruct dims as [[|d l]|]; reflexivity. Qed.
(* inside Loop/Scan bodies annotations become rank-only *)
Theorem unknown_shape_like_forced d l : unknown_shape_like (Some (d :: l)) true = Some (repeat DUnk (S (length l))).
Proof.
  rewrite unknown_shape_like_eq. simpl. f_equal. f_equal. induction l; simpl; cong.
Qed.

(* hand model of _loosen_graph_value_shapes as a function on annotation tables.  [io] = names of the graph's own
   inputs and outputs, [produced] = names of the values the pass visits (node outputs; initializers when forced) *)
Definition annot := string -> option (list dim).
Definition loosen (io produced : list string) (force : bool) (a : annot) : annot :=
  fun v =>
    if str_mem v io then a v
    else if str_mem v produced then
      match unknown_shape_like (a v) force with Some s => Some s | None => a v end
    else a v.

Theorem loosen_io_untouched io produced force a v : str_mem v io = true -> loosen io produced force a v = a v.
Proof. unfold loosen. now intros ->. Qed.

Theorem loosen_weakens io produced force a v :
  match loosen io produced force a v with
  | Some l' => exists l, a v = Some l /\ Forall2 weaker_dim l l'
  | None => a v = None
  end.
Proof.
  unfold loosen. assert (Hid : match a v with Some l' => exists l, a v = Some l /\ Forall2 weaker_dim l l' | None => a v = None end).
  { destruct (a v) as [l|]; [|reflexivity]. exists l. split; [reflexivity|]. induction l; constructor; au. right. reflexivity. }
  destruct (str_mem v io); [exact Hid|]. destruct (str_mem v produced); [|exact Hid].
  destruct (unknown_shape_like (a v) force) as [s|] eqn:E; [|exact Hid].
  exact (unknown_shape_like_weakens _ _ _ E).
Qed.

(* the form of the task statement: every dim of the new annotation is unknown or the old dim at the same axis *)
Lemma weaker_nth l l' : Forall2 weaker_dim l l' -> forall i d', nth_error l' i = Some d' ->
  d' = DUnk \/ nth_error l i = Some d'.
Proof.
  induction 1 as [|d d2 l l2 Hd F IH]; intros [|i] d' Hn; simpl in *; try discriminate.
  - injection Hn as <-. destruct Hd as [->| ->]; au.
  - eau.
Qed.

Corollary loosen_weakens_dim io produced force a v l' i d' :
  loosen io produced force a v = Some l' -> nth_error l' i = Some d' ->
  d' = DUnk \/ exists l, a v = Some l /\ length l = length l' /\ nth_error l i = Some d'.
Proof.
  intros H Hn. pose proof (loosen_weakens io produced force a v) as W. rewrite H in W.
  destruct W as (l & E & F). destruct (weaker_nth _ _ F _ _ Hn) as [->|Hd]; [left; reflexivity|right].
  exists l. repeat split; au. exact (F2_length _ _ _ F).
Qed.

(* weakening preserves truth *)
Lemma weaker_ok rho l l' c : Forall2 weaker_dim l l' -> shape_ok rho l c -> shape_ok rho l' c.
Proof.
  intro F. revert c. induction F as [|d d2 l l2 Hd F IH]; intros c H; inversion H; subst; constructor.
  - destruct Hd as [->| ->]; simpl; au.
  - apply IH. assumption.
Qed.
Theorem loosen_preserves_truth rho io produced force a v c :
  oshape_ok rho (a v) c -> oshape_ok rho (loosen io produced force a v) c.
Proof.
  intro H. pose proof (loosen_weakens io produced force a v) as W.
  destruct (loosen io produced force a v) as [l'|]; [|exact I].
  destruct W as (l & E & F). rewrite E in H. simpl in *. eapply weaker_ok; eau.
Qed.

(* ================================================================= 5. _refresh_elementwise_output_shape (hand model) *)
(* an operand of an elementwise node as the pass sees it *)
Record operand := mkOp {
  op_shape : option (list dim);      (* declared shape, None = no shape *)
  op_payload : option nat;           (* number of elements of its constant payload, None = not a constant *)
  op_init : bool }.                  (* is a graph initializer *)
Definition all_int_one (s : list dim) : bool :=
  forallb (fun d => match d with DInt 1 => true | _ => false end) s.
(* _is_scalar_const_value: ONE element, ANY rank *)
Definition is_scalar_const (o : operand) : bool :=
  match op_payload o with
  | Some n => Nat.eqb n 1
  | None => op_init o && match op_shape o with Some s => all_int_one s | None => false end
  end.
(* _elementwise_shape_source *)
Definition shape_source (ins : list operand) : option operand :=
  match find (fun o => negb (is_scalar_const o)) ins with Some o => Some o | None => hd_error ins end.
Definition candidates (ins : list operand) : list (list dim) :=
  flat_map (fun o => if is_scalar_const o then [] else match op_shape o with Some s => [s] | None => [] end) ins.
(* new annotation of the node's first output; [ins] are the present (non-None) inputs, [out] the old annotation *)
Definition refresh (ins : list operand) (out : option (list dim)) : option (list dim) :=
  match shape_source ins with
  | None => out
  | Some src =>
      let out1 := match op_shape src with Some s => Some s | None => out end in
      match broadcast_shape_dims (candidates ins) with Some mg => Some mg | None => out1 end
  end.

(* run-time situation of a node: every operand paired with its run-time shape *)
Definition operands_ok (rho : env) (ps : list (operand * list nat)) : Prop :=
  forall o c, In (o, c) ps ->
    oshape_ok rho (op_shape o) c /\ (is_scalar_const o = true -> Forall (fun x => x = 1) c).

Definition refresh_sound_statement : Prop :=
  forall rho ps out cr,
    operands_ok rho ps -> bcast_list (map snd ps) = Some cr -> oshape_ok rho out cr ->
    oshape_ok rho (refresh (map fst ps) out) cr.

(* REFUTED: Add(x:[3], c:[1,1] constant) annotated [1,3] is re-annotated [3] *)
Definition refresh_witness : list (operand * list nat) :=
  [ (mkOp (Some [DInt 3]) None false, [3]);
    (mkOp (Some [DInt 1; DInt 1]) (Some 1) true, [1; 1]) ].
Example refresh_witness_value :
  refresh (map fst refresh_witness) (Some [DInt 1; DInt 3]) = Some [DInt 3]
  /\ bcast_list (map snd refresh_witness) = Some [1; 3].
Proof. split; vm_compute; reflexivity. Qed.

Theorem refresh_sound_refuted : ~ refresh_sound_statement.
Proof.
  intro H. specialize (H (fun _ => 1) refresh_witness (Some [DInt 1; DInt 3]) [1; 3]).
  assert (Hok : operands_ok (fun _ => 1) refresh_witness).
  { intros o c [E|[E|[]]]; injection E as <- <-; (split; [simpl; repeat constructor|]).
    - intro E; discriminate E.
    - intros _. repeat constructor. }
  specialize (H Hok eq_refl). 
  assert (Hout : oshape_ok (fun _ => 1) (Some [DInt 1; DInt 3]) [1; 3]) by (simpl; repeat constructor).
  specialize (H Hout). vm_compute in H. inversion H as [|? ? ? ? _ Hl]. inversion Hl.
Qed.

(* a second, independent failure of the full statement: when the symbols of the kept operands cannot be merged the
   output keeps the shape copied from the first kept operand *)
Definition refresh_witness_sym : list (operand * list nat) :=
  [ (mkOp (Some [DSym "B"]) None false, [1]); (mkOp (Some [DSym "C"]) None false, [3]) ].
Theorem refresh_sound_refuted_symbols :
  exists rho out cr, operands_ok rho refresh_witness_sym /\ bcast_list (map snd refresh_witness_sym) = Some cr /\
    oshape_ok rho out cr /\ ~ oshape_ok rho (refresh (map fst refresh_witness_sym) out) cr.
Proof.
  exists (fun s => if String.eqb s "B" then 1 else 3), None, [3]. repeat split.
  - destruct H as [E|[E|[]]]; injection E as <- <-; simpl; repeat constructor.
  - destruct H as [E|[E|[]]]; injection E as <- <-; simpl; intro; discriminate.
  - vm_compute. intro H. inversion H as [|? ? ? ? Hd _]. discriminate Hd.
Qed.

(* ---- the exact hypothesis *)
Definition keptb (p : operand * list nat) : bool := negb (is_scalar_const (fst p)).
Definition kept_rank (ps : list (operand * list nat)) : nat :=
  list_max_nat (map (fun p => length (snd p)) (filter keptb ps)).

Lemma list_max_nat_le l K : (forall x, In x l -> x <= K) -> list_max_nat l <= K.
Proof. induction l as [|y l IH]; intro H; simpl; [tlia|]. pose proof (H y (or_introl eq_refl)). specialize (IH (fun x Hx => H x (or_intror Hx))). tlia. Qed.

Lemma dim_at_ones c k : Forall (fun x => x = 1) c -> dim_at c k = 1.
Proof.
  intro H. unfold dim_at. apply Forall_rev in H. revert k. induction H as [|x l Hx H IH]; intro k.
  - apply nth_nil_1.
  - destruct k; simpl; au.
Qed.

Lemma candidates_ok rho ps : operands_ok rho ps ->
  (forall o c, In (o, c) ps -> is_scalar_const o = false -> op_shape o <> None) ->
  Forall2 (shape_ok rho) (candidates (map fst ps)) (map snd (filter keptb ps)).
Proof.
  induction ps as [|[o c] ps IH]; intros Hok Hdecl; simpl; [constructor|].
  assert (Hok' : operands_ok rho ps) by (intros o' c' Hin; apply Hok; right; exact Hin).
  assert (Hdecl' : forall o' c', In (o', c') ps -> is_scalar_const o' = false -> op_shape o' <> None)
    by (intros o' c' Hin; apply (Hdecl o' c'); right; exact Hin).
  unfold keptb at 1. simpl fst. destruct (is_scalar_const o) eqn:Es; simpl; [apply IH; au|].
  destruct (op_shape o) as [s|] eqn:Eo; [|exfalso; apply (Hdecl o c (or_introl eq_refl) Es Eo)].
  simpl. constructor; [|apply IH; au].
  destruct (Hok o c (or_introl eq_refl)) as [H _]. rewrite Eo in H. exact H.
Qed.

Lemma Broadcast_drop_ones ps cr :
  (forall o c, In (o, c) ps -> is_scalar_const o = true -> Forall (fun x => x = 1) c /\ length c <= kept_rank ps) ->
  Broadcast (map snd ps) cr -> Broadcast (map snd (filter keptb ps)) cr.
Proof.
  intros Hs [Hl Hc]. split.
  - rewrite Hl. rewrite !map_map. apply Nat.le_antisymm.
    + apply list_max_nat_le. intros x Hx. apply in_map_iff in Hx. destruct Hx as ([o c] & <- & Hin). simpl.
      destruct (is_scalar_const o) eqn:Es.
      * destruct (Hs o c Hin Es) as [_ Hr]. unfold kept_rank in Hr. exact Hr.
      * apply list_max_nat_ge. apply in_map_iff. exists (o, c). split; [reflexivity|].
        apply filter_In. split; [exact Hin|]. unfold keptb. simpl. now rewrite Es.
    + apply list_max_nat_le. intros x Hx. apply in_map_iff in Hx. destruct Hx as (p & <- & Hin).
      apply filter_In in Hin. destruct Hin as [Hin _]. apply list_max_nat_ge. apply in_map_iff. exists p. au.
  - intro k. destruct (Hc k) as [H1 H2]. split.
    + intros x Hx. apply H1. rewrite map_map in *. apply in_map_iff in Hx. destruct Hx as (p & <- & Hin).
      apply filter_In in Hin. destruct Hin as [Hin _]. apply in_map_iff. exists p. au.
    + destruct H2 as [H2|H2]; [left; exact H2|]. rewrite map_map in *. apply in_map_iff in H2.
      destruct H2 as ([o c] & E & Hin). simpl in E. destruct (is_scalar_const o) eqn:Es.
      * left. destruct (Hs o c Hin Es) as [Hones _]. rewrite <- E. apply dim_at_ones. exact Hones.
      * right. apply in_map_iff. exists (o, c). split; [exact E|]. apply filter_In. split; [exact Hin|].
        unfold keptb. simpl. now rewrite Es.
Qed.

(* PARTIAL: the refreshed annotation is true whenever every kept operand has a declared shape, the kept annotations
   can be merged, and no skipped ("scalar constant") operand has a higher rank than all kept operands *)
Theorem refresh_sound_partial rho ps out cr :
  operands_ok rho ps ->
  (forall o c, In (o, c) ps -> is_scalar_const o = false -> op_shape o <> None) ->
  (forall o c, In (o, c) ps -> is_scalar_const o = true -> length c <= kept_rank ps) ->
  broadcast_shape_dims (candidates (map fst ps)) <> None ->
  bcast_list (map snd ps) = Some cr ->
  oshape_ok rho (refresh (map fst ps) out) cr.
Proof.
  intros Hok Hdecl Hrank Hm Hb. unfold refresh.
  destruct (shape_source (map fst ps)) as [src|] eqn:Esrc.
  2:{ exfalso. apply Hm. destruct ps; [reflexivity|]. unfold shape_source in Esrc. simpl in Esrc.
      destruct (negb (is_scalar_const (fst p))); [discriminate|].
      destruct (find _ _); discriminate. }
  cbv zeta. destruct (broadcast_shape_dims (candidates (map fst ps))) as [mg|] eqn:Eb; [|contradiction].
  simpl. eapply bsd_spec_sound; [rewrite <- broadcast_shape_dims_eq; exact Eb|apply candidates_ok; au|].
  apply Broadcast_drop_ones; [|apply bcast_list_Broadcast; exact Hb].
  intros o c Hin Es. split; [apply (Hok o c Hin); exact Es|apply (Hrank o c Hin Es)].
Qed.

(* non-vacuity: the hypotheses hold for Add(x:[2,3], c:[1,1] constant), and the conclusion is informative *)
Example refresh_partial_nonvacuous :
  let ps := [ (mkOp (Some [DInt 2; DSym "N"]) None false, [2; 3]); (mkOp (Some [DInt 1; DInt 1]) (Some 1) true, [1; 1]) ] in
  refresh (map fst ps) None = Some [DInt 2; DSym "N"] /\ kept_rank ps = 2 /\ bcast_list (map snd ps) = Some [2; 3].
Proof. repeat split; vm_compute; reflexivity. Qed.

(* EXACTNESS of the rank hypothesis: if a skipped operand has a higher rank than every kept operand, whatever the
   pass writes from the kept operands has the wrong rank *)
Lemma bsd_spec_length shapes r : bsd_spec shapes = Some r -> length r = list_max_nat (map (@length dim) shapes).
Proof.
  unfold bsd_spec. destruct shapes as [|s0 shapes']; [discriminate|]. cbv zeta.
  set (R := list_max_nat (map (@length dim) (s0 :: shapes'))).
  destruct (Nat.eqb_spec R 0) as [E|N]; intro H.
  - injection H as <-. now rewrite E.
  - destruct (all_some_nth _ _ H) as [Hl _]. now rewrite map_length, seq_length in Hl.
Qed.

Lemma shape_ok_map_length rho S cs : Forall2 (shape_ok rho) S cs -> map (@length dim) S = map (@length nat) cs.
Proof. induction 1 as [|s c S cs H HF IH]; simpl; [reflexivity|]. now rewrite IH, (F2_length _ _ _ H). Qed.

Theorem refresh_rank_hypothesis_exact rho ps out cr mg o c :
  operands_ok rho ps ->
  (forall o c, In (o, c) ps -> is_scalar_const o = false -> op_shape o <> None) ->
  In (o, c) ps -> is_scalar_const o = true -> kept_rank ps < length c ->
  broadcast_shape_dims (candidates (map fst ps)) = Some mg ->
  bcast_list (map snd ps) = Some cr ->
  refresh (map fst ps) out = Some mg /\ ~ shape_ok rho mg cr.
Proof.
  intros Hok Hdecl Hin Es Hlt Eb Hb. split.
  - unfold refresh. destruct (shape_source (map fst ps)) eqn:Esrc.
    + cbv zeta. now rewrite Eb.
    + exfalso. destruct ps as [|p ps']; [destruct Hin|]. unfold shape_source in Esrc. simpl in Esrc.
      destruct (negb (is_scalar_const (fst p))); [discriminate|]. destruct (find _ _); discriminate.
  - intro Hs. apply F2_length in Hs.
    rewrite broadcast_shape_dims_eq in Eb. apply bsd_spec_length in Eb.
    rewrite (shape_ok_map_length rho _ _ (candidates_ok rho ps Hok Hdecl)) in Eb.
    destruct (bcast_list_Broadcast _ _ Hb) as [Hl _].
    assert (length c <= length cr).
    { rewrite Hl. apply list_max_nat_ge. rewrite map_map. apply in_map_iff. exists (o, c). au. }
    unfold kept_rank in Hlt. rewrite map_map in Eb. tlia.
Qed.

(* ---- the repaired pass (proposed: do not skip one-element constants, they broadcast like any other operand).
   harness/c08.py probes the real code on the witness to decide which of the two models the tree implements. *)
Definition candidates_all (ins : list operand) : list (list dim) :=
  flat_map (fun o => match op_shape o with Some s => [s] | None => [] end) ins.
Definition refresh_fixed (ins : list operand) (out : option (list dim)) : option (list dim) :=
  match shape_source ins with
  | None => out
  | Some src =>
      let out1 := match op_shape src with Some s => Some s | None => out end in
      match broadcast_shape_dims (candidates_all ins) with Some mg => Some mg | None => out1 end
  end.

Lemma candidates_all_ok rho ps : operands_ok rho ps ->
  (forall o c, In (o, c) ps -> op_shape o <> None) ->
  Forall2 (shape_ok rho) (candidates_all (map fst ps)) (map snd ps).
Proof.
  induction ps as [|[o c] ps IH]; intros Hok Hdecl; simpl; [constructor|].
  destruct (op_shape o) as [s|] eqn:Eo; [|exfalso; apply (Hdecl o c (or_introl eq_refl) Eo)].
  simpl. constructor.
  - destruct (Hok o c (or_introl eq_refl)) as [H _]. rewrite Eo in H. exact H.
  - apply IH; [intros o' c' Hin; apply Hok; right; exact Hin|intros o' c' Hin; apply (Hdecl o' c'); right; exact Hin].
Qed.

Theorem refresh_fixed_sound rho ps out cr :
  operands_ok rho ps ->
  (forall o c, In (o, c) ps -> op_shape o <> None) ->
  broadcast_shape_dims (candidates_all (map fst ps)) <> None ->
  bcast_list (map snd ps) = Some cr ->
  oshape_ok rho (refresh_fixed (map fst ps) out) cr.
Proof.
  intros Hok Hdecl Hm Hb. unfold refresh_fixed.
  destruct (shape_source (map fst ps)) as [src|] eqn:Esrc.
  2:{ exfalso. apply Hm. destruct ps; [reflexivity|]. unfold shape_source in Esrc. simpl in Esrc.
      destruct (negb (is_scalar_const (fst p))); [discriminate|]. destruct (find _ _); discriminate. }
  cbv zeta. destruct (broadcast_shape_dims (candidates_all (map fst ps))) as [mg|] eqn:Eb; [|contradiction].
  simpl. eapply broadcast_dims_sound; [exact Eb|apply candidates_all_ok; au|exact Hb].
Qed.
Example refresh_fixed_on_witness :
  refresh_fixed (map fst refresh_witness) (Some [DInt 1; DInt 3]) = Some [DInt 1; DInt 3].
Proof. vm_compute. reflexivity. Qed.

(* ---- history of the pass in /repo.  harness/c08.py probes the real code to decide which variant is in force.
     variant 1 = original ([refresh]): one-element constants skipped;
     variant 2 = commit fbce23b ([refresh_fixed]): nothing skipped except operands WITHOUT a declared shape;
     variant 3 = commit 560936b ([refresh_v3]): an operand without a declared shape makes the pass give up - but only
                 after the shape of the source operand has already been copied to the output;
     variant 4 = proposed ([refresh_v4]): give up BEFORE anything is written. *)
Definition has_unknown (ins : list operand) : bool :=
  existsb (fun o => match op_shape o with None => true | Some _ => false end) ins.
Definition refresh_v3 (ins : list operand) (out : option (list dim)) : option (list dim) :=
  match shape_source ins with
  | None => out
  | Some src =>
      let out1 := match op_shape src with Some s => Some s | None => out end in
      if has_unknown ins then out1
      else match broadcast_shape_dims (candidates_all ins) with Some mg => Some mg | None => out1 end
  end.
Definition refresh_v4 (ins : list operand) (out : option (list dim)) : option (list dim) :=
  if has_unknown ins then out
  else match broadcast_shape_dims (candidates_all ins) with Some mg => Some mg | None => out end.
Definition refresh_variant (v : nat) : list operand -> option (list dim) -> option (list dim) :=
  match v with 1 => refresh | 2 => refresh_fixed | 3 => refresh_v3 | _ => refresh_v4 end.

Definition sound_statement (f : list operand -> option (list dim) -> option (list dim)) : Prop :=
  forall rho ps out cr,
    operands_ok rho ps -> bcast_list (map snd ps) = Some cr -> oshape_ok rho out cr ->
    oshape_ok rho (f (map fst ps) out) cr.

(* variant 2 REFUTED (the regression caught on jnp_right_shift_broadcast_f64): Min(s without declared shape, scalar
   constant), s is [1,3] at run time: the output is re-annotated [] from the constant alone *)
Definition refresh_witness_v2 : list (operand * list nat) :=
  [ (mkOp None None false, [1; 3]); (mkOp (Some []) (Some 1) true, []) ].
Theorem refresh_fixed_refuted : ~ sound_statement refresh_fixed.
Proof.
  intro H. specialize (H (fun _ => 1) refresh_witness_v2 (Some [DInt 1; DInt 3]) [1; 3]).
  assert (Hok : operands_ok (fun _ => 1) refresh_witness_v2).
  { intros o c [E|[E|[]]]; injection E as <- <-; (split; [simpl; repeat constructor|]).
    - intro E; discriminate E.
    - intros _. constructor. }
  specialize (H Hok eq_refl).
  assert (Hout : oshape_ok (fun _ => 1) (Some [DInt 1; DInt 3]) [1; 3]) by (simpl; repeat constructor).
  specialize (H Hout). vm_compute in H. inversion H.
Qed.

(* variant 3 REFUTED: Add(x:[3], y without declared shape), y is [2,3] at run time, output correctly annotated [2,3]:
   the shape [3] of the source operand x is copied to the output before the pass gives up *)
Definition refresh_witness_v3 : list (operand * list nat) :=
  [ (mkOp (Some [DInt 3]) None false, [3]); (mkOp None None false, [2; 3]) ].
Example refresh_witness_v3_value :
  refresh_v3 (map fst refresh_witness_v3) (Some [DInt 2; DInt 3]) = Some [DInt 3]
  /\ bcast_list (map snd refresh_witness_v3) = Some [2; 3].
Proof. split; vm_compute; reflexivity. Qed.
Theorem refresh_v3_refuted : ~ sound_statement refresh_v3.
Proof.
  intro H. specialize (H (fun _ => 1) refresh_witness_v3 (Some [DInt 2; DInt 3]) [2; 3]).
  assert (Hok : operands_ok (fun _ => 1) refresh_witness_v3).
  { intros o c [E|[E|[]]]; injection E as <- <-; (split; [simpl; repeat constructor|]); intro E; discriminate E. }
  specialize (H Hok eq_refl).
  assert (Hout : oshape_ok (fun _ => 1) (Some [DInt 2; DInt 3]) [2; 3]) by (simpl; repeat constructor).
  specialize (H Hout). vm_compute in H. inversion H as [|? ? ? ? _ Hl]. inversion Hl.
Qed.

Lemma has_unknown_false (ps : list (operand * list nat)) : has_unknown (map fst ps) = false ->
  forall o c, In (o, c) ps -> op_shape o <> None.
Proof.
  unfold has_unknown. intros H o c Hin E.
  assert (Hex : existsb (fun o => match op_shape o with None => true | Some _ => false end) (map fst ps) = true).
  { apply existsb_exists. exists o. split; [exact (in_map fst ps (o, c) Hin)|now rewrite E]. }
  rewrite Hex in H. discriminate.
Qed.

Lemma shape_source_nonempty ins : ins <> [] -> shape_source ins <> None.
Proof.
  destruct ins as [|o r]; [cong|]. intros _. unfold shape_source. simpl.
  destruct (negb (is_scalar_const o)); [discriminate|]. destruct (find _ r); discriminate.
Qed.

(* variant 3 PARTIAL, exact: when some operand has no declared shape the source operand must have none either;
   when all are declared the annotations must merge *)
Theorem refresh_v3_sound_partial rho ps out cr :
  operands_ok rho ps -> bcast_list (map snd ps) = Some cr -> oshape_ok rho out cr ->
  (has_unknown (map fst ps) = true ->
     forall src, shape_source (map fst ps) = Some src -> op_shape src = None) ->
  (has_unknown (map fst ps) = false -> broadcast_shape_dims (candidates_all (map fst ps)) <> None) ->
  oshape_ok rho (refresh_v3 (map fst ps) out) cr.
Proof.
  intros Hok Hb Hout Hu Hm. unfold refresh_v3.
  destruct (shape_source (map fst ps)) as [src|] eqn:Esrc; [|exact Hout]. cbv zeta.
  destruct (has_unknown (map fst ps)) eqn:Eu.
  - rewrite (Hu eq_refl src eq_refl). exact Hout.
  - specialize (Hm eq_refl).
    destruct (broadcast_shape_dims (candidates_all (map fst ps))) as [mg|] eqn:Eb; [|contradiction].
    simpl. eapply broadcast_dims_sound; [exact Eb|apply candidates_all_ok; [exact Hok|]|exact Hb].
    apply has_unknown_false. exact Eu.
Qed.

(* variant 4 (proposed repair: decide first, write afterwards) is sound at FULL strength: no hypothesis on declared
   shapes, on ranks or on the symbols *)
Theorem refresh_v4_sound : sound_statement refresh_v4.
Proof.
  intros rho ps out cr Hok Hb Hout. unfold refresh_v4.
  destruct (has_unknown (map fst ps)) eqn:Eu; [exact Hout|].
  destruct (broadcast_shape_dims (candidates_all (map fst ps))) as [mg|] eqn:Eb; [|exact Hout].
  simpl. eapply broadcast_dims_sound; [exact Eb|apply candidates_all_ok; [exact Hok|]|exact Hb].
  apply has_unknown_false. exact Eu.
Qed.
Example refresh_v4_on_witnesses :
  refresh_v4 (map fst refresh_witness) (Some [DInt 1; DInt 3]) = Some [DInt 1; DInt 3]
  /\ refresh_v4 (map fst refresh_witness_v2) (Some [DInt 1; DInt 3]) = Some [DInt 1; DInt 3]
  /\ refresh_v4 (map fst refresh_witness_v3) (Some [DInt 2; DInt 3]) = Some [DInt 2; DInt 3].
Proof. repeat split; vm_compute; reflexivity. Qed.

(* ---- fold sites (commit e13e43d): a fold has just re-wired the node's inputs, so the OLD output annotation describes
   another value.  [refresh_rw] = variant 4 + "give up => unknown": the old annotation [out] is never kept. *)
Definition refresh_rw (ins : list operand) (out : option (list dim)) : option (list dim) :=
  if has_unknown ins then None
  else match broadcast_shape_dims (candidates_all ins) with Some mg => Some mg | None => None end.
(* the statement that matters at a fold site: NO hypothesis about the old output annotation *)
Definition fold_statement (f : list operand -> option (list dim) -> option (list dim)) : Prop :=
  forall rho ps out cr,
    operands_ok rho ps -> bcast_list (map snd ps) = Some cr -> oshape_ok rho (f (map fst ps) out) cr.

Theorem refresh_rw_fold_sound : fold_statement refresh_rw.
Proof.
  intros rho ps out cr Hok Hb. unfold refresh_rw.
  destruct (has_unknown (map fst ps)) eqn:Eu; [exact I|].
  destruct (broadcast_shape_dims (candidates_all (map fst ps))) as [mg|] eqn:Eb; [|exact I].
  simpl. eapply broadcast_dims_sound; [exact Eb|apply candidates_all_ok; [exact Hok|]|exact Hb].
  apply has_unknown_false. exact Eu.
Qed.
Lemma refresh_rw_ignores_old ins out out' : refresh_rw ins out = refresh_rw ins out'.
Proof. reflexivity. Qed.

(* HISTORY: variant 4 used at a fold site keeps a stale annotation.  Reshape[2,3] - Max(a, c: constant without declared
   shape) - Reshape[6] folded to Max(x:[6], c): the old annotation [2,3] of the Max output survives, the value is [6] *)
Definition fold_witness : list (operand * list nat) :=
  [ (mkOp (Some [DInt 6]) None false, [6]); (mkOp None (Some 1) true, []) ].
Example fold_witness_value :
  refresh_v4 (map fst fold_witness) (Some [DInt 2; DInt 3]) = Some [DInt 2; DInt 3]
  /\ refresh_rw (map fst fold_witness) (Some [DInt 2; DInt 3]) = None
  /\ bcast_list (map snd fold_witness) = Some [6].
Proof. repeat split; vm_compute; reflexivity. Qed.
Theorem refresh_v4_fold_refuted : ~ fold_statement refresh_v4.
Proof.
  intro H. specialize (H (fun _ => 1) fold_witness (Some [DInt 2; DInt 3]) [6]).
  assert (Hok : operands_ok (fun _ => 1) fold_witness).
  { intros o c [E|[E|[]]]; injection E as <- <-; (split; [simpl; repeat constructor|]).
    - intro E; discriminate E.
    - intros _. constructor. }
  specialize (H Hok eq_refl). vm_compute in H. inversion H as [|? ? ? ? Hd Hl]. inversion Hl.
Qed.

(* CastLike: the output has the shape of the data operand; the second operand only supplies the element type *)
Definition castlike_refresh (rewired : bool) (ins : list operand) (out : option (list dim)) : option (list dim) :=
  match ins with
  | o :: _ => match op_shape o with Some s => Some s | None => if rewired then None else out end
  | [] => out
  end.
Theorem castlike_refresh_fold_sound rho o c rest out :
  oshape_ok rho (op_shape o) c -> oshape_ok rho (castlike_refresh true (o :: rest) out) c.
Proof. unfold castlike_refresh. destruct (op_shape o); simpl; au. Qed.
Theorem castlike_refresh_sound rho o c rest out :
  oshape_ok rho (op_shape o) c -> oshape_ok rho out c -> oshape_ok rho (castlike_refresh false (o :: rest) out) c.
Proof. unfold castlike_refresh. destruct (op_shape o); simpl; au. Qed.

(* ================================================================= 6. a checker for real exports *)
(* For operators with an exact shape rule, when ALL operand annotations are fully static, the declared output shape
   (when fully static) must be what the rule computes from the operand annotations. *)
Fixpoint all_ints (ds : list dim) : option (list Z) :=
  match ds with
  | [] => Some []
  | DInt z :: r => if (z <? 0)%Z then None else match all_ints r with Some l => Some (z :: l) | None => None end
  | _ => None
  end.
Definition static_shape (v : vinfo) : option (list Z) :=
  match vi_shape v with Some ds => all_ints ds | None => None end.
Definition lookup_static (g : ograph) (name : string) : option (list Z) :=
  match find (fun v => String.eqb (vi_name v) name) (og_inputs g ++ og_inits g ++ og_vinfos g ++ og_outputs g) with
  | Some v => static_shape v
  | None => None
  end.

Definition zbcast_list (l : list (list Z)) : option (list Z) :=
  option_map (map Z.of_nat) (bcast_list (map (map Z.to_nat) l)).
Fixpoint zlist_eqb (a b : list Z) : bool :=
  match a, b with
  | [], [] => true
  | x :: a', y :: b' => Z.eqb x y && zlist_eqb a' b'
  | _, _ => false
  end.
Lemma zlist_eqb_eq a : forall b, zlist_eqb a b = true -> a = b.
Proof.
  induction a as [|x a IH]; intros [|y b] H; simpl in H; try discriminate; [reflexivity|].
  apply andb_prop in H. destruct H as [H1 H2]. apply Z.eqb_eq in H1. subst. f_equal. au.
Qed.

Definition first_input_shape_ops : list string :=
  ["Relu"; "Sigmoid"; "Tanh"; "Exp"; "Log"; "Sqrt"; "Neg"; "Abs"; "Cast"; "CastLike"; "Identity"; "Not"; "Sin"; "Cos";
   "Tan"; "Asin"; "Acos"; "Atan"; "Sinh"; "Cosh"; "Asinh"; "Acosh"; "Atanh"; "Erf"; "Floor"; "Ceil"; "Round"; "Sign";
   "Reciprocal"; "Softplus"; "Softsign"; "Elu"; "Selu"; "Celu"; "LeakyRelu"; "Gelu"; "HardSigmoid"; "HardSwish";
   "Mish"; "Softmax"; "LogSoftmax"; "IsNaN"; "IsInf"; "BitwiseNot"; "ThresholdedRelu"; "Swish"; "Dropout"]%string.
Definition broadcast_ops : list string :=
  ["Add"; "Sub"; "Mul"; "Div"; "Pow"; "Mod"; "And"; "Or"; "Xor"; "Equal"; "Less"; "Greater"; "LessOrEqual";
   "GreaterOrEqual"; "BitwiseAnd"; "BitwiseOr"; "BitwiseXor"; "Max"; "Min"; "Sum"; "Mean"; "Where"]%string.

Definition attr_of (n : onode) (name : string) : option attr :=
  match find (fun kv => String.eqb (fst kv) name) (on_attrs n) with Some kv => Some (snd kv) | None => None end.
(* value of a small integer tensor produced by a Constant node of the same graph *)
Definition const_ints (g : ograph) (name : string) : option (list Z) :=
  match find (fun c => String.eqb (on_op c) "Constant" && match on_outs c with [o] => String.eqb o name | _ => false end)
             (og_nodes g) with
  | Some c => match attr_of c "value" with Some (ATensor _ _ (Some l)) => Some l | _ => None end
  | None => None
  end.
Definition transpose_shape (s : list Z) (perm : list Z) : option (list Z) :=
  if Nat.eqb (length perm) (length s) && forallb (fun p => (0 <=? p)%Z && (p <? Z.of_nat (length s))%Z) perm
  then Some (map (fun p => nth (Z.to_nat p) s 0%Z) perm) else None.

Definition std_domain (n : onode) : bool := String.eqb (on_domain n) "" || String.eqb (on_domain n) "ai.onnx".

(* the rule, parameterised by where operand shapes are looked up *)
Definition rule_on (g : ograph) (look : string -> option (list Z)) (n : onode) : option (list Z) :=
  if negb (std_domain n) then None else
  if str_mem (on_op n) first_input_shape_ops then
    match on_ins n with x :: _ => look x | [] => None end
  else if str_mem (on_op n) broadcast_ops then
    match on_ins n with
    | [] => None
    | ins => match all_some (map look ins) with Some shapes => zbcast_list shapes | None => None end
    end
  else if String.eqb (on_op n) "Transpose" then
    match on_ins n with
    | [x] => match look x with
             | Some s => match attr_of n "perm" with
                         | Some (AInts p) => transpose_shape s p
                         | None => Some (rev s)
                         | _ => None
                         end
             | None => None
             end
    | _ => None
    end
  else if String.eqb (on_op n) "Reshape" then
    match on_ins n with
    | [x; t] => match look x, const_ints g t with
                | Some _, Some l => if forallb (fun z => (0 <? z)%Z) l then Some l else None
                | _, _ => None
                end
    | _ => None
    end
  else None.

Definition node_ok (g : ograph) (n : onode) : bool :=
  match rule_on g (lookup_static g) n, hd_error (on_outs n) with
  | Some s, Some o => match lookup_static g o with Some d => zlist_eqb d s | None => true end
  | _, _ => true
  end.
Definition annot_consistent (m : omodel) : bool :=
  forallb (fun g => forallb (node_ok g) (og_nodes g)) (om_graphs m).
(* diagnostics for the harness: names of the first outputs of the offending nodes *)
Definition annot_inconsistent_at (m : omodel) : list (string * string) :=
  flat_map (fun g => flat_map (fun n => if node_ok g n then [] else [(on_op n, hd ""%string (on_outs n))]) (og_nodes g))
           (om_graphs m).
Definition rule_applies (m : omodel) : nat :=
  length (flat_map (fun g => filter (fun n => match rule_on g (lookup_static g) n, hd_error (on_outs n) with
                                              | Some _, Some o => match lookup_static g o with Some _ => true | None => false end
                                              | _, _ => false end) (og_nodes g)) (om_graphs m)).

Theorem annot_consistent_sound m : annot_consistent m = true ->
  forall g n s o d, In g (om_graphs m) -> In n (og_nodes g) ->
    rule_on g (lookup_static g) n = Some s -> hd_error (on_outs n) = Some o -> lookup_static g o = Some d -> d = s.
Proof.
  unfold annot_consistent. intros H g n s o d Hg Hn Hr Ho Hd.
  rewrite forallb_forall in H. specialize (H g Hg). rewrite forallb_forall in H. specialize (H n Hn).
  unfold node_ok in H. rewrite Hr, Ho, Hd in H. now apply zlist_eqb_eq.
Qed.

(* ---- relative truth: if the run time obeys the operator rules and the operand annotations are true, then the
   output annotation is true; iterated along the node list *)
Lemma all_some_map_mono {A B} (f1 f2 : A -> option B) l r :
  (forall x y, In x l -> f1 x = Some y -> f2 x = Some y) -> all_some (map f1 l) = Some r -> all_some (map f2 l) = Some r.
Proof.
  revert r. induction l as [|x l IH]; intros r H E; simpl in *; [exact E|].
  destruct (f1 x) as [y|] eqn:E1; [|discriminate]. rewrite (H x y (or_introl eq_refl) E1).
  destruct (all_some (map f1 l)) as [ys|] eqn:E2; [|discriminate].
  rewrite (IH ys (fun x' y' Hin => H x' y' (or_intror Hin)) eq_refl). exact E.
Qed.

Lemma rule_on_mono g look1 look2 n s :
  (forall v d, In v (on_ins n) -> look1 v = Some d -> look2 v = Some d) ->
  rule_on g look1 n = Some s -> rule_on g look2 n = Some s.
Proof.
  intros H. unfold rule_on. destruct (negb (std_domain n)); [discriminate|].
  destruct (str_mem (on_op n) first_input_shape_ops).
  { destruct (on_ins n) as [|x r]; [discriminate|]. apply H. left. reflexivity. }
  destruct (str_mem (on_op n) broadcast_ops).
  { destruct (on_ins n) as [|x r] eqn:Ei; [discriminate|].
    destruct (all_some (map look1 (x :: r))) as [shapes|] eqn:E1; [|discriminate].
    rewrite (all_some_map_mono look1 look2 (x :: r) shapes H E1). au. }
  destruct (String.eqb (on_op n) "Transpose").
  { destruct (on_ins n) as [|x [|y r]]; try discriminate.
    destruct (look1 x) as [s1|] eqn:E1; [|discriminate]. rewrite (H x s1 (or_introl eq_refl) E1). au. }
  destruct (String.eqb (on_op n) "Reshape"); [|discriminate].
  destruct (on_ins n) as [|x [|t [|z r]]]; try discriminate.
  destruct (look1 x) as [s1|] eqn:E1; [|discriminate]. rewrite (H x s1 (or_introl eq_refl) E1). au.
Qed.

Section RelativeTruth.
  Variable g : ograph.
  Variable rt : string -> list Z.          (* run-time shape of every value of the graph in one execution *)
  Definition annot_true (v : string) : Prop := forall d, lookup_static g v = Some d -> rt v = d.
  (* the run time implements the operator's shape rule *)
  Definition runtime_obeys (n : onode) : Prop :=
    forall s o, rule_on g (fun v => Some (rt v)) n = Some s -> hd_error (on_outs n) = Some o -> rt o = s.

  Theorem annot_step n : node_ok g n = true -> runtime_obeys n ->
    (forall v, In v (on_ins n) -> annot_true v) ->
    rule_on g (lookup_static g) n <> None ->
    forall o, hd_error (on_outs n) = Some o -> annot_true o.
  Proof.
    intros Hok Hrt Hins Hr o Ho d Hd. unfold node_ok in Hok.
    destruct (rule_on g (lookup_static g) n) as [s|] eqn:Er; [|contradiction]. rewrite Ho, Hd in Hok.
    apply zlist_eqb_eq in Hok. subst d.
    apply (Hrt s o); [|exact Ho].
    apply (rule_on_mono g (lookup_static g)); [|exact Er]. intros v d Hin Hl. f_equal. now apply Hins.
  Qed.

  (* names whose annotation is entailed by the annotations of [T] (graph inputs, initializers) *)
  Fixpoint derive (nodes : list onode) (T : list string) : list string :=
    match nodes with
    | [] => T
    | n :: r =>
        let fires := forallb (fun v => str_mem v T) (on_ins n)
                     && match rule_on g (lookup_static g) n with Some _ => true | None => false end in
        derive r (if fires then match hd_error (on_outs n) with Some o => o :: T | None => T end else T)
    end.

  Lemma str_mem_In v T : str_mem v T = true -> In v T.
  Proof.
    unfold str_mem. rewrite existsb_exists. intros (x & Hx & E). apply String.eqb_eq in E. now subst.
  Qed.

  Theorem derive_true nodes : forall T,
    (forall n, In n nodes -> node_ok g n = true) -> (forall n, In n nodes -> runtime_obeys n) ->
    (forall v, In v T -> annot_true v) -> forall v, In v (derive nodes T) -> annot_true v.
  Proof.
    induction nodes as [|n r IH]; intros T Hok Hrt HT v Hv; simpl in Hv; [au|].
    apply (IH _ (fun n' H' => Hok n' (or_intror H')) (fun n' H' => Hrt n' (or_intror H'))) in Hv; [exact Hv|].
    clear Hv v. intros v Hv.
    destruct (forallb (fun v => str_mem v T) (on_ins n)) eqn:Ef; simpl in Hv; [|au].
    destruct (rule_on g (lookup_static g) n) as [s|] eqn:Er; [|au].
    destruct (hd_error (on_outs n)) as [o|] eqn:Eo; [|au].
    destruct Hv as [<-|Hv]; [|au].
    apply (annot_step n); au.
    - apply Hok. left. reflexivity.
    - apply Hrt. left. reflexivity.
    - intros x Hx. apply HT. apply str_mem_In. rewrite forallb_forall in Ef. now apply Ef.
    - rewrite Er. discriminate.
  Qed.
End RelativeTruth.

Definition derived_count (m : omodel) : nat :=
  match om_graphs m with
  | g :: _ => let T0 := map vi_name (og_inputs g ++ og_inits g) in length (derive g (og_nodes g) T0) - length T0
  | [] => 0
  end.

(* ---- layout rules on ANY annotation (ints, symbols, unknown): definite contradictions only.
   A Transpose output dim i IS the input dim perm[i]; the output of a same-shape operator has the dims of its input.
   [free] = the symbols of the graph inputs (every binding of them is admissible). *)
Definition dim_contra (free : list string) (a b : dim) : bool :=
  match a, b with
  | DInt x, DInt y => negb (Z.eqb x y)
  | DSym s, DInt _ => str_mem s free
  | DInt _, DSym s => str_mem s free
  | DSym s, DSym t => negb (String.eqb s t) && str_mem s free && str_mem t free
  | _, _ => false
  end.
(* a flagged pair cannot be true of the same extent for every binding: some binding refutes it *)
Theorem dim_contra_sound free a b : dim_contra free a b = true ->
  exists rho, forall n, ~ (dim_ok rho a n /\ dim_ok rho b n).
Proof.
  destruct a as [x|s|], b as [y|t|]; simpl; intro H; try discriminate.
  - exists (fun _ => 0). intros n [-> E]. apply negb_true_iff, Z.eqb_neq in H. cong.
  - exists (fun _ => S (Z.to_nat x)). intros n [E E2]. simpl in *. tlia.
  - exists (fun _ => S (Z.to_nat y)). intros n [E E2]. simpl in *. tlia.
  - apply andb_prop in H. destruct H as [H _]. apply andb_prop in H. destruct H as [H _].
    apply negb_true_iff in H. exists (fun u => if String.eqb u s then 1 else 2). intros n [E1 E2].
    rewrite String.eqb_refl in E1. rewrite String.eqb_sym, H in E2. tlia.
Qed.

Definition lookup_dims (g : ograph) (name : string) : option (list dim) :=
  match find (fun v => String.eqb (vi_name v) name) (og_inputs g ++ og_inits g ++ og_vinfos g ++ og_outputs g) with
  | Some v => vi_shape v
  | None => None
  end.
Definition free_syms (g : ograph) : list string :=
  flat_map (fun v => match vi_shape v with
                     | Some ds => flat_map (fun d => match d with DSym s => [s] | _ => [] end) ds
                     | None => [] end) (og_inputs g).
Fixpoint dims_contra (free : list string) (a b : list dim) : bool :=
  match a, b with
  | [], [] => false
  | x :: a', y :: b' => dim_contra free x y || dims_contra free a' b'
  | _, _ => true                                  (* different rank *)
  end.
(* what the layout rule says about the dims of the first output, from the DECLARED dims of the input *)
Definition layout_rule (g : ograph) (n : onode) : option (list dim) :=
  if negb (std_domain n) then None else
  if str_mem (on_op n) first_input_shape_ops then
    match on_ins n with x :: _ => lookup_dims g x | [] => None end
  else if String.eqb (on_op n) "Transpose" then
    match on_ins n with
    | [x] => match lookup_dims g x with
             | Some ds =>
                 match attr_of n "perm" with
                 | Some (AInts p) =>
                     if Nat.eqb (length p) (length ds) && forallb (fun q => (0 <=? q)%Z && (q <? Z.of_nat (length ds))%Z) p
                     then Some (map (fun q => nth (Z.to_nat q) ds DUnk) p) else None
                 | None => Some (rev ds)
                 | _ => None
                 end
             | None => None
             end
    | _ => None
    end
  else None.
Definition layout_contra (g : ograph) (n : onode) : bool :=
  match layout_rule g n, hd_error (on_outs n) with
  | Some want, Some o => match lookup_dims g o with Some have => dims_contra (free_syms g) want have | None => false end
  | _, _ => false
  end.
Definition layout_contradictions (m : omodel) : list (string * string) :=
  flat_map (fun g => flat_map (fun n => if layout_contra g n then [(on_op n, hd ""%string (on_outs n))] else []) (og_nodes g))
           (om_graphs m).
Definition layout_rule_applies (m : omodel) : nat :=
  length (flat_map (fun g => filter (fun n => match layout_rule g n, hd_error (on_outs n) with
                                              | Some _, Some o => match lookup_dims g o with Some _ => true | None => false end
                                              | _, _ => false end) (og_nodes g)) (om_graphs m)).

(* if nothing is flagged on two dim lists, the ranks agree and no axis carries a definite contradiction *)
Lemma dims_contra_false free a : forall b, dims_contra free a b = false ->
  length a = length b /\ forall i, dim_contra free (nth i a DUnk) (nth i b DUnk) = false.
Proof.
  induction a as [|x a IH]; intros [|y b] H; simpl in H; try discriminate.
  - split; [reflexivity|]. intros [|i]; reflexivity.
  - apply orb_false_elim in H. destruct H as [H1 H2]. destruct (IH _ H2) as [Hl Hn].
    split; [simpl; cong|]. intros [|i]; simpl; au.
Qed.
(* a flagged Transpose / same-shape node: rank differs, or some axis admits a binding that refutes the two annotations *)
Theorem dims_contra_sound free a : forall b, dims_contra free a b = true ->
  length a <> length b \/ exists i rho, forall n, ~ (dim_ok rho (nth i a DUnk) n /\ dim_ok rho (nth i b DUnk) n).
Proof.
  induction a as [|x a IH]; intros [|y b] H; simpl in H; try discriminate; try (left; discriminate).
  apply orb_true_iff in H. destruct H as [H|H].
  - right. exists 0. destruct (dim_contra_sound _ _ _ H) as [rho Hr]. exists rho. exact Hr.
  - destruct (IH _ H) as [Hl|(i & rho & Hr)]; [left; simpl; tlia|right; exists (S i), rho; exact Hr].
Qed.

Example layout_contra_detects_inverse_perm :
  let g := mkOG 0 None [mkVI "x" 1 (Some [DSym "S"; DInt 8; DInt 4])] []
             [mkON "Transpose" "" "t" ["x"%string] ["y"%string] [("perm"%string, AInts [1; 2; 0]%Z)]]
             [mkVI "y" 1 (Some [DInt 4; DSym "S"; DInt 8])] [] in
  layout_contradictions (mkOM 10 [] [g] []) = [("Transpose", "y")]%string
  /\ layout_rule g (mkON "Transpose" "" "t" ["x"%string] ["y"%string] [("perm"%string, AInts [1; 2; 0]%Z)]) = Some [DInt 8; DInt 4; DSym "S"].
Proof. split; vm_compute; reflexivity. Qed.

(* non-vacuity of the checker: the export of jnp.maximum(x:[4], zeros((1,1))) on the unchanged tree (output declared [4]) *)
Definition ex_model (out_shape : list dim) : omodel :=
  mkOM 10 [(""%string, 23%Z)]
    [mkOG 0 None [mkVI "x" 1 (Some [DInt 4])] [mkVI "c" 1 (Some [DInt 1; DInt 1])]
       [mkON "Max" "" "n" ["x"; "c"]%string ["y"%string] []] [mkVI "y" 1 (Some out_shape)] []] [].
Example annot_consistent_rejects : annot_consistent (ex_model [DInt 4]) = false. Proof. vm_compute. reflexivity. Qed.
Example annot_consistent_accepts : annot_consistent (ex_model [DInt 1; DInt 4]) = true /\ rule_applies (ex_model [DInt 1; DInt 4]) = 1
  /\ derived_count (ex_model [DInt 1; DInt 4]) = 1.
Proof. vm_compute. au. Qed.

(* ================================================================= 7. the operator sets the propagation passes act on *)
(* propagate_unary_shapes_ir copies the first input's shape to the output for UNARY_DATAFLOW_OPS: every such operator
   has the same-shape rule; propagate_elementwise_shapes_ir refreshes ELEMENTWISE_BINARY_OPS by broadcasting: every such
   operator broadcasts multidirectionally (Clip: its min/max operands are scalars by the ONNX specification) *)
Lemma unary_dataflow_ops_same_shape :
  forallb (fun o => str_mem o first_input_shape_ops) GS_UNARY_DATAFLOW_OPS = true.
Proof. vm_compute. reflexivity. Qed.
Lemma elementwise_binary_ops_broadcast :
  forallb (fun o => str_mem o broadcast_ops || String.eqb o "Clip") GS_ELEMENTWISE_BINARY_OPS = true.
Proof. vm_compute. reflexivity. Qed.
