(* Annot (C08): static shape annotations never contradict run time.
   - concrete numpy/ONNX multidirectional broadcasting [bcast], its relational characterisation [Broadcast];
   - what an annotation dim claims under a binding of the symbols [dim_ok] / [denote_dim];
   - the TRANSLATED annotation helpers of jax2onnx (gen/GenShapes.v, regenerated from /repo on every run):
     [broadcast_shape_dims] never claims something false, [unknown_shape_like] only weakens;
   - hand models (tied differentially by harness/c08.py) of [_loosen_graph_value_shapes] and
     [_refresh_elementwise_output_shape]; the latter is REFUTED at full strength and proved under the exact hypothesis;
   - a checker [annot_consistent] for real exports (omodel) with soundness theorems. *)
From Coq Require Import ZArith String List Bool Lia Arith PeanoNat.
From J2O Require Import Onnx.
From J2OGen Require Import GenShapes.
Import ListNotations.
Local Open Scope nat_scope.

(* ================================================================= 1. concrete broadcasting *)
Definition bdim (a b : nat) : option nat :=
  if Nat.eqb a b then Some a else if Nat.eqb a 1 then Some b else if Nat.eqb b 1 then Some a else None.

(* on reversed shapes: innermost axis first, the shorter shape is padded with 1 at the end *)
Fixpoint bcast_rev (a b : list nat) : option (list nat) :=
  match a, b with
  | [], _ => Some b
  | _, [] => Some a
  | x :: a', y :: b' =>
      match bdim x y, bcast_rev a' b' with Some d, Some r => Some (d :: r) | _, _ => None end
  end.
Definition bcast (a b : list nat) : option (list nat) :=
  option_map (@rev nat) (bcast_rev (rev a) (rev b)).
Definition bcast_list (l : list (list nat)) : option (list nat) :=
  fold_right (fun s acc => match acc with Some r => bcast s r | None => None end) (Some []) l.

Example bcast_ex1 : bcast [3] [1; 1] = Some [1; 3]. Proof. reflexivity. Qed.
Example bcast_ex2 : bcast [2; 1; 4] [3; 1] = Some [2; 3; 4]. Proof. reflexivity. Qed.
Example bcast_ex3 : bcast [2; 3] [4] = None. Proof. reflexivity. Qed.
Example bcast_ex4 : bcast [0; 3] [1; 3] = Some [0; 3]. Proof. reflexivity. Qed.
Example bcast_ex5 : bcast_list [[3]; [1; 1]; [2; 1; 1]] = Some [2; 1; 3]. Proof. reflexivity. Qed.

(* the numpy rule, relationally: extent k-th from the right (1 when the shape is shorter) *)
Definition dim_at (s : list nat) (k : nat) : nat := nth k (rev s) 1.
Definition ColP (col : list nat) (m : nat) : Prop :=
  (forall x, In x col -> x = 1 \/ x = m) /\ (m = 1 \/ In m col).
Definition Broadcast (cs : list (list nat)) (cr : list nat) : Prop :=
  length cr = list_max_nat (map (@length nat) cs) /\
  forall k, ColP (map (fun c => dim_at c k) cs) (dim_at cr k).

Lemma bdim_1_l y : bdim 1 y = Some y.
Proof. unfold bdim. destruct (Nat.eqb_spec 1 y); [subst|]; reflexivity. Qed.
Lemma bdim_1_r x : bdim x 1 = Some x.
Proof.
  unfold bdim. destruct (Nat.eqb_spec x 1); [subst; reflexivity|].
  destruct (Nat.eqb_spec x 1); [contradiction|]. reflexivity.
Qed.
Lemma bdim_cases x y m : bdim x y = Some m -> (x = m /\ y = m) \/ (x = 1 /\ y = m) \/ (y = 1 /\ x = m).
Proof.
  unfold bdim. destruct (Nat.eqb_spec x y); [intro H; injection H as <-; subst; auto|].
  destruct (Nat.eqb_spec x 1); [intro H; injection H as <-; auto|].
  destruct (Nat.eqb_spec y 1); [intro H; injection H as <-; auto|]. discriminate.
Qed.

Lemma nth_nil_1 k : nth k (@nil nat) 1 = 1.
Proof. destruct k; reflexivity. Qed.

Lemma bcast_rev_spec a : forall b r, bcast_rev a b = Some r ->
  length r = Nat.max (length a) (length b) /\
  forall k, bdim (nth k a 1) (nth k b 1) = Some (nth k r 1).
Proof.
  induction a as [|x a IH]; intros b r H.
  - simpl in H. injection H as <-. split; [reflexivity|]. intro k. rewrite nth_nil_1. apply bdim_1_l.
  - destruct b as [|y b].
    + simpl in H. injection H as <-. split; [simpl; lia|]. intro k. rewrite nth_nil_1. apply bdim_1_r.
    + simpl in H. destruct (bdim x y) as [d|] eqn:Ed; [|discriminate].
      destruct (bcast_rev a b) as [r'|] eqn:Er; [|discriminate]. injection H as <-.
      destruct (IH _ _ Er) as [Hl Hk]. split; [simpl; lia|].
      intros [|k]; simpl; auto.
Qed.

Definition cfold (col : list nat) : option nat :=
  fold_right (fun x acc => match acc with Some a => bdim x a | None => None end) (Some 1) col.

Lemma cfold_P col : forall m, cfold col = Some m -> ColP col m.
Proof.
  induction col as [|x col IH]; intros m H.
  - simpl in H. injection H as <-. split; [intros x []|auto].
  - simpl in H. destruct (cfold col) as [a|] eqn:Ea; [|discriminate].
    destruct (IH _ eq_refl) as [H1 H2].
    destruct (bdim_cases _ _ _ H) as [[-> ->]|[[-> ->]|[-> ->]]].
    + split; [intros y [<-|Hy]; auto|right; left; reflexivity].
    + split; [intros y [<-|Hy]; auto|]. destruct H2; [auto|right; right; auto].
    + split; [intros y [<-|Hy]; auto|right; left; reflexivity].
      destruct (H1 _ Hy); subst; auto.
Qed.

Lemma list_max_nat_cons {A} (f : A -> nat) x l :
  list_max_nat (map f (x :: l)) = Nat.max (f x) (list_max_nat (map f l)).
Proof. reflexivity. Qed.

Lemma bcast_inv s acc r : bcast s acc = Some r ->
  exists r', bcast_rev (rev s) (rev acc) = Some r' /\ r = rev r'.
Proof.
  unfold bcast. destruct (bcast_rev (rev s) (rev acc)) as [r'|]; simpl; [|discriminate].
  intro H. injection H as <-. eauto.
Qed.

Lemma ColP_cons x col a m : ColP col a -> bdim x a = Some m -> ColP (x :: col) m.
Proof.
  intros [H1 H2] H. destruct (bdim_cases _ _ _ H) as [[E1 E2]|[[E1 E2]|[E1 E2]]]; subst.
  - split; [intros y [<-|Hy]; auto|right; left; reflexivity].
  - split; [intros y [<-|Hy]; auto|]. destruct H2; [auto|right; right; auto].
  - split; [|right; left; reflexivity]. intros y [<-|Hy]; auto. destruct (H1 _ Hy); auto.
Qed.

Theorem bcast_list_Broadcast cs : forall cr, bcast_list cs = Some cr -> Broadcast cs cr.
Proof.
  induction cs as [|s cs IH]; intros cr H.
  - simpl in H. injection H as <-. split; [reflexivity|]. intro k. split; [intros x []|left].
    unfold dim_at. simpl. apply nth_nil_1.
  - simpl in H. destruct (bcast_list cs) as [acc|] eqn:Ea; [|discriminate].
    destruct (IH _ eq_refl) as [Hl Hc].
    destruct (bcast_inv _ _ _ H) as (r' & Hr & ->).
    destruct (bcast_rev_spec _ _ _ Hr) as [Hl' Hk].
    split.
    + rewrite rev_length, Hl', !rev_length, Hl. reflexivity.
    + intro k. simpl map. apply (ColP_cons _ _ (dim_at acc k)); [apply Hc|].
      unfold dim_at. rewrite rev_involutive. apply Hk.
Qed.

Lemma bcast_nil_r s : bcast s [] = Some s.
Proof.
  unfold bcast. simpl. destruct (rev s) eqn:E; simpl.
  - apply (f_equal (@rev nat)) in E. rewrite rev_involutive in E. simpl in E. now subst.
  - apply (f_equal (@rev nat)) in E. rewrite rev_involutive in E. simpl in E. now subst.
Qed.

Lemma bcast_list_2 a b : bcast_list [a; b] = match bcast b [] with Some r => bcast a r | None => None end.
Proof. reflexivity. Qed.

Corollary bcast_Broadcast a b cr : bcast a b = Some cr -> Broadcast [a; b] cr.
Proof. intro H. apply bcast_list_Broadcast. rewrite bcast_list_2, bcast_nil_r. exact H. Qed.

(* ================================================================= 2. what an annotation claims *)
Definition env := string -> nat.
(* DUnk: no claim.  A negative declared extent can never be true. *)
Definition dim_ok (rho : env) (d : dim) (n : nat) : Prop :=
  match d with DInt z => z = Z.of_nat n | DSym s => rho s = n | DUnk => True end.
Definition shape_ok (rho : env) (ds : list dim) (cs : list nat) : Prop := Forall2 (dim_ok rho) ds cs.
Definition oshape_ok (rho : env) (o : option (list dim)) (cs : list nat) : Prop :=
  match o with Some ds => shape_ok rho ds cs | None => True end.

Definition denote_dim (rho : env) (d : dim) : option nat :=
  match d with
  | DInt z => if (z <? 0)%Z then None else Some (Z.to_nat z)
  | DSym s => Some (rho s)
  | DUnk => None
  end.
Lemma dim_ok_denote rho d n : dim_ok rho d n -> forall m, denote_dim rho d = Some m -> m = n.
Proof.
  destruct d; simpl; intros H m E.
  - destruct (n0 <? 0)%Z eqn:L; [discriminate|]. injection E as <-. subst. apply Nat2Z.id.
  - injection E as <-. exact H.
  - discriminate.
Qed.
Lemma denote_dim_ok rho d n : (forall z, d = DInt z -> (0 <= z)%Z) ->
  (forall m, denote_dim rho d = Some m -> m = n) -> dim_ok rho d n.
Proof.
  destruct d; simpl; intros Hz H; auto.
  specialize (Hz _ eq_refl). destruct (n0 <? 0)%Z eqn:L; [apply Z.ltb_lt in L; lia|].
  rewrite <- (H _ eq_refl). symmetry. apply Z2Nat.id. exact Hz.
Qed.
