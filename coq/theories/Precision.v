(* Precision (property C09): the precision flag is honoured end to end.

   (V) validators over the exported-model AST (Onnx.v): [no_double] / [no_single] with declarative
       soundness AND completeness, [first_double] / [first_single] naming the first offending item;
   (P) theorems about the float policy of the exporter, stated over gen/GenPrecision.v = the CURRENT
       /repo code translated on every run (finite numpy-dtype enumeration x flag);
   (P) the two jax_enable_x64 context managers (translated) restore the process-wide flag on every
       exit, normal or exceptional, also nested;
   (P) promotion float32 -> float64 is exact (every float32 value is a float64 value). *)
From Coq Require Import ZArith Reals String List Bool Lia DecimalString.
From J2O Require Import PyLib Dtype Onnx CastSem.
From J2OGen Require Import GenPrecision.
Import ListNotations.
Local Open Scope Z_scope.
Local Notation "a +++ b" := (String.append a b) (right associativity, at level 60).

(* ====================================================================== (V) validators *)
Definition is_double (z : Z) : bool := (z =? 11) || (z =? 15).     (* DOUBLE, COMPLEX128 *)
Definition is_single (z : Z) : bool := (z =? 1) || (z =? 14).      (* FLOAT, COMPLEX64 *)

Lemma is_double_false z : is_double z = false <-> z <> 11 /\ z <> 15.
Proof. unfold is_double. rewrite orb_false_iff, !Z.eqb_neq. tauto. Qed.
Lemma is_single_false z : is_single z = false <-> z <> 1 /\ z <> 14.
Proof. unfold is_single. rewrite orb_false_iff, !Z.eqb_neq. tauto. Qed.

(* every value a graph declares: inputs, initializers, outputs, value_info *)
Definition graph_decls (g : ograph) : list vinfo := og_inputs g ++ og_inits g ++ og_outputs g ++ og_vinfos g.
(* every node of the model: all graphs of the table (main graph + every If/Loop/Scan body at any depth)
   and all function bodies *)
Definition all_nodes (m : omodel) : list onode :=
  flat_map og_nodes (om_graphs m) ++ flat_map of_nodes (om_functions m).
(* integer attributes that name an element type: Cast.to, and dtype of RandomNormal/RandomUniform/EyeLike/... *)
Definition is_dtype_attr (nm : string) : bool := String.eqb nm "to"%string || String.eqb nm "dtype"%string.

Section Scan.
  Variable bad : Z -> bool.

  Definition vi_ok (vi : vinfo) : bool := negb (bad (vi_dtype vi)).
  Definition attr_ok (op : string) (kv : string * attr) : bool :=
    match snd kv with
    | ATensor d _ _ => negb (bad d)
    | AInt z => if is_dtype_attr (fst kv) then negb (bad z) else true
    | AFloat | AFloats => if String.eqb op "Constant"%string then negb (bad 1) else true  (* Constant.value_float(s): a FLOAT tensor *)
    | _ => true
    end.
  Definition node_ok (n : onode) : bool := forallb (attr_ok (on_op n)) (on_attrs n).
  Definition graph_ok (g : ograph) : bool := forallb vi_ok (graph_decls g) && forallb node_ok (og_nodes g).
  Definition fun_ok (f : ofunction) : bool := forallb node_ok (of_nodes f).
  Definition model_ok (m : omodel) : bool := forallb graph_ok (om_graphs m) && forallb fun_ok (om_functions m).

  (* declarative reading *)
  Definition Clean (m : omodel) : Prop :=
    (forall g vi, In g (om_graphs m) -> In vi (graph_decls g) -> bad (vi_dtype vi) = false) /\
    (forall n nm d dims s, In n (all_nodes m) -> In (nm, ATensor d dims s) (on_attrs n) -> bad d = false) /\
    (forall n nm z, In n (all_nodes m) -> In (nm, AInt z) (on_attrs n) -> nm = "to"%string \/ nm = "dtype"%string -> bad z = false) /\
    (forall n nm, In n (all_nodes m) -> on_op n = "Constant"%string ->
        In (nm, AFloat) (on_attrs n) \/ In (nm, AFloats) (on_attrs n) -> bad 1 = false).

  Lemma in_all_nodes m n : In n (all_nodes m) <->
    (exists g, In g (om_graphs m) /\ In n (og_nodes g)) \/ (exists f, In f (om_functions m) /\ In n (of_nodes f)).
  Proof. unfold all_nodes. rewrite in_app_iff, !in_flat_map. tauto. Qed.

  Lemma is_dtype_attr_true nm : is_dtype_attr nm = true <-> nm = "to"%string \/ nm = "dtype"%string.
  Proof. unfold is_dtype_attr. rewrite orb_true_iff, !String.eqb_eq. tauto. Qed.

  Definition NodeClean (n : onode) : Prop :=
    (forall nm d dims s, In (nm, ATensor d dims s) (on_attrs n) -> bad d = false) /\
    (forall nm z, In (nm, AInt z) (on_attrs n) -> nm = "to"%string \/ nm = "dtype"%string -> bad z = false) /\
    (forall nm, on_op n = "Constant"%string -> In (nm, AFloat) (on_attrs n) \/ In (nm, AFloats) (on_attrs n) -> bad 1 = false).

  Lemma node_ok_iff n : node_ok n = true <-> NodeClean n.
  Proof.
    unfold node_ok, NodeClean. rewrite forallb_forall. split.
    - intro H. repeat split.
      + intros nm d dims s Hin. specialize (H _ Hin). unfold attr_ok in H; simpl in H.
        now apply negb_true_iff in H.
      + intros nm z Hin Hnm. specialize (H _ Hin). unfold attr_ok in H; simpl in H.
        rewrite (proj2 (is_dtype_attr_true nm) Hnm) in H. now apply negb_true_iff in H.
      + intros nm Hop [Hin|Hin]; specialize (H _ Hin); unfold attr_ok in H; simpl in H;
          rewrite Hop in H; simpl in H; now apply negb_true_iff in H.
    - intros (H1 & H2 & H3) [nm a] Hin. unfold attr_ok; simpl.
      destruct a; auto.
      + destruct (is_dtype_attr nm) eqn:E; auto. apply is_dtype_attr_true in E.
        now rewrite (H2 _ _ Hin E).
      + destruct (String.eqb (on_op n) "Constant"%string) eqn:E; auto. apply String.eqb_eq in E.
        now rewrite (H3 nm E (or_introl Hin)).
      + destruct (String.eqb (on_op n) "Constant"%string) eqn:E; auto. apply String.eqb_eq in E.
        now rewrite (H3 nm E (or_intror Hin)).
      + now rewrite (H1 _ _ _ _ Hin).
  Qed.

  Theorem model_ok_iff m : model_ok m = true <-> Clean m.
  Proof.
    unfold model_ok, Clean. rewrite andb_true_iff, !forallb_forall. split.
    - intros [HG HF].
      assert (HN : forall n, In n (all_nodes m) -> NodeClean n).
      { intros n Hn. apply node_ok_iff. apply in_all_nodes in Hn as [[g [Hg Hn]]|[f [Hf Hn]]].
        - specialize (HG _ Hg). unfold graph_ok in HG. apply andb_true_iff in HG as [_ HG].
          rewrite forallb_forall in HG. now apply HG.
        - specialize (HF _ Hf). unfold fun_ok in HF. rewrite forallb_forall in HF. now apply HF. }
      repeat split.
      + intros g vi Hg Hvi. specialize (HG _ Hg). unfold graph_ok in HG. apply andb_true_iff in HG as [HG _].
        rewrite forallb_forall in HG. specialize (HG _ Hvi). unfold vi_ok in HG. now apply negb_true_iff in HG.
      + intros n nm d dims s Hn Hin. exact (proj1 (HN n Hn) _ _ _ _ Hin).
      + intros n nm z Hn Hin Hnm. exact (proj1 (proj2 (HN n Hn)) _ _ Hin Hnm).
      + intros n nm Hn Hop Hin. exact (proj2 (proj2 (HN n Hn)) nm Hop Hin).
    - intros (H1 & H2 & H3 & H4).
      assert (HN : forall n, In n (all_nodes m) -> node_ok n = true).
      { intros n Hn. apply node_ok_iff. repeat split; intros; eauto. }
      split.
      + intros g Hg. unfold graph_ok. apply andb_true_iff. rewrite !forallb_forall. split.
        * intros vi Hvi. unfold vi_ok. now rewrite (H1 _ _ Hg Hvi).
        * intros n Hn. apply HN. apply in_all_nodes. left; eauto.
      + intros f Hf. unfold fun_ok. rewrite forallb_forall. intros n Hn. apply HN.
        apply in_all_nodes. right; eauto.
  Qed.

  (* ---- the first offending item, as text *)
  Definition nat_str (n : nat) : string := NilZero.string_of_uint (Nat.to_uint n).
  Definition decl_hits (where_ cat : string) (l : list vinfo) : list string :=
    flat_map (fun vi => if vi_ok vi then [] else [where_ +++ ":"%string +++ cat +++ ":"%string +++ vi_name vi]) l.
  Definition node_hits (where_ : string) (n : onode) : list string :=
    flat_map (fun kv => if attr_ok (on_op n) kv then []
                        else [where_ +++ ":"%string +++ on_op n +++ "("%string +++ on_name n +++ ").attr:"%string +++ fst kv]) (on_attrs n).
  Definition graph_hits (g : ograph) : list string :=
    let w := "graph"%string +++ nat_str (og_id g) in
    decl_hits w "input"%string (og_inputs g) ++ decl_hits w "initializer"%string (og_inits g) ++
    decl_hits w "output"%string (og_outputs g) ++ decl_hits w "value_info"%string (og_vinfos g) ++
    flat_map (node_hits w) (og_nodes g).
  Definition fun_hits (f : ofunction) : list string := flat_map (node_hits ("function "%string +++ of_name f)) (of_nodes f).
  Definition model_hits (m : omodel) : list string :=
    flat_map graph_hits (om_graphs m) ++ flat_map fun_hits (om_functions m).
  Definition first_bad (m : omodel) : option string := hd_error (model_hits m).

  Lemma flat_map_nil {A B} (f : A -> list B) l : flat_map f l = [] <-> forall x, In x l -> f x = [].
  Proof.
    induction l as [|a l IH]; simpl; [tauto|]. split.
    - intros H. apply app_eq_nil in H as [Ha Hl]. intros x [<-|Hx]; auto. now apply IH.
    - intros H. rewrite (H a (or_introl eq_refl)). apply IH. intros; apply H; auto.
  Qed.

  Lemma cond_hits_nil {A} (p : A -> bool) (d : A -> string) l :
    flat_map (fun x => if p x then [] else [d x]) l = [] <-> forallb p l = true.
  Proof.
    rewrite flat_map_nil, forallb_forall. split; intros H x Hx; specialize (H x Hx).
    - destruct (p x); [reflexivity|discriminate].
    - now rewrite H.
  Qed.

  Lemma app_nil_iff {A} (l l' : list A) : l ++ l' = [] <-> l = [] /\ l' = [].
  Proof. split; [apply app_eq_nil | intros [-> ->]; reflexivity]. Qed.
  Lemma decl_hits_nil w c l : decl_hits w c l = [] <-> forallb vi_ok l = true.
  Proof. apply cond_hits_nil. Qed.
  Lemma node_hits_nil w n : node_hits w n = [] <-> node_ok n = true.
  Proof. apply cond_hits_nil. Qed.
  Lemma nodes_hits_nil w l : flat_map (node_hits w) l = [] <-> forallb node_ok l = true.
  Proof.
    rewrite flat_map_nil, forallb_forall.
    split; intros H n Hn; specialize (H n Hn); [now apply node_hits_nil in H | now apply node_hits_nil].
  Qed.

  Lemma graph_hits_nil g : graph_hits g = [] <-> graph_ok g = true.
  Proof.
    unfold graph_hits, graph_ok, graph_decls. cbv zeta.
    rewrite !forallb_app, !andb_true_iff, !app_nil_iff, !decl_hits_nil, nodes_hits_nil. tauto.
  Qed.

  Lemma fun_hits_nil f : fun_hits f = [] <-> fun_ok f = true.
  Proof. apply nodes_hits_nil. Qed.

  Theorem first_bad_none m : first_bad m = None <-> model_ok m = true.
  Proof.
    unfold first_bad, model_ok. rewrite andb_true_iff, !forallb_forall.
    assert (E : hd_error (model_hits m) = None <-> model_hits m = []) by (destruct (model_hits m); simpl; split; intro; congruence).
    rewrite E. unfold model_hits. split.
    - intro H. apply app_eq_nil in H as [HG HF]. split.
      + intros g Hg. apply graph_hits_nil. exact (proj1 (flat_map_nil _ _) HG g Hg).
      + intros f Hf. apply fun_hits_nil. exact (proj1 (flat_map_nil _ _) HF f Hf).
    - intros [HG HF].
      rewrite (proj2 (flat_map_nil graph_hits _)), (proj2 (flat_map_nil fun_hits _)); auto.
      + intros f Hf. apply fun_hits_nil; auto.
      + intros g Hg. apply graph_hits_nil; auto.
  Qed.
End Scan.

Definition no_double : omodel -> bool := model_ok is_double.
Definition no_single : omodel -> bool := model_ok is_single.
Definition first_double : omodel -> option string := first_bad is_double.
Definition first_single : omodel -> option string := first_bad is_single.

(* soundness + completeness, spelled out *)
Theorem no_double_iff m : no_double m = true <->
  (forall g vi, In g (om_graphs m) -> In vi (graph_decls g) -> vi_dtype vi <> 11 /\ vi_dtype vi <> 15) /\
  (forall n nm d dims s, In n (all_nodes m) -> In (nm, ATensor d dims s) (on_attrs n) -> d <> 11 /\ d <> 15) /\
  (forall n nm z, In n (all_nodes m) -> In (nm, AInt z) (on_attrs n) -> nm = "to"%string \/ nm = "dtype"%string -> z <> 11 /\ z <> 15).
Proof.
  unfold no_double. rewrite model_ok_iff. unfold Clean. split.
  - intros (H1 & H2 & H3 & _). repeat split; intros; apply is_double_false; eauto.
  - intros (H1 & H2 & H3). repeat split; intros; try (apply is_double_false; eauto); reflexivity.
Qed.

Theorem no_double_sound m : no_double m = true ->
  (forall g vi, In g (om_graphs m) -> In vi (graph_decls g) -> vi_dtype vi <> 11 /\ vi_dtype vi <> 15) /\
  (forall n nm d dims s, In n (all_nodes m) -> In (nm, ATensor d dims s) (on_attrs n) -> d <> 11 /\ d <> 15) /\
  (forall n nm z, In n (all_nodes m) -> In (nm, AInt z) (on_attrs n) -> nm = "to"%string \/ nm = "dtype"%string -> z <> 11 /\ z <> 15).
Proof. apply no_double_iff. Qed.

Lemma forallb_false_ex {A} (p : A -> bool) l : forallb p l = false -> exists x, In x l /\ p x = false.
Proof.
  induction l as [|a l IH]; simpl; [discriminate|]. intro H. apply andb_false_iff in H as [H|H].
  - exists a; auto.
  - destruct (IH H) as (x & Hx & Hp). exists x; auto.
Qed.

Theorem no_double_complete m : no_double m = false ->
  (exists g vi, In g (om_graphs m) /\ In vi (graph_decls g) /\ is_double (vi_dtype vi) = true) \/
  (exists n nm a, In n (all_nodes m) /\ In (nm, a) (on_attrs n) /\ attr_ok is_double (on_op n) (nm, a) = false).
Proof.
  unfold no_double, model_ok. intro H.
  assert (HN : forall n, In n (all_nodes m) -> node_ok is_double n = false ->
               exists n nm a, In n (all_nodes m) /\ In (nm, a) (on_attrs n) /\ attr_ok is_double (on_op n) (nm, a) = false).
  { intros n Hn Hb. apply forallb_false_ex in Hb as ([nm a] & Hk & Hb). exists n, nm, a. auto. }
  apply andb_false_iff in H as [H|H].
  - apply forallb_false_ex in H as (g & Hg & H). unfold graph_ok in H. apply andb_false_iff in H as [H|H].
    + apply forallb_false_ex in H as (vi & Hvi & H). left. exists g, vi. repeat split; auto.
      unfold vi_ok in H. now apply negb_false_iff in H.
    + apply forallb_false_ex in H as (n & Hn & H). right. apply (HN n); auto.
      apply in_all_nodes. left; eauto.
  - apply forallb_false_ex in H as (f & Hf & H). apply forallb_false_ex in H as (n & Hn & H).
    right. apply (HN n); auto. apply in_all_nodes. right; eauto.
Qed.

Theorem first_double_none m : first_double m = None <-> no_double m = true.
Proof. apply first_bad_none. Qed.

Theorem no_single_iff m : no_single m = true <->
  (forall g vi, In g (om_graphs m) -> In vi (graph_decls g) -> vi_dtype vi <> 1 /\ vi_dtype vi <> 14) /\
  (forall n nm d dims s, In n (all_nodes m) -> In (nm, ATensor d dims s) (on_attrs n) -> d <> 1 /\ d <> 14) /\
  (forall n nm z, In n (all_nodes m) -> In (nm, AInt z) (on_attrs n) -> nm = "to"%string \/ nm = "dtype"%string -> z <> 1 /\ z <> 14) /\
  (forall n nm, In n (all_nodes m) -> on_op n = "Constant"%string ->
      ~ In (nm, AFloat) (on_attrs n) /\ ~ In (nm, AFloats) (on_attrs n)).
Proof.
  unfold no_single. rewrite model_ok_iff. unfold Clean. split.
  - intros (H1 & H2 & H3 & H4). repeat split; try (intros; apply is_single_false; eauto).
    + intros Hin. specialize (H4 n nm H H0 (or_introl Hin)). discriminate.
    + intros Hin. specialize (H4 n nm H H0 (or_intror Hin)). discriminate.
  - intros (H1 & H2 & H3 & H4). repeat split; intros; try (apply is_single_false; eauto).
    destruct (H4 n nm H H0) as [Ha Hb]. tauto.
Qed.

Theorem first_single_none m : first_single m = None <-> no_single m = true.
Proof. apply first_bad_none. Qed.

(* ---- "recursively through all graphs": every body reachable from the main graph or from a function body
   through graph attributes, at any depth, is a member of the table and therefore scanned *)
Inductive reach (m : omodel) : ograph -> Prop :=
 | reach_main g : graph_by_id m 0 = Some g -> reach m g
 | reach_sub g n i g' : reach m g -> In n (og_nodes g) -> In i (node_subgraph_ids n) ->
                        graph_by_id m i = Some g' -> reach m g'
 | reach_fun f n i g' : In f (om_functions m) -> In n (of_nodes f) -> In i (node_subgraph_ids n) ->
                        graph_by_id m i = Some g' -> reach m g'.

Lemma reach_in_table m g : reach m g -> In g (om_graphs m).
Proof. intro H; destruct H; unfold graph_by_id in *; eapply nth_error_In; eauto. Qed.

Theorem no_double_reach m : no_double m = true -> forall g, reach m g ->
  (forall vi, In vi (graph_decls g) -> vi_dtype vi <> 11 /\ vi_dtype vi <> 15) /\
  (forall n nm d dims s, In n (og_nodes g) -> In (nm, ATensor d dims s) (on_attrs n) -> d <> 11 /\ d <> 15) /\
  (forall n nm z, In n (og_nodes g) -> In (nm, AInt z) (on_attrs n) -> nm = "to"%string \/ nm = "dtype"%string -> z <> 11 /\ z <> 15).
Proof.
  intros H g Hr. apply reach_in_table in Hr. apply no_double_sound in H as (H1 & H2 & H3).
  assert (HN : forall n, In n (og_nodes g) -> In n (all_nodes m)) by (intros; apply in_all_nodes; left; eauto).
  repeat split; intros; eauto.
  - eapply H1; eauto.
  - eapply H1; eauto.
  - eapply (H2 n); eauto.
  - eapply (H2 n); eauto.
  - eapply (H3 n); eauto.
  - eapply (H3 n); eauto.
Qed.

(* every graph attribute resolves inside the table (checked on each converted export) *)
Definition table_closed (m : omodel) : bool :=
  forallb (fun n => forallb (fun i => Nat.ltb i (List.length (om_graphs m))) (node_subgraph_ids n)) (all_nodes m).
Lemma table_closed_sound m : table_closed m = true ->
  forall n i, In n (all_nodes m) -> In i (node_subgraph_ids n) -> exists g, graph_by_id m i = Some g.
Proof.
  unfold table_closed. rewrite forallb_forall. intros H n i Hn Hi. specialize (H n Hn).
  rewrite forallb_forall in H. specialize (H i Hi). apply Nat.ltb_lt in H.
  unfold graph_by_id. destruct (nth_error (om_graphs m) i) eqn:E; eauto.
  apply nth_error_None in E. lia.
Qed.

(* non-vacuity: a two-level model with a DOUBLE Cast hidden in a Loop body inside a function is rejected *)
Example hidden_cast_model : omodel :=
  mkOM 10 [(""%string, 23)]
    [mkOG 0 None [mkVI "x"%string 1 (Some [DInt 3])] [] [mkON "F"%string "custom"%string "call"%string ["x"%string] ["y"%string] []]
          [mkVI "y"%string 1 (Some [DInt 3])] [];
     mkOG 1 None [] [] [mkON "Cast"%string ""%string "c"%string ["a"%string] ["b"%string] [("to"%string, AInt 11)]] [] []]
    [mkOF "F"%string "custom"%string ["x"%string] ["y"%string]
          [mkON "Loop"%string ""%string "l"%string ["x"%string] ["y"%string] [("body"%string, AGraph 1)]] [] []].
Example hidden_cast_rejected : no_double hidden_cast_model = false /\
  first_double hidden_cast_model = Some "graph1:Cast(c).attr:to"%string /\ table_closed hidden_cast_model = true.
Proof. vm_compute. auto. Qed.
Example clean_model_accepted :
  no_double (mkOM 10 [] [mkOG 0 None [mkVI "x"%string 1 None] [mkVI "w"%string 1 (Some [DInt 2])]
     [mkON "Constant"%string ""%string "k"%string [] ["c"%string] [("value"%string, ATensor 1 [] None)]] [mkVI "y"%string 1 None] []] []) = true.
Proof. vm_compute. reflexivity. Qed.

(* ====================================================================== (P) the float policy *)
(* reference classification of the numpy enumeration (independent of the dumped numpy predicates) *)
Definition np_class (d : npdtype) : dclass :=
  match d with
  | NP_bool => CBool
  | NP_int8 | NP_int16 | NP_int32 | NP_int64 | NP_uint8 | NP_uint16 | NP_uint32 | NP_uint64 => CInt
  | NP_float16 | NP_bfloat16 | NP_float32 | NP_float64 => CFloat
  | NP_complex64 | NP_complex128 => CComplex
  end.
(* reference: the ONNX element type with exactly the same representation *)
Definition ref_onnx (d : npdtype) : dtype :=
  match d with
  | NP_bool => DT_BOOL | NP_int8 => DT_INT8 | NP_int16 => DT_INT16 | NP_int32 => DT_INT32 | NP_int64 => DT_INT64
  | NP_uint8 => DT_UINT8 | NP_uint16 => DT_UINT16 | NP_uint32 => DT_UINT32 | NP_uint64 => DT_UINT64
  | NP_float16 => DT_FLOAT16 | NP_bfloat16 => DT_BFLOAT16 | NP_float32 => DT_FLOAT | NP_float64 => DT_DOUBLE
  | NP_complex64 => DT_COMPLEX64 | NP_complex128 => DT_COMPLEX128
  end.
Definition np_int_info (d : npdtype) : option (bool * Z) :=
  match d with
  | NP_int8 => Some (true, 8) | NP_int16 => Some (true, 16) | NP_int32 => Some (true, 32) | NP_int64 => Some (true, 64)
  | NP_uint8 => Some (false, 8) | NP_uint16 => Some (false, 16) | NP_uint32 => Some (false, 32) | NP_uint64 => Some (false, 64)
  | _ => None
  end.

Lemma all_npdtypes_complete d : In d all_npdtypes.
Proof. destruct d; simpl; tauto. Qed.
Lemma npdtype_eqb_eq a b : npdtype_eqb a b = true <-> a = b.
Proof. destruct a, b; vm_compute; split; congruence. Qed.

(* the library answers agree with the reference (bfloat16 is NOT np.floating for the installed numpy/ml_dtypes:
   it falls through to from_numpy and keeps its type) *)
Lemma lib_agrees_with_reference : forall d,
  np_from_numpy d = Some (ref_onnx d) /\
  np_is_integer d = match np_class d with CInt => true | _ => false end /\
  np_is_complexfloating d = match np_class d with CComplex => true | _ => false end /\
  np_is_floating d = match np_class d with CFloat => negb (npdtype_eqb d NP_bfloat16) | _ => false end /\
  dtype_class (ref_onnx d) = np_class d /\ int_info (ref_onnx d) = np_int_info d.
Proof. destruct d; vm_compute; repeat split. Qed.

Definition policy (d : npdtype) (flag : bool) : option dtype := numpy_dtype_to_ir_with_float_policy (Some d) flag.

Theorem policy_total : forall d flag, exists r, policy d flag = Some r.
Proof. destruct d, flag; vm_compute; eauto. Qed.

(* single precision: the policy is the identity embedding; in particular a float64 numpy value that reaches it
   DOES come out as DOUBLE, so "no DOUBLE in a single-precision export" needs that no float64 payload reaches
   the policy: that part is checked on every export by [no_double]. *)
Theorem policy_single_identity : forall d, policy d false = Some (ref_onnx d).
Proof. destruct d; reflexivity. Qed.
Theorem policy_single : forall d, policy d false = Some DT_DOUBLE <-> d = NP_float64.
Proof. destruct d; vm_compute; split; congruence. Qed.
Theorem policy_single_complex : forall d, policy d false = Some DT_COMPLEX128 <-> d = NP_complex128.
Proof. destruct d; vm_compute; split; congruence. Qed.

(* double precision: float32 and float64 become DOUBLE; float16 / bfloat16 keep their width (as the docstring says),
   complex64 keeps single-precision components *)
Theorem policy_double : forall d, np_class d = CFloat -> d <> NP_float16 -> d <> NP_bfloat16 -> policy d true = Some DT_DOUBLE.
Proof. destruct d; vm_compute; intros; congruence. Qed.
Theorem policy_double_iff : forall d, policy d true = Some DT_DOUBLE <-> d = NP_float32 \/ d = NP_float64.
Proof. destruct d; vm_compute; split; intro H; try congruence; auto; destruct H; congruence. Qed.
Theorem policy_double_exceptions :
  policy NP_float16 true = Some DT_FLOAT16 /\ policy NP_bfloat16 true = Some DT_BFLOAT16 /\
  policy NP_complex64 true = Some DT_COMPLEX64.
Proof. repeat split. Qed.
Theorem policy_double_never_float : forall d, policy d true <> Some DT_FLOAT.
Proof. destruct d; vm_compute; congruence. Qed.
Theorem policy_default : forall flag, numpy_dtype_to_ir_with_float_policy None flag = Some (if flag then DT_DOUBLE else DT_FLOAT).
Proof. destruct flag; reflexivity. Qed.

Theorem policy_class_preserved : forall d flag r, policy d flag = Some r -> dtype_class r = np_class d.
Proof. destruct d, flag; vm_compute; intros r H; injection H as <-; reflexivity. Qed.
Theorem ints_keep_or_widen : forall d flag r sb, policy d flag = Some r -> np_int_info d = Some sb -> int_info r = Some sb.
Proof. destruct d, flag; vm_compute; intros r sb H; injection H as <-; auto. Qed.
Theorem bool_int_exact : forall d flag, np_class d = CBool \/ np_class d = CInt -> policy d flag = Some (ref_onnx d).
Proof. destruct d, flag; vm_compute; intros [H|H]; congruence. Qed.
Theorem dtype_to_ir_is_policy : forall o flag, dtype_to_ir o flag = numpy_dtype_to_ir_with_float_policy o flag.
Proof. intros [d|] flag; [destruct d|]; destruct flag; reflexivity. Qed.

(* the second mapping, _to_ir_dtype_from_np (layout adapter inputs, materialised input_params): no flag *)
Theorem to_ir_from_np_floats : forall d, np_is_floating d = true ->
  to_ir_dtype_from_np d = Some (if npdtype_eqb d NP_float64 then DT_DOUBLE else DT_FLOAT).
Proof. destruct d; vm_compute; congruence. Qed.
Theorem to_ir_from_np_double_iff : forall d, to_ir_dtype_from_np d = Some DT_DOUBLE <-> d = NP_float64.
Proof. destruct d; vm_compute; split; congruence. Qed.
Theorem to_ir_from_np_ints_exact : forall d, np_class d = CBool \/ np_class d = CInt -> to_ir_dtype_from_np d = Some (ref_onnx d).
Proof. destruct d; vm_compute; intros [H|H]; congruence. Qed.
(* class preservation is FALSE of it: complex values are declared FLOAT (and float16 is declared FLOAT) *)
Theorem to_ir_from_np_class_refuted : exists d r, to_ir_dtype_from_np d = Some r /\ dtype_class r <> np_class d.
Proof. exists NP_complex64, DT_FLOAT. vm_compute. split; congruence. Qed.
Theorem to_ir_from_np_class_partial : forall d r, np_class d <> CComplex -> to_ir_dtype_from_np d = Some r -> dtype_class r = np_class d.
Proof. destruct d; vm_compute; intros r Hc H; try congruence; injection H as <-; reflexivity. Qed.

(* promotion helpers: the two copies agree; promotion happens exactly for numpy-floating payloads in double mode *)
Theorem promote_copies_agree : forall d flag, maybe_promote_float_array d flag = ctx_promote_float_array flag d.
Proof. destruct d, flag; reflexivity. Qed.
Theorem promote_spec : forall d flag,
  maybe_promote_float_array d flag = Some (if flag && np_is_floating d then NP_float64 else d).
Proof. destruct d, flag; reflexivity. Qed.
Theorem promote_no_single_left : forall d r, maybe_promote_float_array d true = Some r -> r <> NP_float32 /\ r <> NP_float16.
Proof. destruct d; vm_compute; intros r H; injection H as <-; split; congruence. Qed.

(* constants bound through IRContext.bind_const_for_var *)
Theorem bind_const_single : forall d, bind_const_declared false d = Some DT_DOUBLE <-> d = NP_float64.
Proof. destruct d; vm_compute; split; congruence. Qed.
Theorem bind_const_double : forall d, np_is_floating d = true -> bind_const_declared true d = Some DT_DOUBLE.
Proof. destruct d; vm_compute; congruence. Qed.
Theorem bind_const_double_never_float : forall d, bind_const_declared true d <> Some DT_FLOAT.
Proof. destruct d; vm_compute; congruence. Qed.

(* initializers created through IRBuilder.add_initializer_from_scalar/_array: in single mode never float64 *)
Theorem builder_single_no_double : forall d r, builder_initializer_payload false d = Some r -> r <> NP_float64.
Proof. destruct d; vm_compute; intros r H; injection H as <-; congruence. Qed.
Theorem builder_single_spec : forall d, builder_initializer_payload false d = Some (if np_is_floating d then NP_float32 else d).
Proof. destruct d; reflexivity. Qed.
Theorem builder_double_untouched : forall d, builder_initializer_payload true d = Some d.
Proof. destruct d; reflexivity. Qed.
(* ... but complex128 is not covered by the down-cast *)
Theorem builder_single_complex128_kept : builder_initializer_payload false NP_complex128 = Some NP_complex128.
Proof. reflexivity. Qed.

(* closed-over jaxpr constants (default_float = _np_float_dtype flag, as at the call site) *)
Theorem closed_const_total : forall c t (flag : bool), exists r, closed_const_payload c t (if flag then NP_float64 else NP_float32) flag = Some r.
Proof. intros c [[]|] flag; destruct c; destruct flag; vm_compute; eauto. Qed.
Theorem closed_const_single : forall c t r, closed_const_payload c t NP_float32 false = Some r ->
  (r = NP_float64 <-> c = NP_float64 /\ t = Some NP_float64).
Proof.
  intros c t r H. destruct c; destruct t as [[]|]; vm_compute in H; injection H as <-;
    (split; intro H; [try congruence; auto | destruct H; congruence]).
Qed.
Theorem closed_const_double : forall c t r, closed_const_payload c t NP_float64 true = Some r ->
  np_is_floating r = true -> r = NP_float64.
Proof.
  intros c t r H. destruct c; destruct t as [[]|]; vm_compute in H; injection H as <-;
    vm_compute; congruence.
Qed.

(* post-processing with promote=true leaves no float32 payload *)
Theorem postprocess_no_float32 : forall d, postprocess_payload true d <> NP_float32.
Proof. destruct d; vm_compute; congruence. Qed.
Theorem postprocess_spec : forall p d, postprocess_payload p d = if p && npdtype_eqb d NP_float32 then NP_float64 else d.
Proof. reflexivity. Qed.
Theorem postprocess_off_identity : forall d, postprocess_payload false d = d.
Proof. reflexivity. Qed.
Theorem postprocess_traversal : postprocess_visits_initializers && postprocess_visits_constant_nodes &&
  postprocess_visits_node_outputs && postprocess_recurses_graph_attrs && postprocess_visits_functions &&
  function_scope_inherits_flag = true.
Proof. reflexivity. Qed.

(* ====================================================================== (P) the x64 context managers *)
(* cfg = process-wide jax_enable_x64; a body maps the state it starts in to (state it leaves, raised?) *)
Theorem temporary_x64_spec : forall enabled body cfg, temporary_x64 enabled body cfg = (cfg, snd (body enabled)).
Proof.
  intros e body s. unfold temporary_x64.
  assert (E : (if negb (Bool.eqb e s) then e else s) = e) by (destruct e, s; reflexivity).
  rewrite E. destruct (body e) as [s2 r]. simpl. destruct s2, s; reflexivity.
Qed.
Theorem force_jax_x64_spec : forall target body cfg,
  force_jax_x64 target body cfg = ((if Bool.eqb cfg target then fst (body target) else cfg), snd (body target)).
Proof.
  intros t body s. unfold force_jax_x64.
  assert (E : (if negb (Bool.eqb s t) then t else s) = t) by (destruct t, s; reflexivity).
  rewrite E. destruct (body t) as [s2 r]. simpl. destruct (Bool.eqb s t); reflexivity.
Qed.

(* the public entry point: whatever conversion and post-processing do to the flag, however they exit *)
Theorem x64_restored : forall flag convert post prev, fst (to_onnx_x64 flag convert post prev) = prev.
Proof. intros. unfold to_onnx_x64. now rewrite temporary_x64_spec. Qed.
Theorem x64_exception_propagates : forall flag convert post prev,
  snd (to_onnx_x64 flag convert post prev) = snd (body_seq (force_jax_x64 flag convert) post flag).
Proof. intros. unfold to_onnx_x64. now rewrite temporary_x64_spec. Qed.
(* the conversion itself runs with the flag equal to enable_double_precision *)
Theorem x64_convert_sees_flag : forall flag convert post prev,
  to_onnx_x64 flag convert post prev =
  (prev, snd (let '(c, r) := convert flag in if r then (c, true) else post c)).
Proof.
  intros. unfold to_onnx_x64. rewrite temporary_x64_spec. f_equal. unfold body_seq.
  rewrite force_jax_x64_spec. rewrite Bool.eqb_reflx. simpl. destruct (convert flag) as [c r]. simpl.
  destruct r; reflexivity.
Qed.
(* nesting: a to_onnx call made while another conversion is running (e.g. from the traced callable) restores the
   outer flag, and the outer call restores the caller's *)
Theorem x64_restored_nested : forall f1 f2 pre c2 p2 rest post prev,
  fst (to_onnx_x64 f1 (body_seq pre (body_seq (to_onnx_x64 f2 c2 p2) rest)) post prev) = prev /\
  forall s, fst (to_onnx_x64 f2 c2 p2 s) = s.
Proof. intros. split; [apply x64_restored | intro; apply x64_restored]. Qed.
Theorem temporary_x64_nested : forall a b body s, fst (temporary_x64 a (temporary_x64 b body) s) = s.
Proof. intros. now rewrite temporary_x64_spec. Qed.
(* the inner manager alone restores only if its body does (it compares the value it SAW, not the current one) *)
Theorem force_restores_if_body_does : forall t body s, (forall s', fst (body s') = s') -> fst (force_jax_x64 t body s) = s.
Proof.
  intros t body s H. rewrite force_jax_x64_spec. simpl. destruct (Bool.eqb s t) eqn:E; auto.
  rewrite H. symmetry. now apply Bool.eqb_prop.
Qed.
Theorem force_alone_not_robust : exists t body s, fst (force_jax_x64 t body s) <> s.
Proof. exists true, (fun _ => (false, false)), true. vm_compute. congruence. Qed.

(* ====================================================================== (P) promotion is exact *)
Definition f32_fmt : fmt := (24, -149, 127).
Definition f64_fmt : fmt := (53, -1074, 1023).
Lemma f32_values_are_f64_values : forall x, fin_fmt f32_fmt x -> fin_fmt f64_fmt x.
Proof. intros x. apply fmt_fits_incl. reflexivity. Qed.

Theorem promotion_exact : forall v, in_dom DT_FLOAT v ->
  cast DT_FLOAT DT_DOUBLE v = Some v /\ in_dom DT_DOUBLE v /\ cast DT_DOUBLE DT_FLOAT v = Some v.
Proof.
  intros v Hv. unfold in_dom in Hv. simpl in Hv. destruct v as [| |f| |]; try contradiction.
  assert (Hd : in_ffmt f64_fmt f).
  { destruct f; simpl in *; auto. now apply f32_values_are_f64_values. }
  assert (Hc64 : fcast f64_fmt f = f).
  { destruct f; simpl in *; auto. now apply fround_id. }
  assert (Hc32 : fcast f32_fmt f = f).
  { destruct f; simpl in *; auto. now apply fround_id. }
  unfold cast. simpl. fold f64_fmt f32_fmt. rewrite Hc64, Hc32. repeat split; auto.
Qed.
(* and the narrowing direction is NOT exact: there are float64 values that are not float32 values *)
Theorem demotion_not_exact : ~ (forall x, fin_fmt f64_fmt x -> fin_fmt f32_fmt x).
Proof.
  intro H. specialize (H (Raux.bpow Zaux.radix2 200)).
  assert (Hin : fin_fmt f64_fmt (Raux.bpow Zaux.radix2 200)).
  { split; [apply Rgt_not_eq, Raux.bpow_gt_0|]. split.
    - apply Generic_fmt.generic_format_bpow. cbv [fexp_of FLT.FLT_exp f64_fmt fprec femin fst snd]. lia.
    - rewrite Rabs_pos_eq by apply Raux.bpow_ge_0. apply Raux.bpow_lt. cbv [f64_fmt femax snd]. lia. }
  destruct (H Hin) as (_ & _ & Hb). rewrite Rabs_pos_eq in Hb by apply Raux.bpow_ge_0.
  apply Raux.lt_bpow in Hb. cbv [f32_fmt femax snd] in Hb. lia.
Qed.

(* ====================================================================== (V) constants materialised in single precision and widened *)
(* names, inside one graph, of constants that are single precision: FLOAT/COMPLEX64 initializers and outputs of Constant nodes
   whose payload is a FLOAT/COMPLEX64 tensor or a float attribute (value_float / value_floats) *)
Definition single_payload (kv : string * attr) : bool :=
  match snd kv with ATensor d _ _ => is_single d | AFloat | AFloats => true | _ => false end.
Definition single_const_outs (nodes : list onode) : list string :=
  flat_map (fun n => if String.eqb (on_op n) "Constant"%string && existsb single_payload (on_attrs n) then on_outs n else []) nodes.
Definition single_const_names (g : ograph) : list string :=
  map vi_name (filter (fun vi => is_single (vi_dtype vi)) (og_inits g)) ++ single_const_outs (og_nodes g).
Definition is_cast_to_double (n : onode) : bool :=
  String.eqb (on_op n) "Cast"%string &&
  existsb (fun kv => match snd kv with AInt z => String.eqb (fst kv) "to"%string && is_double z | _ => false end) (on_attrs n).
Definition widened_in (consts : list string) (nodes : list onode) : list string :=
  flat_map (fun n => if is_cast_to_double n then filter (fun i => str_mem i consts) (on_ins n) else []) nodes.
Definition graph_widened (g : ograph) : list string := widened_in (single_const_names g) (og_nodes g).
Definition fun_widened (f : ofunction) : list string := widened_in (single_const_outs (of_nodes f)) (of_nodes f).
Definition is_nil {A} (l : list A) : bool := match l with [] => true | _ => false end.
Definition no_widened_single_const (m : omodel) : bool :=
  forallb (fun g => is_nil (graph_widened g)) (om_graphs m) && forallb (fun f => is_nil (fun_widened f)) (om_functions m).

Lemma widened_in_nil consts nodes : widened_in consts nodes = [] ->
  forall n i, In n nodes -> is_cast_to_double n = true -> In i (on_ins n) -> str_mem i consts = false.
Proof.
  unfold widened_in. intros H n i Hn Hc Hi.
  pose proof (proj1 (flat_map_nil _ _) H n Hn) as Hx. cbv beta in Hx. rewrite Hc in Hx.
  destruct (str_mem i consts) eqn:E; auto.
  assert (In i (filter (fun i0 => str_mem i0 consts) (on_ins n))) by (apply filter_In; auto).
  rewrite Hx in H0. contradiction.
Qed.

(* no Cast(to=DOUBLE/COMPLEX128) of any graph or function body reads a single-precision constant of its own scope *)
Theorem no_widened_single_const_sound m : no_widened_single_const m = true ->
  (forall g n i, In g (om_graphs m) -> In n (og_nodes g) -> is_cast_to_double n = true -> In i (on_ins n) ->
     str_mem i (single_const_names g) = false) /\
  (forall f n i, In f (om_functions m) -> In n (of_nodes f) -> is_cast_to_double n = true -> In i (on_ins n) ->
     str_mem i (single_const_outs (of_nodes f)) = false).
Proof.
  unfold no_widened_single_const. rewrite andb_true_iff, !forallb_forall. intros [HG HF]. split.
  - intros g n i Hg. specialize (HG g Hg). unfold is_nil in HG. destruct (graph_widened g) eqn:E; [|discriminate].
    now apply widened_in_nil.
  - intros f n i Hf. specialize (HF f Hf). unfold is_nil in HF. destruct (fun_widened f) eqn:E; [|discriminate].
    now apply widened_in_nil.
Qed.

Example widened_const_rejected :
  no_widened_single_const (mkOM 10 [] [mkOG 0 None [] [mkVI "c"%string 1 (Some [])]
     [mkON "Cast"%string ""%string "k"%string ["c"%string] ["d"%string] [("to"%string, AInt 11)]] [mkVI "d"%string 11 None] []] []) = false.
Proof. reflexivity. Qed.
