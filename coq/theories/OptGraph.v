(* OptGraph (C02): the common annotated graph of the optimizer pipeline (OptimizePipeline.v) and the views the verified pass
   models work on. *)
From Coq Require Import ZArith String List Bool Arith Lia.
From J2O Require Import PyLib Tensor Graph Redirect ReshapePairPass TransposePairPass TransposeReducePass IdReshapePass.
Import ListNotations.

(* ================================================================ the common annotated graph *)
(* everything the passes read: declared dtype codes (casts), declared dims (reshape passes), the constant payload
   (_value_const_ints), its one-element test (_is_scalar_const_value) and its rank (_value_rank of a constant), the scalar
   booleans and the false_const initializer of the Dropout inlining *)
Record ograph := mkOG {
  o_nodes : list node; o_outputs : list name;
  o_dtype : name -> option Z; o_shape : name -> option (list dim); o_scalar : name -> bool;
  o_crank : name -> option nat; o_const : name -> option (list Z);
  o_bool : name -> option bool;      (* _read_scalar_bool_from_value_or_constant of a value that is not a graph input *)
  o_fc : option name }.              (* the initializer called "false_const", if the graph has one *)
Definition o_graph (g : ograph) : graph := mkGraph (o_nodes g) (o_outputs g).

Definition updf {B} (f : name -> B) (x : name) (v : B) : name -> B := fun y => if Nat.eqb y x then v else f y.

(* ---- the views the verified pass models work on *)
Definition projR (g : ograph) : rgraphT := mkRT (o_nodes g) (o_outputs g) (o_const g) 0.
Definition projT (g : ograph) : tgraph := mkTG (o_nodes g) (o_outputs g) (o_scalar g).
Definition projP (g : ograph) : pgraph := mkPG (o_nodes g) (o_outputs g) (o_shape g) (o_scalar g) (o_crank g).
Definition concrete (ds : list dim) : option (list nat) := mapM (fun d => match d with DInt n => Some n | _ => None end) ds.
Definition projI (g : ograph) : rgraph :=
  mkRG (o_nodes g) (o_outputs g) (fun x => match o_shape g x with Some ds => concrete ds | None => None end) (o_const g).

