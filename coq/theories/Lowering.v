(* Lowering: model of converter/lowering_dispatch.py (lower_jaxpr_with_plugins, lower_equation_with_plugin)
   and converter/output_binding.py (input/output binding contract) with an explicit error monad.
   A plugin is an ARBITRARY function from the context and the equation to a new context and a lowering
   result (or an exception); theorems quantify over all plugins and registries. *)
From Coq Require Import String List Bool Arith Lia.
Import ListNotations.

Definition var := nat.
Definition vname := nat.

Inductive invar := IVar (v : var) | ILit.           (* literals are materialised on demand: always bound *)
Record eqn := mkEqn { e_prim : string; e_ins : list invar; e_outs : list (option var) (* None = DropVar *) }.
Definition jaxpr := list eqn.

Record ctx := mkCtx { c_bind : list (var * vname) (* most recent first *); c_conn : list vname (* inputs, initializers, node outputs *) }.

Fixpoint lookup (b : list (var * vname)) (v : var) : option vname :=
  match b with [] => None | (w, n) :: r => if Nat.eqb w v then Some n else lookup r v end.
Definition bound (c : ctx) (v : var) : option vname := lookup (c_bind c) v.
Definition connected (c : ctx) (n : vname) : bool := existsb (Nat.eqb n) (c_conn c).
Definition bind (c : ctx) (v : var) (n : vname) : ctx := mkCtx ((v, n) :: c_bind c) (c_conn c).
Definition needs_binding (c : ctx) (v : var) : bool :=
  match bound c v with None => true | Some n => negb (connected c n) end.

Inductive lres := RNone | RVals (l : list vname) | RBad.   (* None | ir.Value / sequence of ir.Value | anything else *)
Inductive err :=
 | ENotImplemented (prim : string)     (* NotImplementedError: no plugin registered *)
 | EUnboundInput | EBadResult (* TypeError *) | EArity | EUnboundOutput | EDisconnected (* RuntimeError *)
 | EPlugin.                            (* the plugin itself raised *)
Inductive result (A : Type) := Ok (a : A) | Err (e : err).
Arguments Ok {A}. Arguments Err {A}.

Definition plugin := ctx -> eqn -> result (ctx * lres).
Definition registry := string -> option plugin.

Definition non_drop (e : eqn) : list var := flat_map (fun o => match o with Some v => [v] | None => [] end) (e_outs e).

Definition inputs_bound (c : ctx) (e : eqn) : bool :=
  forallb (fun i => match i with IVar v => match bound c v with Some _ => true | None => false end | ILit => true end) (e_ins e).

(* bind_returned_lowering_values *)
Fixpoint bind_where_needed (c : ctx) (vs : list var) (ns : list vname) : ctx :=
  match vs, ns with
  | v :: vr, n :: nr => bind_where_needed (if needs_binding c v then bind c v n else c) vr nr
  | _, _ => c
  end.
Fixpoint bind_all (c : ctx) (vs : list var) (ns : list vname) : ctx :=
  match vs, ns with v :: vr, n :: nr => bind_all (bind c v n) vr nr | _, _ => c end.

Definition bind_returned (c : ctx) (e : eqn) (r : lres) : result ctx :=
  let nd := non_drop e in
  let unbound := filter (needs_binding c) nd in
  match unbound with
  | [] => Ok c
  | _ =>
    match r with
    | RNone => Ok c
    | RBad => Err EBadResult
    | RVals l =>
        if Nat.eqb (length l) (length nd) then Ok (bind_where_needed c nd l)
        else if Nat.eqb (length l) (length unbound) then Ok (bind_all c unbound l)
        else Err EArity
    end
  end.

(* assert_eqn_outputs_bound *)
Fixpoint outputs_ok (c : ctx) (vs : list var) : result unit :=
  match vs with
  | [] => Ok tt
  | v :: r => match bound c v with
              | None => Err EUnboundOutput
              | Some n => if connected c n then outputs_ok c r else Err EDisconnected
              end
  end.

Definition lower_eqn (reg : registry) (c : ctx) (e : eqn) : result ctx :=
  match reg (e_prim e) with
  | None => Err (ENotImplemented (e_prim e))
  | Some p =>
      if negb (inputs_bound c e) then Err EUnboundInput else
      match p c e with
      | Err x => Err x
      | Ok (c1, r) =>
          match bind_returned c1 e r with
          | Err x => Err x
          | Ok c2 => match outputs_ok c2 (non_drop e) with Ok _ => Ok c2 | Err x => Err x end
          end
      end
  end.

Fixpoint lower_jaxpr (reg : registry) (c : ctx) (jp : jaxpr) : result ctx :=
  match jp with
  | [] => Ok c
  | e :: r => match lower_eqn reg c e with Ok c1 => lower_jaxpr reg c1 r | Err x => Err x end
  end.

(* ---------------------------------------------------------------- loud failure *)
Theorem lower_ok_all_registered reg : forall jp c c', lower_jaxpr reg c jp = Ok c' ->
  Forall (fun e => reg (e_prim e) <> None) jp.
Proof.
  induction jp as [|e r IH]; simpl; intros c c' H; [constructor|].
  destruct (lower_eqn reg c e) as [c1|x] eqn:E; [|discriminate].
  constructor; [|eapply IH; eauto].
  unfold lower_eqn in E. destruct (reg (e_prim e)); [discriminate|discriminate E].
Qed.

(* an equation whose primitive has no plugin makes the whole lowering fail, whatever precedes or follows *)
Theorem unsupported_is_error reg jp e : In e jp -> reg (e_prim e) = None ->
  forall c, exists x, lower_jaxpr reg c jp = Err x.
Proof.
  intros Hin Hn c. destruct (lower_jaxpr reg c jp) as [c'|x] eqn:E; [|eauto].
  apply lower_ok_all_registered in E. rewrite Forall_forall in E. exfalso. apply (E e Hin Hn).
Qed.

Lemma outputs_ok_spec c vs : outputs_ok c vs = Ok tt ->
  Forall (fun v => exists n, bound c v = Some n /\ connected c n = true) vs.
Proof.
  induction vs as [|v r IH]; simpl; intro H; [constructor|].
  destruct (bound c v) as [n|] eqn:Eb; [|discriminate]. destruct (connected c n) eqn:Ec; [|discriminate].
  constructor; eauto.
Qed.

(* success of one equation means: a plugin was registered, inputs were bound, and every non-drop
   outvar is bound to a graph-connected value *)
Theorem lower_eqn_ok_spec reg c e c' : lower_eqn reg c e = Ok c' ->
  reg (e_prim e) <> None /\ inputs_bound c e = true /\
  Forall (fun v => exists n, bound c' v = Some n /\ connected c' n = true) (non_drop e).
Proof.
  unfold lower_eqn. destruct (reg (e_prim e)) as [p|]; [|discriminate].
  destruct (inputs_bound c e) eqn:Ei; simpl; [|discriminate].
  destruct (p c e) as [[c1 r]|x]; [|discriminate].
  destruct (bind_returned c1 e r) as [c2|x]; [|discriminate].
  destruct (outputs_ok c2 (non_drop e)) as [[]|x] eqn:Eo; [|discriminate].
  intro H. injection H as <-. repeat split; [discriminate| now apply outputs_ok_spec].
Qed.

(* a plugin that leaves an outvar unbound / bound to a value nobody produces cannot go unnoticed *)
Theorem unbound_output_is_error reg p c e c1 r v :
  reg (e_prim e) = Some p -> inputs_bound c e = true -> p c e = Ok (c1, r) ->
  forall c2, bind_returned c1 e r = Ok c2 -> In v (non_drop e) ->
  (bound c2 v = None \/ exists n, bound c2 v = Some n /\ connected c2 n = false) ->
  exists x, lower_eqn reg c e = Err x.
Proof.
  intros Hr Hi Hp c2 Hb Hin Hbad. unfold lower_eqn. rewrite Hr, Hi, Hp, Hb. simpl.
  destruct (outputs_ok c2 (non_drop e)) as [[]|x] eqn:Eo; [|eauto].
  apply outputs_ok_spec in Eo. rewrite Forall_forall in Eo. destruct (Eo v Hin) as (n & Hn & Hc).
  destruct Hbad as [Hb0|(n' & Hn' & Hc')]; congruence.
Qed.

Theorem bad_result_is_error reg p c e c1 :
  reg (e_prim e) = Some p -> inputs_bound c e = true -> p c e = Ok (c1, RBad) ->
  filter (needs_binding c1) (non_drop e) <> [] -> lower_eqn reg c e = Err EBadResult.
Proof.
  intros Hr Hi Hp Hu. unfold lower_eqn. rewrite Hr, Hi, Hp. simpl. unfold bind_returned.
  destruct (filter (needs_binding c1) (non_drop e)); [contradiction|reflexivity].
Qed.

(* ---------------------------------------------------------------- nesting: bodies lowered by a plugin *)
(* the shape shared by the jit / custom_jvp / custom_vjp / remat / control-flow body lowerings:
   bind the body's invars to the outer values, lower the body with the SAME registry, bind the outer
   outvars to the body's results *)
Definition inline_plugin (reg : registry) (body_in : list var) (body : jaxpr) (body_out : list var) : plugin :=
  fun c e =>
    let outer_vals := map (fun i => match i with IVar v => bound c v | ILit => None end) (e_ins e) in
    let c1 := fold_left (fun a p => match snd p with Some n => bind a (fst p) n | None => a end) (combine body_in outer_vals) c in
    match lower_jaxpr reg c1 body with
    | Err x => Err x
    | Ok c2 =>
        let res := map (bound c2) body_out in
        let c3 := fold_left (fun a p => match fst p, snd p with Some v, Some n => bind a v n | _, _ => a end) (combine (e_outs e) res) c2 in
        Ok (c3, RNone)
    end.

(* an unsupported primitive anywhere inside a body that is lowered this way aborts the outer lowering too:
   by induction this covers every nesting depth *)
Theorem nested_unsupported_is_error reg body_in body body_out e_inner :
  In e_inner body -> reg (e_prim e_inner) = None ->
  forall c e, exists x, inline_plugin reg body_in body body_out c e = Err x.
Proof.
  intros Hin Hn c e. unfold inline_plugin.
  set (c1 := fold_left _ _ c).
  destruct (unsupported_is_error reg body e_inner Hin Hn c1) as [x Hx]. rewrite Hx. eauto.
Qed.

Theorem nested_error_propagates reg jp e p :
  In e jp -> reg (e_prim e) = Some p -> (forall c, exists x, p c e = Err x) ->
  forall c, exists x, lower_jaxpr reg c jp = Err x.
Proof.
  intros Hin Hr Hp. induction jp as [|e0 r IH]; [contradiction|]. intro c. simpl.
  destruct Hin as [->|Hin].
  - unfold lower_eqn. rewrite Hr. destruct (negb (inputs_bound c e)); [eauto|].
    destruct (Hp c) as [x Hx]. rewrite Hx. eauto.
  - destruct (lower_eqn reg c e0) as [c1|x]; [apply IH; auto | eauto].
Qed.

(* ---------------------------------------------------------------- the optimizer failure policy *)
(* pipeline as a list of passes on an abstract model; the k-th pass raises (at its boundary) *)
Section Policy.
  Variable M : Type.
  Definition run_prefix (passes : list (M -> M)) (k : nat) (m : M) : M := fold_left (fun a p => p a) (firstn k passes) m.
  Inductive outcome := Returned (m : M) | Reraised.
  (* [restore]: on a non-fatal failure the code puts the un-optimised model back (current code) instead of
     keeping what the completed passes -- and the half-run failing pass -- left (earlier code) *)
  Definition with_policy (restore strict : bool) (passes : list (M -> M)) (fail_at : option nat) (m : M) : outcome :=
    match fail_at with
    | None => Returned (run_prefix passes (length passes) m)
    | Some k => if strict then Reraised else Returned (if restore then m else run_prefix passes k m)
    end.

  Variable R : M -> M -> Prop.           (* "computes the same function and is valid" *)
  Hypothesis R_refl : forall m, R m m.
  Hypothesis R_trans : forall a b c, R a b -> R b c -> R a c.

  (* if every pass preserves R (property C02), every prefix of the pipeline does: aborting between
     passes under the default policy returns a model equivalent to the un-optimised one *)
  Theorem abort_at_pass_boundary passes :
    (forall p m, In p passes -> R m (p m)) ->
    forall k m, R m (run_prefix passes k m).
  Proof.
    intros Hp k. unfold run_prefix.
    assert (Hsub : forall p, In p (firstn k passes) -> In p passes).
    { intros p H. rewrite <- (firstn_skipn k passes). apply in_or_app. now left. }
    revert Hsub. generalize (firstn k passes) as l. induction l as [|p l IH]; simpl; intros Hsub m; auto.
    apply R_trans with (p m); [apply Hp; apply Hsub; now left | apply IH; intros q Hq; apply Hsub; now right].
  Qed.

  Theorem policy_default_returns_equivalent restore passes k m :
    (forall p m, In p passes -> R m (p m)) ->
    exists m', with_policy restore false passes (Some k) m = Returned m' /\ R m m'.
  Proof. intro H. destruct restore; eexists; (split; [reflexivity|]); [apply R_refl | now apply abort_at_pass_boundary]. Qed.

  (* the restoring policy needs NOTHING from the passes, not even that the failing one stopped at a pass boundary *)
  Theorem policy_restoring_returns_input passes k m : with_policy true false passes (Some k) m = Returned m.
  Proof. reflexivity. Qed.

  Theorem policy_strict_reraises restore passes k m : with_policy restore true passes (Some k) m = Reraised.
  Proof. reflexivity. Qed.
End Policy.
