(* Determinism (property C14): export is deterministic and independent of history.

   What a theorem can carry here.  CPython's hash order and id() values are runtime facts.  The logic
   that can be modelled is
     (A) every place where an optimizer pass ITERATES a Python set of nodes: the loop is a fold of a
         per-element action over a LIST that stands for the set's iteration order; the result must be
         EQUAL (not merely equivalent) for every permutation of that list;
     (B) which state feeds generated names and whether it is per conversion or process wide;
     (C) the memo table of lowering_dispatch._lower_accepts_params.

   Set-iteration sites of /repo/jax2onnx/converter/ir_optimizations.py (line numbers as of /repo commit
   aca2665; the harness identifies a site by (file, function, variable), re-derives the list from the AST on
   every run and fails on a site that is not listed here):

   S1  remove_redundant_transpose_add_forests_ir :1284  for out_transpose in output_transposes:
         replace_all_uses_with(t_out, t_in)                       model site_rauw            PROVED
   S2  ... :1292  graph.remove(list(output_transposes))           model remove_producers     PROVED
   S3  ... :1297  for in_transpose in input_transposes: reads the graph only, appends to the list
         removable_inputs, then graph.remove(removable_inputs)    model site_collect_remove  PROVED
   S4  remove_redundant_transpose_pairs_ir :1478  graph.remove(list(to_remove))
                                                                  model remove_producers     PROVED
   S5  ... :1501  for t_node in transpose_nodes: all perms present and equal (break on failure)
                                                                  model perm_loop            PROVED
   S6  ... :1516  for node in elem_nodes: read-only check with break, collects the set
         output_transposes                                        model check_loop/collect   PROVED
   S7  ... :1544  for t_node in transpose_nodes: builds dict trans_in_map[t_out] = t_src
                                                                  model dict_of              PROVED
   S8  ... :1550  for node in elem_nodes: rewire own inputs through trans_in_map, THEN
         _refresh_elementwise_output_shape(node), which reads the CURRENT shapes of the node's inputs -
         among them outputs of other members of elem_nodes        model site_refresh         REFUTED
         [code up to /repo commit aca2665; FIXED in 77c9ea7, see S8']
   S8' (77c9ea7) the loop over elem_nodes only rewires the member's own inputs (model site_rewire_map,
         PROVED); the refresh follows as `for node in nodes: if node in elem_nodes: refresh(node)` - a loop
         over the graph's node LIST in which the set is used for membership only
                                                                  model site_refresh_graph_order PROVED
         (order matters whenever one member feeds another member, which is the normal case because
          elem_nodes is a connected elementwise DAG; pass 0 of the same function does the same refresh
          in graph order `for node in nodes: if node in elem_nodes` (:1644) - this site does not.)
   S9  ... :1558  for t_out_node in output_transposes: replace_all_uses_with(t_out, t_in)
                                                                  model site_rauw            PROVED
   S10 ... :1569  graph.remove(list(output_transposes))           model remove_producers     PROVED
   S11 ... :1573  for t_node in transpose_nodes: graph.remove(t_node) when t_out has no consumer in the
         snapshot live_nodes taken BEFORE the loop               model site_remove_unused   PROVED
   S12 ... :1619  for node in elem_nodes: read-only check with break      model check_loop   PROVED
       ... :1639  for node in elem_nodes: node.replace_input_with(idx, t1_in) on the node's own inputs
         (the refresh is done afterwards in graph order)          model site_rewire          PROVED
   S13 inline_dropout_training_mode_constants_ir :2572  for not_node in del_not_nodes: reads uses only,
         appends to final_del_nodes, then graph.remove(final_del_nodes)
                                                                  model site_collect_remove  PROVED
   S14 plugins/plugin_system.py:952  FunctionPlugin._lower_and_call  for pname in call_param_names:
         (a set of STRINGS - order is a function of PYTHONHASHSEED) appends to the lists that become
         graph inputs / function-call inputs                      model site_append          REFUTED
         (order matters as soon as two names pass the filter)   [up to aca2665; FIXED in 77c9ea7, see S14']
   S14' (77c9ea7) `for pname in sorted(call_param_names):` - the appended sequence is a function of the
         sorted list, which is the same for every iteration order of the set
                                                   model sorted_canonical / site_append_sorted   PROVED
   S15 converter/function_scope.py:46  FunctionRegistry.all  list(self._defs.values()): a dict keyed by
         FunctionKey - dicts iterate in INSERTION order, i.e. the order of first lowering; no set.
   Sets used only for membership tests (allowed_nodes, visited_values, add_set, visited_adds,
   chain_nodes, del_not_names, seen, current_node_ids): membership is order-free (mem_perm).

   NOT in the state of these models: onnx_ir keeps, per value, an insertion-ordered dict of its uses;
   Value.consumers() exposes that order.  Two replace_all_uses_with calls that redirect uses to the
   same new value leave that dict in an order that depends on the call order.  The serialized model
   does not contain it; later matching that scans consumers() could observe it.  This residue, like
   CPython's hash order itself, is covered only by the harness sweep (subprocesses under many
   PYTHONHASHSEEDs / histories and with the iteration order of the node sets forced). *)
From Coq Require Import String List Arith Lia Bool PeanoNat Permutation.
From J2O Require Import Graph.
Import ListNotations.

(* ------------------------------------------------------------------------------------------- *)
(** * A. order-insensitivity framework                                                          *)
(* ------------------------------------------------------------------------------------------- *)
Section Fold.
Variables (A S : Type) (act : A -> S -> S).

(* `for a in <set>: state = act(a, state)` with the set iterated in the order of the list *)
Definition run_order (l : list A) (s0 : S) : S := fold_left (fun s a => act a s) l s0.

(* commutation is needed only between members of the set *)
Theorem fold_order_irrelevant_in : forall l l', Permutation l l' ->
  (forall a b s, In a l -> In b l -> act a (act b s) = act b (act a s)) ->
  forall s0, run_order l s0 = run_order l' s0.
Proof.
  unfold run_order. induction 1 as [| x l l' HP IH | x y l | l l' l'' HP1 IH1 HP2 IH2]; intros Hc s0; simpl.
  - reflexivity.
  - apply IH. intros a b s Ha Hb. apply Hc; now right.
  - rewrite (Hc x y s0); [reflexivity | right; now left | now left].
  - rewrite IH1 by exact Hc. apply IH2. intros a b s Ha Hb.
    apply Hc; eapply Permutation_in; try eassumption; now apply Permutation_sym.
Qed.

Theorem fold_order_irrelevant :
  (forall a b s, act a (act b s) = act b (act a s)) ->
  forall l l', Permutation l l' -> forall s0, run_order l s0 = run_order l' s0.
Proof. intros Hc l l' HP s0. apply fold_order_irrelevant_in; auto. Qed.
End Fold.
Arguments run_order {A S} act l s0.

(* membership tests do not see the order *)
Fixpoint mem (x : name) (l : list name) : bool :=
  match l with [] => false | y :: r => Nat.eqb x y || mem x r end.

Lemma mem_In x l : mem x l = true <-> In x l.
Proof.
  induction l as [|y r IH]; simpl; [split; [discriminate | tauto]|].
  rewrite orb_true_iff, Nat.eqb_eq, IH. split; intros [H|H]; auto.
Qed.

Lemma mem_perm x l l' : Permutation l l' -> mem x l = mem x l'.
Proof.
  intro HP. destruct (mem x l) eqn:E, (mem x l') eqn:E'; auto.
  - apply mem_In in E. apply (Permutation_in _ HP) in E. apply mem_In in E. congruence.
  - apply mem_In in E'. apply (Permutation_in _ (Permutation_sym HP)) in E'. apply mem_In in E'. congruence.
Qed.

Lemma filter_perm {A} (p : A -> bool) l l' : Permutation l l' -> Permutation (filter p l) (filter p l').
Proof.
  induction 1 as [| x l l' HP IH | x y l | l l' l'' HP1 IH1 HP2 IH2]; simpl.
  - constructor.
  - destruct (p x); auto.
  - destruct (p x), (p y); auto using Permutation_refl. apply perm_swap.
  - eapply Permutation_trans; eassumption.
Qed.

Lemma forallb_perm {A} (p : A -> bool) l l' : Permutation l l' -> forallb p l = forallb p l'.
Proof.
  induction 1 as [| x l l' HP IH | x y l | l l' l'' HP1 IH1 HP2 IH2]; simpl; auto.
  - now rewrite IH.
  - destruct (p x), (p y); reflexivity.
  - congruence.
Qed.

Lemma existsb_perm {A} (p : A -> bool) l l' : Permutation l l' -> existsb p l = existsb p l'.
Proof.
  induction 1 as [| x l l' HP IH | x y l | l l' l'' HP1 IH1 HP2 IH2]; simpl; auto.
  - now rewrite IH.
  - destruct (p x), (p y); reflexivity.
  - congruence.
Qed.

(* `any(pred(x) for x in <set>)` / `all(pred(x) for x in <set>)` with a read-only predicate (short-circuit does
   not matter for the value): the harness accepts these consumptions of a set generically *)
Theorem any_all_over_set_order_irrelevant {A} (p : A -> bool) l l' : Permutation l l' ->
  existsb p l = existsb p l' /\ forallb p l = forallb p l'.
Proof. intro HP. split; [now apply existsb_perm | now apply forallb_perm]. Qed.

(* ------------------------------------------------------------------------------------------- *)
(** ** S2 S4 S10 (and the removal half of S3 S13): graph.remove(list(<set>))                   *)
(* onnx_ir Graph.remove(nodes): nodes_set = frozenset(nodes); every member is unlinked from the doubly
   linked node list; the remaining nodes keep their order.  Nodes are identified by the values they
   define (SSA: one producer per value). *)
Definition defines_any (dead : list name) (n : node) : bool := existsb (fun o => mem o dead) (n_outs n).
Definition remove_producers (dead : list name) (g : graph) : graph :=
  mkGraph (filter (fun n => negb (defines_any dead n)) (g_nodes g)) (g_outputs g).

Lemma defines_any_perm dead dead' n : Permutation dead dead' -> defines_any dead n = defines_any dead' n.
Proof.
  intro HP. unfold defines_any. induction (n_outs n) as [|o r IH]; simpl; auto.
  now rewrite IH, (mem_perm o _ _ HP).
Qed.

Theorem remove_list_of_set_order_irrelevant dead dead' g :
  Permutation dead dead' -> remove_producers dead g = remove_producers dead' g.
Proof.
  intro HP. unfold remove_producers. f_equal.
  apply filter_ext. intro n. now rewrite (defines_any_perm _ _ n HP).
Qed.

Lemma remove_keeps_order dead g :
  exists keep, g_nodes (remove_producers dead g) = filter keep (g_nodes g).
Proof. eexists. reflexivity. Qed.

Lemma filter_comm {A} (p q : A -> bool) l : filter p (filter q l) = filter q (filter p l).
Proof.
  induction l as [|x r IH]; simpl; auto.
  destruct (q x) eqn:Q, (p x) eqn:P; simpl; rewrite ?Q, ?P, IH; reflexivity.
Qed.

Lemma remove_producers_comm d1 d2 g :
  remove_producers d1 (remove_producers d2 g) = remove_producers d2 (remove_producers d1 g).
Proof. unfold remove_producers; simpl. f_equal. apply filter_comm. Qed.

(* ------------------------------------------------------------------------------------------- *)
(** ** S3 S13: a read-only loop that appends to a list which is then handed to graph.remove     *)
(* `removable` is evaluated on the graph as it is BEFORE the loop (the loop body does not mutate) *)
Definition site_collect_remove (removable : name -> bool) (order : list name) (g : graph) : graph :=
  remove_producers (filter removable order) g.

Theorem site_collect_remove_order_irrelevant removable l l' g :
  Permutation l l' -> site_collect_remove removable l g = site_collect_remove removable l' g.
Proof. intro HP. apply remove_list_of_set_order_irrelevant. now apply filter_perm. Qed.

(* ------------------------------------------------------------------------------------------- *)
(** ** S11: graph.remove(t) inside the loop, guarded by a test against a snapshot               *)
Definition remove_unused_act (unused_in_snapshot : name -> bool) (t : name) (g : graph) : graph :=
  if unused_in_snapshot t then remove_producers [t] g else g.

Theorem site_remove_unused_order_irrelevant unused l l' g :
  Permutation l l' -> run_order (remove_unused_act unused) l g = run_order (remove_unused_act unused) l' g.
Proof.
  intro HP. apply fold_order_irrelevant; auto. intros a b s. unfold remove_unused_act.
  destruct (unused a), (unused b); auto. apply remove_producers_comm.
Qed.

(* ------------------------------------------------------------------------------------------- *)
(** ** S1 S9: replace_all_uses_with(t_out, t_in) for each output transpose                      *)
Definition rauw_act (p : name * name) (g : graph) : graph := replace_all_uses (fst p) (snd p) g.

(* the exact side condition for two members: distinct olds, and no new is the other's old *)
Definition rauw_compat (a b : name * name) : Prop :=
  fst a <> fst b /\ snd a <> fst b /\ snd b <> fst a.

Lemma rn_comm o1 n1 o2 n2 x : o1 <> o2 -> n1 <> o2 -> n2 <> o1 ->
  rn o1 n1 (rn o2 n2 x) = rn o2 n2 (rn o1 n1 x).
Proof.
  intros H1 H2 H3. unfold rn.
  destruct (Nat.eqb_spec x o2), (Nat.eqb_spec x o1); subst;
    repeat match goal with
           | |- context [Nat.eqb ?a ?b] => destruct (Nat.eqb_spec a b); subst
           end; congruence.
Qed.

Lemma rauw_commute a b g : rauw_compat a b -> rauw_act a (rauw_act b g) = rauw_act b (rauw_act a g).
Proof.
  intros (H1 & H2 & H3). destruct a as [o1 n1], b as [o2 n2]; simpl in *.
  unfold rauw_act, replace_all_uses; simpl. f_equal.
  - rewrite !map_map. apply map_ext. intro n. unfold subst_node; simpl. f_equal;
      rewrite !map_map; apply map_ext; intro x; apply rn_comm; auto.
  - rewrite !map_map. apply map_ext. intro x. apply rn_comm; auto.
Qed.

Theorem site_rauw_order_irrelevant l l' g :
  (forall a b, In a l -> In b l -> a = b \/ rauw_compat a b) ->
  Permutation l l' -> run_order rauw_act l g = run_order rauw_act l' g.
Proof.
  intros Hc HP. apply fold_order_irrelevant_in; auto. intros a b s Ha Hb.
  destruct (Hc a b Ha Hb) as [-> | H]; [reflexivity | now apply rauw_commute].
Qed.

(* the side condition as the passes establish it: the olds are outputs of DISTINCT Transpose nodes
   (SSA: distinct values), every new is the output of an Add / elementwise node - a value has one
   producer and Transpose is not an elementwise op, so no new is an old.  Guaranteed by the matching
   logic of _collect_add_transpose_forest (S1) and of the consumer scan at :1516-1533 (S9). *)
Lemma rauw_side_condition l :
  NoDup (map fst l) -> (forall a b, In a l -> In b l -> snd a <> fst b) ->
  forall a b, In a l -> In b l -> a = b \/ rauw_compat a b.
Proof.
  intros Hnd Hdis a b Ha Hb.
  destruct (Nat.eq_dec (fst a) (fst b)) as [E|NE].
  - left. clear Hdis. induction l as [|c r IH]; [destruct Ha|]. simpl in Hnd. inversion Hnd as [|? ? Hnot Hnd']; subst.
    destruct Ha as [->|Ha], Hb as [->|Hb]; auto.
    + exfalso. apply Hnot. rewrite E. now apply in_map.
    + exfalso. apply Hnot. rewrite <- E. now apply in_map.
  - right. repeat split; auto.
Qed.

(* the condition is tight: when one action's new IS the other's old the order is visible *)
Example rauw_order_matters :
  let g := mkGraph [mkNode "Relu"%string [] [1] [] [5]] [1] in
  run_order rauw_act [(1, 2); (2, 3)] g <> run_order rauw_act [(2, 3); (1, 2)] g.
Proof. vm_compute. discriminate. Qed.

(* ------------------------------------------------------------------------------------------- *)
(** ** S5: all source transposes carry the same permutation (loop with break)                   *)
(* a permutation attribute is an interned code; None = attribute missing *)
Definition perm_state := (option nat * bool)%type.          (* (perm1, ok) *)
Definition perm_step (p : option nat) (st : perm_state) : perm_state :=
  let '(p1, ok) := st in
  if ok then match p with
             | None => (p1, false)
             | Some q => match p1 with
                         | None => (Some q, true)
                         | Some q1 => if Nat.eqb q1 q then (p1, true) else (p1, false)
                         end
             end
  else st.                                                   (* after `break` nothing changes *)
(* what the pass reads afterwards: `if not ok or perm1 is None: continue`, else perm1 *)
Definition perm_result (st : perm_state) : option nat := if snd st then fst st else None.
Definition perm_loop (l : list (option nat)) : option nat := perm_result (run_order perm_step l (None, true)).

Lemma perm_loop_frozen l p1 : fold_left (fun s a => perm_step a s) l (p1, false) = (p1, false).
Proof. induction l as [|x r IH]; simpl; auto. Qed.

Lemma perm_loop_from_some l q : perm_result (fold_left (fun s a => perm_step a s) l (Some q, true)) =
  if forallb (fun x => match x with Some y => Nat.eqb q y | None => false end) l then Some q else None.
Proof.
  induction l as [|x r IH]; simpl; auto.
  destruct x as [y|]; simpl.
  - destruct (Nat.eqb q y); simpl; [apply IH | now rewrite perm_loop_frozen].
  - now rewrite perm_loop_frozen.
Qed.

Lemma perm_loop_spec l q : perm_loop l = Some q <-> (l <> [] /\ Forall (fun x => x = Some q) l).
Proof.
  unfold perm_loop, run_order. destruct l as [|x r]; simpl.
  - split; [discriminate | intros [H _]; congruence].
  - destruct x as [y|]; simpl.
    + rewrite perm_loop_from_some.
      destruct (forallb _ r) eqn:F.
      * rewrite forallb_forall in F. split.
        -- intro E; injection E as <-. split; [discriminate|]. constructor; auto.
           apply Forall_forall. intros x Hx. specialize (F x Hx). destruct x; [|discriminate].
           apply Nat.eqb_eq in F. now subst.
        -- intros [_ H]. inversion H; subst. congruence.
      * split; [discriminate|]. intros [_ H]. inversion H as [|? ? E Hr]; subst. injection E as ->.
        exfalso. assert (X : forallb (fun x => match x with Some y => Nat.eqb q y | None => false end) r = true); [|congruence].
        apply forallb_forall. intros x Hx. rewrite Forall_forall in Hr. rewrite (Hr x Hx). apply Nat.eqb_refl.
    + rewrite perm_loop_frozen. simpl. split; [discriminate|]. intros [_ H]. inversion H; discriminate.
Qed.

Theorem site_perm_agree_order_irrelevant l l' : Permutation l l' -> perm_loop l = perm_loop l'.
Proof.
  intro HP.
  assert (T : forall l l' q, Permutation l l' -> perm_loop l = Some q -> perm_loop l' = Some q).
  { clear. intros l l' q HP H. apply perm_loop_spec in H. destruct H as [Hne Hall]. apply perm_loop_spec. split.
    - intro E; subst. apply Permutation_sym, Permutation_nil in HP. congruence.
    - eapply Permutation_Forall; eassumption. }
  destruct (perm_loop l) as [q|] eqn:E.
  - symmetry. eapply T; eauto.
  - destruct (perm_loop l') as [q|] eqn:E'; auto.
    rewrite (T l' l q (Permutation_sym HP) E') in E. discriminate.
Qed.

(* ------------------------------------------------------------------------------------------- *)
(** ** S6 S12a: read-only check with break; S6 also collects a set                             *)
(* `good` and `outs` read the graph, which the loop does not mutate.  The loop computes
   `ok = all(good(n))`; on failure the pass `continue`s and the collected set is discarded. *)
Fixpoint check_loop {A} (good : A -> bool) (l : list A) : bool :=
  match l with [] => true | a :: r => if good a then check_loop good r else false (* break *) end.

Lemma check_loop_forallb {A} (good : A -> bool) l : check_loop good l = forallb good l.
Proof. induction l as [|a r IH]; simpl; auto. destruct (good a); auto. Qed.

Theorem site_check_order_irrelevant {A} (good : A -> bool) l l' :
  Permutation l l' -> check_loop good l = check_loop good l'.
Proof. intro HP. rewrite !check_loop_forallb. now apply forallb_perm. Qed.

(* the collected set, as a set: the same members whatever the order (its own iteration order is again
   arbitrary; it is consumed by S9, S10 and a membership test only) *)
Definition check_collect {A} (good : A -> bool) (outs : A -> list name) (l : list A) : option (list name) :=
  if check_loop good l then Some (flat_map outs l) else None.

Theorem site_check_collect_order_irrelevant {A} (good : A -> bool) outs (l l' : list A) :
  Permutation l l' ->
  match check_collect good outs l, check_collect good outs l' with
  | Some s, Some s' => Permutation s s'
  | None, None => True
  | _, _ => False
  end.
Proof.
  intro HP. unfold check_collect. rewrite (site_check_order_irrelevant good l l' HP).
  destruct (check_loop good l'); auto. now apply Permutation_flat_map.
Qed.

(* ------------------------------------------------------------------------------------------- *)
(** ** S7: a dict built by iterating the set, keys = outputs of distinct nodes                  *)
Fixpoint dict_get (k : name) (d : list (name * name)) : option name :=
  match d with [] => None | (k', v) :: r => if Nat.eqb k k' then Some v else dict_get k r end.

Lemma dict_get_In k v d : NoDup (map fst d) -> In (k, v) d -> dict_get k d = Some v.
Proof.
  induction d as [|[k' v'] r IH]; simpl; intros Hnd Hin; [tauto|].
  inversion Hnd as [|? ? Hnot Hnd']; subst. destruct Hin as [E|Hin].
  - injection E as -> ->. now rewrite Nat.eqb_refl.
  - destruct (Nat.eqb k k') eqn:E; [|auto]. apply Nat.eqb_eq in E; subst.
    exfalso. apply Hnot. change k' with (fst (k', v)). now apply in_map.
Qed.

Lemma dict_get_Some_In k v d : dict_get k d = Some v -> In (k, v) d.
Proof.
  induction d as [|[k' v'] r IH]; simpl; [discriminate|].
  destruct (Nat.eqb k k') eqn:E; [apply Nat.eqb_eq in E; subst; intro H; injection H as ->; now left | auto].
Qed.

Theorem site_build_map_order_irrelevant d d' : NoDup (map fst d) -> Permutation d d' ->
  forall k, dict_get k d = dict_get k d'.
Proof.
  intros Hnd HP k.
  assert (Hnd' : NoDup (map fst d')) by (eapply Permutation_NoDup; [apply Permutation_map; eassumption | assumption]).
  destruct (dict_get k d) as [v|] eqn:E.
  - symmetry. apply dict_get_In; auto. eapply Permutation_in; [eassumption|]. now apply dict_get_Some_In.
  - destruct (dict_get k d') as [v|] eqn:E'; auto.
    apply dict_get_Some_In in E'. apply (Permutation_in _ (Permutation_sym HP)) in E'.
    rewrite (dict_get_In _ _ _ Hnd E') in E. discriminate.
Qed.

(* ------------------------------------------------------------------------------------------- *)
(** ** S12b (and the rewiring half of S8): each member rewrites ITS OWN inputs                  *)
Definition defines (o : name) (n : node) : bool := mem o (n_outs n).
Definition rewire_act (old new : name) (member : name) (g : graph) : graph :=
  mkGraph (map (fun n => if defines member n then subst_node old new n else n) (g_nodes g)) (g_outputs g).

Lemma subst_node_outs old new n : n_outs (subst_node old new n) = n_outs n.
Proof. reflexivity. Qed.

Theorem site_rewire_order_irrelevant old new l l' g :
  Permutation l l' -> run_order (rewire_act old new) l g = run_order (rewire_act old new) l' g.
Proof.
  intro HP. apply fold_order_irrelevant; auto. intros a b s. unfold rewire_act; simpl. f_equal.
  rewrite !map_map. apply map_ext. intro n. unfold defines.
  destruct (mem a (n_outs n)) eqn:Ea, (mem b (n_outs n)) eqn:Eb; simpl; rewrite ?Ea, ?Eb; reflexivity.
Qed.

(* ------------------------------------------------------------------------------------------- *)
(** ** S8: rewire, then refresh the member's output shape from the CURRENT shapes of its inputs *)
(* state: the shape annotation of every value (interned shape codes).  A member is (out, ins) - its
   output and its inputs after rewiring.  _refresh_elementwise_output_shape copies the shape of the
   first non-scalar input and then merges the broadcast of all input shapes: a function [F] of the
   input shapes as they are at that moment. *)
Definition shapes := name -> nat.
Definition set_shape (sh : shapes) (x : name) (v : nat) : shapes := fun y => if Nat.eqb y x then v else sh y.

Section Refresh.
Variable F : list nat -> nat.
Definition refresh_act (m : name * list name) (sh : shapes) : shapes :=
  set_shape sh (fst m) (F (map sh (snd m))).

(* exact side condition for two members: different outputs, neither reads the other's output *)
Definition refresh_indep (a b : name * list name) : Prop :=
  fst a <> fst b /\ ~ In (fst a) (snd b) /\ ~ In (fst b) (snd a).

Lemma map_set_shape_other sh x v l : ~ In x l -> map (set_shape sh x v) l = map sh l.
Proof.
  intro H. apply map_ext_in. intros y Hy. unfold set_shape.
  destruct (Nat.eqb y x) eqn:E; auto. apply Nat.eqb_eq in E. subst. tauto.
Qed.

Lemma refresh_commute_pointwise a b sh : refresh_indep a b ->
  forall y, refresh_act a (refresh_act b sh) y = refresh_act b (refresh_act a sh) y.
Proof.
  intros (H1 & H2 & H3) y. unfold refresh_act.
  rewrite (map_set_shape_other sh (fst b) _ (snd a) H3), (map_set_shape_other sh (fst a) _ (snd b) H2).
  unfold set_shape. destruct (Nat.eqb y (fst a)) eqn:Ea, (Nat.eqb y (fst b)) eqn:Eb; auto.
  apply Nat.eqb_eq in Ea, Eb. congruence.
Qed.
End Refresh.

(* shapes as finite tables so that EQUALITY of the resulting annotation is decidable and extensional:
   the annotation of the values [dom] after the loop *)
Definition shapes_on (dom : list name) (sh : shapes) : list nat := map sh dom.

Lemma run_refresh_ext F l : forall sh sh', (forall y, sh y = sh' y) ->
  forall y, run_order (refresh_act F) l sh y = run_order (refresh_act F) l sh' y.
Proof.
  induction l as [|m r IH]; simpl; intros sh sh' H y; auto.
  apply IH. intro z. unfold refresh_act, set_shape.
  rewrite (map_ext sh sh' H). now rewrite H.
Qed.

Theorem site_refresh_partial F l l' sh dom :
  (forall a b, In a l -> In b l -> a = b \/ refresh_indep a b) ->
  Permutation l l' ->
  shapes_on dom (run_order (refresh_act F) l sh) = shapes_on dom (run_order (refresh_act F) l' sh).
Proof.
  intros Hc HP. unfold shapes_on. apply map_ext. revert sh.
  induction HP as [| x l l' HP IH | x y l | l l' l'' HP1 IH1 HP2 IH2]; intros sh z; simpl.
  - reflexivity.
  - apply IH. intros a b Ha Hb. apply Hc; now right.
  - apply run_refresh_ext. intro w.
    destruct (Hc x y (or_intror (or_introl eq_refl)) (or_introl eq_refl)) as [-> | H]; [reflexivity|].
    now apply refresh_commute_pointwise.
  - rewrite IH1 by exact Hc. apply IH2. intros a b Ha Hb.
    apply Hc; eapply Permutation_in; try eassumption; now apply Permutation_sym.
Qed.

(* the statement at full strength is FALSE of the faithful model: Add (value 10) feeds Exp (value 11);
   the Add's inputs 1,2 already carry the new (NCHW = code 1) shape, 10 and 11 still carry the old
   (NHWC = code 0) one.  Refreshing Exp before Add leaves the stale shape on 11. *)
Definition first_input_shape (l : list nat) : nat := hd 0 l.
Definition refresh_witness_sh : shapes := fun y => if Nat.eqb y 1 then 1 else if Nat.eqb y 2 then 1 else 0.
Definition refresh_witness : list (name * list name) := [(10, [1; 2]); (11, [10])].

Theorem site_refresh_order_irrelevant_refuted :
  exists F l l' sh dom, Permutation l l' /\
    shapes_on dom (run_order (refresh_act F) l sh) <> shapes_on dom (run_order (refresh_act F) l' sh).
Proof.
  exists first_input_shape, refresh_witness, (rev refresh_witness), refresh_witness_sh, [10; 11]. split.
  - apply Permutation_rev.
  - vm_compute. discriminate.
Qed.

(* the graph-order refresh pass 0 uses gives the intended annotation on the witness *)
Example refresh_topological_ok :
  shapes_on [10; 11] (run_order (refresh_act first_input_shape) refresh_witness refresh_witness_sh) = [1; 1].
Proof. reflexivity. Qed.
Example refresh_reverse_stale :
  shapes_on [10; 11] (run_order (refresh_act first_input_shape) (rev refresh_witness) refresh_witness_sh) = [1; 0].
Proof. reflexivity. Qed.
(* the side condition of the partial theorem is satisfiable with two members (non-vacuity) *)
Example refresh_indep_example : refresh_indep (10, [1; 2]) (11, [3]).
Proof. unfold refresh_indep; simpl. repeat split; try lia; intros [H|[H|H]]; try lia; auto; destruct H; lia. Qed.

(* ------------------------------------------------------------------------------------------- *)
(** ** S14: plugins/plugin_system.py:952  FunctionPlugin._lower_and_call                         *)
(* `for pname in call_param_names:` iterates a set of STRINGS (the keys of input_params) - its order is
   a function of PYTHONHASHSEED.  Every name that passes a read-only filter (not yet handled, has a
   literal, accepted by the callee's signature) is APPENDED to dynamic_entries / capture_items; these
   lists become, in that order, new graph inputs (ensure_external_flag) and the inputs of the function
   call.  Appending does not commute: the site is order-insensitive only when at most one name passes
   the filter.  NOT guaranteed by the code: two call parameters that the callee accepts but that are not
   passed at the call site both pass. *)
Definition append_act {A} (keep : A -> bool) (a : A) (acc : list A) : list A :=
  if keep a then acc ++ [a] else acc.

Lemma append_loop_is_filter {A} (keep : A -> bool) l : forall acc,
  run_order (append_act keep) l acc = acc ++ filter keep l.
Proof.
  unfold run_order. induction l as [|a r IH]; intro acc; simpl; [now rewrite app_nil_r|].
  rewrite IH. unfold append_act. destruct (keep a); [now rewrite <- app_assoc | reflexivity].
Qed.

Theorem site_append_order_irrelevant_refuted :
  exists (keep : nat -> bool) l l' acc, Permutation l l' /\
    run_order (append_act keep) l acc <> run_order (append_act keep) l' acc.
Proof.
  exists (fun _ => true), [1; 2], [2; 1], []. split; [apply perm_swap | vm_compute; discriminate].
Qed.

Theorem site_append_partial {A} (keep : A -> bool) l l' acc :
  length (filter keep l) <= 1 -> Permutation l l' ->
  run_order (append_act keep) l acc = run_order (append_act keep) l' acc.
Proof.
  intros Hlen HP. rewrite !append_loop_is_filter. f_equal.
  pose proof (filter_perm keep l l' HP) as HF.
  destruct (filter keep l) as [|x [|y r]] eqn:E; simpl in Hlen; try lia.
  - apply Permutation_nil in HF. now rewrite HF.
  - apply Permutation_length_1_inv in HF. now rewrite HF.
Qed.

(* ------------------------------------------------------------------------------------------- *)
(** ** S8' (after /repo 77c9ea7): rewire in set order, refresh in GRAPH order                    *)
(* the loop over the set: each member replaces those of ITS OWN inputs that are keys of trans_in_map *)
Definition rn_map (d : list (name * name)) (x : name) : name :=
  match dict_get x d with Some y => y | None => x end.
Definition subst_node_map (d : list (name * name)) (n : node) : node :=
  mkNode (n_op n) (n_attrs n) (map (rn_map d) (n_ins n)) (n_caps n) (n_outs n).
Definition rewire_map_act (d : list (name * name)) (member : name) (g : graph) : graph :=
  mkGraph (map (fun n => if defines member n then subst_node_map d n else n) (g_nodes g)) (g_outputs g).

Theorem site_rewire_map_order_irrelevant d l l' g :
  Permutation l l' -> run_order (rewire_map_act d) l g = run_order (rewire_map_act d) l' g.
Proof.
  intro HP. apply fold_order_irrelevant; auto. intros a b s. unfold rewire_map_act; simpl. f_equal.
  rewrite !map_map. apply map_ext. intro n. unfold defines.
  destruct (mem a (n_outs n)) eqn:Ea, (mem b (n_outs n)) eqn:Eb; simpl; rewrite ?Ea, ?Eb; reflexivity.
Qed.

(* the refresh: `for node in nodes: if node in elem_nodes: refresh(node)`.  [nodes] is the graph's node
   list (members as (output, inputs)); the set only answers membership questions, so the sequence of
   refreshes - and with it the resulting annotation, as a function - is the same for every order *)
Definition refresh_in_graph_order (F : list nat -> nat) (elems : list name)
  (nodes : list (name * list name)) (sh : shapes) : shapes :=
  run_order (refresh_act F) (filter (fun m => mem (fst m) elems) nodes) sh.

Theorem site_refresh_graph_order_set_irrelevant F elems elems' nodes sh :
  Permutation elems elems' ->
  refresh_in_graph_order F elems nodes sh = refresh_in_graph_order F elems' nodes sh.
Proof.
  intro HP. unfold refresh_in_graph_order. f_equal.
  apply filter_ext. intro m. now apply mem_perm.
Qed.

(* on the witness that refutes the old shape, the new shape gives the intended annotation whatever the
   set order *)
Example refresh_graph_order_on_witness :
  shapes_on [10; 11] (refresh_in_graph_order first_input_shape [11; 10] refresh_witness refresh_witness_sh) = [1; 1] /\
  shapes_on [10; 11] (refresh_in_graph_order first_input_shape [10; 11] refresh_witness refresh_witness_sh) = [1; 1].
Proof. split; reflexivity. Qed.

(* ------------------------------------------------------------------------------------------- *)
(** ** S14' (after /repo 77c9ea7): iteration over sorted(<set>)                                  *)
(* sorted() returns the members in the order of a total order on them: a canonical list, the same for
   every iteration order of the set.  General statement over an abstract decidable total order; the
   instance for strings (lists of code points, compared lexicographically as Python compares str) below. *)
Section Sorted.
Variable A : Type.
Variable leb : A -> A -> bool.
Hypothesis leb_total : forall a b, leb a b = true \/ leb b a = true.
Hypothesis leb_antisym : forall a b, leb a b = true -> leb b a = true -> a = b.
Hypothesis leb_trans : forall a b c, leb a b = true -> leb b c = true -> leb a c = true.

Fixpoint insert_sorted (x : A) (l : list A) : list A :=
  match l with [] => [x] | y :: r => if leb x y then x :: l else y :: insert_sorted x r end.
Definition sort_list (l : list A) : list A := fold_right insert_sorted [] l.

Inductive sorted_by : list A -> Prop :=
| sorted_nil : sorted_by []
| sorted_cons a l : sorted_by l -> Forall (fun b => leb a b = true) l -> sorted_by (a :: l).

Lemma insert_perm x l : Permutation (x :: l) (insert_sorted x l).
Proof.
  induction l as [|y r IH]; simpl; auto.
  destruct (leb x y); auto. eapply Permutation_trans; [apply perm_swap|]. now constructor.
Qed.

Lemma sort_perm l : Permutation l (sort_list l).
Proof.
  induction l as [|x r IH]; simpl; auto.
  eapply Permutation_trans; [|apply insert_perm]. now constructor.
Qed.

Lemma insert_sorted_ok x l : sorted_by l -> sorted_by (insert_sorted x l).
Proof.
  induction 1 as [|a l Hs IH Hall]; simpl.
  - constructor; constructor.
  - destruct (leb x a) eqn:E.
    + constructor; [now constructor|]. constructor; auto.
      eapply Forall_impl; [|exact Hall]. intros b Hb. eapply leb_trans; eauto.
    + constructor; auto.
      assert (Hax : leb a x = true) by (destruct (leb_total a x); congruence).
      eapply Permutation_Forall; [apply insert_perm|]. constructor; auto.
Qed.

Lemma sort_sorted l : sorted_by (sort_list l).
Proof. induction l as [|x r IH]; simpl; [constructor | now apply insert_sorted_ok]. Qed.

Lemma sorted_perm_unique : forall l l', sorted_by l -> sorted_by l' -> Permutation l l' -> l = l'.
Proof.
  induction l as [|a l IH]; intros l' Hs Hs' HP.
  - apply Permutation_nil in HP. now subst.
  - destruct l' as [|b l']; [apply Permutation_sym, Permutation_nil in HP; discriminate|].
    inversion Hs as [|? ? Hsl Hal]; subst. inversion Hs' as [|? ? Hsl' Hbl']; subst.
    assert (a = b).
    { assert (Ha : In a (b :: l')) by (eapply Permutation_in; [exact HP | now left]).
      assert (Hb : In b (a :: l)) by (eapply Permutation_in; [apply Permutation_sym; exact HP | now left]).
      destruct Ha as [->|Ha]; auto. destruct Hb as [->|Hb]; auto.
      rewrite Forall_forall in Hal, Hbl'. apply leb_antisym; auto. }
    subst. f_equal. apply IH; auto. eapply Permutation_cons_inv; eassumption.
Qed.

Theorem sorted_canonical l l' : Permutation l l' -> sort_list l = sort_list l'.
Proof.
  intro HP. apply sorted_perm_unique; try apply sort_sorted.
  eapply Permutation_trans; [apply Permutation_sym, sort_perm|].
  eapply Permutation_trans; [exact HP | apply sort_perm].
Qed.

(* the loop of S14 over the sorted list: the appended sequence does not depend on the set's order *)
Theorem site_append_sorted_order_irrelevant (keep : A -> bool) l l' acc :
  Permutation l l' ->
  run_order (append_act keep) (sort_list l) acc = run_order (append_act keep) (sort_list l') acc.
Proof. intro HP. now rewrite (sorted_canonical l l' HP). Qed.
End Sorted.

(* strings as lists of code points; Python compares str lexicographically by code point *)
Fixpoint lex_leb (a b : list nat) : bool :=
  match a, b with
  | [], _ => true
  | _ :: _, [] => false
  | x :: a', y :: b' => if Nat.ltb x y then true else if Nat.ltb y x then false else lex_leb a' b'
  end.

Lemma lex_leb_total a b : lex_leb a b = true \/ lex_leb b a = true.
Proof.
  revert b. induction a as [|x a IH]; intros [|y b]; simpl; auto.
  destruct (Nat.ltb_spec x y), (Nat.ltb_spec y x); auto; lia.
Qed.

Lemma lex_leb_antisym a b : lex_leb a b = true -> lex_leb b a = true -> a = b.
Proof.
  revert b. induction a as [|x a IH]; intros [|y b]; simpl; auto; try discriminate.
  destruct (Nat.ltb_spec x y), (Nat.ltb_spec y x); try discriminate; try lia.
  intros H1 H2. assert (x = y) by lia. subst. f_equal. now apply IH.
Qed.

Lemma lex_leb_trans a b c : lex_leb a b = true -> lex_leb b c = true -> lex_leb a c = true.
Proof.
  revert b c. induction a as [|x a IH]; intros [|y b] [|z c]; simpl; auto; try discriminate.
  destruct (Nat.ltb_spec x y), (Nat.ltb_spec y x), (Nat.ltb_spec y z), (Nat.ltb_spec z y),
           (Nat.ltb_spec x z), (Nat.ltb_spec z x); try discriminate; try lia; auto.
  apply IH.
Qed.

Theorem sorted_canonical_strings (l l' : list (list nat)) :
  Permutation l l' -> sort_list _ lex_leb l = sort_list _ lex_leb l'.
Proof. apply sorted_canonical; [apply lex_leb_total | apply lex_leb_antisym | apply lex_leb_trans]. Qed.

Theorem site_append_sorted_strings_order_irrelevant (keep : list nat -> bool) l l' acc :
  Permutation l l' ->
  run_order (append_act keep) (sort_list _ lex_leb l) acc = run_order (append_act keep) (sort_list _ lex_leb l') acc.
Proof.
  apply site_append_sorted_order_irrelevant; [apply lex_leb_total | apply lex_leb_antisym | apply lex_leb_trans].
Qed.

(* "other" < "train_flag": whatever order the set yields, the appended inputs are other, train_flag *)
Example sorted_names_example :
  let other := [111; 116; 104; 101; 114] in let train_flag := [116; 114; 97; 105; 110; 95; 102; 108; 97; 103] in
  sort_list _ lex_leb [train_flag; other] = [other; train_flag] /\ sort_list _ lex_leb [other; train_flag] = [other; train_flag].
Proof. split; reflexivity. Qed.

(* ------------------------------------------------------------------------------------------- *)
(** * B. generated names are a function of the request                                          *)
(* ------------------------------------------------------------------------------------------- *)
(* Three counter families feed generated names:
     builder : IRBuilder._counters          (ir_builder.py:292, in IRBuilder.__init__)
     context : IRContext._name_counters     (ir_context.py:219, in IRContext.__init__; the IRBuilder is
                                             constructed in IRContext.__init__ :191)
     func    : IRContext._func_name_counters (ir_context.py:229; FunctionPlugin._allocate_friendly_name
               reads/writes it through getattr(ctx, "_func_name_counters"); child function scopes get the
               PARENT's dict (plugin_system.py:1010-1012), so the dict is per conversion, not per scope)
   and to_onnx builds one IRContext per call (conversion_api._create_ir_context).  The scope of every
   family is a parameter of the model; the harness determines the real scopes from the source on every
   run (tie counter-scope) and the theorem is an equivalence: names are independent of history IFF
   every family is per conversion. *)
Inductive family := Builder | Context | Func.
Definition family_eqb (a b : family) : bool :=
  match a, b with Builder, Builder | Context, Context | Func, Func => true | _, _ => false end.

Record scopes := mkScopes { per_conv_builder : bool; per_conv_context : bool; per_conv_func : bool }.
Definition per_conv (c : scopes) (f : family) : bool :=
  match f with Builder => per_conv_builder c | Context => per_conv_context c | Func => per_conv_func c end.
Definition all_per_conversion (c : scopes) : bool := per_conv_builder c && per_conv_context c && per_conv_func c.

(* counter tables: (family, base) -> next index; absent = 0 *)
Definition ctable := list (family * string * nat).
Fixpoint ct_get (f : family) (b : string) (t : ctable) : nat :=
  match t with
  | [] => 0
  | (f', b', n) :: r => if family_eqb f f' && String.eqb b b' then n else ct_get f b r
  end.
Definition ct_bump (f : family) (b : string) (t : ctable) : ctable := (f, b, S (ct_get f b t)) :: t.

(* a request asks, in an order that is a function of the request, for fresh names *)
Definition ask := (family * string)%type.
Definition gname := (family * string * nat)%type.          (* f"{base}_{i}" of that family *)

(* two tables: the one created with the conversion and the one living in the module *)
Definition fresh (c : scopes) (a : ask) (st : ctable * ctable) : gname * (ctable * ctable) :=
  let '(loc, glob) := st in let '(f, b) := a in
  if per_conv c f then ((f, b, ct_get f b loc), (ct_bump f b loc, glob))
  else ((f, b, ct_get f b glob), (loc, ct_bump f b glob)).

Fixpoint fresh_all (c : scopes) (asks : list ask) (st : ctable * ctable) : list gname * (ctable * ctable) :=
  match asks with
  | [] => ([], st)
  | a :: r => let '(n, st1) := fresh c a st in let '(ns, st2) := fresh_all c r st1 in (n :: ns, st2)
  end.

(* one conversion: the per-conversion table starts EMPTY (the constructors), the module table is
   whatever earlier conversions left *)
Definition convert (c : scopes) (r : list ask) (glob : ctable) : list gname * ctable :=
  let '(ns, (_, glob')) := fresh_all c r ([], glob) in (ns, glob').
Definition after_history (c : scopes) (h : list (list ask)) : ctable :=
  fold_left (fun g r => snd (convert c r g)) h [].
Definition names_after (c : scopes) (h : list (list ask)) (r : list ask) : list gname :=
  fst (convert c r (after_history c h)).

Lemma fresh_all_local c : all_per_conversion c = true ->
  forall asks loc g1 g2, fst (fresh_all c asks (loc, g1)) = fst (fresh_all c asks (loc, g2)).
Proof.
  intros Hc. assert (P : forall f, per_conv c f = true).
  { unfold all_per_conversion in Hc. apply andb_prop in Hc. destruct Hc as [Hc H3]. apply andb_prop in Hc.
    destruct Hc as [H1 H2]. intros []; assumption. }
  induction asks as [|[f b] r IH]; intros loc g1 g2; simpl; auto.
  rewrite (P f).
  specialize (IH (ct_bump f b loc) g1 g2).
  destruct (fresh_all c r (ct_bump f b loc, g1)) as [ns1 st1], (fresh_all c r (ct_bump f b loc, g2)) as [ns2 st2].
  simpl in *. now rewrite IH.
Qed.

Lemma convert_fst c r g : fst (convert c r g) = fst (fresh_all c r ([], g)).
Proof. unfold convert. destruct (fresh_all c r ([], g)) as [ns [l g']]. reflexivity. Qed.

Theorem names_history_independent_if c : all_per_conversion c = true ->
  forall h1 h2 r, names_after c h1 r = names_after c h2 r.
Proof.
  intros Hc h1 h2 r. unfold names_after. rewrite !convert_fst. now apply fresh_all_local.
Qed.

(* ... and only if: one process-wide family is enough to make the second conversion see the first *)
Theorem names_history_dependent_unless c : all_per_conversion c = false ->
  exists h1 h2 r, names_after c h1 r <> names_after c h2 r.
Proof.
  destruct c as [[] [] []]; simpl; intro H; try discriminate.
  all: timeout 20 (first
             [ exists [], [[(Func, "f"%string)]], [(Func, "f"%string)]; vm_compute; discriminate
             | exists [], [[(Context, "x"%string)]], [(Context, "x"%string)]; vm_compute; discriminate
             | exists [], [[(Builder, "x"%string)]], [(Builder, "x"%string)]; vm_compute; discriminate ]).
Qed.

Theorem names_history_independent_iff c :
  all_per_conversion c = true <-> (forall h1 h2 r, names_after c h1 r = names_after c h2 r).
Proof.
  split; [apply names_history_independent_if|].
  intro H. destruct (all_per_conversion c) eqn:E; auto.
  destruct (names_history_dependent_unless c E) as (h1 & h2 & r & N). exfalso. apply N, H.
Qed.

(* the scopes found in the unchanged tree (re-established by the harness tie on every run) *)
Definition jax2onnx_scopes : scopes := mkScopes true true true.

Theorem names_history_independent : forall h1 h2 r,
  names_after jax2onnx_scopes h1 r = names_after jax2onnx_scopes h2 r.
Proof. apply names_history_independent_if. reflexivity. Qed.

(* what a module-global function-name counter WOULD do (not the case in the unchanged tree):
   the 2-conversion witness *)
Theorem names_history_independent_refuted_for_global_func_counter :
  exists h1 h2 r, names_after (mkScopes true true false) h1 r <> names_after (mkScopes true true false) h2 r.
Proof. apply names_history_dependent_unless. reflexivity. Qed.

(* non-vacuity: names really are produced, and repeat within one conversion *)
Example names_example :
  names_after jax2onnx_scopes [[(Builder, "Add"%string)]] [(Builder, "Add"%string); (Builder, "Add"%string); (Func, "f"%string)]
  = [(Builder, "Add"%string, 0); (Builder, "Add"%string, 1); (Func, "f"%string, 0)].
Proof. reflexivity. Qed.

(* ------------------------------------------------------------------------------------------- *)
(** ** B'. a process-wide flag guarding a registration on per-conversion state                    *)
(* plugins/jax/lax/gather.py: `_ensure_constant_folders_registered(ctx)` registers the constant-evaluator
   handlers (mul, add, reshape, ...) on ctx._const_folder - an object created with every IRContext - but
   returns early when the MODULE-LEVEL flag _CONST_HANDLERS_REGISTERED is set, and sets it after the first
   registration.  So only the first context of a process that lowers a gather can fold a constant index
   chain.  Model: what a gather conversion observes is whether its context has the handlers.
   [guard_per_context = true] is the repaired shape (the "already registered" mark lives on the context). *)
Definition gather_obs (guard_per_context flag : bool) : bool := if guard_per_context then true else negb flag.
(* a conversion that lowers a gather (uses = true) observes the handlers and sets the flag *)
Definition convert_gather (guard_per_context : bool) (uses : bool) (flag : bool) : option bool * bool :=
  if uses then (Some (gather_obs guard_per_context flag), true) else (None, flag).
Definition flag_after (g : bool) (h : list bool) : bool :=
  fold_left (fun f u => snd (convert_gather g u f)) h false.
Definition gather_obs_after (g : bool) (h : list bool) (r : bool) : option bool :=
  fst (convert_gather g r (flag_after g h)).

Theorem handlers_history_independent_if_guard_per_context : forall h1 h2 r,
  gather_obs_after true h1 r = gather_obs_after true h2 r.
Proof. intros h1 h2 []; reflexivity. Qed.

(* the code as it is: the same request folds in a fresh process and does not after any gather export *)
Theorem handlers_history_independent_refuted :
  exists h1 h2 r, gather_obs_after false h1 r <> gather_obs_after false h2 r.
Proof. exists [], [true], true. vm_compute. discriminate. Qed.

(* exactly the histories without an earlier gather conversion agree with the fresh process *)
Theorem handlers_history_partial : forall h r,
  existsb (fun u => u) h = false -> gather_obs_after false h r = gather_obs_after false [] r.
Proof.
  intros h r H. unfold gather_obs_after. f_equal.
  unfold flag_after. assert (G : forall f, fold_left (fun f u => snd (convert_gather false u f)) h f = f).
  { induction h as [|u t IH]; intro f; simpl; auto. simpl in H. apply orb_false_iff in H. destruct H as [-> H].
    simpl. now apply IH. }
  now rewrite G.
Qed.

(* ------------------------------------------------------------------------------------------- *)
(** ** B''. scoped process-wide state must be restored on EVERY exit path                          *)
(* plugins/plugin_system.py FunctionPlugin._lower_and_call puts the function's name into the ContextVar
   set _IN_FUNCTION_BUILD while the @onnx_function body is traced; a patched call of a function whose name
   is in the set calls straight through (the function is INLINED instead of emitted as a FunctionProto).
   The body trace can raise (user code, a transient error, KeyboardInterrupt).  Shape of the code:
       active = set(VAR.get()); VAR.set(active | {name}); try: <trace body> finally: VAR.set(active)
   Model: the state is the set; a conversion is (name, does the body raise?). *)
Definition scoped_finally (nm : name) (raises : bool) (st : list name) : bool * list name := (raises, st).
(* restore written after the body without exception protection (set(); body; reset()) *)
Definition scoped_unprotected (nm : name) (raises : bool) (st : list name) : bool * list name :=
  if raises then (true, nm :: st) else (false, st).
Definition state_after (scoped : name -> bool -> list name -> bool * list name) (h : list (name * bool)) : list name :=
  fold_left (fun st c => snd (scoped (fst c) (snd c) st)) h [].
(* what a later conversion observes for function f: is it inlined? *)
Definition inlined_after scoped (h : list (name * bool)) (f : name) : bool := mem f (state_after scoped h).

Theorem contextvar_restored_on_every_exit : forall h, state_after scoped_finally h = [].
Proof.
  intro h. unfold state_after. assert (G : forall st, fold_left (fun st c => snd (scoped_finally (fst c) (snd c) st)) h st = st).
  { induction h as [|c t IH]; intro st; simpl; auto. }
  apply G.
Qed.

Corollary failed_conversions_do_not_inline : forall h1 h2 f,
  inlined_after scoped_finally h1 f = inlined_after scoped_finally h2 f.
Proof. intros. unfold inlined_after. now rewrite !contextvar_restored_on_every_exit. Qed.

Theorem unprotected_restore_refuted :
  exists h1 h2 f, inlined_after scoped_unprotected h1 f <> inlined_after scoped_unprotected h2 f.
Proof. exists [], [(7, true)], 7. vm_compute. discriminate. Qed.

(* without protection only histories whose conversions all succeed are harmless *)
Theorem unprotected_restore_partial : forall h,
  forallb (fun c => negb (snd c)) h = true -> state_after scoped_unprotected h = [].
Proof.
  intro h. unfold state_after.
  assert (G : forall st, forallb (fun c => negb (snd c)) h = true ->
              fold_left (fun st c => snd (scoped_unprotected (fst c) (snd c) st)) h st = st).
  { induction h as [|[n r] t IH]; intros st H; simpl in *; auto. apply andb_prop in H. destruct H as [Hr Ht].
    destruct r; [discriminate|]. simpl. now apply IH. }
  apply G.
Qed.

(* ------------------------------------------------------------------------------------------- *)
(** * C. the lowering-signature cache is transparent                                            *)
(* ------------------------------------------------------------------------------------------- *)
(* lowering_dispatch._lower_accepts_params: cache_key = the function object; table.get(key) is used
   when present, else the answer is computed - a function [f] of the key alone (the parameter list of
   the function object) - and stored.  Keys are held by the dict, so an id() cannot be reused while
   its entry exists. *)
Section Memo.
Variable V : Type.
Variable f : nat -> V.

Fixpoint memo_get (k : nat) (t : list (nat * V)) : option V :=
  match t with [] => None | (k', v) :: r => if Nat.eqb k k' then Some v else memo_get k r end.
Definition memo_call (k : nat) (t : list (nat * V)) : V * list (nat * V) :=
  match memo_get k t with Some v => (v, t) | None => (f k, (k, f k) :: t) end.
Definition memo_consistent (t : list (nat * V)) : Prop := forall k v, memo_get k t = Some v -> v = f k.

Fixpoint memo_calls (ks : list nat) (t : list (nat * V)) : list V * list (nat * V) :=
  match ks with
  | [] => ([], t)
  | k :: r => let '(v, t1) := memo_call k t in let '(vs, t2) := memo_calls r t1 in (v :: vs, t2)
  end.

Lemma memo_call_sound k t : memo_consistent t ->
  fst (memo_call k t) = f k /\ memo_consistent (snd (memo_call k t)).
Proof.
  intro H. unfold memo_call. destruct (memo_get k t) as [v|] eqn:E; simpl.
  - split; [now apply H | exact H].
  - split; [reflexivity|]. intros k' v'. simpl. destruct (Nat.eqb k' k) eqn:Ek.
    + apply Nat.eqb_eq in Ek. subst. intro X. now injection X as <-.
    + apply H.
Qed.

(* whatever earlier conversions left in the (consistent) table, every call answers f *)
Theorem signature_cache_transparent : forall ks t, memo_consistent t ->
  fst (memo_calls ks t) = map f ks /\ memo_consistent (snd (memo_calls ks t)).
Proof.
  induction ks as [|k r IH]; intros t H; simpl; [auto|].
  destruct (memo_call_sound k t H) as [E C].
  destruct (memo_call k t) as [v t1]; simpl in *.
  destruct (IH t1 C) as [E' C']. destruct (memo_calls r t1) as [vs t2]; simpl in *.
  split; [now rewrite E, E' | exact C'].
Qed.

Lemma memo_empty_consistent : memo_consistent [].
Proof. intros k v H. discriminate. Qed.

(* in particular the answers do not depend on the history that filled the table *)
Corollary signature_cache_history_independent : forall hist1 hist2 ks,
  fst (memo_calls ks (snd (memo_calls hist1 []))) = fst (memo_calls ks (snd (memo_calls hist2 []))).
Proof.
  intros h1 h2 ks.
  destruct (signature_cache_transparent h1 [] memo_empty_consistent) as [_ C1].
  destruct (signature_cache_transparent h2 [] memo_empty_consistent) as [_ C2].
  destruct (signature_cache_transparent ks _ C1) as [E1 _].
  destruct (signature_cache_transparent ks _ C2) as [E2 _]. congruence.
Qed.
End Memo.
