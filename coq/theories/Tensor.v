(* Tensor: tensors as shape + index function, equality up to in-range indices (a setoid, so no
   functional extensionality is needed), ONNX Transpose, elementwise maps, and the laws the
   optimizer's transpose rewrites rely on. *)
From Coq Require Import List Arith Lia Bool PeanoNat ZArith.
From J2O Require Import PyLib.
Import ListNotations.

Set Implicit Arguments.

(* ------------------------------------------------------------------ gather / permutations *)
Definition gather {A} (d : A) (p : list nat) (l : list A) : list A := map (fun k => nth k l d) p.

Definition is_perm (p : list nat) : Prop := NoDup p /\ Forall (fun k => k < length p) p.

Fixpoint nodupb (l : list nat) : bool :=
  match l with [] => true | x :: r => negb (existsb (Nat.eqb x) r) && nodupb r end.
Definition is_permb (p : list nat) : bool := nodupb p && forallb (fun k => k <? length p) p.

Lemma nodupb_NoDup l : nodupb l = true -> NoDup l.
Proof.
  induction l as [|x r IH]; simpl; intro H; [constructor|].
  apply andb_prop in H as [H1 H2]. constructor; auto.
  intro Hin. apply negb_true_iff in H1.
  assert (existsb (Nat.eqb x) r = true) by (apply existsb_exists; exists x; split; auto; apply Nat.eqb_refl).
  congruence.
Qed.

Lemma is_permb_spec p : is_permb p = true -> is_perm p.
Proof.
  unfold is_permb, is_perm. intro H. apply andb_prop in H as [H1 H2]. split.
  - now apply nodupb_NoDup.
  - apply Forall_forall. intros k Hk. rewrite forallb_forall in H2. specialize (H2 _ Hk).
    now apply Nat.ltb_lt.
Qed.

Fixpoint index_of (k : nat) (p : list nat) : nat :=
  match p with [] => 0 | x :: xs => if Nat.eqb x k then 0 else S (index_of k xs) end.
Definition inv_perm (p : list nat) : list nat := map (fun k => index_of k p) (seq 0 (length p)).

Lemma nth_index_of : forall p k, In k p -> nth (index_of k p) p 0 = k.
Proof. induction p as [|x xs IH]; simpl; intros k H; [tauto|].
  destruct (Nat.eqb_spec x k); [auto|]. destruct H; [congruence|]. simpl. auto. Qed.

Lemma index_of_nth : forall p i, NoDup p -> i < length p -> index_of (nth i p 0) p = i.
Proof. induction p as [|x xs IH]; simpl; intros i Hnd Hi; [lia|].
  inversion Hnd; subst. destruct i; simpl.
  - now rewrite Nat.eqb_refl.
  - destruct (Nat.eqb_spec x (nth i xs 0)) as [e|e].
    + exfalso. apply H1. rewrite e. apply nth_In. lia.
    + f_equal. apply IH; auto. lia. Qed.

Lemma index_of_lt : forall p k, In k p -> index_of k p < length p.
Proof. induction p as [|x xs IH]; simpl; intros k H; [tauto|].
  destruct (Nat.eqb_spec x k); [lia|]. destruct H; [congruence|]. specialize (IH _ H). lia. Qed.

(* pigeonhole: a permutation of length n contains every k < n *)
Lemma perm_In : forall p k, is_perm p -> k < length p -> In k p.
Proof.
  intros p k [Hnd Hlt] Hk.
  assert (Hincl: incl p (seq 0 (length p))).
  { intros x Hx. apply in_seq. rewrite Forall_forall in Hlt. specialize (Hlt _ Hx). lia. }
  assert (Hincl2: incl (seq 0 (length p)) p).
  { apply NoDup_length_incl; auto. rewrite seq_length. lia. }
  apply Hincl2. apply in_seq. lia.
Qed.

Lemma gather_length {A} (d : A) p l : length (gather d p l) = length p.
Proof. unfold gather. apply map_length. Qed.

Lemma inv_perm_length p : length (inv_perm p) = length p.
Proof. unfold inv_perm. now rewrite map_length, seq_length. Qed.

Lemma nth_gather {A} (d : A) p l i : i < length p -> nth i (gather d p l) d = nth (nth i p 0) l d.
Proof.
  intro Hi. unfold gather.
  rewrite (nth_indep _ d (nth 0 l d)) by (now rewrite map_length).
  change (nth 0 l d) with ((fun k => nth k l d) 0). now rewrite map_nth.
Qed.

Lemma nth_inv_perm p k : k < length p -> nth k (inv_perm p) 0 = index_of k p.
Proof.
  intro Hk. unfold inv_perm.
  rewrite (nth_indep _ 0 (index_of 0 p)) by (now rewrite map_length, seq_length).
  change (index_of 0 p) with ((fun k => index_of k p) 0). rewrite map_nth. now rewrite seq_nth.
Qed.

(* gather p then gather (inv p) is the identity, and the other way round *)
Lemma gather_inv_l : forall {A} (d : A) p l, is_perm p -> length l = length p ->
  gather d (inv_perm p) (gather d p l) = l.
Proof.
  intros A d p l Hp Hl. apply nth_ext with (d := d) (d' := d).
  - now rewrite gather_length, inv_perm_length.
  - intros i Hi. rewrite gather_length, inv_perm_length in Hi.
    rewrite nth_gather by (now rewrite inv_perm_length).
    rewrite nth_inv_perm by auto.
    assert (Hin : In i p) by (apply perm_In; auto).
    rewrite nth_gather by (apply index_of_lt; auto).
    now rewrite nth_index_of.
Qed.

Lemma gather_inv_r : forall {A} (d : A) p l, is_perm p -> length l = length p ->
  gather d p (gather d (inv_perm p) l) = l.
Proof.
  intros A d p l [Hnd Hlt] Hl. apply nth_ext with (d := d) (d' := d).
  - now rewrite gather_length.
  - intros i Hi. rewrite gather_length in Hi.
    rewrite nth_gather by auto.
    assert (Hk : nth i p 0 < length p).
    { rewrite Forall_forall in Hlt. apply Hlt. now apply nth_In. }
    rewrite nth_gather by (now rewrite inv_perm_length).
    rewrite nth_inv_perm by auto. now rewrite index_of_nth.
Qed.

Lemma gather_gather {A} (d : A) p q l :
  Forall (fun k => k < length p) q ->
  gather d q (gather d p l) = gather d (gather 0 q p) l.
Proof.
  intro Hq. apply nth_ext with (d := d) (d' := d).
  - now rewrite !gather_length.
  - intros i Hi. rewrite gather_length in Hi.
    assert (Hk : nth i q 0 < length p).
    { rewrite Forall_forall in Hq. apply Hq. now apply nth_In. }
    rewrite nth_gather by auto. rewrite nth_gather by auto.
    rewrite nth_gather by (now rewrite gather_length).
    now rewrite (nth_gather 0 q p) by auto.
Qed.

Lemma gather_id {A} (d : A) l : gather d (seq 0 (length l)) l = l.
Proof.
  apply nth_ext with (d := d) (d' := d).
  - now rewrite gather_length, seq_length.
  - intros i Hi. rewrite gather_length, seq_length in Hi.
    rewrite nth_gather by (now rewrite seq_length). now rewrite seq_nth.
Qed.

(* the code's inverse test:  [perm1[p] for p in perm2] == range(n)  i.e.  gather perm2 perm1 = id *)
Definition is_inverse (p1 p2 : list nat) : Prop :=
  length p1 = length p2 /\ gather 0 p2 p1 = seq 0 (length p1).

Lemma is_inverse_inv p1 p2 : is_perm p1 -> is_perm p2 -> is_inverse p1 p2 -> p2 = inv_perm p1.
Proof.
  intros H1 H2 [Hl Hc].
  (* gather p2 p1 = id  =>  p1[p2[i]] = i  =>  p2[i] = index_of i p1 *)
  apply nth_ext with (d := 0) (d' := 0); [now rewrite inv_perm_length|].
  intros i Hi. rewrite nth_inv_perm by lia.
  assert (Hk : nth i p2 0 < length p1).
  { destruct H2 as [_ Hlt]. rewrite Forall_forall in Hlt. rewrite Hl. apply Hlt. now apply nth_In. }
  assert (E : nth (nth i p2 0) p1 0 = i).
  { rewrite <- (nth_gather 0 p2 p1) by auto. rewrite Hc. apply seq_nth. lia. }
  rewrite <- E at 2. symmetry. apply index_of_nth; [apply H1 | exact Hk].
Qed.

(* ------------------------------------------------------------------ tensors *)
Record tensor (A : Type) := mkT { shape : list nat; at_ : list nat -> A }.
Arguments mkT {A}.

Definition in_range (s idx : list nat) : Prop := Forall2 lt idx s.

Definition teq {A} (x y : tensor A) : Prop :=
  shape x = shape y /\ forall idx, in_range (shape x) idx -> at_ x idx = at_ y idx.

Lemma teq_refl {A} (x : tensor A) : teq x x.
Proof. split; auto. Qed.
Lemma teq_sym {A} (x y : tensor A) : teq x y -> teq y x.
Proof. intros [Hs H]. split; auto. intros idx Hi. symmetry. apply H. now rewrite Hs. Qed.
Lemma teq_trans {A} (x y z : tensor A) : teq x y -> teq y z -> teq x z.
Proof.
  intros [Hs1 H1] [Hs2 H2]. split; [congruence|]. intros idx Hi.
  rewrite H1 by auto. apply H2. now rewrite <- Hs1.
Qed.

Lemma in_range_length s idx : in_range s idx -> length idx = length s.
Proof. intro H. induction H; simpl; auto. Qed.

Lemma in_range_nth s idx i : in_range s idx -> i < length s -> nth i idx 0 < nth i s 0.
Proof.
  intro H. revert i. induction H as [|a b l l' Hab H IH]; simpl; intros i Hi; [lia|].
  destruct i; auto. apply IH. lia.
Qed.

Lemma in_range_intro s idx : length idx = length s ->
  (forall i, i < length s -> nth i idx 0 < nth i s 0) -> in_range s idx.
Proof.
  revert idx. induction s as [|b s IH]; intros [|a idx] Hl H; simpl in *; try discriminate.
  - constructor.
  - constructor.
    + apply (H 0). lia.
    + apply IH; [lia|]. intros i Hi. apply (H (S i)). lia.
Qed.

Lemma in_range_gather s idx p : Forall (fun k => k < length s) p -> in_range s idx ->
  in_range (gather 0 p s) (gather 0 p idx).
Proof.
  intros Hp Hr. apply in_range_intro; [now rewrite !gather_length|].
  intros i Hi. rewrite gather_length in Hi. rewrite !nth_gather by auto.
  apply in_range_nth; auto. rewrite Forall_forall in Hp. apply Hp. now apply nth_In.
Qed.

(* ONNX Transpose: out.shape[i] = in.shape[perm[i]], out[gather perm idx'] = in[idx'] *)
Definition transpose {A} (p : list nat) (x : tensor A) : tensor A :=
  mkT (gather 0 p (shape x)) (fun idx => at_ x (gather 0 (inv_perm p) idx)).

Definition rank {A} (x : tensor A) := length (shape x).

Lemma perm_Forall_lt p n : is_perm p -> length p = n -> Forall (fun k => k < n) p.
Proof. intros [_ H] <-. exact H. Qed.

Theorem transpose_inverse {A} (p q : list nat) (x : tensor A) :
  is_perm p -> is_perm q -> length p = rank x -> is_inverse p q ->
  teq (transpose q (transpose p x)) x.
Proof.
  intros Hp Hq Hlen Hinv. pose proof (is_inverse_inv Hp Hq Hinv) as ->.
  unfold rank in Hlen. unfold transpose, teq; simpl. split.
  - apply gather_inv_l; auto.
  - intros idx Hi.
    assert (Hl : length idx = length p).
    { apply in_range_length in Hi. now rewrite !gather_length, inv_perm_length in Hi. }
    f_equal.
    (* gather (inv p) (gather (inv (inv p)) idx) = idx *)
    assert (Hip : is_perm (inv_perm p)).
    { split.
      - apply (NoDup_nth (inv_perm p) 0). intros i j Hi' Hj' E.
        rewrite inv_perm_length in Hi', Hj'. rewrite !nth_inv_perm in E by auto.
        rewrite <- (nth_index_of p i) by (apply perm_In; auto).
        rewrite <- (nth_index_of p j) by (apply perm_In; auto). now rewrite E.
      - apply Forall_forall. intros k Hk. apply In_nth with (d := 0) in Hk as (i & Hi' & <-).
        rewrite inv_perm_length in *. rewrite nth_inv_perm by auto.
        apply index_of_lt. apply perm_In; auto. }
    apply gather_inv_r; auto. now rewrite inv_perm_length.
Qed.

Theorem transpose_id {A} (x : tensor A) : teq (transpose (seq 0 (rank x)) x) x.
Proof.
  unfold transpose, teq, rank; simpl. split; [apply gather_id|].
  intros idx Hi. f_equal. rewrite gather_id in Hi. apply in_range_length in Hi.
  assert (E : inv_perm (seq 0 (length (shape x))) = seq 0 (length (shape x))).
  { apply nth_ext with (d := 0) (d' := 0); [now rewrite inv_perm_length|].
    intros i Hi'. rewrite inv_perm_length, seq_length in Hi'.
    rewrite nth_inv_perm by (now rewrite seq_length). rewrite seq_nth by auto. simpl.
    assert (Hn : nth i (seq 0 (length (shape x))) 0 = i) by (now rewrite seq_nth).
    rewrite <- Hn at 1.
    apply index_of_nth; [apply seq_NoDup | now rewrite seq_length]. }
  rewrite E, <- Hi. apply gather_id.
Qed.

(* elementwise maps *)
Definition tmap {A B} (f : A -> B) (x : tensor A) : tensor B := mkT (shape x) (fun idx => f (at_ x idx)).
Definition tmap2 {A B C} (f : A -> B -> C) (x : tensor A) (y : tensor B) : tensor C :=
  mkT (shape x) (fun idx => f (at_ x idx) (at_ y idx)).     (* equal shapes; broadcasting is separate *)

Theorem tmap_transpose {A B} (f : A -> B) p (x : tensor A) :
  teq (tmap f (transpose p x)) (transpose p (tmap f x)).
Proof. split; auto. Qed.

Theorem tmap2_transpose {A B C} (f : A -> B -> C) p (x : tensor A) (y : tensor B) :
  shape x = shape y ->
  teq (tmap2 f (transpose p x) (transpose p y)) (transpose p (tmap2 f x y)).
Proof. intro H. split; auto. Qed.

Lemma tmap_teq {A B} (f : A -> B) x y : teq x y -> teq (tmap f x) (tmap f y).
Proof. intros [Hs H]. split; auto. simpl. intros idx Hi. f_equal. now apply H. Qed.

Lemma transpose_teq {A} p (x y : tensor A) : is_perm p -> length p = rank x -> teq x y ->
  teq (transpose p x) (transpose p y).
Proof.
  intros Hp Hl [Hs H]. split; simpl; [now rewrite Hs|].
  intros idx Hi. apply H.
  (* the source index is in range *)
  unfold rank in Hl.
  assert (Hip : Forall (fun k => k < length (gather 0 p (shape x))) (inv_perm p)).
  { rewrite gather_length. apply Forall_forall. intros k Hk.
    apply In_nth with (d := 0) in Hk as (i & Hi' & <-). rewrite inv_perm_length in Hi'.
    rewrite nth_inv_perm by auto. apply index_of_lt. apply perm_In; auto. }
  pose proof (in_range_gather Hip Hi) as Hr.
  rewrite gather_inv_l in Hr by auto. exact Hr.
Qed.

(* a rank-0 (scalar) tensor broadcast against x *)
Definition tmap2_scalar_r {A B C} (f : A -> B -> C) (x : tensor A) (c : B) : tensor C :=
  mkT (shape x) (fun idx => f (at_ x idx) c).
Theorem tmap2_scalar_transpose {A B C} (f : A -> B -> C) p (x : tensor A) (c : B) :
  teq (tmap2_scalar_r f (transpose p x) c) (transpose p (tmap2_scalar_r f x c)).
Proof. split; auto. Qed.

(* bridge to the translated (Z-valued) permutation test *)
Definition perm_of_Z (l : list Z) : list nat := map Z.to_nat l.
