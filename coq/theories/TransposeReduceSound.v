(* TransposeReduceSound (C02): soundness of the model of remove_redundant_transpose_reduce_ir (TransposeReducePass.v).
   ReduceMean with keepdims = 1 is an ABSTRACT axis-indexed operator [reduce S x] (S a list of valid axes, read as a set) with
   the laws: it depends on S only as a set, it respects tensor equality, and
        reduce S (transpose p x) == transpose p (reduce (p[S]) x)              (permute the input, re-map the axes).
   What is proved about the pass's arithmetic: normalising the (possibly negative) axes against rank = len(perm1), mapping
   them through perm1 and sorting is exactly that law's instance, for every rank, perm, axes list (also empty = reduce all,
   and absent).  The new axes initializer the pass creates is a value added to the environment under an unused name. *)
From Coq Require Import ZArith String List Bool Arith Lia.
From J2O Require Import PyLib Tensor Graph Redirect Preserve Reshape ElemCommute ChainSim ReshapePairPass ChainFacts C02Opt ElemSem
  TransposePairPass TransposeRegion TransposeReducePass.
From J2OGen Require Import GenCast GenOpt.
Import ListNotations.

(* ---- the axes arithmetic *)
Definition norm_axis (r : nat) (a : Z) : option nat :=
  let a' := if (a <? 0)%Z then (a + Z.of_nat r)%Z else a in
  if (a' <? 0)%Z || (Z.of_nat r <=? a')%Z then None else Some (Z.to_nat a').
Definition norm_axes (r : nat) (ax : list Z) : option (list nat) := mapM (norm_axis r) ax.

Lemma norm_axis_lt r a k : norm_axis r a = Some k -> k < r.
Proof.
  unfold norm_axis. destruct ((_ <? 0)%Z || (_ <=? _)%Z) eqn:E; [discriminate|]. intro H. injection H as <-.
  apply orb_false_iff in E as [E1 E2]. apply Z.ltb_ge in E1. apply Z.leb_gt in E2. lia.
Qed.

Lemma map_axes_norm p : forall ax l, map_axes p ax = Some l <->
  exists S, norm_axes (length p) ax = Some S /\ l = map (fun a => nth a p 0) S.
Proof.
  induction ax as [|a r IH]; intros l; simpl.
  - split; [intro H; injection H as <-; exists []; auto | intros (S & HS & ->); injection HS as <-; reflexivity].
  - unfold norm_axes in *. simpl. unfold norm_axis at 1.
    destruct ((_ <? 0)%Z || (_ <=? _)%Z) eqn:E.
    + split; [discriminate | intros (S & HS & _); discriminate].
    + destruct (map_axes p r) as [l0|] eqn:Em.
      * destruct (proj1 (IH l0) eq_refl) as (S0 & HS0 & ->). rewrite HS0. split.
        -- intro H. injection H as <-. eexists. split; reflexivity.
        -- intros (S & HS & ->). injection HS as <-. reflexivity.
      * split; [discriminate|]. intros (S & HS & _). destruct (mapM (norm_axis (length p)) r) as [S0|] eqn:E0; [|discriminate].
        pose proof (proj2 (IH (map (fun a0 => nth a0 p 0) S0)) (ex_intro _ S0 (conj eq_refl eq_refl))) as Hc. discriminate.
Qed.

Lemma norm_axes_lt r : forall ax S, norm_axes r ax = Some S -> Forall (fun k => k < r) S.
Proof.
  unfold norm_axes. induction ax as [|a t IH]; simpl; intros S H.
  - injection H as <-. constructor.
  - destruct (norm_axis r a) as [k|] eqn:E; [|discriminate]. destruct (mapM (norm_axis r) t) as [S0|]; [|discriminate]. injection H as <-.
    constructor; [now apply (norm_axis_lt r a) | now apply IH].
Qed.

Lemma norm_axes_nat r : forall S, Forall (fun k => k < r) S -> norm_axes r (map Z.of_nat S) = Some S.
Proof.
  unfold norm_axes. induction 1 as [|k S Hk _ IH]; simpl; auto. rewrite IH. unfold norm_axis.
  destruct (Z.ltb_spec (Z.of_nat k) 0); [lia|]. destruct (Z.ltb_spec (Z.of_nat k) 0); [lia|]. simpl.
  destruct (Z.leb_spec (Z.of_nat r) (Z.of_nat k)); [lia|]. now rewrite Nat2Z.id.
Qed.

Lemma insert_sorted_In x y l : In y (insert_sorted x l) <-> y = x \/ In y l.
Proof.
  induction l as [|z r IH]; simpl; [intuition|]. destruct (Nat.leb x z); simpl; [intuition|]. rewrite IH. intuition.
Qed.
Lemma sort_nat_In y l : In y (sort_nat l) <-> In y l.
Proof. unfold sort_nat. induction l as [|x r IH]; simpl; [tauto|]. rewrite insert_sorted_In, IH. intuition. Qed.
Lemma sort_nat_nil l : sort_nat l = [] -> l = [].
Proof. destruct l as [|x r]; auto. intro H. assert (In x (sort_nat (x :: r))) by (apply sort_nat_In; now left). rewrite H in H0. contradiction. Qed.

Lemma dec_z_even k : dec_z (2 * k) = Z.of_nat k.
Proof.
  unfold dec_z. assert (He : Nat.even (2 * k) = true) by (rewrite Nat.even_mul; reflexivity). rewrite He.
  f_equal. replace (2 * k) with (k + k) by lia. clear. induction k; simpl; auto. rewrite Nat.add_succ_r. simpl. now rewrite IHk.
Qed.

Definition kd_of (ats : list nat) : option nat := match ats with S k :: _ => Some k | _ => None end.
Definition ax_of (ats : list nat) : option (list Z) := match ats with _ :: 1 :: l => Some (map dec_z l) | _ => None end.

Section RSound.
  Variable A : Type.
  Notation V := (tensor A).
  Variable sem : string -> list nat -> list V -> option (list V).
  Hypothesis sem_proper : forall op ats vs vs' o, Forall2 teq vs vs' -> sem op ats vs = Some o ->
    exists o', sem op ats vs' = Some o' /\ Forall2 teq o o'.
  Hypothesis Htr : sem_transpose_spec A sem op_type.

  (* the abstract reduction (ReduceMean, keepdims = 1) over a set of valid axes *)
  Variable reduce : list nat -> V -> V.
  Hypothesis red_set : forall S S' x, (forall a, In a S <-> In a S') -> teq (reduce S x) (reduce S' x).
  Hypothesis red_teq : forall S x x', teq x x' -> teq (reduce S x) (reduce S x').
  Hypothesis red_transpose : forall p S x, is_perm p -> length p = length (shape x) -> Forall (fun a => a < length p) S ->
    teq (reduce S (transpose p x)) (transpose p (reduce (map (fun a => nth a p 0) S) x)).
  Hypothesis red_rank : forall S x, length (shape (reduce S x)) = length (shape x).

  (* integer vectors *)
  Variable denoteZ : V -> option (list Z).
  Hypothesis denote_teq : forall v v', teq v v' -> denoteZ v = denoteZ v'.

  (* ONNX ReduceMean with keepdims = 1: axes from the attribute (one input) or from the second input; negative axes count from
     the end, an out-of-range axis is rejected, no / empty axes = all axes *)
  Definition eff (r : nat) (S : list nat) : list nat := match S with [] => seq 0 r | _ => S end.
  Definition red_sem (oax : option (list Z)) (x : V) : option V :=
    let r := length (shape x) in
    match oax with
    | None => Some (reduce (seq 0 r) x)
    | Some ax => option_map (fun S => reduce (eff r S) x) (norm_axes r ax)
    end.
  Hypothesis Hrm1 : forall op ats x, op_type op = "ReduceMean"%string -> kd_of ats = Some 1 ->
    sem op ats [x] = option_map (fun y => [y]) (red_sem (ax_of ats) x).
  Hypothesis Hrm2 : forall op ats x a ax, op_type op = "ReduceMean"%string -> kd_of ats = Some 1 -> denoteZ a = Some ax ->
    sem op ats [x; a] = option_map (fun y => [y]) (red_sem (Some ax) x).

  Notation evalg := (eval V sem).
  Notation stepg := (step V sem).

  Lemma red_sem_teq oax x x' y : teq x x' -> red_sem oax x = Some y -> exists y', red_sem oax x' = Some y' /\ teq y y'.
  Proof.
    intros Ht H. unfold red_sem in *. rewrite <- (proj1 Ht). destruct oax as [ax|].
    - destruct (norm_axes (length (shape x)) ax) as [S|]; [|discriminate]. simpl in *. injection H as <-. eexists. split; [reflexivity|]. now apply red_teq.
    - injection H as <-. eexists. split; [reflexivity|]. now apply red_teq.
  Qed.

  Lemma map_seq_perm p : map (fun a => nth a p 0) (seq 0 (length p)) = p.
  Proof.
    apply nth_ext with (d := 0) (d' := 0); [now rewrite map_length, seq_length|]. intros i Hi. rewrite map_length, seq_length in Hi.
    rewrite (nth_indep _ 0 (nth 0 p 0)) by (now rewrite map_length, seq_length).
    change (nth 0 p 0) with ((fun a => nth a p 0) 0). rewrite map_nth. now rewrite seq_nth.
  Qed.

  (* THE LAW, instantiated with the arithmetic of the pass *)
  Theorem red_law p x oax y : is_perm p -> length p = length (shape x) -> red_sem oax (transpose p x) = Some y ->
    match oax with
    | None => exists y', red_sem None x = Some y' /\ teq y (transpose p y') /\ length (shape y') = length p
    | Some ax => exists l y', map_axes p ax = Some l /\ red_sem (Some (map Z.of_nat (sort_nat l))) x = Some y' /\
                              teq y (transpose p y') /\ length (shape y') = length p
    end.
  Proof.
    intros Hp Hl H. unfold red_sem in H. cbn [transpose shape] in H. rewrite gather_length in H.
    assert (Hseq : Forall (fun a => a < length p) (seq 0 (length p))) by (apply Forall_forall; intros a Ha; apply in_seq in Ha; lia).
    assert (Hpset : forall a, In a p <-> In a (seq 0 (length p))).
    { intro a. rewrite in_seq. split; [intro Ha; destruct Hp as [_ Hlt]; rewrite Forall_forall in Hlt; specialize (Hlt a Ha); lia | intros [_ Ha]; now apply perm_In]. }
    destruct oax as [ax|].
    - destruct (norm_axes (length p) ax) as [S|] eqn:En; [|discriminate]. simpl in H. injection H as <-.
      set (l := map (fun a => nth a p 0) S).
      assert (Hm : map_axes p ax = Some l) by (apply map_axes_norm; eauto).
      pose proof (norm_axes_lt _ _ _ En) as HS.
      assert (Hl_lt : Forall (fun k => k < length p) (sort_nat l)).
      { apply Forall_forall. intros k Hk. apply (proj1 (sort_nat_In _ _)) in Hk. unfold l in Hk. apply in_map_iff in Hk as (a & <- & Ha).
        rewrite Forall_forall in HS. destruct Hp as [_ Hlt]. rewrite Forall_forall in Hlt. apply Hlt. apply nth_In. now apply HS. }
      exists l. unfold red_sem. rewrite <- Hl, (norm_axes_nat _ _ Hl_lt). simpl. eexists. split; [exact Hm|]. split; [reflexivity|].
      split; [|rewrite red_rank; now symmetry].
      assert (Heff : Forall (fun a => a < length p) (eff (length p) S)) by (unfold eff; destruct S; auto).
      eapply teq_trans; [apply (red_transpose p (eff (length p) S) x Hp Hl Heff)|].
      apply transpose_teq; auto; [unfold rank; now rewrite red_rank|]. apply red_set. intro a.
      unfold eff. destruct S as [|s0 S'].
      + simpl. rewrite map_seq_perm. apply Hpset.
      + destruct (sort_nat l) as [|k0 lr] eqn:Esl.
        * apply sort_nat_nil in Esl. unfold l in Esl. discriminate.
        * rewrite <- Esl. rewrite sort_nat_In. reflexivity.
    - injection H as <-. unfold red_sem. rewrite <- Hl. eexists. split; [reflexivity|]. split; [|rewrite red_rank; now symmetry].
      eapply teq_trans; [apply (red_transpose p (seq 0 (length p)) x Hp Hl Hseq)|].
      apply transpose_teq; auto; [unfold rank; now rewrite red_rank|]. apply red_set. intro a. rewrite map_seq_perm. apply Hpset.
  Qed.

  (* ---------------------------------------------------------------- what a positive decision establishes *)
  Definition axes_ok (g : rgraphT) (red : node) (p : list nat) (rrest : list name) (axs : axes_src) : Prop :=
    match axs with
    | AxNone => rrest = [] /\ ax_of (n_attrs red) = None
    | AxAttr l => rrest = [] /\ exists ax l0, ax_of (n_attrs red) = Some ax /\ map_axes p ax = Some l0 /\ l = sort_nat l0
    | AxInput l => exists a0 rr ax l0, rrest = a0 :: rr /\ rt_const g a0 = Some ax /\ map_axes p ax = Some l0 /\ l = sort_nat l0
    end.

  Lemma decide_tr_facts g T2 a : decide_tr g T2 = Some a ->
    exists p q xin rin rrest ro src,
      ra_T2 a = T2 /\ is_T T2 = true /\ n_ins T2 = [xin] /\ n_outs T2 <> [] /\
      producer (rt_nodes g) xin = Some (ra_red a) /\ is_rm (ra_red a) = true /\ n_ins (ra_red a) = rin :: rrest /\
      producer (rt_nodes g) rin = Some (ra_T1 a) /\ is_T (ra_T1 a) = true /\ perm_of (ra_T1 a) = Some p /\ perm_of T2 = Some q /\
      inv_ok p q = true /\ kd_of (n_attrs (ra_red a)) = Some 1 /\ axes_ok g (ra_red a) p rrest (ra_axes a) /\
      out1 (ra_red a) = Some ro /\ first_in (ra_T1 a) = Some src /\ robserved g ro = false /\
      (forall m, In m (rt_nodes g) -> In ro (n_ins m) -> m = T2) /\
      n_caps (ra_red a) = [] /\ length (n_ins (ra_red a)) <= 2.
  Proof.
    unfold decide_tr. intro H. destruct (is_T T2) eqn:ET2; [|discriminate]. cbn [negb] in H.
    destruct (n_ins T2) as [|xin [|]] eqn:Hi2; try discriminate. destruct (n_outs T2) as [|o2 or2] eqn:Ho2; [discriminate|].
    destruct (producer (rt_nodes g) xin) as [red|] eqn:Ered; [|discriminate].
    destruct (is_rm red) eqn:Erm; [|discriminate]. cbn [negb] in H.
    destruct (n_ins red) as [|rin rrest] eqn:Hir; [discriminate|].
    destruct (producer (rt_nodes g) rin) as [T1|] eqn:ET1p; [|discriminate].
    destruct (is_T T1) eqn:ET1; [|discriminate]. cbn [negb] in H.
    destruct (perm_of T1) as [p|] eqn:Ep; [|discriminate]. destruct (perm_of T2) as [q|] eqn:Eq; [|discriminate].
    destruct (inv_ok p q) eqn:Einv; [|discriminate]. cbn [negb] in H.
    destruct (rm_keepdims red) as [[|[|k]]|] eqn:Ekd; try discriminate.
    match type of H with match ?X with Some axs => _ | None => None end = _ => destruct X as [axs|] eqn:Eax; [|discriminate] end.
    destruct (out1 red) as [ro|] eqn:Ero; [|discriminate]. destruct (first_in T1) as [src|] eqn:Esrc; [|discriminate].
    match type of H with (if ?c then _ else _) = _ => destruct c eqn:Ecnd; [discriminate|] end.
    apply orb_false_iff in Ecnd as [Ecnd Hlen]. apply orb_false_iff in Ecnd as [Eobs Hcaps]. apply negb_false_iff in Hcaps.
    apply Nat.ltb_ge in Hlen.
    destruct (consumers (rt_nodes g) ro) as [|c [|]] eqn:Ec; try discriminate.
    destruct (node_eqb c T2) eqn:Ecn; [|discriminate]. injection H as <-. apply node_eqb_eq in Ecn. subst c.
    exists p, q, xin, rin, rrest, ro, src. cbn [ra_T1 ra_red ra_T2 ra_axes]. repeat split; auto.
    - discriminate.
    - unfold axes_ok. destruct rrest as [|a0 rr].
      + unfold rm_axes_attr in Eax. fold (ax_of (n_attrs red)) in Eax. destruct (ax_of (n_attrs red)) as [ax|] eqn:Eat.
        * destruct (map_axes p ax) as [l0|] eqn:Em; [|discriminate]. injection Eax as <-. split; auto. exists ax, l0. auto.
        * injection Eax as <-. auto.
      + destruct (rt_const g a0) as [ax|] eqn:Ec0; [|discriminate]. destruct (map_axes p ax) as [l0|] eqn:Em; [|discriminate].
        injection Eax as <-. exists a0, rr, ax, l0. auto.
    - intros m Hm Hr. apply (consumers_single _ _ _ _ Ec Hm Hr).
    - unfold no_caps in Hcaps. destruct (n_caps red); [reflexivity|discriminate].
    - rewrite Hir. exact Hlen.
  Qed.

  (* ---------------------------------------------------------------- one rewrite, in an environment that already holds the new initializer *)
  Lemma max_name_ge g x : In x (rt_outputs g) \/ (exists n, In n (rt_nodes g) /\ In x (n_ins n ++ n_caps n ++ n_outs n)) -> x <= max_name g.
  Proof.
    intro H. unfold max_name.
    assert (Hin : In x (rt_outputs g ++ flat_map (fun n => n_ins n ++ n_caps n ++ n_outs n) (rt_nodes g))).
    { apply in_or_app. destruct H as [H|(n & Hn & Hx)]; [now left | right; apply in_flat_map; eauto]. }
    clear H. induction (rt_outputs g ++ _) as [|y l IH]; [contradiction|]. simpl. destruct Hin as [->|Hin]; [lia | specialize (IH Hin); lia].
  Qed.

  Section RAction.
    Variables (g : rgraphT) (a : raction) (e ef : env V).
    Variables (p q : list nat) (xin rin : name) (rrest : list name) (ro src : name).
    Let T1 := ra_T1 a. Let red := ra_red a. Let T2 := ra_T2 a.
    Hypothesis Hssa : ssa V (rt_nodes g) e.
    Hypothesis Hev : evalg (rt_nodes g) e = Some ef.
    Hypothesis Hconst : forall x l v, rt_const g x = Some l -> ef x = Some v -> denoteZ v = Some l.
    Hypothesis HT2in : In T2 (rt_nodes g).
    Hypothesis HT2 : is_T T2 = true. Hypothesis Hi2 : n_ins T2 = [xin].
    Hypothesis Hpx : producer (rt_nodes g) xin = Some red. Hypothesis Hrm : is_rm red = true.
    Hypothesis Hir : n_ins red = rin :: rrest. Hypothesis HpT1 : producer (rt_nodes g) rin = Some T1.
    Hypothesis HT1 : is_T T1 = true. Hypothesis Hp1 : perm_of T1 = Some p. Hypothesis Hp2 : perm_of T2 = Some q.
    Hypothesis Hinvok : inv_ok p q = true. Hypothesis Hkd : kd_of (n_attrs red) = Some 1.
    Hypothesis Hax : axes_ok g red p rrest (ra_axes a).
    Hypothesis Hro : out1 red = Some ro. Hypothesis Hsrc : first_in T1 = Some src.
    Hypothesis Hobs : robserved g ro = false.
    Hypothesis Hcons : forall m, In m (rt_nodes g) -> In ro (n_ins m) -> m = T2.
    Hypothesis Hcaps : n_caps red = []. Hypothesis Hlen : length (n_ins red) <= 2.
    Let fresh := S (max_name g).
    Hypothesis Hfresh : match ra_axes a with
                        | AxInput l => exists vnew, e fresh = Some vnew /\ denoteZ vnew = Some (map Z.of_nat l)
                        | _ => True end.

    Let Hnd : NoDup (defs (rt_nodes g)) := proj1 Hssa.
    Let Hinv : is_inverse p q := proj1 (inv_ok_perms p q Hinvok).
    Let Hp : is_perm p := proj1 (proj2 (inv_ok_perms p q Hinvok)).
    Let Hq : is_perm q := proj2 (proj2 (inv_ok_perms p q Hinvok)).
    Let Hredin : In red (rt_nodes g) := proj1 (producer_spec _ _ _ Hpx).
    Let HT1in : In T1 (rt_nodes g) := proj1 (producer_spec _ _ _ HpT1).

    Lemma rT_final n perm : In n (rt_nodes g) -> is_T n = true -> perm_of n = Some perm ->
      exists u y x vy, n_uses n = [u] /\ n_outs n = [y] /\ ef u = Some x /\ ef y = Some vy /\ teq vy (transpose perm x) /\ length perm = length (shape x).
    Proof.
      intros Hn HT Hpp. destruct (eval_consistent V sem _ _ _ n Hssa Hev Hn) as (vs & o & Hl & Hs & Hlo).
      destruct (tnode_val A sem Htr n perm vs o HT Hpp Hs) as (x & vy & -> & -> & Hteq & Hlen0).
      destruct (n_uses n) as [|u [|u2 r]] eqn:Eu; simpl in Hl; try discriminate.
      2:{ destruct (ef u); [|discriminate]. destruct (ef u2); [|discriminate]. destruct (lookups V ef r); discriminate. }
      destruct (ef u) as [x0|] eqn:Ex; [|discriminate]. injection Hl as ->.
      destruct (n_outs n) as [|y [|y2 r]] eqn:Eo; simpl in Hlo; try discriminate.
      2:{ destruct (ef y); [|discriminate]. destruct (ef y2); [|discriminate]. destruct (lookups V ef r); discriminate. }
      destruct (ef y) as [vy0|] eqn:Ey; [|discriminate]. injection Hlo as ->.
      exists u, y, x, vy. split; [reflexivity|]. split; [reflexivity|]. split; [exact Ex|]. split; [exact Ey|]. split; [exact Hteq | exact Hlen0].
    Qed.

    (* the shape of the three nodes in a run that succeeds *)
    Lemma T1_shape : exists t xs tv, n_ins T1 = [src] /\ n_caps T1 = [] /\ n_outs T1 = [t] /\ rin = t /\ ef src = Some xs /\ ef t = Some tv /\
      teq tv (transpose p xs) /\ length p = length (shape xs).
    Proof.
      destruct (rT_final T1 p HT1in HT1 Hp1) as (u & y & x & vy & Eu & Eo & Ex & Ey & Ht & Hl).
      unfold first_in in Hsrc. unfold n_uses in Eu. destruct (n_ins T1) as [|i0 ir] eqn:Ei; [discriminate|]. simpl in Hsrc. injection Hsrc as ->.
      simpl in Eu. injection Eu as <- Eu. apply app_eq_nil in Eu as [-> Ec].
      assert (Hry : rin = y).
      { pose proof (proj2 (producer_spec _ _ _ HpT1)) as Hr. fold T1 in Hr. rewrite Eo in Hr. destruct Hr as [E|[]]. now symmetry. }
      exists y, x, vy. split; [reflexivity|]. split; [exact Ec|]. split; [exact Eo|]. split; [exact Hry|]. split; [exact Ex|].
      split; [exact Ey|]. split; [exact Ht | exact Hl].
    Qed.
    Lemma T2_shape : exists t2o rv v2, n_caps T2 = [] /\ n_outs T2 = [t2o] /\ ef xin = Some rv /\ ef t2o = Some v2 /\
      teq v2 (transpose q rv) /\ length q = length (shape rv).
    Proof.
      destruct (rT_final T2 q HT2in HT2 Hp2) as (u & y & x & vy & Eu & Eo & Ex & Ey & Ht & Hl).
      unfold n_uses in Eu. rewrite Hi2 in Eu. simpl in Eu. injection Eu as <- Ec. exists y, x, vy.
      split; [exact Ec|]. split; [exact Eo|]. split; [exact Ex|]. split; [exact Ey|]. split; [exact Ht | exact Hl].
    Qed.

    Definition old_axes : option (list Z) :=
      match rrest with a0 :: _ => rt_const g a0 | [] => ax_of (n_attrs red) end.
    Definition new_axes : option (list Z) :=
      match ra_axes a with AxNone => None | AxAttr l => Some (map Z.of_nat l) | AxInput l => Some (map Z.of_nat l) end.

    Lemma red_shape : exists tv yv, ef rin = Some tv /\ n_outs red = [ro] /\ xin = ro /\ ef ro = Some yv /\ red_sem old_axes tv = Some yv /\
      (rrest = [] \/ exists a0, rrest = [a0]).
    Proof.
      destruct (eval_consistent V sem _ _ _ red Hssa Hev Hredin) as (vs & o & Hl & Hs & Hlo).
      unfold n_uses in Hl. rewrite Hir, Hcaps, app_nil_r in Hl.
      assert (Hop : op_type (n_op red) = "ReduceMean"%string) by (unfold is_rm, nop in Hrm; now apply String.eqb_eq in Hrm).
      assert (Hone : forall y, o = [y] -> n_outs red = [ro] /\ xin = ro /\ ef ro = Some y).
      { intros y ->. unfold out1 in Hro. destruct (n_outs red) as [|o1 [|o2 orr]] eqn:Eo; simpl in Hlo, Hro; try discriminate.
        - injection Hro as ->. destruct (ef ro) as [v|] eqn:Er; [|discriminate]. injection Hlo as ->.
          repeat split; auto. pose proof (proj2 (producer_spec _ _ _ Hpx)) as Hx. rewrite Eo in Hx. destruct Hx as [E|[]]. now symmetry.
        - destruct (ef o1); [|discriminate]. destruct (ef o2); [|discriminate]. destruct (lookups V ef orr); discriminate. }
      rewrite Hir in Hlen. simpl in Hlen. unfold old_axes. unfold axes_ok in Hax.
      destruct rrest as [|a0 [|a1 rr]]; [| |simpl in Hlen; lia].
      - simpl in Hl. destruct (ef rin) as [tv|] eqn:Et; [|discriminate]. injection Hl as <-.
        rewrite (Hrm1 _ _ tv Hop Hkd) in Hs. destruct (red_sem (ax_of (n_attrs red)) tv) as [yv|] eqn:Er; [|discriminate]. simpl in Hs. injection Hs as <-.
        destruct (Hone yv eq_refl) as (H1 & H2 & H3). exists tv, yv. repeat split; auto.
      - destruct (ra_axes a) as [|l|l]; try (destruct Hax as [Hc _]; discriminate).
        destruct Hax as (a0' & rr & ax & l0 & Er0 & Hc0 & _). injection Er0 as <- <-.
        simpl in Hl. destruct (ef rin) as [tv|] eqn:Et; [|discriminate]. destruct (ef a0) as [av|] eqn:Ea; [|discriminate]. injection Hl as <-.
        rewrite (Hrm2 _ _ tv av ax Hop Hkd (Hconst a0 ax av Hc0 Ea)) in Hs. rewrite Hc0.
        destruct (red_sem (Some ax) tv) as [yv|] eqn:Er; [|discriminate]. simpl in Hs. injection Hs as <-.
        destruct (Hone yv eq_refl) as (H1 & H2 & H3). exists tv, yv. repeat split; auto. right. eauto.
    Qed.

    (* the law applied to this reducer: the folded reducer accepts T1's source and yields the un-transposed result *)
    Lemma red_new xs xs' tv yv : ef src = Some xs -> teq tv (transpose p xs) -> length p = length (shape xs) -> teq xs xs' ->
      red_sem old_axes tv = Some yv ->
      exists y', red_sem new_axes xs' = Some y' /\ tfull p yv y'.
    Proof.
      intros Exs Htv Hl Hxx Hr.
      destruct (red_sem_teq _ _ _ _ Htv Hr) as (y2 & Hr2 & Hy2).
      pose proof (red_law p xs old_axes y2 Hp Hl Hr2) as Hlaw.
      assert (Hnew : exists y1, red_sem new_axes xs = Some y1 /\ teq y2 (transpose p y1) /\ length (shape y1) = length p).
      { unfold old_axes, new_axes in *. unfold axes_ok in Hax. destruct (ra_axes a) as [|l|l].
        - destruct Hax as [-> Hat]. rewrite Hat in Hlaw. exact Hlaw.
        - destruct Hax as [-> (ax & l0 & Hat & Hm & ->)]. rewrite Hat in Hlaw. destruct Hlaw as (l1 & y1 & Hm1 & H1 & H2 & H3).
          rewrite Hm in Hm1. injection Hm1 as <-. eauto.
        - destruct Hax as (a0 & rr & ax & l0 & -> & Hc0 & Hm & ->). rewrite Hc0 in Hlaw. destruct Hlaw as (l1 & y1 & Hm1 & H1 & H2 & H3).
          rewrite Hm in Hm1. injection Hm1 as <-. eauto. }
      destruct Hnew as (y1 & Hr1 & Ht1 & Hl1). destruct (red_sem_teq _ _ _ _ Hxx Hr1) as (y' & Hr' & Hy').
      exists y'. split; auto. split.
      - eapply teq_trans; [exact Hy2|]. eapply teq_trans; [exact Ht1|]. apply transpose_teq; auto.
      - rewrite <- (proj1 Hy'). exact Hl1.
    Qed.
  End RAction.
End RSound.
