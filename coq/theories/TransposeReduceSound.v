(* TransposeReduceSound (C02): soundness of the model of remove_redundant_transpose_reduce_ir (TransposeReducePass.v).
   ReduceMean with keepdims = 1 is an ABSTRACT axis-indexed operator [reduce S x] (S a list of valid axes, read as a set) with
   the laws: it depends on S only as a set, it respects tensor equality, and
        reduce S (transpose p x) == transpose p (reduce (p[S]) x)              (permute the input, re-map the axes).
   What is proved about the pass's arithmetic: normalising the (possibly negative) axes against rank = len(perm1), mapping
   them through perm1 and sorting is exactly that law's instance, for every rank, perm, axes list (also empty = reduce all,
   and absent).  The new axes initializer the pass creates is a value added to the environment under an unused name. *)
From Coq Require Import ZArith String List Bool Arith Lia.
From J2O Require Import PyLib Tensor Graph Redirect Preserve Reshape ElemCommute ChainSim ReshapePairPass ChainFacts C02Opt ElemSem
  TransposePairPass TransposeRegion TransposeReducePass.
From J2OGen Require Import GenCast GenOpt.
Import ListNotations.

(* ---- the axes arithmetic *)
Definition norm_axis (r : nat) (a : Z) : option nat :=
  let a' := if (a <? 0)%Z then (a + Z.of_nat r)%Z else a in
  if (a' <? 0)%Z || (Z.of_nat r <=? a')%Z then None else Some (Z.to_nat a').
Definition norm_axes (r : nat) (ax : list Z) : option (list nat) := mapM (norm_axis r) ax.

Lemma norm_axis_lt r a k : norm_axis r a = Some k -> k < r.
Proof.
  unfold norm_axis. destruct ((_ <? 0)%Z || (_ <=? _)%Z) eqn:E; [discriminate|]. intro H. injection H as <-.
  apply orb_false_iff in E as [E1 E2]. apply Z.ltb_ge in E1. apply Z.leb_gt in E2. lia.
Qed.

Lemma map_axes_norm p : forall ax l, map_axes p ax = Some l <->
  exists S, norm_axes (length p) ax = Some S /\ l = map (fun a => nth a p 0) S.
Proof.
  induction ax as [|a r IH]; intros l; simpl.
  - split; [intro H; injection H as <-; exists []; auto | intros (S & HS & ->); injection HS as <-; reflexivity].
  - unfold norm_axes in *. simpl. unfold norm_axis at 1.
    destruct ((_ <? 0)%Z || (_ <=? _)%Z) eqn:E.
    + split; [discriminate | intros (S & HS & _); discriminate].
    + destruct (map_axes p r) as [l0|] eqn:Em.
      * destruct (proj1 (IH l0) eq_refl) as (S0 & HS0 & ->). rewrite HS0. split.
        -- intro H. injection H as <-. eexists. split; reflexivity.
        -- intros (S & HS & ->). injection HS as <-. reflexivity.
      * split; [discriminate|]. intros (S & HS & _). destruct (mapM (norm_axis (length p)) r) as [S0|] eqn:E0; [|discriminate].
        pose proof (proj2 (IH (map (fun a0 => nth a0 p 0) S0)) (ex_intro _ S0 (conj eq_refl eq_refl))) as Hc. discriminate.
Qed.

Lemma norm_axes_lt r : forall ax S, norm_axes r ax = Some S -> Forall (fun k => k < r) S.
Proof.
  unfold norm_axes. induction ax as [|a t IH]; simpl; intros S H.
  - injection H as <-. constructor.
  - destruct (norm_axis r a) as [k|] eqn:E; [|discriminate]. destruct (mapM (norm_axis r) t) as [S0|]; [|discriminate]. injection H as <-.
    constructor; [now apply (norm_axis_lt r a) | now apply IH].
Qed.

Lemma norm_axes_nat r : forall S, Forall (fun k => k < r) S -> norm_axes r (map Z.of_nat S) = Some S.
Proof.
  unfold norm_axes. induction 1 as [|k S Hk _ IH]; simpl; auto. rewrite IH. unfold norm_axis.
  destruct (Z.ltb_spec (Z.of_nat k) 0); [lia|]. destruct (Z.ltb_spec (Z.of_nat k) 0); [lia|]. simpl.
  destruct (Z.leb_spec (Z.of_nat r) (Z.of_nat k)); [lia|]. now rewrite Nat2Z.id.
Qed.

Lemma insert_sorted_In x y l : In y (insert_sorted x l) <-> y = x \/ In y l.
Proof.
  induction l as [|z r IH]; simpl; [intuition|]. destruct (Nat.leb x z); simpl; [intuition|]. rewrite IH. intuition.
Qed.
Lemma sort_nat_In y l : In y (sort_nat l) <-> In y l.
Proof. unfold sort_nat. induction l as [|x r IH]; simpl; [tauto|]. rewrite insert_sorted_In, IH. intuition. Qed.
Lemma sort_nat_nil l : sort_nat l = [] -> l = [].
Proof. destruct l as [|x r]; auto. intro H. assert (In x (sort_nat (x :: r))) by (apply sort_nat_In; now left). rewrite H in H0. contradiction. Qed.

Lemma dec_z_even k : dec_z (2 * k) = Z.of_nat k.
Proof.
  unfold dec_z. assert (He : Nat.even (2 * k) = true) by (rewrite Nat.even_mul; reflexivity). rewrite He.
  f_equal. replace (2 * k) with (k + k) by lia. clear. induction k; simpl; auto. rewrite Nat.add_succ_r. simpl. now rewrite IHk.
Qed.

Definition kd_of (ats : list nat) : option nat := match ats with S k :: _ => Some k | _ => None end.
Definition ax_of (ats : list nat) : option (list Z) := match ats with _ :: 1 :: l => Some (map dec_z l) | _ => None end.

Section RSound.
  Variable A : Type.
  Notation V := (tensor A).
  Variable sem : string -> list nat -> list V -> option (list V).
  Hypothesis sem_proper : forall op ats vs vs' o, Forall2 teq vs vs' -> sem op ats vs = Some o ->
    exists o', sem op ats vs' = Some o' /\ Forall2 teq o o'.
  Hypothesis Htr : sem_transpose_spec A sem op_type.

  (* the abstract reduction (ReduceMean, keepdims = 1) over a set of valid axes *)
  Variable reduce : list nat -> V -> V.
  Hypothesis red_set : forall S S' x, (forall a, In a S <-> In a S') -> teq (reduce S x) (reduce S' x).
  Hypothesis red_teq : forall S x x', teq x x' -> teq (reduce S x) (reduce S x').
  Hypothesis red_transpose : forall p S x, is_perm p -> length p = length (shape x) -> Forall (fun a => a < length p) S ->
    teq (reduce S (transpose p x)) (transpose p (reduce (map (fun a => nth a p 0) S) x)).
  Hypothesis red_rank : forall S x, length (shape (reduce S x)) = length (shape x).

  (* integer vectors *)
  Variable denoteZ : V -> option (list Z).
  Hypothesis denote_teq : forall v v', teq v v' -> denoteZ v = denoteZ v'.

  (* ONNX ReduceMean with keepdims = 1: axes from the attribute (one input) or from the second input; negative axes count from
     the end, an out-of-range axis is rejected, no / empty axes = all axes *)
  Definition eff (r : nat) (S : list nat) : list nat := match S with [] => seq 0 r | _ => S end.
  Definition red_sem (oax : option (list Z)) (x : V) : option V :=
    let r := length (shape x) in
    match oax with
    | None => Some (reduce (seq 0 r) x)
    | Some ax => option_map (fun S => reduce (eff r S) x) (norm_axes r ax)
    end.
  Hypothesis Hrm1 : forall op ats x, op_type op = "ReduceMean"%string -> kd_of ats = Some 1 ->
    sem op ats [x] = option_map (fun y => [y]) (red_sem (ax_of ats) x).
  Hypothesis Hrm2 : forall op ats x a ax, op_type op = "ReduceMean"%string -> kd_of ats = Some 1 -> denoteZ a = Some ax ->
    sem op ats [x; a] = option_map (fun y => [y]) (red_sem (Some ax) x).

  Notation evalg := (eval V sem).
  Notation stepg := (step V sem).

  Lemma red_sem_teq oax x x' y : teq x x' -> red_sem oax x = Some y -> exists y', red_sem oax x' = Some y' /\ teq y y'.
  Proof.
    intros Ht H. unfold red_sem in *. rewrite <- (proj1 Ht). destruct oax as [ax|].
    - destruct (norm_axes (length (shape x)) ax) as [S|]; [|discriminate]. simpl in *. injection H as <-. eexists. split; [reflexivity|]. now apply red_teq.
    - injection H as <-. eexists. split; [reflexivity|]. now apply red_teq.
  Qed.

  Lemma map_seq_perm p : map (fun a => nth a p 0) (seq 0 (length p)) = p.
  Proof.
    apply nth_ext with (d := 0) (d' := 0); [now rewrite map_length, seq_length|]. intros i Hi. rewrite map_length, seq_length in Hi.
    rewrite (nth_indep _ 0 (nth 0 p 0)) by (now rewrite map_length, seq_length).
    change (nth 0 p 0) with ((fun a => nth a p 0) 0). rewrite map_nth. now rewrite seq_nth.
  Qed.

  (* THE LAW, instantiated with the arithmetic of the pass *)
  Theorem red_law p x oax y : is_perm p -> length p = length (shape x) -> red_sem oax (transpose p x) = Some y ->
    match oax with
    | None => exists y', red_sem None x = Some y' /\ teq y (transpose p y') /\ length (shape y') = length p
    | Some ax => exists l y', map_axes p ax = Some l /\ red_sem (Some (map Z.of_nat (sort_nat l))) x = Some y' /\
                              teq y (transpose p y') /\ length (shape y') = length p
    end.
  Proof.
    intros Hp Hl H. unfold red_sem in H. cbn [transpose shape] in H. rewrite gather_length in H.
    assert (Hseq : Forall (fun a => a < length p) (seq 0 (length p))) by (apply Forall_forall; intros a Ha; apply in_seq in Ha; lia).
    assert (Hpset : forall a, In a p <-> In a (seq 0 (length p))).
    { intro a. rewrite in_seq. split; [intro Ha; destruct Hp as [_ Hlt]; rewrite Forall_forall in Hlt; specialize (Hlt a Ha); lia | intros [_ Ha]; now apply perm_In]. }
    destruct oax as [ax|].
    - destruct (norm_axes (length p) ax) as [S|] eqn:En; [|discriminate]. simpl in H. injection H as <-.
      set (l := map (fun a => nth a p 0) S).
      assert (Hm : map_axes p ax = Some l) by (apply map_axes_norm; eauto).
      pose proof (norm_axes_lt _ _ _ En) as HS.
      assert (Hl_lt : Forall (fun k => k < length p) (sort_nat l)).
      { apply Forall_forall. intros k Hk. apply (proj1 (sort_nat_In _ _)) in Hk. unfold l in Hk. apply in_map_iff in Hk as (a & <- & Ha).
        rewrite Forall_forall in HS. destruct Hp as [_ Hlt]. rewrite Forall_forall in Hlt. apply Hlt. apply nth_In. now apply HS. }
      exists l. unfold red_sem. rewrite <- Hl, (norm_axes_nat _ _ Hl_lt). simpl. eexists. split; [exact Hm|]. split; [reflexivity|].
      split; [|rewrite red_rank; now symmetry].
      assert (Heff : Forall (fun a => a < length p) (eff (length p) S)) by (unfold eff; destruct S; auto).
      eapply teq_trans; [apply (red_transpose p (eff (length p) S) x Hp Hl Heff)|].
      apply transpose_teq; auto; [unfold rank; now rewrite red_rank|]. apply red_set. intro a.
      unfold eff. destruct S as [|s0 S'].
      + simpl. rewrite map_seq_perm. apply Hpset.
      + destruct (sort_nat l) as [|k0 lr] eqn:Esl.
        * apply sort_nat_nil in Esl. unfold l in Esl. discriminate.
        * rewrite <- Esl. rewrite sort_nat_In. reflexivity.
    - injection H as <-. unfold red_sem. rewrite <- Hl. eexists. split; [reflexivity|]. split; [|rewrite red_rank; now symmetry].
      eapply teq_trans; [apply (red_transpose p (seq 0 (length p)) x Hp Hl Hseq)|].
      apply transpose_teq; auto; [unfold rank; now rewrite red_rank|]. apply red_set. intro a. rewrite map_seq_perm. apply Hpset.
  Qed.

  (* ---------------------------------------------------------------- what a positive decision establishes *)
  Definition axes_ok (g : rgraphT) (red : node) (p : list nat) (rrest : list name) (axs : axes_src) : Prop :=
    match axs with
    | AxNone => rrest = [] /\ ax_of (n_attrs red) = None
    | AxAttr l => rrest = [] /\ exists ax l0, ax_of (n_attrs red) = Some ax /\ map_axes p ax = Some l0 /\ l = sort_nat l0
    | AxInput l => exists a0 rr ax l0, rrest = a0 :: rr /\ rt_const g a0 = Some ax /\ map_axes p ax = Some l0 /\ l = sort_nat l0
    end.

  Lemma decide_tr_facts g T2 a : decide_tr g T2 = Some a ->
    exists p q xin rin rrest ro src,
      ra_T2 a = T2 /\ is_T T2 = true /\ n_ins T2 = [xin] /\ n_outs T2 <> [] /\
      producer (rt_nodes g) xin = Some (ra_red a) /\ is_rm (ra_red a) = true /\ n_ins (ra_red a) = rin :: rrest /\
      producer (rt_nodes g) rin = Some (ra_T1 a) /\ is_T (ra_T1 a) = true /\ perm_of (ra_T1 a) = Some p /\ perm_of T2 = Some q /\
      inv_ok p q = true /\ kd_of (n_attrs (ra_red a)) = Some 1 /\ axes_ok g (ra_red a) p rrest (ra_axes a) /\
      out1 (ra_red a) = Some ro /\ first_in (ra_T1 a) = Some src /\ robserved g ro = false /\
      (forall m, In m (rt_nodes g) -> In ro (n_ins m) -> m = T2) /\
      n_caps (ra_red a) = [] /\ length (n_ins (ra_red a)) <= 2.
  Proof.
    unfold decide_tr. intro H. destruct (is_T T2) eqn:ET2; [|discriminate]. cbn [negb] in H.
    destruct (n_ins T2) as [|xin [|]] eqn:Hi2; try discriminate. destruct (n_outs T2) as [|o2 or2] eqn:Ho2; [discriminate|].
    destruct (producer (rt_nodes g) xin) as [red|] eqn:Ered; [|discriminate].
    destruct (is_rm red) eqn:Erm; [|discriminate]. cbn [negb] in H.
    destruct (n_ins red) as [|rin rrest] eqn:Hir; [discriminate|].
    destruct (producer (rt_nodes g) rin) as [T1|] eqn:ET1p; [|discriminate].
    destruct (is_T T1) eqn:ET1; [|discriminate]. cbn [negb] in H.
    destruct (perm_of T1) as [p|] eqn:Ep; [|discriminate]. destruct (perm_of T2) as [q|] eqn:Eq; [|discriminate].
    destruct (inv_ok p q) eqn:Einv; [|discriminate]. cbn [negb] in H.
    destruct (rm_keepdims red) as [[|[|k]]|] eqn:Ekd; try discriminate.
    match type of H with match ?X with Some axs => _ | None => None end = _ => destruct X as [axs|] eqn:Eax; [|discriminate] end.
    destruct (out1 red) as [ro|] eqn:Ero; [|discriminate]. destruct (first_in T1) as [src|] eqn:Esrc; [|discriminate].
    match type of H with (if ?c then _ else _) = _ => destruct c eqn:Ecnd; [discriminate|] end.
    apply orb_false_iff in Ecnd as [Ecnd Hlen]. apply orb_false_iff in Ecnd as [Eobs Hcaps]. apply negb_false_iff in Hcaps.
    apply Nat.ltb_ge in Hlen.
    destruct (consumers (rt_nodes g) ro) as [|c [|]] eqn:Ec; try discriminate.
    destruct (node_eqb c T2) eqn:Ecn; [|discriminate]. injection H as <-. apply node_eqb_eq in Ecn. subst c.
    exists p, q, xin, rin, rrest, ro, src. cbn [ra_T1 ra_red ra_T2 ra_axes]. repeat split; auto.
    - discriminate.
    - unfold axes_ok. destruct rrest as [|a0 rr].
      + unfold rm_axes_attr in Eax. fold (ax_of (n_attrs red)) in Eax. destruct (ax_of (n_attrs red)) as [ax|] eqn:Eat.
        * destruct (map_axes p ax) as [l0|] eqn:Em; [|discriminate]. injection Eax as <-. split; auto. exists ax, l0. auto.
        * injection Eax as <-. auto.
      + destruct (rt_const g a0) as [ax|] eqn:Ec0; [|discriminate]. destruct (map_axes p ax) as [l0|] eqn:Em; [|discriminate].
        injection Eax as <-. exists a0, rr, ax, l0. auto.
    - intros m Hm Hr. apply (consumers_single _ _ _ _ Ec Hm Hr).
    - unfold no_caps in Hcaps. destruct (n_caps red); [reflexivity|discriminate].
    - rewrite Hir. exact Hlen.
  Qed.

  (* ---------------------------------------------------------------- one rewrite, in an environment that already holds the new initializer *)
  Lemma max_name_ge g x : In x (rt_outputs g) \/ (exists n, In n (rt_nodes g) /\ In x (n_ins n ++ n_caps n ++ n_outs n)) -> x <= max_name g.
  Proof.
    intro H. unfold max_name.
    assert (Hin : In x (rt_outputs g ++ flat_map (fun n => n_ins n ++ n_caps n ++ n_outs n) (rt_nodes g))).
    { apply in_or_app. destruct H as [H|(n & Hn & Hx)]; [now left | right; apply in_flat_map; eauto]. }
    clear H. simpl. generalize (pred (rt_next g)). induction (rt_outputs g ++ _) as [|y l IH]; intro k0; [contradiction|]. simpl.
    destruct Hin as [->|Hin]; [lia | specialize (IH Hin k0); simpl in IH; lia].
  Qed.

  Lemma next_le_max g : pred (rt_next g) <= max_name g.
  Proof. unfold max_name. simpl. apply Nat.le_max_l. Qed.

  Definition mentioned (g : rgraphT) (x : name) : Prop :=
    In x (rt_outputs g) \/ (exists n, In n (rt_nodes g) /\ In x (n_ins n ++ n_caps n ++ n_outs n)).
  Lemma max_name_le g B : pred (rt_next g) <= B -> (forall x, mentioned g x -> x <= B) -> max_name g <= B.
  Proof.
    intros Hnx H. unfold max_name. simpl. apply Nat.max_lub; [exact Hnx|].
    assert (Hall : forall x, In x (rt_outputs g ++ flat_map (fun n => n_ins n ++ n_caps n ++ n_outs n) (rt_nodes g)) -> x <= B).
    { intros x Hx. apply H. apply in_app_or in Hx as [Hx|Hx]; [now left | right; apply in_flat_map in Hx as (n & Hn & Hx); eauto]. }
    clear H Hnx. induction (rt_outputs g ++ _) as [|y l IH]; simpl; [lia|].
    assert (y <= B) by (apply Hall; now left). assert (fold_right Nat.max 0 l <= B) by (apply IH; intros; apply Hall; now right). lia.
  Qed.

  Section RAction.
    Variables (g : rgraphT) (a : raction) (e ef : env V).
    Variables (p q : list nat) (xin rin : name) (rrest : list name) (ro src : name).
    Let T1 := ra_T1 a. Let red := ra_red a. Let T2 := ra_T2 a.
    Hypothesis Hssa : ssa V (rt_nodes g) e.
    Hypothesis Hev : evalg (rt_nodes g) e = Some ef.
    Hypothesis Hconst : forall x l v, x <= max_name g -> rt_const g x = Some l -> ef x = Some v -> denoteZ v = Some l.
    Hypothesis HT2in : In T2 (rt_nodes g).
    Hypothesis HT2 : is_T T2 = true. Hypothesis Hi2 : n_ins T2 = [xin].
    Hypothesis Hpx : producer (rt_nodes g) xin = Some red. Hypothesis Hrm : is_rm red = true.
    Hypothesis Hir : n_ins red = rin :: rrest. Hypothesis HpT1 : producer (rt_nodes g) rin = Some T1.
    Hypothesis HT1 : is_T T1 = true. Hypothesis Hp1 : perm_of T1 = Some p. Hypothesis Hp2 : perm_of T2 = Some q.
    Hypothesis Hinvok : inv_ok p q = true. Hypothesis Hkd : kd_of (n_attrs red) = Some 1.
    Hypothesis Hax : axes_ok g red p rrest (ra_axes a).
    Hypothesis Hro : out1 red = Some ro. Hypothesis Hsrc : first_in T1 = Some src.
    Hypothesis Hobs : robserved g ro = false.
    Hypothesis Hcons : forall m, In m (rt_nodes g) -> In ro (n_ins m) -> m = T2.
    Hypothesis Hcaps : n_caps red = []. Hypothesis Hlen : length (n_ins red) <= 2.
    Let fresh := S (max_name g).
    Hypothesis Hfresh : match ra_axes a with
                        | AxInput l => exists vnew, e fresh = Some vnew /\ denoteZ vnew = Some (map Z.of_nat l)
                        | _ => True end.

    Lemma Hnd : NoDup (defs (rt_nodes g)). Proof. exact (proj1 Hssa). Qed.
    Lemma Hinv : is_inverse p q. Proof. exact (proj1 (inv_ok_perms p q Hinvok)). Qed.
    Lemma Hp : is_perm p. Proof. exact (proj1 (proj2 (inv_ok_perms p q Hinvok))). Qed.
    Lemma Hq : is_perm q. Proof. exact (proj2 (proj2 (inv_ok_perms p q Hinvok))). Qed.
    Lemma Hredin : In red (rt_nodes g). Proof. exact (proj1 (producer_spec _ _ _ Hpx)). Qed.
    Lemma HT1in : In T1 (rt_nodes g). Proof. exact (proj1 (producer_spec _ _ _ HpT1)). Qed.

    Lemma rT_final n perm : In n (rt_nodes g) -> is_T n = true -> perm_of n = Some perm ->
      exists u y x vy, n_uses n = [u] /\ n_outs n = [y] /\ ef u = Some x /\ ef y = Some vy /\ teq vy (transpose perm x) /\ length perm = length (shape x).
    Proof.
      intros Hn HT Hpp. destruct (eval_consistent V sem _ _ _ n Hssa Hev Hn) as (vs & o & Hl & Hs & Hlo).
      destruct (tnode_val A sem Htr n perm vs o HT Hpp Hs) as (x & vy & -> & -> & Hteq & Hlen0).
      destruct (n_uses n) as [|u [|u2 r]] eqn:Eu; simpl in Hl; try discriminate.
      2:{ destruct (ef u); [|discriminate]. destruct (ef u2); [|discriminate]. destruct (lookups V ef r); discriminate. }
      destruct (ef u) as [x0|] eqn:Ex; [|discriminate]. injection Hl as ->.
      destruct (n_outs n) as [|y [|y2 r]] eqn:Eo; simpl in Hlo; try discriminate.
      2:{ destruct (ef y); [|discriminate]. destruct (ef y2); [|discriminate]. destruct (lookups V ef r); discriminate. }
      destruct (ef y) as [vy0|] eqn:Ey; [|discriminate]. injection Hlo as ->.
      exists u, y, x, vy. split; [reflexivity|]. split; [reflexivity|]. split; [exact Ex|]. split; [exact Ey|]. split; [exact Hteq | exact Hlen0].
    Qed.

    (* the shape of the three nodes in a run that succeeds *)
    Lemma T1_shape : exists t xs tv, n_ins T1 = [src] /\ n_caps T1 = [] /\ n_outs T1 = [t] /\ rin = t /\ ef src = Some xs /\ ef t = Some tv /\
      teq tv (transpose p xs) /\ length p = length (shape xs).
    Proof.
      destruct (rT_final T1 p HT1in HT1 Hp1) as (u & y & x & vy & Eu & Eo & Ex & Ey & Ht & Hl).
      unfold first_in in Hsrc. unfold n_uses in Eu. destruct (n_ins T1) as [|i0 ir] eqn:Ei; [discriminate|]. simpl in Hsrc. injection Hsrc as ->.
      simpl in Eu. injection Eu as <- Eu. apply app_eq_nil in Eu as [-> Ec].
      assert (Hry : rin = y).
      { pose proof (proj2 (producer_spec _ _ _ HpT1)) as Hr. fold T1 in Hr. rewrite Eo in Hr. destruct Hr as [E|[]]. now symmetry. }
      exists y, x, vy. split; [reflexivity|]. split; [exact Ec|]. split; [exact Eo|]. split; [exact Hry|]. split; [exact Ex|].
      split; [exact Ey|]. split; [exact Ht | exact Hl].
    Qed.
    Lemma T2_shape : exists t2o rv v2, n_caps T2 = [] /\ n_outs T2 = [t2o] /\ ef xin = Some rv /\ ef t2o = Some v2 /\
      teq v2 (transpose q rv) /\ length q = length (shape rv).
    Proof.
      destruct (rT_final T2 q HT2in HT2 Hp2) as (u & y & x & vy & Eu & Eo & Ex & Ey & Ht & Hl).
      unfold n_uses in Eu. rewrite Hi2 in Eu. simpl in Eu. injection Eu as <- Ec. exists y, x, vy.
      split; [exact Ec|]. split; [exact Eo|]. split; [exact Ex|]. split; [exact Ey|]. split; [exact Ht | exact Hl].
    Qed.

    Definition old_axes : option (list Z) :=
      match rrest with a0 :: _ => rt_const g a0 | [] => ax_of (n_attrs red) end.
    Definition new_axes : option (list Z) :=
      match ra_axes a with AxNone => None | AxAttr l => Some (map Z.of_nat l) | AxInput l => Some (map Z.of_nat l) end.

    Lemma red_shape : exists tv yv, ef rin = Some tv /\ n_outs red = [ro] /\ xin = ro /\ ef ro = Some yv /\ red_sem old_axes tv = Some yv /\
      (rrest = [] \/ exists a0, rrest = [a0]).
    Proof.
      destruct (eval_consistent V sem _ _ _ red Hssa Hev Hredin) as (vs & o & Hl & Hs & Hlo).
      unfold n_uses in Hl. rewrite Hir, Hcaps, app_nil_r in Hl.
      assert (Hop : op_type (n_op red) = "ReduceMean"%string) by (unfold is_rm, nop in Hrm; now apply String.eqb_eq in Hrm).
      assert (Hone : forall y, o = [y] -> n_outs red = [ro] /\ xin = ro /\ ef ro = Some y).
      { intros y ->. unfold out1 in Hro. destruct (n_outs red) as [|o1 [|o2 orr]] eqn:Eo; simpl in Hlo, Hro; try discriminate.
        - injection Hro as ->. destruct (ef ro) as [v|] eqn:Er; [|discriminate]. injection Hlo as ->.
          repeat split; auto. pose proof (proj2 (producer_spec _ _ _ Hpx)) as Hx. rewrite Eo in Hx. destruct Hx as [E|[]]. now symmetry.
        - destruct (ef o1); [|discriminate]. destruct (ef o2); [|discriminate]. destruct (lookups V ef orr); discriminate. }
      rewrite Hir in Hlen. simpl in Hlen. unfold old_axes. unfold axes_ok in Hax.
      destruct rrest as [|a0 [|a1 rr]]; [| |simpl in Hlen; lia].
      - simpl in Hl. destruct (ef rin) as [tv|] eqn:Et; [|discriminate]. injection Hl as <-.
        rewrite (Hrm1 _ _ tv Hop Hkd) in Hs. destruct (red_sem (ax_of (n_attrs red)) tv) as [yv|] eqn:Er; [|discriminate]. simpl in Hs. injection Hs as <-.
        destruct (Hone yv eq_refl) as (H1 & H2 & H3). exists tv, yv. repeat split; auto.
      - destruct (ra_axes a) as [|l|l]; try (destruct Hax as [Hc _]; discriminate).
        destruct Hax as (a0' & rr & ax & l0 & Er0 & Hc0 & _). injection Er0 as <- <-.
        simpl in Hl. destruct (ef rin) as [tv|] eqn:Et; [|discriminate]. destruct (ef a0) as [av|] eqn:Ea; [|discriminate]. injection Hl as <-.
        assert (Hb : a0 <= max_name g).
        { apply max_name_ge. right. exists red. split; [exact Hredin|]. apply in_or_app. left. rewrite Hir. right. now left. }
        rewrite (Hrm2 _ _ tv av ax Hop Hkd (Hconst a0 ax av Hb Hc0 Ea)) in Hs. rewrite Hc0.
        destruct (red_sem (Some ax) tv) as [yv|] eqn:Er; [|discriminate]. simpl in Hs. injection Hs as <-.
        destruct (Hone yv eq_refl) as (H1 & H2 & H3). exists tv, yv. repeat split; auto. right. eauto.
    Qed.

    (* the law applied to this reducer: the folded reducer accepts T1's source and yields the un-transposed result *)
    Lemma red_new xs xs' tv yv : ef src = Some xs -> teq tv (transpose p xs) -> length p = length (shape xs) -> teq xs xs' ->
      red_sem old_axes tv = Some yv ->
      exists y', red_sem new_axes xs' = Some y' /\ tfull p yv y'.
    Proof.
      intros Exs Htv Hl Hxx Hr.
      destruct (red_sem_teq _ _ _ _ Htv Hr) as (y2 & Hr2 & Hy2).
      pose proof (red_law p xs old_axes y2 Hp Hl Hr2) as Hlaw.
      assert (Hnew : exists y1, red_sem new_axes xs = Some y1 /\ teq y2 (transpose p y1) /\ length (shape y1) = length p).
      { unfold old_axes, new_axes in *. unfold axes_ok in Hax. destruct (ra_axes a) as [|l|l].
        - destruct Hax as [-> Hat]. rewrite Hat in Hlaw. exact Hlaw.
        - destruct Hax as [-> (ax & l0 & Hat & Hm & ->)]. rewrite Hat in Hlaw. destruct Hlaw as (l1 & y1 & Hm1 & H1 & H2 & H3).
          rewrite Hm in Hm1. injection Hm1 as <-. eauto.
        - destruct Hax as (a0 & rr & ax & l0 & -> & Hc0 & Hm & ->). rewrite Hc0 in Hlaw. destruct Hlaw as (l1 & y1 & Hm1 & H1 & H2 & H3).
          rewrite Hm in Hm1. injection Hm1 as <-. eauto. }
      destruct Hnew as (y1 & Hr1 & Ht1 & Hl1). destruct (red_sem_teq _ _ _ _ Hxx Hr1) as (y' & Hr' & Hy').
      exists y'. split; auto. split.
      - eapply teq_trans; [exact Hy2|]. eapply teq_trans; [exact Ht1|]. apply transpose_teq; [exact Hp | unfold rank; now symmetry | exact Hy'].
      - rewrite <- (proj1 Hy'). exact Hl1.
    Qed.

    (* ---- the rewritten node list as [map trn (filter keepb ns)] *)
    Definition t2o : name := hd 0 (n_outs T2).
    Definition rhoR : name -> name := rn t2o ro.
    Definition relR (x : name) (v w : V) : Prop := if Nat.eqb x ro then tfull p v w else teq v w.
    Definition red' : node :=
      match ra_axes a with
      | AxNone => mkNode (n_op red) (n_attrs red) (src :: tl (n_ins red)) (n_caps red) (n_outs red)
      | AxAttr l => mkNode (n_op red) (match n_attrs red with kd :: _ => kd :: 1 :: map (fun k => 2 * k) l | [] => [] end)
                           (src :: tl (n_ins red)) (n_caps red) (n_outs red)
      | AxInput l => mkNode (n_op red) (n_attrs red) (src :: fresh :: tl (tl (n_ins red))) (n_caps red) (n_outs red)
      end.
    Definition trn (n : node) : node := subst_node t2o ro (if node_eqb n red then red' else n).
    Definition keepb (n : node) : bool := negb (leqb (n_outs n) (n_outs T2)).
    Definition const' : name -> option (list Z) :=
      match ra_axes a with
      | AxInput l => fun x => if Nat.eqb x fresh then Some (map Z.of_nat l) else rt_const g x
      | _ => rt_const g
      end.

    Lemma red'_outs : n_outs red' = n_outs red.
    Proof. unfold red'. destruct (ra_axes a); reflexivity. Qed.
    Lemma trn_outs n : n_outs (trn n) = n_outs n.
    Proof. unfold trn. destruct (node_eqb n red) eqn:E; cbn [subst_node n_outs]; [rewrite red'_outs; apply node_eqb_eq in E; now subst | reflexivity]. Qed.

    Lemma T2_outs : n_outs T2 = [t2o].
    Proof. destruct T2_shape as (y & rv & v2 & _ & Eo & _). unfold t2o. rewrite Eo. reflexivity. Qed.

    Definition next' : name := match ra_axes a with AxInput _ => S fresh | _ => rt_next g end.
    Lemma apply_tr_eq : apply_tr_env g a = mkRT (map trn (filter keepb (rt_nodes g))) (map rhoR (rt_outputs g)) const' next'.
    Proof.
      unfold apply_tr_env. fold T1 red T2. rewrite Hsrc, Hro. unfold out1. rewrite T2_outs. cbn [hd_error]. fold fresh.
      cbn [replace_all_uses g_nodes g_outputs]. fold next'. f_equal.
      rewrite map_map. fold red'.
      assert (Hgen : forall l, filter (fun n => negb (leqb (n_outs n) [t2o])) (map (fun x => subst_node t2o ro (if node_eqb x red then red' else x)) l)
                               = map trn (filter keepb l)).
      { induction l as [|n l IH]; [reflexivity|]. cbn [map filter]. fold (trn n). rewrite trn_outs. unfold keepb at 1. rewrite T2_outs.
        destruct (negb (leqb (n_outs n) [t2o])); cbn [map]; now rewrite IH. }
      apply Hgen.
    Qed.

    (* names *)
    Lemma ro_ne_t2o : ro <> t2o.
    Proof.
      destruct red_shape as (_ & _ & _ & _ & Exin & _). 
      apply (use_ne_def A sem (rt_nodes g) e ef T2 ro t2o Hssa Hev HT2in).
      - unfold n_uses. rewrite Hi2, Exin. now left.
      - rewrite T2_outs. now left.
    Qed.
    Lemma rho_ro : rhoR ro = ro.
    Proof. unfold rhoR, rn. destruct (Nat.eqb_spec ro t2o) as [E|_]; [destruct (ro_ne_t2o E) | reflexivity]. Qed.
    Lemma rho_other x : x <> t2o -> rhoR x = x.
    Proof. intro H. unfold rhoR, rn. destruct (Nat.eqb_spec x t2o); [contradiction | reflexivity]. Qed.
    Lemma rho_t2o : rhoR t2o = ro.
    Proof. unfold rhoR, rn. now rewrite Nat.eqb_refl. Qed.
    Lemma rel_other x v w : x <> ro -> relR x v w <-> teq v w.
    Proof. intro H. unfold relR. destruct (Nat.eqb_spec x ro); [contradiction | tauto]. Qed.
    Lemma rel_ro v w : relR ro v w <-> tfull p v w.
    Proof. unfold relR. rewrite Nat.eqb_refl. tauto. Qed.

    Lemma outs_T2 n : In n (rt_nodes g) -> In t2o (n_outs n) -> n = T2.
    Proof. intros Hn Hy. apply (defs_unique (rt_nodes g) n T2 t2o Hnd Hn HT2in Hy). rewrite T2_outs. now left. Qed.
    Lemma outs_red n : In n (rt_nodes g) -> In ro (n_outs n) -> n = red.
    Proof.
      intros Hn Hy. destruct red_shape as (_ & _ & _ & Eo & _). apply (defs_unique (rt_nodes g) n red ro Hnd Hn Hredin Hy). rewrite Eo. now left.
    Qed.
    Lemma keepb_false n : In n (rt_nodes g) -> keepb n = false -> n = T2.
    Proof.
      intros Hn Hk. unfold keepb in Hk. apply negb_false_iff in Hk. apply leqb_eq in Hk. apply outs_T2; auto. rewrite Hk, T2_outs. now left.
    Qed.
    Lemma keepb_T2 : keepb T2 = false.
    Proof. unfold keepb. apply negb_false_iff. unfold leqb. generalize (n_outs T2). induction l as [|x l IH]; simpl; [reflexivity | now rewrite Nat.eqb_refl]. Qed.

    Lemma rel_list_teq xs vs ws : ~ In ro xs -> rel_list V relR xs vs ws -> Forall2 teq vs ws.
    Proof.
      intros Hn H. induction H as [|x v w xs vs ws Hr _ IH]; constructor.
      - apply (rel_other x); auto. intro E. apply Hn. now left.
      - apply IH. intro Hi. apply Hn. now right.
    Qed.
    Lemma teq_rel_list : forall ys o o', ~ In ro ys -> length o = length ys -> Forall2 teq o o' -> rel_list V relR ys o o'.
    Proof.
      induction ys as [|y ys IH]; intros o o' Hn Hl H.
      - destruct o; [|discriminate]. inversion H; subst. constructor.
      - destruct o as [|v o]; [discriminate|]. inversion H as [|? w ? o2 Hvw Hr]; subst. constructor.
        + apply rel_other; auto. intro E. apply Hn. now left.
        + apply IH; auto. intro Hi. apply Hn. now right.
    Qed.

    Lemma not_obs_caps m : In m (rt_nodes g) -> ~ In ro (n_caps m).
    Proof.
      intros Hm Hc. unfold robserved in Hobs. apply orb_false_iff in Hobs as [_ H2].
      assert (Ht : existsb (fun m0 => mem ro (n_caps m0)) (rt_nodes g) = true) by (apply existsb_exists; exists m; split; auto; now apply mem_In).
      congruence.
    Qed.
    Lemma not_obs_out : ~ In ro (rt_outputs g).
    Proof. intro Hc. unfold robserved in Hobs. apply orb_false_iff in Hobs as [H1 _]. apply mem_In in Hc. congruence. Qed.

    (* ---- the per-node obligations *)
    Lemma tr_node_step pre n post em em' e1 :
      rt_nodes g = pre ++ n :: post -> evalg pre e = Some em -> (forall x v, em x = Some v -> ef x = Some v) ->
      rinv V rhoR relR em em' -> stepg em n = Some e1 -> (forall x v, e1 x = Some v -> ef x = Some v) ->
      if keepb n then exists e1', stepg em' (trn n) = Some e1' /\ rinv V rhoR relR e1 e1' else rinv V rhoR relR e1 em'.
    Proof.
      intros Hsplit Hpre Hle Hi Hs Hle1.
      assert (Hn : In n (rt_nodes g)) by (rewrite Hsplit; apply in_or_app; right; now left).
      destruct (fresh_at V sem _ _ _ _ _ _ Hssa Hsplit Hpre) as [Hfr HndO].
      destruct T1_shape as (t & xs & tv & Ei1 & Ec1 & Eo1 & Erin & Exs & Etv & Htv & Hlp).
      destruct T2_shape as (t2o' & rv & v2 & Ec2 & Eo2 & Erv & Ev2 & Hv2 & Hlq).
      destruct red_shape as (tv0 & yv & Etv0 & Eor & Exin & Eyv & Hred & Hrr).
      assert (Et2 : t2o' = t2o) by (pose proof T2_outs as H; rewrite Eo2 in H; now injection H). subst t2o'.
      pose proof Hir as Hir'. rewrite Erin in Hir'. pose proof Hi2 as Hi2'. rewrite Exin in Hi2'.
      rewrite Erin, Etv in Etv0. injection Etv0 as <-.
      destruct (keepb n) eqn:Ek.
      - destruct (node_eqb n red) eqn:Enr.
        + (* the reducer *)
          apply node_eqb_eq in Enr. subst n.
          assert (Htrn : trn red = subst_node t2o ro red') by (unfold trn; now rewrite node_eqb_refl).
          rewrite Htrn.
          (* at this point of the run: t and src are defined, ro and t2o are not *)
          assert (Hemt : em t = Some tv).
          { pose proof (step_reads A sem em red e1 t Hs) as Hd. unfold n_uses in Hd. rewrite Hir' in Hd. specialize (Hd (or_introl eq_refl)).
            destruct (em t) as [tv1|] eqn:E1; [|congruence]. pose proof (Hle _ _ E1) as E2. congruence. }
          assert (Hemro : em ro = None) by (apply Hfr; rewrite Eor; now left).
          assert (Hemt2 : em t2o = None).
          { destruct (em t2o) as [a2|] eqn:E2; [|reflexivity]. exfalso.
            refine (avail_from_producer V sem (rt_nodes g) e T2 ro t2o Hssa HT2in _ _ pre (red :: post) em a2 Hsplit Hpre E2 Hemro).
            - unfold n_uses. rewrite Hi2'. now left.
            - rewrite T2_outs. now left. }
          assert (Hemsrc : em src = Some xs).
          { assert (Hd : em src <> None).
            { refine (avail_from_producer V sem (rt_nodes g) e T1 src t Hssa HT1in _ _ pre (red :: post) em tv Hsplit Hpre Hemt).
              - unfold n_uses. rewrite Ei1. now left.
              - rewrite Eo1. now left. }
            destruct (em src) as [x1|] eqn:E1; [|congruence]. pose proof (Hle _ _ E1) as E2. congruence. }
          assert (Hsrc_t2 : src <> t2o) by (intro E; rewrite E in Hemsrc; congruence).
          assert (Hsrc_ro : src <> ro) by (intro E; rewrite E in Hemsrc; congruence).
          destruct (proj1 Hi src xs Hemsrc) as (w & Ew & Hrw). rewrite (rho_other src Hsrc_t2) in Ew. apply (rel_other src) in Hrw; [|exact Hsrc_ro].
          assert (Hop : op_type (n_op red) = "ReduceMean"%string) by (unfold is_rm, nop in Hrm; now apply String.eqb_eq in Hrm).
          destruct (red_new xs w tv yv Exs Htv Hlp Hrw Hred) as (y' & Hnew & Hfull).
          apply (rinv_kept_step_gen2 V teq sem rhoR relR em em' red (subst_node t2o ro red') e1 Hi Hs).
          * cbn [subst_node n_outs]. apply red'_outs.
          * intros y Hy. rewrite Eor in Hy. destruct Hy as [<-|[]]. apply rho_ro.
          * exact Hfr.
          * exact HndO.
          * intros vs o Hl Hsem Hlen0.
            assert (Ho : o = [yv]).
            { unfold step in Hs. destruct (lookups V em (n_uses red)) as [vs0|] eqn:El0; [|discriminate].
              assert (vs0 = vs) by congruence. subst vs0. rewrite Hsem, Eor in Hs. rewrite Eor in Hlen0.
              destruct o as [|y0 [|]]; try discriminate. simpl in Hs. injection Hs as <-.
              pose proof (Hle1 ro y0) as H1. unfold upds, upd in H1. simpl in H1. unfold upd in H1. rewrite Nat.eqb_refl in H1. specialize (H1 eq_refl). congruence. }
            subst o.
            assert (Hrl : rel_list V relR (n_outs red) [yv] [y']).
            { rewrite Eor. constructor; [now apply rel_ro | constructor]. }
            unfold n_uses. cbn [subst_node n_ins n_caps n_op n_attrs].
            assert (Hcaps' : n_caps red' = []) by (unfold red'; destruct (ra_axes a); exact Hcaps). rewrite Hcaps'. cbn [map]. rewrite app_nil_r.
            unfold new_axes in Hnew. unfold axes_ok in Hax. unfold red'. unfold red' in Hcaps'.
            destruct (ra_axes a) as [|l|l] eqn:Eax.
            -- destruct Hax as [Hr0 Hat]. cbn [n_ins n_op n_attrs]. rewrite Hir', Hr0. cbn [tl map]. fold (rhoR src). rewrite (rho_other src Hsrc_t2).
               exists [w], [y']. split; [simpl; now rewrite Ew|]. split; [|exact Hrl].
               rewrite (Hrm1 _ _ w Hop Hkd), Hat, Hnew. reflexivity.
            -- destruct Hax as [Hr0 (ax & l0 & Hat & Hm & Hl0)]. cbn [n_ins n_op n_attrs]. rewrite Hir', Hr0. cbn [tl map]. fold (rhoR src). rewrite (rho_other src Hsrc_t2).
               exists [w], [y']. split; [simpl; now rewrite Ew|]. split; [|exact Hrl].
               destruct (n_attrs red) as [|kd ar] eqn:Eat; [discriminate|].
               assert (Hkd' : kd_of (kd :: 1 :: map (fun k => 2 * k) l) = Some 1) by exact Hkd.
               rewrite (Hrm1 _ _ w Hop Hkd'). cbn [ax_of]. rewrite map_map.
               rewrite (map_ext (fun k => dec_z (2 * k)) Z.of_nat dec_z_even). rewrite Hnew. reflexivity.
            -- destruct Hax as (a0 & rr & ax & l0 & Hr0 & Hc0 & Hm & Hl0). cbn [n_ins n_op n_attrs]. rewrite Hir', Hr0. cbn [tl map].
               destruct Hrr as [Hrr|[a1 Hrr]]; [congruence|]. rewrite Hr0 in Hrr. injection Hrr as <- ->. cbn [map].
               fold (rhoR src) (rhoR fresh). rewrite (rho_other src Hsrc_t2).
               assert (Hft2 : fresh <> t2o).
               { intro E. assert (Hb : t2o <= max_name g).
                 { apply max_name_ge. right. exists T2. split; [exact HT2in|]. apply in_or_app. right. apply in_or_app. right. rewrite T2_outs. now left. }
                 unfold fresh in E. lia. }
               assert (Hfro : fresh <> ro).
               { intro E. assert (Hb : ro <= max_name g).
                 { apply max_name_ge. right. exists red. split; [exact Hredin|]. apply in_or_app. right. apply in_or_app. right. rewrite Eor. now left. }
                 unfold fresh in E. lia. }
               rewrite (rho_other fresh Hft2).
               destruct Hfresh as (vnew & Evn & Hdn).
               assert (Hemf : em fresh = Some vnew).
               { apply (eval_mono V sem pre e em fresh vnew Hpre Evn). intro Hin.
                 assert (Hin' : In fresh (defs (rt_nodes g))) by (rewrite Hsplit; unfold defs in *; rewrite flat_map_app; apply in_or_app; now left).
                 unfold defs in Hin'. apply in_flat_map in Hin' as (m & Hm0 & Hy).
                 assert (Hb : fresh <= max_name g) by (apply max_name_ge; right; exists m; split; auto; apply in_or_app; right; apply in_or_app; now right).
                 unfold fresh in Hb. lia. }
               destruct (proj1 Hi fresh vnew Hemf) as (wf & Ewf & Hrf). rewrite (rho_other fresh Hft2) in Ewf. apply (rel_other fresh) in Hrf; [|exact Hfro].
               exists [w; wf], [y']. split; [simpl; now rewrite Ew, Ewf|]. split; [|exact Hrl].
               assert (Hdw : denoteZ wf = Some (map Z.of_nat l)) by (rewrite <- (denote_teq _ _ Hrf); exact Hdn).
               rewrite (Hrm2 _ _ w wf _ Hop Hkd Hdw), Hnew. reflexivity.
        + (* any other kept node: all operands and results are equivalent *)
          assert (Hne : n <> red) by (intro E; subst n; rewrite node_eqb_refl in Enr; discriminate).
          assert (HneT : n <> T2) by (intro E; subst n; rewrite keepb_T2 in Ek; discriminate).
          assert (Htrn : trn n = subst_map rhoR n) by (unfold trn; rewrite Enr; reflexivity). rewrite Htrn.
          assert (Huses : ~ In ro (n_uses n)).
          { unfold n_uses. intro Hin. apply in_app_or in Hin as [Hin|Hin]; [apply HneT; now apply Hcons | exact (not_obs_caps n Hn Hin)]. }
          assert (Houts : ~ In ro (n_outs n)) by (intro Hin; apply Hne; now apply outs_red).
          apply (rinv_kept_step V teq sem rhoR relR em em' n e1 Hi Hs).
          * intros y Hy. apply rho_other. intro E. subst y. apply HneT. now apply outs_T2.
          * exact Hfr.
          * exact HndO.
          * intros vs vs' o Hl Hl' Hrl Hsem Hlen0. pose proof (rel_list_teq _ _ _ Huses Hrl) as Hteq.
            destruct (sem_proper _ _ _ _ _ Hteq Hsem) as (o' & Hsem' & Ho'). exists o'. split; [exact Hsem'|].
            apply teq_rel_list; auto.
      - (* T2 is dropped: its result is already there *)
        pose proof (keepb_false n Hn Ek) as E. subst n.
        apply (rinv_dropped_step V sem rhoR relR em em' T2 t2o e1 Hi Hs T2_outs).
        + apply Hfr. rewrite T2_outs. now left.
        + intros vs v Hl Hsem.
          destruct (tnode_val A sem Htr T2 q vs [v] HT2 Hp2 Hsem) as (x & y & -> & Hy & Hteq & Hlx). injection Hy as <-.
          unfold n_uses in Hl. rewrite Hi2', Ec2 in Hl. simpl in Hl. destruct (em ro) as [rv1|] eqn:Er; [|discriminate]. injection Hl as ->.
          destruct (proj1 Hi ro x Er) as (w & Ew & Hrw). rewrite rho_ro in Ew. apply rel_ro in Hrw. destruct Hrw as [Hxw Hlw].
          exists w. rewrite rho_t2o. split; [exact Ew|]. apply rel_other; [intro E; exact (ro_ne_t2o (eq_sym E))|].
          eapply teq_trans; [exact Hteq|]. eapply teq_trans.
          * apply transpose_teq; [exact Hq | unfold rank; exact Hlx | exact Hxw].
          * apply transpose_inverse; [exact Hp | exact Hq | unfold rank; now symmetry | exact Hinv].
    Qed.

    Hypothesis Hrmc : rt_const g ro = None.

    Lemma rinv_start : rinv V rhoR relR e e.
    Proof.
      split; [|auto]. intros x v Hx.
      assert (Hnd0 : ~ In x (defs (rt_nodes g))) by (intro Hin; rewrite (proj2 Hssa x Hin) in Hx; discriminate).
      assert (Hx2 : x <> t2o).
      { intro E. apply Hnd0. unfold defs. apply in_flat_map. exists T2. split; [exact HT2in|]. rewrite T2_outs, E. now left. }
      assert (Hxr : x <> ro).
      { intro E. apply Hnd0. unfold defs. apply in_flat_map. exists red. split; [exact Hredin|].
        destruct red_shape as (_ & _ & _ & Eo & _). rewrite Eo, E. now left. }
      exists v. rewrite (rho_other x Hx2). split; [exact Hx|]. apply rel_other; [exact Hxr | apply teq_refl].
    Qed.

    Lemma tr_env : exists ef', evalg (rt_nodes (apply_tr_env g a)) e = Some ef' /\ rinv V rhoR relR ef ef'.
    Proof.
      rewrite apply_tr_eq. cbn [rt_nodes].
      apply (sim_env V sem (rinv V rhoR relR) keepb trn (rt_nodes g) e ef Hssa rinv_start Hev).
      intros pre n post em em' e1 Hsplit Hpre Hle Hi Hs Hle1. exact (tr_node_step pre n post em em' e1 Hsplit Hpre Hle Hi Hs Hle1).
    Qed.

    Lemma tr_ssa : ssa V (rt_nodes (apply_tr_env g a)) e.
    Proof. rewrite apply_tr_eq. cbn [rt_nodes]. apply (ssa_sim V keepb trn (rt_nodes g) e trn_outs Hssa). Qed.

    Lemma tr_run o : run V sem (rt_graph g) e = Some o ->
      exists o', run V sem (rt_graph (apply_tr_env g a)) e = Some o' /\ Forall2 teq o o'.
    Proof.
      unfold run, rt_graph. cbn [g_nodes g_outputs]. rewrite Hev. intro Hl.
      destruct tr_env as (ef' & Hev' & Hi). rewrite Hev'. rewrite apply_tr_eq. cbn [rt_outputs].
      destruct (rinv_lookups V rhoR relR ef ef' _ _ Hi Hl) as (o' & Hl' & Hrl). exists o'. split; [exact Hl'|].
      exact (rel_list_teq _ _ _ not_obs_out Hrl).
    Qed.

    Lemma mentioned_new x : mentioned (apply_tr_env g a) x -> mentioned g x \/ (x = fresh /\ exists l, ra_axes a = AxInput l).
    Proof.
      assert (Hro_m : mentioned g ro).
      { right. exists red. split; [exact Hredin|]. destruct red_shape as (_ & _ & _ & Eo & _). rewrite Eo. apply in_or_app. right. apply in_or_app. right. now left. }
      assert (Hsrc_m : mentioned g src).
      { right. exists T1. split; [exact HT1in|]. destruct T1_shape as (t & xs & tv & Ei1 & _). rewrite Ei1. now left. }
      assert (Hrho : forall y, mentioned g y -> mentioned g (rhoR y)).
      { intros y Hy. unfold rhoR, rn. destruct (Nat.eqb y t2o); auto. }
      rewrite apply_tr_eq. unfold mentioned at 1. cbn [rt_outputs rt_nodes]. intros [Hx|(n' & Hn' & Hx)].
      - left. apply in_map_iff in Hx as (y & <- & Hy). apply Hrho. now left.
      - apply in_map_iff in Hn' as (n & <- & Hn). apply filter_In in Hn as [Hn _].
        assert (Hnm : forall y, In y (n_ins n ++ n_caps n ++ n_outs n) -> mentioned g y) by (intros y Hy; right; eauto).
        unfold trn in Hx. destruct (node_eqb n red) eqn:Enr.
        + apply node_eqb_eq in Enr. subst n. cbn [subst_node n_ins n_caps n_outs] in Hx. rewrite red'_outs in Hx.
          apply in_app_or in Hx as [Hx|Hx].
          * apply in_map_iff in Hx as (y & <- & Hy).
            assert (Hy' : mentioned g y \/ (y = fresh /\ exists l, ra_axes a = AxInput l)).
            { unfold red' in Hy. destruct (ra_axes a) as [|l|l] eqn:Eax; cbn [n_ins] in Hy.
              - destruct Hy as [<-|Hy]; [now left|]. left. apply Hnm. apply in_or_app. left. destruct (n_ins red); [contradiction | now right].
              - destruct Hy as [<-|Hy]; [now left|]. left. apply Hnm. apply in_or_app. left. destruct (n_ins red); [contradiction | now right].
              - destruct Hy as [<-|[<-|Hy]]; [now left | right; eauto |]. left. apply Hnm. apply in_or_app. left.
                destruct (n_ins red) as [|i0 [|i1 ir]]; try contradiction. right. now right. }
            destruct Hy' as [Hy'|[-> Hl]]; [left; now apply Hrho|]. right. split; [|exact Hl].
            unfold rhoR, rn. destruct (Nat.eqb_spec fresh t2o) as [E|_]; [|reflexivity]. exfalso.
            assert (Hb : t2o <= max_name g).
            { apply max_name_ge. right. exists T2. split; [exact HT2in|]. apply in_or_app. right. apply in_or_app. right. rewrite T2_outs. now left. }
            unfold fresh in E. lia.
          * left. apply in_app_or in Hx as [Hx|Hx].
            -- apply in_map_iff in Hx as (y & <- & Hy). apply Hrho. apply Hnm. apply in_or_app. right. apply in_or_app. left.
               unfold red' in Hy. destruct (ra_axes a); exact Hy.
            -- apply Hnm. apply in_or_app. right. apply in_or_app. now right.
        + left. cbn [subst_node n_ins n_caps n_outs] in Hx. apply in_app_or in Hx as [Hx|Hx].
          * apply in_map_iff in Hx as (y & <- & Hy). apply Hrho. apply Hnm. apply in_or_app. now left.
          * apply in_app_or in Hx as [Hx|Hx].
            -- apply in_map_iff in Hx as (y & <- & Hy). apply Hrho. apply Hnm. apply in_or_app. right. apply in_or_app. now left.
            -- apply Hnm. apply in_or_app. right. apply in_or_app. now right.
    Qed.

    Lemma tr_const ef' x l v : evalg (rt_nodes (apply_tr_env g a)) e = Some ef' -> x <= max_name (apply_tr_env g a) ->
      rt_const (apply_tr_env g a) x = Some l -> ef' x = Some v -> denoteZ v = Some l.
    Proof.
      intros Hev' Hb Hc Hx. destruct tr_env as (ef0 & Hev0 & Hi). rewrite Hev' in Hev0. injection Hev0 as <-.
      destruct red_shape as (_ & _ & _ & Eor & _). pose proof Hfresh as Hfresh0.
      assert (Hbound : max_name (apply_tr_env g a) <= match ra_axes a with AxInput _ => fresh | _ => max_name g end).
      { apply max_name_le; [rewrite apply_tr_eq; cbn [rt_next]; unfold next'; pose proof (next_le_max g); destruct (ra_axes a); simpl; lia|].
        intros y Hy. destruct (mentioned_new y Hy) as [Hm|[-> (l0 & El)]].
        - assert (y <= max_name g) by (apply max_name_ge; exact Hm). destruct (ra_axes a); unfold fresh; lia.
        - rewrite El. lia. }
      rewrite apply_tr_eq in Hc. cbn [rt_const] in Hc. unfold const' in Hc.
      assert (Hmain : x <= max_name g -> rt_const g x = Some l -> denoteZ v = Some l).
      { intros Hxb Hcx.
        assert (Hd : ef x <> None) by (apply (proj2 Hi); congruence).
        destruct (ef x) as [v0|] eqn:Ex; [|congruence].
        assert (Hxr : x <> ro) by (intro E; subst x; congruence).
        assert (Hx2 : x <> t2o).
        { intro E. subst x. assert (Hnone : ef' t2o = None).
          { apply (eval_undefined V sem _ _ _ t2o Hev').
            - apply (proj2 Hssa). unfold defs. apply in_flat_map. exists T2. split; [exact HT2in|]. rewrite T2_outs. now left.
            - rewrite apply_tr_eq. cbn [rt_nodes]. unfold defs. intro Hin. apply in_flat_map in Hin as (n' & Hn' & Hy).
              apply in_map_iff in Hn' as (n & <- & Hn). apply filter_In in Hn as [Hn Hk]. rewrite trn_outs in Hy.
              rewrite (outs_T2 n Hn Hy) in Hk. rewrite keepb_T2 in Hk. discriminate. }
          congruence. }
        destruct (proj1 Hi x v0 Ex) as (w & Ew & Hr). rewrite (rho_other x Hx2) in Ew. apply (rel_other x) in Hr; [|exact Hxr].
        assert (w = v) by congruence. subst w. rewrite <- (denote_teq _ _ Hr). exact (Hconst x l v0 Hxb Hcx Ex). }
      destruct (ra_axes a) as [|l0|l0] eqn:Eax; [apply Hmain; auto; lia | apply Hmain; auto; lia |].
      destruct (Nat.eqb_spec x fresh) as [E|Hne].
      - injection Hc as <-. subst x. destruct Hfresh0 as (vnew & Evn & Hdn).
        assert (Hef : ef fresh = Some vnew).
        { apply (eval_mono V sem _ e ef fresh vnew Hev Evn). intro Hin. unfold defs in Hin. apply in_flat_map in Hin as (m & Hm0 & Hy).
          assert (Hb2 : fresh <= max_name g) by (apply max_name_ge; right; exists m; split; auto; apply in_or_app; right; apply in_or_app; now right).
          unfold fresh in Hb2. lia. }
        assert (Hft2 : fresh <> t2o).
        { intro E. assert (Hb2 : t2o <= max_name g).
          { apply max_name_ge. right. exists T2. split; [exact HT2in|]. apply in_or_app. right. apply in_or_app. right. rewrite T2_outs. now left. }
          unfold fresh in E. lia. }
        assert (Hfro : fresh <> ro).
        { intro E. assert (Hb2 : ro <= max_name g).
          { apply max_name_ge. right. exists red. split; [exact Hredin|]. rewrite Eor. apply in_or_app. right. apply in_or_app. right. now left. }
          unfold fresh in E. lia. }
        destruct (proj1 Hi fresh vnew Hef) as (w & Ew & Hr). rewrite (rho_other fresh Hft2) in Ew. apply (rel_other fresh) in Hr; [|exact Hfro].
        assert (w = v) by congruence. subst w. rewrite <- (denote_teq _ _ Hr). exact Hdn.
      - apply Hmain; auto. unfold fresh in *. lia.
    Qed.

    (* the values of the rewritten run, name by name: the reducer's output now holds what T2's output held, every other
       name an equivalent value *)
    Lemma tr_frame ef' y a' : evalg (rt_nodes (apply_tr_env g a)) e = Some ef' -> ef' y = Some a' ->
      (y = ro /\ exists v, ef t2o = Some v /\ teq v a') \/ (y <> ro /\ exists v, ef y = Some v /\ teq v a').
    Proof.
      intros Hev' Hy. destruct tr_env as (ef0 & Hev0 & Hi). rewrite Hev' in Hev0. injection Hev0 as <-.
      destruct (Nat.eq_dec y ro) as [->|Hne].
      - left. split; [reflexivity|]. destruct T2_shape as (t2o' & rv & v2 & _ & Eo2 & _ & Ev2 & _).
        assert (Et2 : t2o' = t2o) by (pose proof T2_outs as H; rewrite Eo2 in H; now injection H). subst t2o'.
        destruct (proj1 Hi t2o v2 Ev2) as (w & Ew & Hr). rewrite rho_t2o in Ew. apply rel_other in Hr; [|intro E; exact (ro_ne_t2o (eq_sym E))].
        exists v2. split; [exact Ev2|]. congruence.
      - right. split; [exact Hne|].
        assert (Hd : ef y <> None) by (apply (proj2 Hi); congruence).
        destruct (ef y) as [v0|] eqn:Ey; [|congruence].
        assert (Hy2 : y <> t2o).
        { intro E. subst y. assert (Hnone : ef' t2o = None).
          { apply (eval_undefined V sem _ _ _ t2o Hev').
            - apply (proj2 Hssa). unfold defs. apply in_flat_map. exists T2. split; [exact HT2in|]. rewrite T2_outs. now left.
            - rewrite apply_tr_eq. cbn [rt_nodes]. unfold defs. intro Hin. apply in_flat_map in Hin as (n' & Hn' & Hyo).
              apply in_map_iff in Hn' as (n & <- & Hn). apply filter_In in Hn as [Hn Hk]. rewrite trn_outs in Hyo.
              rewrite (outs_T2 n Hn Hyo) in Hk. rewrite keepb_T2 in Hk. discriminate. }
          congruence. }
        destruct (proj1 Hi y v0 Ey) as (w & Ew & Hr). rewrite (rho_other y Hy2) in Ew. apply (rel_other y) in Hr; [|exact Hne].
        exists v0. split; [reflexivity|]. congruence.
    Qed.

    Lemma tr_rm : (forall n y, In n (rt_nodes g) -> is_rm n = true -> In y (n_outs n) -> rt_const g y = None) ->
      forall n y, In n (rt_nodes (apply_tr_env g a)) -> is_rm n = true -> In y (n_outs n) -> rt_const (apply_tr_env g a) y = None.
    Proof.
      intros Hold n' y Hn' Hr Hy. rewrite apply_tr_eq in Hn' |- *. cbn [rt_nodes rt_const] in *.
      apply in_map_iff in Hn' as (n & <- & Hn). apply filter_In in Hn as [Hn _]. rewrite trn_outs in Hy.
      assert (Hrn : is_rm n = true).
      { unfold trn in Hr. destruct (node_eqb n red) eqn:Enr.
        - apply node_eqb_eq in Enr. subst n. exact Hrm.
        - exact Hr. }
      pose proof (Hold n y Hn Hrn Hy) as Hc. unfold const'. destruct (ra_axes a) as [|l|l]; auto.
      destruct (Nat.eqb_spec y fresh) as [E|_]; [|exact Hc]. exfalso.
      assert (Hb : y <= max_name g) by (apply max_name_ge; right; exists n; split; auto; apply in_or_app; right; apply in_or_app; now right).
      unfold fresh in E. lia.
    Qed.
  End RAction.

  (* ---------------------------------------------------------------- the pass *)
  (* the converter can build the integer vector it registers as the new initializer *)
  Variable mkZ : list Z -> V.
  Hypothesis denote_mkZ : forall l, denoteZ (mkZ l) = Some l.

  (* admissible: SSA, the constant annotation [rt_const] (what _value_const_ints resolves) is true of every successful
     run, and the result of a ReduceMean is not annotated constant *)
  Record radm (g : rgraphT) (e : env V) : Prop := {
    ra_ssa : ssa V (rt_nodes g) e;
    ra_const : forall ef x l v, evalg (rt_nodes g) e = Some ef -> x <= max_name g -> rt_const g x = Some l -> ef x = Some v -> denoteZ v = Some l;
    ra_rm : forall n y, In n (rt_nodes g) -> is_rm n = true -> In y (n_outs n) -> rt_const g y = None }.

  (* the environment after one rewrite: the created initializer (if any) is added under the created name *)
  Definition ext_env (g : rgraphT) (a : raction) (e : env V) : env V :=
    match ra_axes a with AxInput l => upd V e (S (max_name g)) (mkZ (map Z.of_nat l)) | _ => e end.

  Lemma unmentioned_uses g x : max_name g < x -> forall n y, In n (rt_nodes g) -> In y (n_uses n) -> ~ In y [x].
  Proof.
    intros Hx n y Hn Hy [E|[]]. subst y. assert (Hb : x <= max_name g).
    { apply max_name_ge. right. exists n. split; auto. unfold n_uses in Hy. apply in_app_or in Hy as [Hy|Hy]; apply in_or_app; [now left | right; apply in_or_app; now left]. }
    lia.
  Qed.

  Lemma agree_upd (e : env V) x v : agree_except V [x] e (upd V e x v).
  Proof. intros y Hy. unfold upd. destruct (Nat.eqb_spec y x) as [E|_]; [exfalso; apply Hy; now left | reflexivity]. Qed.
  Lemma agree_sym dead (e e' : env V) : agree_except V dead e e' -> agree_except V dead e' e.
  Proof. intros H y Hy. symmetry. now apply H. Qed.

  Lemma radm_upd g e x v : max_name g < x -> radm g e -> radm g (upd V e x v).
  Proof.
    intros Hx [Hs Hc Hr]. split.
    - split; [exact (proj1 Hs)|]. intros y Hy. unfold upd. destruct (Nat.eqb_spec y x) as [E|_]; [|exact (proj2 Hs y Hy)]. exfalso.
      unfold defs in Hy. apply in_flat_map in Hy as (n & Hn & Hy). assert (Hb : y <= max_name g).
      { apply max_name_ge. right. exists n. split; auto. apply in_or_app. right. apply in_or_app. now right. }
      lia.
    - intros ef1 y l w Hev1 Hb Hcy Hy.
      destruct (eval_agree V sem [x] (rt_nodes g) (upd V e x v) e ef1 (agree_sym _ _ _ (agree_upd e x v)) (unmentioned_uses g x Hx) Hev1) as (ef & Hev & Hag).
      assert (Hyx : ~ In y [x]) by (intros [E|[]]; lia). rewrite (Hag y Hyx) in Hy. exact (Hc ef y l w Hev Hb Hcy Hy).
    - exact Hr.
  Qed.

  Lemma apply_tr_const g a x : (forall l, ra_axes a = AxInput l -> x <> S (max_name g)) -> rt_const (apply_tr_env g a) x = rt_const g x.
  Proof.
    intro H. unfold apply_tr_env. destruct (first_in (ra_T1 a)); [|reflexivity]. destruct (out1 (ra_red a)); [|reflexivity].
    destruct (out1 (ra_T2 a)); [|reflexivity]. cbn [rt_const]. destruct (ra_axes a) as [|l|l]; auto.
    destruct (Nat.eqb_spec x (S (max_name g))) as [E|_]; [|reflexivity]. destruct (H l eq_refl E).
  Qed.

  (* ONE REWRITE *)
  Theorem tr_action_sound g T2 a e ef : radm g e -> In T2 (rt_nodes g) -> decide_tr g T2 = Some a -> evalg (rt_nodes g) e = Some ef ->
    radm (apply_tr_env g a) (ext_env g a e) /\
    (forall o, run V sem (rt_graph g) e = Some o ->
       exists o', run V sem (rt_graph (apply_tr_env g a)) (ext_env g a e) = Some o' /\ Forall2 teq o o').
  Proof.
    intros Hadm HT2in Hdec Hev.
    destruct (decide_tr_facts g T2 a Hdec) as (p & q & xin & rin & rrest & ro & src & HeT2 & HT2 & Hi2 & Ho2 & Hpx & Hrm & Hir & HpT1 & HT1 & Hp1 & Hp2 &
      Hinvok & Hkd & Hax & Hro & Hsrc & Hobs & Hcons & Hcaps & Hlen).
    subst T2. set (e1 := ext_env g a e).
    assert (Hadm1 : radm g e1).
    { unfold e1, ext_env. destruct (ra_axes a); auto. apply radm_upd; auto. }
    assert (Hev1 : exists ef1, evalg (rt_nodes g) e1 = Some ef1 /\ agree_except V [S (max_name g)] ef ef1).
    { unfold e1, ext_env. destruct (ra_axes a) as [|l|l]; try (exists ef; split; [exact Hev | intros y _; reflexivity]).
      apply (eval_agree V sem [S (max_name g)] (rt_nodes g) e _ ef (agree_upd e _ _)); auto. apply unmentioned_uses. lia. }
    destruct Hev1 as (ef1 & Hev1 & Hag).
    assert (Hfresh : match ra_axes a with
                     | AxInput l => exists vnew, e1 (S (max_name g)) = Some vnew /\ denoteZ vnew = Some (map Z.of_nat l)
                     | _ => True end).
    { unfold e1, ext_env. destruct (ra_axes a) as [|l|l]; auto. exists (mkZ (map Z.of_nat l)). split; [|apply denote_mkZ].
      unfold upd. now rewrite Nat.eqb_refl. }
    pose proof (ra_ssa _ _ Hadm1) as Hssa1.
    assert (Hconst1 : forall x l v, x <= max_name g -> rt_const g x = Some l -> ef1 x = Some v -> denoteZ v = Some l).
    { intros x l v. exact (ra_const _ _ Hadm1 ef1 x l v Hev1). }
    assert (Hredin : In (ra_red a) (rt_nodes g)) by exact (proj1 (producer_spec _ _ _ Hpx)).
    assert (Hro_out : In ro (n_outs (ra_red a))).
    { unfold out1 in Hro. destruct (n_outs (ra_red a)); [discriminate|]. injection Hro as ->. now left. }
    assert (Hrmc : rt_const g ro = None) by exact (ra_rm _ _ Hadm1 _ ro Hredin Hrm Hro_out).
    split.
    - split.
      + eapply (tr_ssa g a e1); eassumption.
      + eapply (tr_const g a e1); eassumption.
      + eapply (tr_rm g a e1); try eassumption. exact (ra_rm _ _ Hadm1).
    - intros o Hrun.
      assert (Hrun1 : run V sem (rt_graph g) e1 = Some o).
      { unfold run, rt_graph in *. cbn [g_nodes g_outputs] in *. rewrite Hev in Hrun. rewrite Hev1. rewrite <- Hrun. symmetry.
        apply (lookups_agree V [S (max_name g)] ef ef1 _ Hag). intros y Hy [E|[]]. subst y.
        assert (Hb : S (max_name g) <= max_name g) by (apply max_name_ge; now left). lia. }
      eapply (tr_run g a e1); eassumption.
  Qed.

  (* the values of the rewritten run of ONE rewrite, name by name (for the annotations other passes read) *)
  Theorem tr_action_frame g T2 a e ef : radm g e -> In T2 (rt_nodes g) -> decide_tr g T2 = Some a -> evalg (rt_nodes g) e = Some ef ->
    exists ro t2o, out1 (ra_red a) = Some ro /\ out1 (ra_T2 a) = Some t2o /\
      forall ef' y a', evalg (rt_nodes (apply_tr_env g a)) (ext_env g a e) = Some ef' -> ef' y = Some a' ->
        (y = S (max_name g) /\ exists l, ra_axes a = AxInput l /\ a' = mkZ (map Z.of_nat l)) \/
        (y = ro /\ exists v, ef t2o = Some v /\ teq v a') \/ (y <> ro /\ exists v, ef y = Some v /\ teq v a').
  Proof.
    intros Hadm HT2in Hdec Hev.
    destruct (decide_tr_facts g T2 a Hdec) as (p & q & xin & rin & rrest & ro & src & HeT2 & HT2 & Hi2 & Ho2 & Hpx & Hrm & Hir & HpT1 & HT1 & Hp1 & Hp2 &
      Hinvok & Hkd & Hax & Hro & Hsrc & Hobs & Hcons & Hcaps & Hlen).
    subst T2. set (e1 := ext_env g a e).
    assert (Hadm1 : radm g e1).
    { unfold e1, ext_env. destruct (ra_axes a); auto. apply radm_upd; auto. }
    assert (Hev1 : exists ef1, evalg (rt_nodes g) e1 = Some ef1 /\ agree_except V [S (max_name g)] ef ef1).
    { unfold e1, ext_env. destruct (ra_axes a) as [|l|l]; try (exists ef; split; [exact Hev | intros y _; reflexivity]).
      apply (eval_agree V sem [S (max_name g)] (rt_nodes g) e _ ef (agree_upd e _ _)); auto. apply unmentioned_uses. lia. }
    destruct Hev1 as (ef1 & Hev1 & Hag).
    assert (Hfresh : match ra_axes a with
                     | AxInput l => exists vnew, e1 (S (max_name g)) = Some vnew /\ denoteZ vnew = Some (map Z.of_nat l)
                     | _ => True end).
    { unfold e1, ext_env. destruct (ra_axes a) as [|l|l]; auto. exists (mkZ (map Z.of_nat l)). split; [|apply denote_mkZ].
      unfold upd. now rewrite Nat.eqb_refl. }
    pose proof (ra_ssa _ _ Hadm1) as Hssa1.
    assert (Hconst1 : forall x l v, x <= max_name g -> rt_const g x = Some l -> ef1 x = Some v -> denoteZ v = Some l).
    { intros x l v. exact (ra_const _ _ Hadm1 ef1 x l v Hev1). }
    assert (Hredin : In (ra_red a) (rt_nodes g)) by exact (proj1 (producer_spec _ _ _ Hpx)).
    assert (Ht2o : out1 (ra_T2 a) = Some (hd 0 (n_outs (ra_T2 a)))).
    { unfold out1. destruct (n_outs (ra_T2 a)); [congruence | reflexivity]. }
    exists ro, (hd 0 (n_outs (ra_T2 a))). split; [exact Hro|]. split; [exact Ht2o|].
    intros ef' y a' Hev' Hy.
    assert (Hfr : (y = ro /\ exists v, ef1 (t2o a) = Some v /\ teq v a') \/ (y <> ro /\ exists v, ef1 y = Some v /\ teq v a')).
    { eapply (tr_frame g a e1); eassumption. }
    assert (Hfresh_defs : ~ In (S (max_name g)) (defs (rt_nodes g))).
    { intro Hin. unfold defs in Hin. apply in_flat_map in Hin as (m & Hm0 & Hyo).
      assert (Hb2 : S (max_name g) <= max_name g) by (apply max_name_ge; right; exists m; split; auto; apply in_or_app; right; apply in_or_app; now right). lia. }
    assert (Hold : forall z v, z <> S (max_name g) -> ef1 z = Some v -> ef z = Some v).
    { intros z v Hz Ez. rewrite (Hag z); [exact Ez | intros [E|[]]; congruence]. }
    assert (Ht2_ne : t2o a <> S (max_name g)).
    { intro E. assert (Hb2 : t2o a <= max_name g).
      { apply max_name_ge. right. exists (ra_T2 a). split; [exact HT2in|]. apply in_or_app. right. apply in_or_app. right.
        unfold t2o. destruct (n_outs (ra_T2 a)); [congruence | now left]. }
      lia. }
    destruct Hfr as [[-> (v & Ev & Hv)]|[Hne (v & Ev & Hv)]].
    - right. left. split; [reflexivity|]. exists v. split; [|exact Hv]. apply Hold; [exact Ht2_ne | exact Ev].
    - destruct (Nat.eq_dec y (S (max_name g))) as [->|Hyf].
      + destruct (ra_axes a) as [|l|l] eqn:Eax.
        * right. right. split; [exact Hne|]. exists v. split; [|exact Hv]. unfold e1, ext_env in Hev1. rewrite Eax in Hev1. congruence.
        * right. right. split; [exact Hne|]. exists v. split; [|exact Hv]. unfold e1, ext_env in Hev1. rewrite Eax in Hev1. congruence.
        * left. split; [reflexivity|]. exists l. split; [reflexivity|].
          (* the created name is not defined by a node of the new graph: its value is the one put in the environment *)
          assert (He' : ef' (S (max_name g)) = e1 (S (max_name g))).
          { destruct (e1 (S (max_name g))) as [vn|] eqn:E1.
            - apply (eval_mono V sem _ e1 ef' _ vn Hev' E1). intro Hin.
              pose proof (proj2 (ra_ssa _ _ (proj1 (tr_action_sound g (ra_T2 a) a e ef Hadm HT2in Hdec Hev))) _ Hin) as Hn. fold e1 in Hn. congruence.
            - unfold e1, ext_env in E1. rewrite Eax in E1. unfold upd in E1. rewrite Nat.eqb_refl in E1. discriminate. }
          rewrite Hy in He'. unfold e1, ext_env in He'. rewrite Eax in He'. unfold upd in He'. rewrite Nat.eqb_refl in He'. congruence.
      + right. right. split; [exact Hne|]. exists v. split; [|exact Hv]. apply Hold; [exact Hyf | exact Ev].
  Qed.

  (* the final environment differs from the given one only where the rewritten graph's constant annotation says what the
     value is (the initializers the pass created) *)
  Definition env_ext (g' : rgraphT) (e e' : env V) : Prop :=
    forall x, e' x = e x \/ exists l v, rt_const g' x = Some l /\ e' x = Some v /\ denoteZ v = Some l.

  Lemma env_ext_step g T2 a e0 e : decide_tr g T2 = Some a -> env_ext g e0 e -> env_ext (apply_tr_env g a) e0 (ext_env g a e).
  Proof.
    intros Hdec H x.
    destruct (decide_tr_facts g T2 a Hdec) as (p & q & xin & rin & rrest & ro & src & HeT2 & HT2 & Hi2 & Ho2 & Hpx & Hrm & Hir & HpT1 & HT1 & Hp1 & Hp2 &
      Hinvok & Hkd & Hax & Hro & Hsrc & Hobs & Hcons & Hcaps & Hlen).
    unfold ext_env. destruct (ra_axes a) as [|l|l] eqn:Eax.
    - rewrite apply_tr_const by (intros l El; congruence). apply H.
    - rewrite apply_tr_const by (intros l0 El; congruence). apply H.
    - destruct (Nat.eq_dec x (S (max_name g))) as [->|Hne].
      + right. exists (map Z.of_nat l), (mkZ (map Z.of_nat l)). split; [|split; [unfold upd; now rewrite Nat.eqb_refl | apply denote_mkZ]].
        unfold apply_tr_env. rewrite Hsrc, Hro, HeT2. unfold out1. destruct (n_outs T2) as [|o2 or2]; [congruence|]. cbn [hd_error rt_const].
        rewrite Eax. now rewrite Nat.eqb_refl.
      + rewrite apply_tr_const by (intros l0 _; exact Hne). unfold upd. destruct (Nat.eqb_spec x (S (max_name g))); [contradiction|]. apply H.
  Qed.

  (* ================================================================ THE REWRITE of the pass: the re-mapped axes are a Constant node *)
  (* a Constant node with that payload evaluates to the integer vector *)
  Hypothesis Hconstant : forall l, sem "Constant"%string (5 :: map (fun k => 2 * k) l) [] = Some [mkZ (map Z.of_nat l)].

  (* every name the environment defines is below the graph's counter (the created name is unused) *)
  Definition tight (g : rgraphT) (e : env V) : Prop := forall x, rt_next g <= x -> e x = None.

  (* a source node whose output nobody before it reads can be moved into the environment *)
  Lemma const_node_as_env pre post x op ats v (e ef : env V) : sem op ats [] = Some [v] ->
    (forall n y, In n pre -> In y (n_uses n) -> y <> x) -> ~ In x (defs pre) ->
    evalg (pre ++ post) (upd V e x v) = Some ef ->
    exists ef', evalg (pre ++ mkNode op ats [] [] [x] :: post) e = Some ef' /\ forall y, ef' y = ef y.
  Proof.
    intros Hs Hu Hd Hev. rewrite eval_app in Hev. destruct (evalg pre (upd V e x v)) as [em1|] eqn:Epre; [|discriminate].
    destruct (eval_agree V sem [x] pre (upd V e x v) e em1 (agree_sym [x] _ _ (agree_upd e x v))) as (em & Hem & Hag); auto.
    { intros n y Hn Hy [E|[]]. exact (Hu n y Hn Hy (eq_sym E)). }
    rewrite eval_app, Hem. cbn [eval]. unfold step. cbn [n_uses n_ins n_caps app lookups n_op n_attrs n_outs]. rewrite Hs. cbn [length Nat.eqb upds].
    assert (Hpt : agree_except V [] em1 (upd V em x v)).
    { intros y _. unfold upd. destruct (Nat.eqb_spec y x) as [->|Hne].
      - apply (eval_mono V sem pre (upd V e x v) em1 x v Epre); [unfold upd; now rewrite Nat.eqb_refl | exact Hd].
      - apply Hag. intros [E|[]]. congruence. }
    destruct (eval_agree V sem [] post em1 (upd V em x v) ef Hpt (fun _ _ _ _ H => H) Hev) as (ef' & Hev' & Hag').
    exists ef'. split; [exact Hev'|]. intro y. symmetry. apply Hag'. intros [].
  Qed.

  Lemma insert_before_split y c : forall ns n, NoDup (defs ns) -> In n ns -> In y (n_outs n) ->
    exists pre post, ns = pre ++ n :: post /\ insert_before y c ns = pre ++ c :: n :: post /\ ~ In n pre.
  Proof.
    unfold insert_before, defs. induction ns as [|m r IH]; intros n Hnd Hn Hy; [contradiction|]. simpl in Hnd.
    assert (Hr : NoDup (flat_map n_outs r)) by (eapply NoDup_app_r; eauto).
    destruct (existsb (Nat.eqb y) (n_outs m)) eqn:Em.
    - pose proof Em as Em'. apply existsb_exists in Em as (y' & Hy' & E). apply Nat.eqb_eq in E. subst y'.
      assert (n = m).
      { destruct Hn as [<-|Hn]; auto. exfalso. eapply (NoDup_app_disj (n_outs m)); eauto. apply in_flat_map; eauto. }
      subst m. exists [], r. cbn [flat_map app]. rewrite Em'. cbn [app]. split; [reflexivity|]. split; [|tauto]. f_equal. f_equal.
      clear - Hnd Hy. induction r as [|m r IHr]; [reflexivity|]. simpl in *.
      assert (Hnm : existsb (Nat.eqb y) (n_outs m) = false).
      { destruct (existsb (Nat.eqb y) (n_outs m)) eqn:E; auto. apply existsb_exists in E as (y' & Hy' & E). apply Nat.eqb_eq in E. subst y'.
        exfalso. eapply (NoDup_app_disj (n_outs n)); eauto. apply in_or_app. now left. }
      rewrite Hnm. simpl. f_equal. apply IHr. clear - Hnd. 
      assert (H : NoDup (n_outs n ++ flat_map n_outs r)).
      { revert Hnd. generalize (n_outs n) as l. induction l as [|a l IHl]; simpl; intro H; [eapply NoDup_app_r; eauto|].
        inversion H as [|? ? Hni Hnd']; subst. constructor; [|now apply IHl]. intro Hin. apply Hni. apply in_app_or in Hin as [Hin|Hin]; apply in_or_app; [now left | right; apply in_or_app; now right]. }
      exact H.
    - destruct Hn as [<-|Hn].
      + exfalso. assert (existsb (Nat.eqb y) (n_outs m) = true) by (apply existsb_exists; exists y; split; auto; apply Nat.eqb_refl). congruence.
      + destruct (IH n Hr Hn Hy) as (pre & post & -> & E & Hnp). exists (m :: pre), post. cbn [flat_map app]. rewrite Em, E. cbn [app]. split; [reflexivity|]. split; [reflexivity|].
        intros [E1|H]; [|contradiction]. rewrite E1 in Em.
        assert (existsb (Nat.eqb y) (n_outs n) = true) by (apply existsb_exists; exists y; split; auto; apply Nat.eqb_refl). congruence.
  Qed.

  Theorem tr_step_sound g T2 a e ef : radm g e -> tight g e -> In T2 (rt_nodes g) -> decide_tr g T2 = Some a -> evalg (rt_nodes g) e = Some ef ->
    radm (apply_tr g a) e /\ tight (apply_tr g a) e /\
    (forall o, run V sem (rt_graph g) e = Some o -> exists o', run V sem (rt_graph (apply_tr g a)) e = Some o' /\ Forall2 teq o o').
  Proof.
    intros Hadm Htight HT2in Hdec Hev.
    destruct (tr_action_sound g T2 a e ef Hadm HT2in Hdec Hev) as [Hadm' Hr].
    destruct (decide_tr_facts g T2 a Hdec) as (p & q & xin & rin & rrest & ro & src & HeT2 & HT2 & Hi2 & Ho2 & Hpx & Hrm & Hir & HpT1 & HT1 & Hp1 & Hp2 &
      Hinvok & Hkd & Hax & Hro & Hsrc & Hobs & Hcons & Hcaps & Hlen).
    assert (Hout2 : exists t2o, out1 (ra_T2 a) = Some t2o).
    { rewrite HeT2. unfold out1. destruct (n_outs T2) as [|t2o0 tr0]; [congruence|]. exists t2o0. reflexivity. }
    destruct Hout2 as [t2o Ht2o].
    assert (Hnext_env : rt_next (apply_tr_env g a) = match ra_axes a with AxInput _ => S (S (max_name g)) | _ => rt_next g end).
    { unfold apply_tr_env. rewrite Hsrc, Hro, Ht2o. reflexivity. }
    unfold apply_tr. rewrite Hsrc, Hro, Ht2o. unfold ext_env in *.
    destruct (ra_axes a) as [|l|l] eqn:Eax.
    - split; [exact Hadm'|]. split; [|exact Hr]. intros x Hx. apply Htight. rewrite Hnext_env in Hx. exact Hx.
    - split; [exact Hadm'|]. split; [|exact Hr]. intros x Hx. apply Htight. rewrite Hnext_env in Hx. exact Hx.
    - set (fresh := S (max_name g)) in *. set (gx := apply_tr_env g a) in *. set (vC := mkZ (map Z.of_nat l)) in *.
      assert (Hfresh_free : e fresh = None) by (apply Htight; pose proof (next_le_max g); unfold fresh; lia).
      pose proof (ra_ssa _ _ Hadm') as Hssa1.
      (* the reducer of the rewritten graph *)
      assert (Hred : exists n, In n (rt_nodes gx) /\ In ro (n_outs n) /\ In fresh (n_ins n)).
      { unfold gx, apply_tr_env. rewrite Hsrc, Hro, Ht2o, Eax. cbn [rt_nodes replace_all_uses g_nodes].
        exists (subst_node t2o ro (mkNode (n_op (ra_red a)) (n_attrs (ra_red a)) (src :: fresh :: tl (tl (n_ins (ra_red a)))) (n_caps (ra_red a)) (n_outs (ra_red a)))).
        assert (Hro_out : In ro (n_outs (ra_red a))) by (unfold out1 in Hro; destruct (n_outs (ra_red a)); [discriminate | injection Hro as ->; now left]).
        assert (Hft : fresh <> t2o).
        { intro E. assert (Hb : t2o <= max_name g).
          { apply max_name_ge. right. exists (ra_T2 a). split; [rewrite HeT2; exact HT2in|]. apply in_or_app. right. apply in_or_app. right.
            unfold out1 in Ht2o. destruct (n_outs (ra_T2 a)); [discriminate | injection Ht2o as ->; now left]. }
          unfold fresh in E. lia. }
        split; [|split].
        - apply filter_In. split.
          + apply in_map_iff. exists (mkNode (n_op (ra_red a)) (n_attrs (ra_red a)) (src :: fresh :: tl (tl (n_ins (ra_red a)))) (n_caps (ra_red a)) (n_outs (ra_red a))).
            split; [reflexivity|]. apply in_map_iff. exists (ra_red a). split; [now rewrite node_eqb_refl | exact (proj1 (producer_spec _ _ _ Hpx))].
          + cbn [subst_node n_outs]. apply negb_true_iff. destruct (leqb (n_outs (ra_red a)) (n_outs (ra_T2 a))) eqn:El; [|reflexivity]. exfalso.
            apply leqb_eq in El.
            assert (Ht2def : In ro (n_outs T2)) by (rewrite <- HeT2, <- El; exact Hro_out).
            pose proof (defs_unique (rt_nodes g) (ra_red a) T2 ro (proj1 (ra_ssa _ _ Hadm)) (proj1 (producer_spec _ _ _ Hpx)) HT2in Hro_out Ht2def) as E.
            rewrite E in Hrm. unfold is_rm in Hrm. unfold is_T in HT2. apply String.eqb_eq in Hrm, HT2. congruence.
        - cbn [subst_node n_outs]. exact Hro_out.
        - cbn [subst_node n_ins map]. right. left. unfold rn. destruct (Nat.eqb_spec fresh t2o); [contradiction | reflexivity]. }
      destruct Hred as (rn' & Hrn_in & Hrn_out & Hrn_fresh).
      destruct (insert_before_split ro (const_node l fresh) (rt_nodes gx) rn' (proj1 Hssa1) Hrn_in Hrn_out) as (pre & post & Hsplit & Hins & Hnpre).
      (* nobody before the reducer mentions the created name, and no node defines it *)
      assert (Hfresh_def : ~ In fresh (defs (rt_nodes gx))).
      { intro Hin. pose proof (proj2 Hssa1 fresh Hin) as Hn. unfold upd in Hn. rewrite Nat.eqb_refl in Hn. discriminate. }
      assert (Hpre_uses : forall n y, In n pre -> In y (n_uses n) -> y <> fresh).
      { intros n y Hn Hy ->.
        (* n reads the created name before the reducer: in the run of the env-version graph that is fine, but n is then the
           reducer itself (the only node mentioning the name), which is not in pre *)
        assert (Hn_in : In n (rt_nodes gx)) by (rewrite Hsplit; apply in_or_app; now left).
        unfold gx, apply_tr_env in Hn_in. rewrite Hsrc, Hro, Ht2o, Eax in Hn_in. cbn [rt_nodes replace_all_uses g_nodes] in Hn_in.
        apply filter_In in Hn_in as [Hn_in _]. apply in_map_iff in Hn_in as (n1 & <- & Hn1). apply in_map_iff in Hn1 as (n0 & <- & Hn0).
        destruct (node_eqb n0 (ra_red a)) eqn:En0.
        - apply node_eqb_eq in En0. subst n0. apply Hnpre.
          (* same node as rn': both produce ro *)
          assert (E : subst_node t2o ro (mkNode (n_op (ra_red a)) (n_attrs (ra_red a)) (src :: fresh :: tl (tl (n_ins (ra_red a)))) (n_caps (ra_red a)) (n_outs (ra_red a))) = rn').
          { apply (defs_unique (rt_nodes gx) _ rn' ro (proj1 Hssa1)); auto.
            - rewrite Hsplit. apply in_or_app. now left.
            - cbn [subst_node n_outs]. unfold out1 in Hro. destruct (n_outs (ra_red a)); [discriminate | injection Hro as ->; now left]. }
          rewrite <- E. exact Hn.
        - (* an old node: its names are old *)
          unfold n_uses in Hy. cbn [subst_node n_ins n_caps] in Hy. rewrite <- map_app in Hy. apply in_map_iff in Hy as (y0 & Ey & Hy0).
          assert (Hb0 : y0 <= max_name g).
          { apply max_name_ge. right. exists n0. split; auto. apply in_app_or in Hy0 as [H|H]; apply in_or_app; [now left | right; apply in_or_app; now left]. }
          assert (Hbro : ro <= max_name g).
          { apply max_name_ge. right. exists (ra_red a). split; [exact (proj1 (producer_spec _ _ _ Hpx))|]. apply in_or_app. right. apply in_or_app. right.
            unfold out1 in Hro. destruct (n_outs (ra_red a)); [discriminate | injection Hro as ->; now left]. }
          unfold rn in Ey. unfold fresh in Ey. destruct (Nat.eqb y0 t2o); lia. }
      assert (Hpre_def : ~ In fresh (defs pre)).
      { intro Hin. apply Hfresh_def. rewrite Hsplit. unfold defs in *. rewrite flat_map_app. apply in_or_app. now left. }
      assert (Hsim : forall ef1, evalg (rt_nodes gx) (upd V e fresh vC) = Some ef1 ->
                exists ef2, evalg (insert_before ro (const_node l fresh) (rt_nodes gx)) e = Some ef2 /\ forall y, ef2 y = ef1 y).
      { intros ef1 Hev1. rewrite Hins. rewrite Hsplit in Hev1.
        exact (const_node_as_env pre (rn' :: post) fresh "Constant"%string _ vC e ef1 (Hconstant l) Hpre_uses Hpre_def Hev1). }
      split; [|split].
      + (* admissible *)
        destruct Hadm' as [_ Hcx Hrmx]. split; cbn [rt_nodes rt_const].
        * split.
          -- rewrite Hins. unfold defs. rewrite flat_map_app. cbn [flat_map const_node n_outs app].
             pose proof (proj1 Hssa1) as Hnd. rewrite Hsplit in Hnd. unfold defs in Hnd. rewrite flat_map_app in Hnd. cbn [flat_map] in Hnd.
             apply (NoDup_Add (Add_app fresh (flat_map n_outs pre) (n_outs rn' ++ flat_map n_outs post))). split; [exact Hnd|].
             intro Hin. apply Hfresh_def. rewrite Hsplit. unfold defs. rewrite flat_map_app. exact Hin.
          -- intros y Hy. rewrite Hins in Hy. unfold defs in Hy. rewrite flat_map_app in Hy. cbn [flat_map const_node n_outs app] in Hy.
             apply in_app_or in Hy as [Hy|[<-|Hy]]; [| exact Hfresh_free |].
             ++ assert (Hd : In y (defs (rt_nodes gx))) by (rewrite Hsplit; unfold defs; rewrite flat_map_app; apply in_or_app; now left).
                pose proof (proj2 Hssa1 y Hd) as Hn. unfold upd in Hn. destruct (Nat.eqb y fresh); [discriminate | exact Hn].
             ++ assert (Hd : In y (defs (rt_nodes gx))) by (rewrite Hsplit; unfold defs; rewrite flat_map_app; apply in_or_app; right; exact Hy).
                pose proof (proj2 Hssa1 y Hd) as Hn. unfold upd in Hn. destruct (Nat.eqb y fresh); [discriminate | exact Hn].
        * intros ef2 x l0 v Hev2 Hb Hc Hx.
          (* the run of the env-version graph has the same values *)
          assert (Hev1 : exists ef1, evalg (rt_nodes gx) (upd V e fresh vC) = Some ef1 /\ forall y, ef2 y = ef1 y).
          { rewrite Hins in Hev2. rewrite eval_app in Hev2. destruct (evalg pre e) as [em|] eqn:Epre; [|discriminate].
            cbn [eval] in Hev2. unfold step at 1 in Hev2. cbn [n_uses n_ins n_caps app lookups n_op n_attrs n_outs const_node] in Hev2.
            rewrite (Hconstant l) in Hev2. cbn [length Nat.eqb upds] in Hev2.
            destruct (eval_agree V sem [fresh] pre e (upd V e fresh vC) em (agree_upd e fresh vC)) as (em1 & Hem1 & Hag1); auto.
            { intros n y Hn Hy [E|[]]. exact (Hpre_uses n y Hn Hy (eq_sym E)). }
            assert (Hpt : agree_except V [] (upd V em fresh vC) em1).
            { intros y _. unfold upd. destruct (Nat.eqb_spec y fresh) as [->|Hne].
              - symmetry. apply (eval_mono V sem pre (upd V e fresh vC) em1 fresh vC Hem1); [unfold upd; now rewrite Nat.eqb_refl | exact Hpre_def].
              - apply Hag1. intros [E|[]]. congruence. }
            destruct (eval_agree V sem [] (rn' :: post) (upd V em fresh vC) em1 ef2 Hpt (fun _ _ _ _ H => H) Hev2) as (ef1 & Hev1 & Hag).
            exists ef1. split; [rewrite Hsplit, eval_app, Hem1; exact Hev1|]. intro y. apply Hag. intros []. }
          destruct Hev1 as (ef1 & Hev1 & Hsame). rewrite Hsame in Hx.
          apply (Hcx ef1 x l0 v Hev1); auto.
          (* the bound: the new graph mentions the same names *)
          eapply Nat.le_trans; [exact Hb|]. apply max_name_le.
          -- cbn [rt_next]. apply next_le_max.
          -- intros y [Hy|(n & Hn & Hy)].
             ++ apply max_name_ge. now left.
             ++ cbn [rt_nodes] in Hn. rewrite Hins in Hn. apply in_app_or in Hn as [Hn|[<-|Hn]].
                ** apply max_name_ge. right. exists n. split; auto. rewrite Hsplit. apply in_or_app. now left.
                ** cbn [const_node n_ins n_caps n_outs app] in Hy. destruct Hy as [<-|[]]. apply max_name_ge. right. exists rn'. split; auto.
                   apply in_or_app. now left.
                ** apply max_name_ge. right. exists n. split; auto. rewrite Hsplit. apply in_or_app. right. exact Hn.
        * intros n y Hn Hrmn Hy. rewrite Hins in Hn. apply in_app_or in Hn as [Hn|[<-|Hn]].
          -- apply (Hrmx n y); auto. rewrite Hsplit. apply in_or_app. now left.
          -- unfold is_rm, nop in Hrmn. vm_compute in Hrmn. discriminate.
          -- apply (Hrmx n y); auto. rewrite Hsplit. apply in_or_app. right. exact Hn.
      + intros x Hx. apply Htight. cbn [rt_next] in Hx. rewrite Hnext_env in Hx. pose proof (next_le_max g). unfold fresh in *. lia.
      + intros o Hrun. destruct (Hr o Hrun) as (o' & Hrun' & Ho'). exists o'. split; [|exact Ho'].
        unfold run in *. cbn [rt_graph g_nodes g_outputs rt_nodes rt_outputs] in *.
        destruct (evalg (rt_nodes gx) (upd V e fresh vC)) as [ef1|] eqn:Hev1; [|discriminate].
        destruct (Hsim ef1 eq_refl) as (ef2 & Hev2 & Hsame). rewrite Hev2. rewrite <- Hrun'.
        apply (lookups_agree V [] ef2 ef1). intros y _. apply Hsame. intros; tauto.
  Qed.

  (* THE PASS: plain refinement, for every graph that is admissible when the pass starts *)
  Theorem tr_pass_sound : forall fuel g e, radm g e -> tight g e -> refines V teq sem (rt_graph g) (rt_graph (tr_pass fuel g)) e.
  Proof.
    induction fuel as [|k IH]; intros g e Hadm Ht o Hrun.
    - exists o. split; [exact Hrun|]. clear. induction o; constructor; auto. apply teq_refl.
    - cbn [tr_pass]. unfold tr_step. destruct (first_some (decide_tr g) (rt_nodes g)) as [a|] eqn:Efs; cbn [option_map].
      + destruct (first_some_spec _ _ _ Efs) as (T2 & HT2in & Hdec).
        assert (Hev : exists ef, evalg (rt_nodes g) e = Some ef).
        { unfold run in Hrun. cbn [rt_graph g_nodes] in Hrun. destruct (evalg (rt_nodes g) e); [eauto | discriminate]. }
        destruct Hev as [ef Hev].
        destruct (tr_step_sound g T2 a e ef Hadm Ht HT2in Hdec Hev) as (Hadm' & Ht' & Hr).
        destruct (Hr o Hrun) as (o1 & Hrun1 & Ho1).
        destruct (IH (apply_tr g a) e Hadm' Ht' o1 Hrun1) as (o' & Hrun' & Ho').
        exists o'. split; [exact Hrun'|].
        clear - Ho1 Ho'. revert o' Ho'. induction Ho1 as [|x y l l' Hxy _ IHl]; intros o' Ho'; inversion Ho'; subst; constructor; eauto using teq_trans.
      + exists o. split; [exact Hrun|]. clear. induction o; constructor; auto. apply teq_refl.
  Qed.
End RSound.

(* ---- the statements with the hypotheses packaged *)
Definition reduce_laws (A : Type) (reduce : list nat -> tensor A -> tensor A) : Prop :=
  (forall S S' x, (forall a, In a S <-> In a S') -> teq (reduce S x) (reduce S' x)) /\
  (forall S x x', teq x x' -> teq (reduce S x) (reduce S x')) /\
  (forall p S x, is_perm p -> length p = length (shape x) -> Forall (fun a => a < length p) S ->
     teq (reduce S (transpose p x)) (transpose p (reduce (map (fun a => nth a p 0) S) x))) /\
  (forall S x, length (shape (reduce S x)) = length (shape x)).

Definition sem_reducemean_spec (A : Type) (sem : string -> list nat -> list (tensor A) -> option (list (tensor A)))
  (norm : string -> string) (denoteZ : tensor A -> option (list Z)) (reduce : list nat -> tensor A -> tensor A) : Prop :=
  (forall op ats x, norm op = "ReduceMean"%string -> kd_of ats = Some 1 ->
     sem op ats [x] = option_map (fun y => [y]) (red_sem A reduce (ax_of ats) x)) /\
  (forall op ats x a ax, norm op = "ReduceMean"%string -> kd_of ats = Some 1 -> denoteZ a = Some ax ->
     sem op ats [x; a] = option_map (fun y => [y]) (red_sem A reduce (Some ax) x)).

Theorem reduce_axes_law (A : Type) reduce : reduce_laws A reduce ->
  forall p x oax y, is_perm p -> length p = length (shape x) -> red_sem A reduce oax (transpose p x) = Some y ->
    match oax with
    | None => exists y', red_sem A reduce None x = Some y' /\ teq y (transpose p y') /\ length (shape y') = length p
    | Some ax => exists l y', map_axes p ax = Some l /\ red_sem A reduce (Some (map Z.of_nat (sort_nat l))) x = Some y' /\
                              teq y (transpose p y') /\ length (shape y') = length p
    end.
Proof. intros (H1 & H2 & H3 & H4). exact (red_law A reduce H1 H3 H4). Qed.

Theorem transpose_reduce_action_sound (A : Type) sem :
  (forall op ats vs vs' o, Forall2 teq vs vs' -> sem op ats vs = Some o -> exists o', sem op ats vs' = Some o' /\ Forall2 teq o o') ->
  sem_transpose_spec A sem op_type ->
  forall reduce, reduce_laws A reduce ->
  forall denoteZ, (forall v v', teq v v' -> denoteZ v = denoteZ v') -> sem_reducemean_spec A sem op_type denoteZ reduce ->
  forall mkZ : list Z -> tensor A, (forall l, denoteZ (mkZ l) = Some l) ->
  forall g T2 a e ef, radm A sem denoteZ g e -> In T2 (rt_nodes g) -> decide_tr g T2 = Some a ->
    eval (tensor A) sem (rt_nodes g) e = Some ef ->
    radm A sem denoteZ (apply_tr_env g a) (ext_env A mkZ g a e) /\
    (forall o, run (tensor A) sem (rt_graph g) e = Some o ->
       exists o', run (tensor A) sem (rt_graph (apply_tr_env g a)) (ext_env A mkZ g a e) = Some o' /\ Forall2 teq o o').
Proof.
  intros Hp Ht reduce (H1 & H2 & H3 & H4) denoteZ Hd (Hr1 & Hr2) mkZ Hm.
  exact (tr_action_sound A sem Hp Ht reduce H1 H2 H3 H4 denoteZ Hd Hr1 Hr2 mkZ Hm).
Qed.

Theorem transpose_reduce_action_frame (A : Type) sem :
  (forall op ats vs vs' o, Forall2 teq vs vs' -> sem op ats vs = Some o -> exists o', sem op ats vs' = Some o' /\ Forall2 teq o o') ->
  sem_transpose_spec A sem op_type ->
  forall reduce, reduce_laws A reduce ->
  forall denoteZ, (forall v v', teq v v' -> denoteZ v = denoteZ v') -> sem_reducemean_spec A sem op_type denoteZ reduce ->
  forall mkZ : list Z -> tensor A, (forall l, denoteZ (mkZ l) = Some l) ->
  forall g T2 a e ef, radm A sem denoteZ g e -> In T2 (rt_nodes g) -> decide_tr g T2 = Some a ->
    eval (tensor A) sem (rt_nodes g) e = Some ef ->
    exists ro t2o, out1 (ra_red a) = Some ro /\ out1 (ra_T2 a) = Some t2o /\
      forall ef' y a', eval (tensor A) sem (rt_nodes (apply_tr_env g a)) (ext_env A mkZ g a e) = Some ef' -> ef' y = Some a' ->
        (y = S (max_name g) /\ exists l, ra_axes a = AxInput l /\ a' = mkZ (map Z.of_nat l)) \/
        (y = ro /\ exists v, ef t2o = Some v /\ teq v a') \/ (y <> ro /\ exists v, ef y = Some v /\ teq v a').
Proof.
  intros Hp Ht reduce (H1 & H2 & H3 & H4) denoteZ Hd (Hr1 & Hr2) mkZ Hm.
  exact (tr_action_frame A sem Hp Ht reduce H1 H2 H3 H4 denoteZ Hd Hr1 Hr2 mkZ Hm).
Qed.

Definition sem_constant_spec (A : Type) (sem : string -> list nat -> list (tensor A) -> option (list (tensor A))) (mkZ : list Z -> tensor A) : Prop :=
  forall l, sem "Constant"%string (5 :: map (fun k => 2 * k) l) [] = Some [mkZ (map Z.of_nat l)].

Theorem transpose_reduce_step_sound (A : Type) sem :
  (forall op ats vs vs' o, Forall2 teq vs vs' -> sem op ats vs = Some o -> exists o', sem op ats vs' = Some o' /\ Forall2 teq o o') ->
  sem_transpose_spec A sem op_type ->
  forall reduce, reduce_laws A reduce ->
  forall denoteZ, (forall v v', teq v v' -> denoteZ v = denoteZ v') -> sem_reducemean_spec A sem op_type denoteZ reduce ->
  forall mkZ : list Z -> tensor A, (forall l, denoteZ (mkZ l) = Some l) -> sem_constant_spec A sem mkZ ->
  forall g T2 a e ef, radm A sem denoteZ g e -> tight A g e -> In T2 (rt_nodes g) -> decide_tr g T2 = Some a ->
    eval (tensor A) sem (rt_nodes g) e = Some ef ->
    radm A sem denoteZ (apply_tr g a) e /\ tight A (apply_tr g a) e /\
    (forall o, run (tensor A) sem (rt_graph g) e = Some o ->
       exists o', run (tensor A) sem (rt_graph (apply_tr g a)) e = Some o' /\ Forall2 teq o o').
Proof.
  intros Hp Ht reduce (H1 & H2 & H3 & H4) denoteZ Hd (Hr1 & Hr2) mkZ Hm Hc.
  exact (tr_step_sound A sem Hp Ht reduce H1 H2 H3 H4 denoteZ Hd Hr1 Hr2 mkZ Hm Hc).
Qed.

Theorem transpose_reduce_pass_sound (A : Type) sem :
  (forall op ats vs vs' o, Forall2 teq vs vs' -> sem op ats vs = Some o -> exists o', sem op ats vs' = Some o' /\ Forall2 teq o o') ->
  sem_transpose_spec A sem op_type ->
  forall reduce, reduce_laws A reduce ->
  forall denoteZ, (forall v v', teq v v' -> denoteZ v = denoteZ v') -> sem_reducemean_spec A sem op_type denoteZ reduce ->
  forall mkZ : list Z -> tensor A, (forall l, denoteZ (mkZ l) = Some l) -> sem_constant_spec A sem mkZ ->
  forall fuel g e, radm A sem denoteZ g e -> tight A g e ->
    refines (tensor A) teq sem (rt_graph g) (rt_graph (tr_pass fuel g)) e.
Proof.
  intros Hp Ht reduce (H1 & H2 & H3 & H4) denoteZ Hd (Hr1 & Hr2) mkZ Hm Hc.
  exact (tr_pass_sound A sem Hp Ht reduce H1 H2 H3 H4 denoteZ Hd Hr1 Hr2 mkZ Hm Hc).
Qed.

(* non-vacuity of the modelled decision: axes = [1] (attribute form) and axes = [-1] (input form, constant 9) under perm [1;0] *)
Example tr_reduce_folded_attr :
  let g := mkRT [mkNode "Transpose" [1; 1; 0] [1] [] [2]; mkNode "ReduceMean" [2; 1; 2] [2] [] [3]; mkNode "Transpose" [1; 1; 0] [3] [] [4]] [4]
               (fun _ => None) 0 in
  rt_nodes (tr_pass 5 g) = [mkNode "Transpose" [1; 1; 0] [1] [] [2]; mkNode "ReduceMean" [2; 1; 0] [1] [] [3]] /\ rt_outputs (tr_pass 5 g) = [3].
Proof. vm_compute. split; reflexivity. Qed.

Example tr_reduce_folded_input :
  let g := mkRT [mkNode "Transpose" [1; 1; 0] [1] [] [2]; mkNode "ReduceMean" [2; 0] [2; 9] [] [3]; mkNode "Transpose" [1; 1; 0] [3] [] [4]] [4]
               (fun x => if Nat.eqb x 9 then Some [(-1)%Z] else None) 0 in
  rt_nodes (tr_pass 5 g) = [mkNode "Transpose" [1; 1; 0] [1] [] [2]; mkNode "Constant" [5; 0] [] [] [10]; mkNode "ReduceMean" [2; 0] [1; 10] [] [3]] /\
  rt_outputs (tr_pass 5 g) = [3] /\
  rt_const (tr_pass 5 g) 10 = Some [0%Z].
Proof. vm_compute. repeat split; reflexivity. Qed.
