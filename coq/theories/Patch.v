(* C13 — conversion leaves the host process as it found it.

   Executable model of the converter's patch stack and its proofs.

   Anchors (the harness re-validates the model against the running code on every run, tie D of
   harness/c13.py, and probes which CODE SHAPE is running):
     jax2onnx/plugins/_patching.py        apply_patches, AssignSpec, MonkeyPatchSpec, _MISSING
     jax2onnx/plugins/plugin_system.py    apply_monkey_patches, _PATCH_STATE, plugin_binding,
                                          _activate_full_plugin_worlds_for_body, _IN_FUNCTION_BUILD
     jax2onnx/converter/conversion_api.py _activate_plugin_worlds (ExitStack), _force_jax_x64
     jax2onnx/user_interface.py           _temporary_x64

   CODE SHAPES (parameter `fixed : bool` of apply_loop / with_patches / core / amp_enter / with_amp):
     fixed = true   /repo since commit b0781c1: `owned = attr in vars(tgt)` recorded when patching, an
                    attribute that was not owned (or missing) restored by delattr (fallback setattr),
                    apply loop of apply_monkey_patches inside its try.      -> PART F: every own dict
                    restored EXACTLY for all spec lists / synchronous faults / nesting / histories,
                    with no side condition.
     fixed = false  the code before: restore = setattr(saved getattr value); apply loop outside the try.
                    -> PART L: restoration up to MATERIALISATION under no_inherited_clash and MRO
                    coherence, ref-counts only when the enter loop completes; refutations showing those
                    conditions were necessary (the defects b0781c1 repaired).

   The heap.  `own t a` is the entry of attribute `a` in the __dict__ of object `t` (module, class,
   instance).  `M t` is the list of STRICT ancestors of `t` in resolution order (type.__mro__[1:] for a
   class, type(o).__mro__ for an instance, [] for a module).  `getattr` scans t :: M t and returns the
   first own entry; `setattr` / `delattr` act on `own t` only.  The list form needs no fuel, covers
   multiple inheritance, and contains the parent-chain form of DESIGN B.3 (`chain fuel parent`, below).
   Not modelled (validated on the real targets by the harness instead): descriptors, metaclass
   fall-back of class attribute lookup, module-level __getattr__.                                    *)
From Coq Require Import List Bool Arith ZArith Lia.
Import ListNotations.

Definition target := N.
Definition attr := N.
Definition value := N.   (* binary: object identities; large ids stay cheap under vm_compute *)
Definition key := (target * attr)%type.
Definition heap := target -> attr -> option value.
Definition hierarchy := target -> list target.

Definition is_some {A} (o : option A) : bool := match o with Some _ => true | None => false end.
Definition opt_eqb (x y : option value) : bool :=
  match x, y with Some a, Some b => N.eqb a b | None, None => true | _, _ => false end.
Lemma opt_eqb_eq x y : opt_eqb x y = true <-> x = y.
Proof.
  destruct x, y; simpl; split; intro H; try discriminate; try reflexivity.
  - apply N.eqb_eq in H. now subst.
  - inversion H. apply N.eqb_refl.
Qed.

Definition key_eqb (k1 k2 : key) : bool := (fst k1 =? fst k2)%N && (snd k1 =? snd k2)%N.
Lemma key_eqb_eq k1 k2 : key_eqb k1 k2 = true <-> k1 = k2.
Proof.
  destruct k1, k2; unfold key_eqb; simpl. rewrite andb_true_iff, !N.eqb_eq.
  split; [intros [-> ->]; reflexivity | intro H; inversion H; auto].
Qed.
Definition mem (t : target) (l : list target) : bool := existsb (N.eqb t) l.
Lemma mem_In t l : mem t l = true <-> In t l.
Proof.
  unfold mem. rewrite existsb_exists. split.
  - intros [x [Hx He]]. apply N.eqb_eq in He. now subst.
  - intro H. exists t. split; [assumption | apply N.eqb_refl].
Qed.
Definition in_keys (k : key) (S : list key) : bool := existsb (key_eqb k) S.
Lemma in_keys_In k S : in_keys k S = true <-> In k S.
Proof.
  unfold in_keys. rewrite existsb_exists. split.
  - intros [x [Hx He]]. apply key_eqb_eq in He. now subst.
  - intro H. exists k. split; [assumption | now apply key_eqb_eq].
Qed.

(* ------------------------------------------------------------------ Python attribute primitives *)
Fixpoint find_attr (h : heap) (a : attr) (l : list target) : option value :=
  match l with
  | [] => None
  | u :: r => match h u a with Some v => Some v | None => find_attr h a r end
  end.

Definition py_setattr (h : heap) (t : target) (a : attr) (v : value) : heap :=
  fun u b => if (u =? t)%N && (b =? a)%N then Some v else h u b.

(* None = AttributeError (the attribute is not in the object's own dict) *)
Definition py_delattr (h : heap) (t : target) (a : attr) : option heap :=
  match h t a with
  | None => None
  | Some _ => Some (fun u b => if (u =? t)%N && (b =? a)%N then None else h u b)
  end.

Lemma set_same h t a v : py_setattr h t a v t a = Some v.
Proof. unfold py_setattr. now rewrite !N.eqb_refl. Qed.
Lemma set_other h t a v u b : (u, b) <> (t, a) -> py_setattr h t a v u b = h u b.
Proof.
  intro H. unfold py_setattr.
  destruct (u =? t)%N eqn:E1; [|reflexivity]. destruct (b =? a)%N eqn:E2; [|reflexivity].
  apply N.eqb_eq in E1. apply N.eqb_eq in E2. subst. now contradiction H.
Qed.
Lemma find_set_other_attr h t a v b l : b <> a -> find_attr (py_setattr h t a v) b l = find_attr h b l.
Proof.
  intro Hb. induction l as [|u r IH]; simpl; [reflexivity|].
  rewrite set_other by (intro E; inversion E; contradiction). now rewrite IH.
Qed.
Lemma find_set_notin h t a v b l : ~ In t l -> find_attr (py_setattr h t a v) b l = find_attr h b l.
Proof.
  induction l as [|u r IH]; simpl; intro H; [reflexivity|].
  rewrite set_other by (intro E; inversion E; subst; apply H; now left).
  rewrite IH by (intro; apply H; now right). reflexivity.
Qed.

(* ------------------------------------------------------------------ specs, faults, outcomes *)
(* MonkeyPatchSpec.make_value receives `None if orig is _MISSING else orig`; result None = it raises *)
Inductive spec :=
| Assign (t : target) (a : attr) (v : value)
| Monkey (t : target) (a : attr) (mk : option value -> option value).
Definition spec_target s := match s with Assign t _ _ | Monkey t _ _ => t end.
Definition spec_attr s := match s with Assign _ a _ | Monkey _ a _ => a end.
Definition spec_key s : key := (spec_target s, spec_attr s).
Definition new_value s (orig : option value) : option value :=
  match s with Assign _ _ v => Some v | Monkey _ _ mk => mk orig end.

(* Fault schedule of one apply_patches activation.
   BeforeSet k : an exception while applying spec k before its setattr took effect (_resolve, getattr,
                 make_value, or setattr itself raising) — the synchronous faults the code permits;
   AfterSet k  : an exception after setattr of spec k and before `applied.append` — only an
                 asynchronous exception (KeyboardInterrupt, MemoryError) can strike there;
   InBody      : the with-body raises.                                                           *)
Inductive fault := NoFault | BeforeSet (k : nat) | AfterSet (k : nat) | InBody.
Inductive outcome := Returned | Raised.
Inductive fpoint := FNone | FBefore | FAfter.
Definition fpoint_at (f : fault) (k : nat) : fpoint :=
  match f with
  | BeforeSet j => if Nat.eqb j k then FBefore else FNone
  | AfterSet j => if Nat.eqb j k then FAfter else FNone
  | _ => FNone
  end.
Definition is_in_body (f : fault) : bool := match f with InBody => true | _ => false end.
Definition sync_fault (f : fault) : Prop := match f with AfterSet _ => False | _ => True end.

(* an entry of the `applied` list: (tgt, attr, orig, owned) with orig None = _MISSING.
   CODE SHAPES.  `fixed = true` is the code since /repo commit b0781c1: `owned = attr in vars(tgt)` is
   recorded when patching and an attribute that was not owned is restored by delattr.
   `fixed = false` is the code before that commit: nothing recorded (owned behaves as True), every
   non-missing original is written back with setattr.  The harness probes which shape is running. *)
Definition frame := (target * attr * option value * bool)%type.

Section PatchCore.
Variable M : hierarchy.
Variable fixed : bool.

Definition lookup (h : heap) (t : target) (a : attr) : option value := find_attr h a (t :: M t).

(* the body of the `finally` loop *)
Definition restore1 (h : heap) (fr : frame) : heap :=
  let '(t, a, o, owned) := fr in
  match o, owned with
  | Some v, true => py_setattr h t a v                       (* else: setattr(tgt, attr, orig) *)
  | _, _ =>                                                  (* if orig is _MISSING or not owned: *)
    match py_delattr h t a with
    | Some h' => h'
    | None => match o with Some v => py_setattr h t a v | None => h end   (* except: if orig is not _MISSING: setattr *)
    end
  end.
(* `owned = s.attr in vars(tgt)` (TypeError -> True); the old code has no such flag *)
Definition owned_flag (h : heap) (t : target) (a : attr) : bool := if fixed then is_some (h t a) else true.
Definition restore_all (applied : list frame) (h : heap) : heap := fold_left restore1 (rev applied) h.
Arguments restore1 : simpl never.

(* the `for s in specs` loop of apply_patches, statement by statement *)
Fixpoint apply_loop (specs : list spec) (k : nat) (f : fault) (h : heap) (applied : list frame)
  : heap * list frame * outcome :=
  match specs with
  | [] => (h, applied, Returned)
  | s :: rest =>
    match fpoint_at f k with
    | FBefore => (h, applied, Raised)
    | fp =>
      let t := spec_target s in let a := spec_attr s in
      let orig := lookup h t a in                           (* getattr(tgt, s.attr, _MISSING) *)
      match new_value s orig with
      | None => (h, applied, Raised)                        (* make_value raised *)
      | Some v =>
        let h1 := py_setattr h t a v in                     (* setattr(tgt, s.attr, new) *)
        match fp with
        | FAfter => (h1, applied, Raised)
        | _ => apply_loop rest (S k) f h1 (applied ++ [(t, a, orig, owned_flag h t a)])   (* applied.append(...) *)
        end
      end
    end
  end.

Definition raise_now : heap -> heap * outcome := fun h => (h, Raised).
Definition body_of (f : fault) (body : heap -> heap * outcome) : heap -> heap * outcome :=
  if is_in_body f then raise_now else body.

(* with apply_patches(specs): body      (try: loop; yield   finally: reversed restore) *)
Definition with_patches (specs : list spec) (f : fault) (body : heap -> heap * outcome) (h : heap)
  : heap * outcome :=
  let '(h1, applied, oc) := apply_loop specs 0 f h [] in
  let r := match oc with Raised => (h1, Raised) | Returned => body_of f body h1 end in
  (restore_all applied (fst r), snd r).

(* ExitStack of activations (one frame per plugin_binding), innermost last *)
Fixpoint with_stack (frames : list (list spec * fault)) (body : heap -> heap * outcome)
  : heap -> heap * outcome :=
  match frames with
  | [] => body
  | (specs, f) :: rest => with_patches specs f (with_stack rest body)
  end.

(* ---- the same computation as structural recursion (one nested try/finally per spec) *)
Definition item := (spec * fpoint)%type.
Fixpoint core (items : list item) (body : heap -> heap * outcome) (h : heap) : heap * outcome :=
  match items with
  | [] => body h
  | (s, fp) :: rest =>
    match fp with
    | FBefore => (h, Raised)
    | _ =>
      let t := spec_target s in let a := spec_attr s in
      let orig := lookup h t a in
      match new_value s orig with
      | None => (h, Raised)
      | Some v =>
        let h1 := py_setattr h t a v in
        match fp with
        | FAfter => (h1, Raised)
        | _ => let r := core rest body h1 in (restore1 (fst r) (t, a, orig, owned_flag h t a), snd r)
        end
      end
    end
  end.
Fixpoint annotate (specs : list spec) (k : nat) (f : fault) : list item :=
  match specs with [] => [] | s :: rest => (s, fpoint_at f k) :: annotate rest (S k) f end.

Lemma restore_all_snoc applied fr h : restore_all (applied ++ [fr]) h = restore_all applied (restore1 h fr).
Proof. unfold restore_all. rewrite rev_app_distr. reflexivity. Qed.

Lemma loop_core : forall specs k f body h applied,
  (let '(h1, app', oc) := apply_loop specs k f h applied in
   let r := match oc with Raised => (h1, Raised) | Returned => body h1 end in
   (restore_all app' (fst r), snd r))
  = (let r := core (annotate specs k f) body h in (restore_all applied (fst r), snd r)).
Proof.
  induction specs as [|s rest IH]; intros k f body h applied; simpl.
  - reflexivity.
  - destruct (fpoint_at f k) eqn:Efp; simpl.
    + destruct (new_value s (lookup h (spec_target s) (spec_attr s))) as [v|]; simpl; [|reflexivity].
      rewrite IH. simpl. now rewrite restore_all_snoc.
    + reflexivity.
    + destruct (new_value s (lookup h (spec_target s) (spec_attr s))) as [v|]; reflexivity.
Qed.

Theorem with_patches_core specs f body h :
  with_patches specs f body h = core (annotate specs 0 f) (body_of f body) h.
Proof.
  unfold with_patches. pose proof (loop_core specs 0 f (body_of f body) h []) as L.
  destruct (apply_loop specs 0 f h []) as [[h1 app'] oc]. cbv zeta in L |- *. rewrite L.
  unfold restore_all; simpl. now destruct (core _ _ h).
Qed.

Lemma core_app l1 l2 body h : core (l1 ++ l2) body h = core l1 (core l2 body) h.
Proof.
  revert h. induction l1 as [|[s fp] r IH]; intro h; simpl; [reflexivity|].
  destruct fp; try reflexivity;
    destruct (new_value s _); try reflexivity; now rewrite IH.
Qed.

Fixpoint stack_items (frames : list (list spec * fault)) : list item :=
  match frames with
  | [] => []
  | (specs, f) :: rest => annotate specs 0 f ++ (if is_in_body f then [] else stack_items rest)
  end.
Fixpoint stack_body (frames : list (list spec * fault)) (body : heap -> heap * outcome) :=
  match frames with
  | [] => body
  | (_, f) :: rest => if is_in_body f then raise_now else stack_body rest body
  end.
Lemma core_body_ext l b1 b2 : (forall h, b1 h = b2 h) -> forall h, core l b1 h = core l b2 h.
Proof.
  intro E. induction l as [|[s fp] r IHl]; intro h; simpl; [apply E|].
  destruct fp; try reflexivity; destruct (new_value s _); try reflexivity; now rewrite IHl.
Qed.
Theorem with_stack_core frames body h :
  with_stack frames body h = core (stack_items frames) (stack_body frames body) h.
Proof.
  revert h. induction frames as [|[specs f] rest IH]; intro h; simpl; [reflexivity|].
  rewrite with_patches_core. unfold body_of.
  destruct (is_in_body f); simpl.
  - now rewrite app_nil_r.
  - rewrite core_app. now apply core_body_ext.
Qed.

End PatchCore.
Arguments restore1 : simpl never.

(* ################################################################## PART L — the code BEFORE b0781c1
   (fixed = false).  Kept because the check must stay meaningful for both code shapes and because
   the refutations below document the defects that commit repaired.                               *)
Section PatchModel.
Variable M : hierarchy.
Notation lookup := (lookup M).
Notation core := (core M false).

(* ------------------------------------------------------------------ what is restored: relation R *)
(* R S h h' : h' is h except that keys in S which h does not own may have been MATERIALISED: the own
   entry now holds what getattr used to find through the ancestors (None stays None).               *)
Definition R (S : list key) (h h' : heap) : Prop :=
  forall u b, h' u b = h u b \/ (In (u, b) S /\ h u b = None /\ h' u b = lookup h u b).

Lemma R_refl S h : R S h h.
Proof. intros u b. now left. Qed.
Lemma R_mono S S' h h' : incl S S' -> R S h h' -> R S' h h'.
Proof. intros Hi HR u b. destruct (HR u b) as [E|[I [N L]]]; [now left|right; auto]. Qed.

Definition body_materializes_only (Sb : list key) (body : heap -> heap * outcome) : Prop :=
  forall h0, R Sb h0 (fst (body h0)).
(* exact restoration of every own dict *)
Definition body_restores (body : heap -> heap * outcome) : Prop :=
  forall h0 u b, fst (body h0) u b = h0 u b.
Lemma body_restores_mat body : body_restores body -> body_materializes_only [] body.
Proof. intros H h0 u b. left. apply H. Qed.

Lemma restore1_same h t a o : restore1 h (t, a, o, true) t a = o.
Proof.
  unfold restore1. destruct o as [v|]; [apply set_same|].
  unfold py_delattr. destruct (h t a) eqn:E; [|assumption]. now rewrite !N.eqb_refl.
Qed.
Lemma del_other h t a h' u b : py_delattr h t a = Some h' -> (u, b) <> (t, a) -> h' u b = h u b.
Proof.
  unfold py_delattr. destruct (h t a); [|discriminate]. intros E H. inversion E; subst h'.
  destruct (u =? t)%N eqn:E1; [|reflexivity]. destruct (b =? a)%N eqn:E2; [|reflexivity].
  apply N.eqb_eq in E1. apply N.eqb_eq in E2. subst. now contradiction H.
Qed.
Lemma restore1_other h t a o ow u b : (u, b) <> (t, a) -> restore1 h (t, a, o, ow) u b = h u b.
Proof.
  intro H. unfold restore1.
  destruct (py_delattr h t a) as [h'|] eqn:Ed.
  - destruct o as [v|]; [destruct ow; [now apply set_other|]|]; now apply (del_other h t a).
  - destruct o as [v|]; [|destruct ow; reflexivity]. destruct ow; now apply set_other.
Qed.
Lemma lookup_owned h t a v : h t a = Some v -> lookup h t a = Some v.
Proof. intro H. unfold lookup. simpl. now rewrite H. Qed.
Lemma lookup_unowned h t a : h t a = None -> lookup h t a = find_attr h a (M t).
Proof. intro H. unfold lookup. simpl. now rewrite H. Qed.

(* ------------------------------------------------------------------ the side condition *)
(* ownership is tracked abstractly: o u b = "u owns b now".  A clash: spec (t,a) is applied while a
   LATER-applied key (u,a) — in the same activation, an inner activation, or the body — is still
   unowned and has t among its ancestors.  That later getattr then reads the patched value as its
   "original" and the unwinding writes it into own u.                                               *)
Definition owned_add (o : target -> attr -> bool) (t : target) (a : attr) : target -> attr -> bool :=
  fun u b => o u b || ((u =? t)%N && (b =? a)%N).
Definition clash_with (o' : target -> attr -> bool) (t : target) (a : attr) (k : key) : bool :=
  let (u, b) := k in (b =? a)%N && mem t (M u) && negb (o' u b).
Fixpoint clash_free (o : target -> attr -> bool) (ks inner : list key) : bool :=
  match ks with
  | [] => true
  | (t, a) :: rest =>
    let o' := owned_add o t a in
    forallb (fun k => negb (clash_with o' t a k)) (rest ++ inner) && clash_free o' rest inner
  end.
(* the clashing (patched ancestor, later unowned key) pairs, for reporting *)
Fixpoint clash_list (o : target -> attr -> bool) (ks inner : list key) : list (target * key) :=
  match ks with
  | [] => []
  | (t, a) :: rest =>
    let o' := owned_add o t a in
    map (fun k => (t, k)) (filter (clash_with o' t a) (rest ++ inner)) ++ clash_list o' rest inner
  end.
Lemma clash_list_nil o ks inner : clash_list o ks inner = [] -> clash_free o ks inner = true.
Proof.
  revert o. induction ks as [|[t a] rest IH]; intros o H; simpl in *; [reflexivity|].
  apply app_eq_nil in H. destruct H as [H1 H2]. rewrite (IH _ H2), andb_true_r.
  apply forallb_forall. intros k Hk. destruct (clash_with _ t a k) eqn:E; [|reflexivity].
  exfalso. assert (In k (filter (clash_with (owned_add o t a) t a) (rest ++ inner))) as I
    by (apply filter_In; auto).
  apply (in_map (fun k => (t, k))) in I. rewrite H1 in I. destruct I.
Qed.

Definition owned_in (h : heap) : target -> attr -> bool := fun u b => is_some (h u b).
Definition no_inherited_clash (h : heap) (specs : list spec) : bool :=
  clash_free (owned_in h) (map spec_key specs) [].
(* heap-independent variant (every key treated as unowned): what a body needs to be re-usable *)
Definition static_clash_free (ks inner : list key) : bool := clash_free (fun _ _ => false) ks inner.

Lemma clash_free_mono : forall ks inner (o1 o2 : target -> attr -> bool),
  (forall u b, o1 u b = true -> o2 u b = true) ->
  clash_free o1 ks inner = true -> clash_free o2 ks inner = true.
Proof.
  induction ks as [|[t a] rest IH]; intros inner o1 o2 Hle H; simpl in *; [reflexivity|].
  apply andb_true_iff in H. destruct H as [H1 H2]. apply andb_true_iff. split.
  - rewrite forallb_forall in *. intros k Hk. specialize (H1 k Hk).
    destruct k as [u b]. unfold clash_with in *.
    destruct ((b =? a)%N && mem t (M u)); simpl in *; [|reflexivity].
    rewrite negb_involutive in *. unfold owned_add in *.
    apply orb_true_iff in H1. apply orb_true_iff. destruct H1; [left; auto|now right].
  - apply (IH inner (owned_add o1 t a)); [|assumption].
    intros u b. unfold owned_add. rewrite !orb_true_iff. intros [E|E]; [left; auto|now right].
Qed.

Definition sync_items (items : list item) : Prop := forall s, ~ In (s, FAfter) items.
Lemma sync_annotate specs k f : sync_fault f -> sync_items (annotate specs k f).
Proof.
  intros Hf s. revert k. induction specs as [|s0 rest IH]; intro k; simpl; [tauto|].
  intros [E|I]; [|now apply (IH (S k))].
  inversion E as [[E1 E2]]. destruct f; simpl in *; try discriminate; try contradiction.
  destruct (Nat.eqb k0 k); discriminate.
Qed.

(* ------------------------------------------------------------------ main lemma *)
Lemma core_R : forall items body Sb h o,
  (forall u b, o u b = is_some (h u b)) ->
  sync_items items ->
  clash_free o (map (fun it => spec_key (fst it)) items) Sb = true ->
  body_materializes_only Sb body ->
  R (map (fun it => spec_key (fst it)) items ++ Sb) h (fst (core items body h)).
Proof.
  induction items as [|[s fp] rest IH]; intros body Sb h o Ho Hs Hc Hb.
  - simpl. apply Hb.
  - simpl in Hc. apply andb_true_iff in Hc. destruct Hc as [Hc1 Hc2].
    simpl. unfold spec_key in *. simpl in Hc1. remember (spec_target s) as t eqn:Et. remember (spec_attr s) as a eqn:Ea.
    destruct fp.
    + (* FNone *)
      destruct (new_value s (lookup h t a)) as [v|]; simpl; [|apply R_refl].
      set (h1 := py_setattr h t a v).
      assert (Ho' : forall u b, owned_add o t a u b = is_some (h1 u b)).
      { intros u b. unfold owned_add, h1, py_setattr. rewrite Ho.
        destruct ((u =? t)%N && (b =? a)%N); simpl; [apply orb_true_r|apply orb_false_r]. }
      assert (Hs' : sync_items rest) by (intros s0 I; apply (Hs s0); now right).
      specialize (IH body Sb h1 _ Ho' Hs' Hc2 Hb).
      intros u b. destruct (key_eqb (u, b) (t, a)) eqn:Ek.
      * apply key_eqb_eq in Ek. inversion Ek; subst u b. rewrite restore1_same.
        destruct (h t a) as [x|] eqn:Eh.
        -- left. now apply lookup_owned.
        -- right. split; [now left|]. split; reflexivity.
      * assert (Hne : (u, b) <> (t, a)) by (intro E; apply key_eqb_eq in E; congruence).
        rewrite restore1_other by assumption.
        destruct (IH u b) as [E|[I [N L]]].
        -- left. rewrite E. unfold h1. now apply set_other.
        -- assert (Hu : h u b = None) by (rewrite <- N; unfold h1; symmetry; now apply set_other).
           right. split; [now right|]. split; [assumption|]. rewrite L.
           rewrite forallb_forall in Hc1. specialize (Hc1 (u, b) I). simpl in Hc1.
           rewrite Ho', N in Hc1. simpl in Hc1. rewrite andb_true_r in Hc1.
           apply negb_true_iff in Hc1. unfold lookup, h1.
           destruct (N.eq_dec b a) as [Eba|Hba]; [|now apply find_set_other_attr].
           subst b. rewrite N.eqb_refl in Hc1. simpl in Hc1.
           apply find_set_notin. intros [E|I2].
           ++ subst u. now contradiction Hne.
           ++ apply mem_In in I2. congruence.
    + simpl. apply R_refl.
    + exfalso. apply (Hs s). now left.
Qed.


(* ------------------------------------------------------------------ from R to getattr-equality *)
(* MRO coherence of observer D for attribute b: every class w on D's linearisation whose entry may be
   materialised (key in S, unowned) sees through ITS OWN ancestors what D sees from w onwards.
   Always true under single inheritance (tail_coherent); can fail in a diamond.                    *)
Fixpoint coh (h : heap) (S : list key) (b : attr) (l : list target) : bool :=
  match l with
  | [] => true
  | w :: post =>
    (if in_keys (w, b) S && negb (is_some (h w b))
     then opt_eqb (find_attr h b post) (find_attr h b (M w)) else true) && coh h S b post
  end.
Definition mro_coherent (h : heap) (specs : list spec) (D : target) (b : attr) : bool :=
  coh h (map spec_key specs) b (D :: M D).

Lemma R_find S h h' b : R S h h' ->
  forall l, coh h S b l = true -> find_attr h' b l = find_attr h b l.
Proof.
  intros HR. induction l as [|w post IH]; intro Hc; simpl in *; [reflexivity|].
  apply andb_true_iff in Hc. destruct Hc as [Hc1 Hc2]. specialize (IH Hc2).
  destruct (HR w b) as [E|[I [N L]]].
  - rewrite E. destruct (h w b); [reflexivity|assumption].
  - apply in_keys_In in I. rewrite I, N in Hc1. simpl in Hc1. apply opt_eqb_eq in Hc1.
    rewrite N, L, (lookup_unowned _ _ _ N), <- Hc1.
    destruct (find_attr h b post); [reflexivity|assumption].
Qed.
Lemma R_lookup S h h' D b : R S h h' -> coh h S b (D :: M D) = true -> lookup h' D b = lookup h D b.
Proof. intros HR Hc. unfold lookup. now apply (R_find S). Qed.

Definition tail_coherent : Prop :=
  forall D pre w post, D :: M D = pre ++ w :: post -> post = M w.
Lemma coh_tail h S b : tail_coherent -> forall D, coh h S b (D :: M D) = true.
Proof.
  intros HT D.
  assert (G : forall l, (forall pre w post, l = pre ++ w :: post -> post = M w) -> coh h S b l = true).
  { induction l as [|w post IH]; intro H; simpl; [reflexivity|].
    rewrite IH.
    - rewrite andb_true_r. destruct (in_keys (w, b) S && negb (is_some (h w b))); [|reflexivity].
      apply opt_eqb_eq. now rewrite (H [] w post eq_refl).
    - intros pre w' post' E. apply (H (w :: pre) w' post'). now rewrite E. }
  apply G. intros pre w post E. now apply (HT D pre).
Qed.

(* ---- DESIGN B.3 form: single parent, fuel-bounded chain *)
Fixpoint chain (fuel : nat) (parent : target -> option target) (t : target) : list target :=
  match fuel with
  | 0 => []
  | S f => match parent t with None => [] | Some p => p :: chain f parent p end
  end.
Fixpoint lookup_parent (fuel : nat) (parent : target -> option target) (h : heap) (t : target) (a : attr)
  : option value :=
  match h t a with
  | Some v => Some v
  | None => match fuel with
            | 0 => None
            | S f => match parent t with None => None | Some p => lookup_parent f parent h p a end
            end
  end.

End PatchModel.
Arguments restore1 : simpl never.

Lemma lookup_parent_chain fuel parent h : forall t a,
  lookup_parent fuel parent h t a = lookup (chain fuel parent) h t a.
Proof.
  unfold lookup. induction fuel as [|f IH]; intros t a; simpl.
  - destruct (h t a); reflexivity.
  - destruct (h t a) eqn:E; [reflexivity|]. destruct (parent t) as [p|]; [|reflexivity].
    rewrite IH. simpl. reflexivity.
Qed.
(* fuel is sufficient when one more unit changes nothing (the chains are well-founded) *)
Lemma chain_tail_coherent fuel parent :
  (forall t, chain fuel parent t = chain (S fuel) parent t) -> tail_coherent (chain fuel parent).
Proof.
  intros Hf D pre. revert D. induction pre as [|x pre IH]; intros D w post E; simpl in E.
  - inversion E. reflexivity.
  - inversion E as [[E1 E2]]. subst x. rewrite Hf in E2. simpl in E2.
    destruct (parent D) as [p|]; [|destruct pre; discriminate].
    apply (IH p). exact E2.
Qed.

Section PatchTheorems.
Variable M : hierarchy.
Notation lookup := (lookup M).
Notation R := (R M).

(* ================================================================== THEOREMS: apply_patches *)

Lemma annotate_keys f : forall specs k,
  map (fun it : item => spec_key (fst it)) (annotate specs k f) = map spec_key specs.
Proof. induction specs as [|s r IH]; intro k; simpl; [reflexivity|]. now rewrite IH. Qed.

(* what one activation restores, at own-dict level *)
Theorem with_patches_R specs f body Sb h :
  sync_fault f ->
  clash_free M (owned_in h) (map spec_key specs) Sb = true ->
  body_materializes_only M Sb body ->
  R (map spec_key specs ++ Sb) h (fst (with_patches M false specs f body h)).
Proof.
  intros Hf Hc Hb. rewrite with_patches_core.
  pose proof (annotate_keys f specs) as Ek.
  rewrite <- (Ek 0). apply (core_R M _ _ _ _ (owned_in h)).
  - reflexivity.
  - now apply sync_annotate.
  - now rewrite Ek.
  - unfold body_of. destruct (is_in_body f); [|assumption]. intro h0. apply R_refl.
Qed.

(* MAIN: getattr is restored for every observer and attribute, for every spec list (duplicates
   allowed), every synchronous fault point and every body that leaves the own dicts as it found them *)
Theorem apply_patches_restores specs f body h :
  sync_fault f ->
  no_inherited_clash M h specs = true ->
  body_restores body ->
  forall D a, mro_coherent M h specs D a = true ->
    lookup (fst (with_patches M false specs f body h)) D a = lookup h D a.
Proof.
  intros Hf Hc Hb D a Hcoh.
  apply (R_lookup M (map spec_key specs ++ [])).
  - apply with_patches_R; [assumption|exact Hc|now apply body_restores_mat].
  - now rewrite app_nil_r.
Qed.

Corollary apply_patches_restores_single_inheritance specs f body h :
  tail_coherent M -> sync_fault f -> no_inherited_clash M h specs = true -> body_restores body ->
  forall D a, lookup (fst (with_patches M false specs f body h)) D a = lookup h D a.
Proof.
  intros HT Hf Hc Hb D a. apply apply_patches_restores; try assumption. now apply coh_tail.
Qed.

(* nesting: a body that is itself heap-restoring up to materialisation of Sb (e.g. an inner
   activation) composes, provided the outer specs do not clash with the keys the body touches *)
Theorem nested_restores specs f body Sb h :
  sync_fault f ->
  clash_free M (owned_in h) (map spec_key specs) Sb = true ->
  body_materializes_only M Sb body ->
  forall D a, coh M h (map spec_key specs ++ Sb) a (D :: M D) = true ->
    lookup (fst (with_patches M false specs f body h)) D a = lookup h D a.
Proof.
  intros Hf Hc Hb D a Hcoh. apply (R_lookup M (map spec_key specs ++ Sb)); [|assumption].
  now apply with_patches_R.
Qed.

(* an activation whose keys are statically clash-free is itself a legitimate body, on every heap *)
Theorem with_patches_composes specs f body Sb :
  sync_fault f ->
  static_clash_free M (map spec_key specs) Sb = true ->
  body_materializes_only M Sb body ->
  body_materializes_only M (map spec_key specs ++ Sb) (with_patches M false specs f body).
Proof.
  intros Hf Hc Hb h0. apply with_patches_R; try assumption.
  apply (clash_free_mono M _ _ (fun _ _ => false)); [intros; discriminate|exact Hc].
Qed.

(* the ExitStack of activations (one frame per plugin, entered in registry order) *)
Definition stack_keys (frames : list (list spec * fault)) : list key :=
  map spec_key (concat (map fst frames)).
Lemma stack_items_keys_incl frames :
  exists rest, stack_keys frames = map (fun it : item => spec_key (fst it)) (stack_items frames) ++ rest.
Proof.
  induction frames as [|[specs f] r [rest IH]]; simpl.
  - exists []. reflexivity.
  - pose proof (annotate_keys f specs) as Ek.
    unfold stack_keys in *. simpl. rewrite map_app, map_app, Ek.
    destruct (is_in_body f); simpl.
    + exists (map spec_key (concat (map fst r))). now rewrite app_nil_r.
    + exists rest. now rewrite IH, app_assoc.
Qed.
Lemma clash_free_prefix : forall ks1 ks2 o, clash_free M o (ks1 ++ ks2) [] = true -> clash_free M o ks1 [] = true.
Proof.
  induction ks1 as [|[t a] r IH]; intros ks2 o H; simpl in *; [reflexivity|].
  apply andb_true_iff in H. destruct H as [H1 H2]. apply andb_true_iff. split.
  - rewrite forallb_forall in *. intros k Hk. apply H1. rewrite app_nil_r in *.
    apply in_or_app. now left.
  - now apply (IH ks2).
Qed.
Lemma sync_stack frames : (forall sf, In sf frames -> sync_fault (snd sf)) -> sync_items (stack_items frames).
Proof.
  induction frames as [|[specs f] r IH]; intros H s; simpl; [tauto|].
  intro I. apply in_app_or in I. destruct I as [I|I].
  - apply (sync_annotate specs 0 f (H (specs, f) (or_introl eq_refl)) s I).
  - destruct (is_in_body f); [destruct I|]. apply (IH (fun sf Hsf => H sf (or_intror Hsf)) s I).
Qed.

Theorem stack_restores frames body h :
  (forall sf, In sf frames -> sync_fault (snd sf)) ->
  clash_free M (owned_in h) (stack_keys frames) [] = true ->
  body_restores body ->
  forall D a, coh M h (stack_keys frames) a (D :: M D) = true ->
    lookup (fst (with_stack M false frames body h)) D a = lookup h D a.
Proof.
  intros Hf Hc Hb D a Hcoh. rewrite with_stack_core.
  destruct (stack_items_keys_incl frames) as [rest Ek].
  apply (R_lookup M (stack_keys frames)); [|assumption].
  apply (R_mono M (map (fun it : item => spec_key (fst it)) (stack_items frames) ++ [])).
  - rewrite app_nil_r, Ek. apply incl_appl, incl_refl.
  - apply (core_R M _ _ _ _ (owned_in h)).
    + reflexivity.
    + now apply sync_stack.
    + rewrite Ek in Hc. now apply clash_free_prefix in Hc.
    + assert (G : forall fr, body_materializes_only M [] (stack_body fr body)).
      { induction fr as [|[sp f] r IH]; simpl; [now apply body_restores_mat|].
        destruct (is_in_body f); [intro h0; apply R_refl|assumption]. }
      apply G.
Qed.

(* ---- own-dict level: exactly what is and is not restored *)
(* (i) an attribute the object OWNED is restored exactly — no side condition at all *)
Lemma core_owned t a x : forall items body h,
  sync_items items ->
  (forall h0, h0 t a = Some x -> fst (body h0) t a = Some x) ->
  h t a = Some x -> fst (core M false items body h) t a = Some x.
Proof.
  induction items as [|[s fp] rest IH]; intros body h Hs Hb Hh; simpl; [now apply Hb|].
  assert (Hs' : sync_items rest) by (intros s0 I; apply (Hs s0); now right).
  destruct fp; simpl; [| assumption | exfalso; apply (Hs s); now left].
  destruct (new_value s (lookup h (spec_target s) (spec_attr s))) as [v|] eqn:En; simpl; [|assumption].
  destruct (key_eqb (t, a) (spec_target s, spec_attr s)) eqn:Ek.
  - apply key_eqb_eq in Ek. inversion Ek as [[E1 E2]]. rewrite <- E1, <- E2.
    rewrite restore1_same. now apply lookup_owned.
  - assert (Hne : (t, a) <> (spec_target s, spec_attr s)) by (intro E; apply key_eqb_eq in E; congruence).
    rewrite restore1_other by assumption. apply IH; try assumption.
    rewrite set_other by assumption. assumption.
Qed.
Theorem owned_restored_exactly specs f body h t a x :
  sync_fault f -> body_restores body -> h t a = Some x ->
  fst (with_patches M false specs f body h) t a = Some x.
Proof.
  intros Hf Hb Hh. rewrite with_patches_core. apply core_owned; try assumption.
  - now apply sync_annotate.
  - intros h0 H0. unfold body_of. destruct (is_in_body f); simpl; [assumption|]. now rewrite Hb.
Qed.
(* (ii) an attribute that did not resolve at all is absent again (restored by delattr) *)
Theorem missing_restored_exactly specs f body h t a :
  sync_fault f -> no_inherited_clash M h specs = true -> body_restores body ->
  lookup h t a = None -> fst (with_patches M false specs f body h) t a = None.
Proof.
  intros Hf Hc Hb Hl.
  assert (Hn : h t a = None).
  { destruct (h t a) eqn:E; [|reflexivity]. rewrite (lookup_owned M _ _ _ _ E) in Hl. discriminate. }
  destruct (with_patches_R specs f body [] h Hf Hc (body_restores_mat M _ Hb) t a) as [E|[_ [_ L]]].
  - now rewrite E.
  - now rewrite L.
Qed.
(* (iii) an INHERITED attribute is written into the own dict (setattr(tgt, attr, orig)): the own dict
   changes, getattr does not.  Stated as: every own entry after is the entry before or the value
   getattr found before.                                                                            *)
Theorem own_after_is_own_or_inherited specs f body h t a :
  sync_fault f -> no_inherited_clash M h specs = true -> body_restores body ->
  fst (with_patches M false specs f body h) t a = h t a \/
  (In (t, a) (map spec_key specs) /\ h t a = None /\ fst (with_patches M false specs f body h) t a = lookup h t a).
Proof.
  intros Hf Hc Hb.
  destruct (with_patches_R specs f body [] h Hf Hc (body_restores_mat M _ Hb) t a) as [E|[I [N L]]].
  - now left.
  - right. rewrite app_nil_r in I. auto.
Qed.
Theorem untouched_keys_untouched specs f body h t a :
  sync_fault f -> no_inherited_clash M h specs = true -> body_restores body ->
  ~ In (t, a) (map spec_key specs) -> fst (with_patches M false specs f body h) t a = h t a.
Proof.
  intros Hf Hc Hb Hn. destruct (own_after_is_own_or_inherited specs f body h t a Hf Hc Hb) as [E|[I _]];
    [assumption|contradiction].
Qed.

(* ================================================================== sequences of conversions *)
(* global coherence, preserved by materialisation: lets the single-activation theorem iterate *)
Definition gcoh (h : heap) (S : list key) : Prop := forall D b, coh M h S b (D :: M D) = true.
Lemma coh_tail_part h S b w post : coh M h S b (w :: post) = true -> coh M h S b post = true.
Proof. simpl. intro H. apply andb_true_iff in H. tauto. Qed.
Lemma gcoh_preserved S h h' : R S h h' -> gcoh h S -> gcoh h' S.
Proof.
  intros HR HG D b.
  assert (G : forall l, coh M h S b l = true -> coh M h' S b l = true).
  { induction l as [|w post IH]; intro Hc; [reflexivity|].
    pose proof (coh_tail_part _ _ _ _ _ Hc) as Hp. simpl in Hc |- *. rewrite (IH Hp), andb_true_r.
    destruct (in_keys (w, b) S) eqn:Ei; simpl; [|reflexivity].
    destruct (h' w b) eqn:E'; simpl; [reflexivity|].
    assert (N : h w b = None).
    { destruct (HR w b) as [E|[_ [N _]]]; [now rewrite <- E|assumption]. }
    rewrite N in Hc. simpl in Hc. apply andb_true_iff in Hc. destruct Hc as [Hc _].
    apply opt_eqb_eq in Hc. apply opt_eqb_eq.
    rewrite (R_find M S h h' b HR post Hp).
    rewrite (R_find M S h h' b HR (M w) (coh_tail_part _ _ _ _ _ (HG w b))). exact Hc. }
  apply G, HG.
Qed.
Lemma R_owned_grows S h h' u b : R S h h' -> owned_in h u b = true -> owned_in h' u b = true.
Proof.
  unfold owned_in. intros HR H. destruct (HR u b) as [E|[_ [N _]]]; [now rewrite E|].
  rewrite N in H. discriminate.
Qed.

(* a history: each conversion is an ExitStack of activations with its own fault schedule *)
Fixpoint run_history (hist : list (list (list spec * fault))) (body : heap -> heap * outcome) (h : heap) : heap :=
  match hist with
  | [] => h
  | frames :: rest => run_history rest body (fst (with_stack M false frames body h))
  end.
Theorem history_restores S body : body_restores body ->
  forall hist h,
  (forall frames, In frames hist ->
     (forall sf, In sf frames -> sync_fault (snd sf)) /\ incl (stack_keys frames) S /\
     clash_free M (owned_in h) (stack_keys frames) [] = true) ->
  gcoh h S ->
  forall D a, lookup (run_history hist body h) D a = lookup h D a.
Proof.
  intros Hb. induction hist as [|frames rest IH]; intros h Hall HG D a; simpl; [reflexivity|].
  destruct (Hall frames (or_introl eq_refl)) as [Hf [Hi Hc]].
  set (h' := fst (with_stack M false frames body h)).
  assert (HR : R S h h').
  { unfold h'. rewrite with_stack_core.
    destruct (stack_items_keys_incl frames) as [rest' Ek].
    apply (R_mono M (map (fun it : item => spec_key (fst it)) (stack_items frames) ++ [])).
    - rewrite app_nil_r. intros k Hk. apply Hi. rewrite Ek. apply in_or_app. now left.
    - apply (core_R M _ _ _ _ (owned_in h)); [reflexivity|now apply sync_stack| |].
      + rewrite Ek in Hc. now apply clash_free_prefix in Hc.
      + assert (G : forall fr, body_materializes_only M [] (stack_body fr body)).
        { induction fr as [|[sp f] r IHf]; simpl; [now apply body_restores_mat|].
          destruct (is_in_body f); [intro h0; apply R_refl|assumption]. }
        apply G. }
  rewrite IH.
  - apply (R_lookup M S); [assumption|apply HG].
  - intros fr Hfr. destruct (Hall fr (or_intror Hfr)) as [Hf' [Hi' Hc']]. repeat split; try assumption.
    apply (clash_free_mono M _ _ (owned_in h)); [|assumption]. intros u b. now apply (R_owned_grows S).
  - now apply (gcoh_preserved S h).
Qed.

End PatchTheorems.

(* ================================================================== apply_monkey_patches *)
(* _PATCH_STATE : (tgt, attr) -> {"orig", "count", "owned"}.  An activation patches a key only on the
   0 -> 1 transition and restores it on 1 -> 0.
   fixed = true  (since b0781c1): the apply loop is INSIDE the try, `owned` is recorded, an unowned
                 attribute is restored by delattr (fallback setattr);
   fixed = false (before): the apply loop ran BEFORE the try — an exception while entering unwound
                 nothing (amp_apply_fault_leaks) — and no `owned` (st.get("owned", True)).           *)
Definition pstate := target -> attr -> option (value * Z * bool).
Definition ps_upd (ps : pstate) (t : target) (a : attr) (e : option (value * Z * bool)) : pstate :=
  fun u b => if (u =? t)%N && (b =? a)%N then e else ps u b.
Definition ps_empty : pstate := fun _ _ => None.
(* (tgt, attr, patch_fn); patch_fn result None = it raises *)
Definition amp_spec := (target * attr * (value -> option value))%type.
Definition amp_key (s : amp_spec) : key := (fst (fst s), snd (fst s)).
Definition amp_body := heap * pstate -> heap * pstate * outcome.

Lemma ps_upd_same ps t a e : ps_upd ps t a e t a = e.
Proof. unfold ps_upd. now rewrite !N.eqb_refl. Qed.
Lemma ps_upd_other ps t a e u b : (u, b) <> (t, a) -> ps_upd ps t a e u b = ps u b.
Proof.
  intro H. unfold ps_upd.
  destruct (u =? t)%N eqn:E1; [|reflexivity]. destruct (b =? a)%N eqn:E2; [|reflexivity].
  apply N.eqb_eq in E1. apply N.eqb_eq in E2. subst. now contradiction H.
Qed.

Section AmpCore.
Variable M : hierarchy.
Variable fixed : bool.
Notation lookup := (lookup M).

Fixpoint amp_enter (ks : list amp_spec) (k : nat) (f : fault) (h : heap) (ps : pstate) (touched : list key)
  : heap * pstate * list key * outcome :=
  match ks with
  | [] => (h, ps, touched, Returned)
  | (t, a, pf) :: rest =>
    match ps t a with
    | Some (orig, c, ow) =>                                   (* st["count"] += 1 *)
      amp_enter rest (S k) f h (ps_upd ps t a (Some (orig, (c + 1)%Z, ow))) (touched ++ [(t, a)])
    | None =>
      match fpoint_at f k with
      | FBefore => (h, ps, touched, Raised)
      | fp =>
        match lookup h t a with
        | None => (h, ps, touched, Raised)                    (* getattr(tgt, attr): AttributeError *)
        | Some orig =>
          match pf orig with
          | None => (h, ps, touched, Raised)                  (* patch_fn(orig) raised *)
          | Some new =>
            let h1 := py_setattr h t a new in
            match fp with
            | FAfter => (h1, ps, touched, Raised)
            | _ => amp_enter rest (S k) f h1 (ps_upd ps t a (Some (orig, 1%Z, owned_flag fixed h t a)))
                             (touched ++ [(t, a)])
            end
          end
        end
      end
    end
  end.

Definition amp_exit1 (hp : heap * pstate) (k : key) : heap * pstate :=
  let (h, ps) := hp in let (t, a) := k in
  match ps t a with
  | None => (h, ps)                                           (* if not st: continue *)
  | Some (orig, c, ow) =>
    let c' := (c - 1)%Z in
    if (c' =? 0)%Z then (restore1 h (t, a, Some orig, ow), ps_upd ps t a None)   (* restore; finally pop *)
    else (h, ps_upd ps t a (Some (orig, c', ow)))
  end.
Definition amp_exit_all (touched : list key) (hp : heap * pstate) : heap * pstate :=
  fold_left amp_exit1 (rev touched) hp.

Definition amp_raise_now : amp_body := fun hp => (fst hp, snd hp, Raised).
Definition amp_body_of (f : fault) (body : amp_body) : amp_body := if is_in_body f then amp_raise_now else body.

Definition amp_finish (body : amp_body) (r : heap * pstate * list key * outcome) : heap * pstate * outcome :=
  let '(h1, ps1, touched, oc) := r in
  match oc with
  | Raised =>
    if fixed then (amp_exit_all touched (h1, ps1), Raised)    (* the loop is inside the try: finally runs *)
    else (h1, ps1, Raised)                                    (* raised before `try`: nothing unwound *)
  | Returned =>
    let '(h2, ps2, oc2) := body (h1, ps1) in
    (amp_exit_all touched (h2, ps2), oc2)
  end.
Definition with_amp (ks : list amp_spec) (f : fault) (body : amp_body) (hp : heap * pstate)
  : heap * pstate * outcome :=
  amp_finish (amp_body_of f body) (amp_enter ks 0 f (fst hp) (snd hp) []).
Definition amp_entered (ks : list amp_spec) (f : fault) (hp : heap * pstate) : bool :=
  match snd (amp_enter ks 0 f (fst hp) (snd hp) []) with Returned => true | Raised => false end.

(* structural form; the flag says whether the enter loop completed *)
Fixpoint amp_nested (ks : list amp_spec) (k : nat) (f : fault) (body : amp_body) (h : heap) (ps : pstate)
  : heap * pstate * outcome * bool :=
  match ks with
  | [] => (body (h, ps), true)
  | (t, a, pf) :: rest =>
    match ps t a with
    | Some (orig, c, ow) =>
      let r := amp_nested rest (S k) f body h (ps_upd ps t a (Some (orig, (c + 1)%Z, ow))) in
      if snd r || fixed then (amp_exit1 (fst (fst r)) (t, a), snd (fst r), snd r) else r
    | None =>
      match fpoint_at f k with
      | FBefore => (h, ps, Raised, false)
      | fp =>
        match lookup h t a with
        | None => (h, ps, Raised, false)
        | Some orig =>
          match pf orig with
          | None => (h, ps, Raised, false)
          | Some new =>
            let h1 := py_setattr h t a new in
            match fp with
            | FAfter => (h1, ps, Raised, false)
            | _ =>
              let r := amp_nested rest (S k) f body h1 (ps_upd ps t a (Some (orig, 1%Z, owned_flag fixed h t a))) in
              if snd r || fixed then (amp_exit1 (fst (fst r)) (t, a), snd (fst r), snd r) else r
            end
          end
        end
      end
    end
  end.

Lemma amp_exit_all_snoc touched k hp : amp_exit_all (touched ++ [k]) hp = amp_exit_all touched (amp_exit1 hp k).
Proof. unfold amp_exit_all. rewrite rev_app_distr. reflexivity. Qed.

Lemma amp_loop_nested body f : forall ks k h ps touched,
  amp_finish body (amp_enter ks k f h ps touched)
  = (let r := amp_nested ks k f body h ps in
     if snd r || fixed then (amp_exit_all touched (fst (fst r)), snd (fst r)) else fst r).
Proof.
  induction ks as [|[[t a] pf] rest IH]; intros k h ps touched.
  - simpl. destruct (body (h, ps)) as [[h2 ps2] oc2]. reflexivity.
  - simpl. destruct (ps t a) as [[[orig c] ow]|].
    + rewrite IH. cbv zeta. destruct (amp_nested rest (S k) f body h _) as [[[h2 ps2] oc2] ent]. simpl.
      destruct (ent || fixed) eqn:E; simpl; rewrite E; [|reflexivity]. now rewrite amp_exit_all_snoc.
    + assert (F : forall hx, amp_finish body (hx, ps, touched, Raised)
                = (let r := (hx, ps, Raised, false) in
                   if snd r || fixed then (amp_exit_all touched (fst (fst r)), snd (fst r)) else fst r))
        by (intro hx; simpl; destruct fixed; reflexivity).
      destruct (fpoint_at f k); try apply F;
        destruct (lookup h t a) as [orig|]; try apply F;
        destruct (pf orig) as [new|]; try apply F.
      rewrite IH. cbv zeta. destruct (amp_nested rest (S k) f body _ _) as [[[h2 ps2] oc2] ent]. simpl.
      destruct (ent || fixed) eqn:E; simpl; rewrite E; [|reflexivity]. now rewrite amp_exit_all_snoc.
Qed.

Lemma amp_entered_nested body f : forall ks k h ps touched,
  (match snd (amp_enter ks k f h ps touched) with Returned => true | Raised => false end)
  = snd (amp_nested ks k f body h ps).
Proof.
  induction ks as [|[[t a] pf] rest IH]; intros k h ps touched; simpl; [reflexivity|].
  destruct (ps t a) as [[[orig c] ow]|].
  - rewrite IH. destruct (amp_nested rest (S k) f body h _) as [[[h2 ps2] oc2] ent]. simpl.
    now destruct (ent || fixed).
  - destruct (fpoint_at f k); try reflexivity;
      destruct (lookup h t a) as [orig|]; try reflexivity;
      destruct (pf orig) as [new|]; try reflexivity.
    rewrite IH. destruct (amp_nested rest (S k) f body _ _) as [[[h2 ps2] oc2] ent]. simpl.
    now destruct (ent || fixed).
Qed.

Theorem with_amp_nested ks f body h ps :
  with_amp ks f body (h, ps) = fst (amp_nested ks 0 f (amp_body_of f body) h ps)
  /\ amp_entered ks f (h, ps) = snd (amp_nested ks 0 f (amp_body_of f body) h ps).
Proof.
  split.
  - unfold with_amp. simpl. rewrite amp_loop_nested. cbv zeta.
    destruct (amp_nested ks 0 f (amp_body_of f body) h ps) as [[[h2 ps2] oc2] ent]. simpl.
    destruct (ent || fixed); reflexivity.
  - unfold amp_entered. simpl. apply amp_entered_nested.
Qed.

(* nesting depth n of the same activation (outer trace, then function bodies re-entering it) *)
Fixpoint amp_depth (n : nat) (ks : list amp_spec) (fb : fault) (body : amp_body) : amp_body :=
  match n with
  | 0 => amp_body_of fb body
  | S m => with_amp ks NoFault (amp_depth m ks fb body)
  end.

End AmpCore.

(* ---- invariants *)
Definition ps_wf (ps : pstate) : Prop := forall t a orig c ow, ps t a = Some (orig, c, ow) -> (1 <= c)%Z.
Definition active (ps : pstate) (k : key) : Prop := is_some (ps (fst k) (snd k)) = true.
Definition all_active (ps : pstate) (ks : list amp_spec) : Prop := forall s, In s ks -> active ps (amp_key s).

(* ################################################################## PART L (continued): ref-counting of
   the code BEFORE b0781c1 *)
Section Amp.
Variable M : hierarchy.
Notation lookup := (lookup M).
Notation amp_nested := (amp_nested M false).
Notation with_amp := (with_amp M false).
Notation amp_entered := (amp_entered M false).
Notation amp_depth := (amp_depth M false).
Notation with_amp_nested := (with_amp_nested M false).


(* the apply_patches items an activation amounts to: first occurrences of inactive keys *)
Definition lift (pf : value -> option value) : option value -> option value :=
  fun o => match o with Some v => pf v | None => None end.
Fixpoint amp_items (act : target -> attr -> bool) (ks : list amp_spec) (k : nat) (f : fault) : list item :=
  match ks with
  | [] => []
  | (t, a, pf) :: rest =>
    if act t a then amp_items act rest (S k) f
    else (Monkey t a (lift pf), fpoint_at f k) :: amp_items (owned_add act t a) rest (S k) f
  end.
Definition amp_patched (ps : pstate) (ks : list amp_spec) : list key :=
  map (fun it : item => spec_key (fst it)) (amp_items (fun t a => is_some (ps t a)) ks 0 NoFault).

Definition proj_body (body : amp_body) (ps : pstate) : heap -> heap * outcome :=
  fun h0 => let r := body (h0, ps) in (fst (fst r), snd r).

Definition amp_body_ps_ok (ks : list amp_spec) (body : amp_body) : Prop :=
  forall h0 ps0, ps_wf ps0 -> all_active ps0 ks -> forall t a, snd (fst (body (h0, ps0))) t a = ps0 t a.

Lemma amp_nested_sim ks0 body f : amp_body_ps_ok ks0 body ->
  forall ks k h ps act h2 ps2 oc,
  ps_wf ps -> (forall t a, act t a = is_some (ps t a)) ->
  (forall s, In s ks0 -> In s ks \/ active ps (amp_key s)) ->
  amp_nested ks k f body h ps = (h2, ps2, oc, true) ->
  (forall t a, ps2 t a = ps t a) /\
  exists ps_in, ps_wf ps_in /\ all_active ps_in ks0 /\
    (h2, oc) = core M false (amp_items act ks k f) (proj_body body ps_in) h.
Proof.
  intro Hb. induction ks as [|[[t a] pf] rest IH]; intros k h ps act h2 ps2 oc Hwf Hact Hcov H.
  - simpl in H. destruct (body (h, ps)) as [[hb psb] ocb] eqn:Eb. inversion H; subst.
    assert (Hall : all_active ps ks0).
    { intros s Hs. destruct (Hcov s Hs) as [[]|A]. exact A. }
    split.
    + intros t a. pose proof (Hb h ps Hwf Hall t a) as E. now rewrite Eb in E.
    + exists ps. repeat split; try assumption. simpl. unfold proj_body. now rewrite Eb.
  - simpl in H. simpl. destruct (ps t a) as [[[orig c] ow]|] eqn:Ep.
    + (* already active: count + 1 *)
      rewrite Hact, Ep. simpl.
      set (psb := ps_upd ps t a (Some (orig, (c + 1)%Z, ow))) in *.
      destruct (amp_nested rest (S k) f body h psb) as [[[h2' ps2'] oc'] ent] eqn:En. simpl in H.
      destruct ent; simpl in H; [|inversion H].
      assert (Hwfb : ps_wf psb).
      { intros u b o' c' w' E. unfold psb, ps_upd in E. destruct ((u =? t)%N && (b =? a)%N).
        - inversion E. specialize (Hwf _ _ _ _ _ Ep). timeout 20 lia.
        - now apply (Hwf u b o' c' w'). }
      assert (Hactb : forall u b, act u b = is_some (psb u b)).
      { intros u b. unfold psb, ps_upd. destruct ((u =? t)%N && (b =? a)%N) eqn:E; [|apply Hact].
        apply andb_true_iff in E. destruct E as [E1 E2]. apply N.eqb_eq in E1. apply N.eqb_eq in E2.
        subst. now rewrite Hact, Ep. }
      assert (Hcovb : forall s, In s ks0 -> In s rest \/ active psb (amp_key s)).
      { intros s Hs. destruct (Hcov s Hs) as [[E|I]|A].
        - right. subst s. unfold active, amp_key, psb. simpl. now rewrite ps_upd_same.
        - now left.
        - right. unfold active, psb, ps_upd in *. destruct (_ && _); [reflexivity|assumption]. }
      destruct (IH (S k) h psb act h2' ps2' oc' Hwfb Hactb Hcovb En) as [Hps [ps_in [Hwi [Hai Hsim]]]].
      unfold amp_exit1 in H. rewrite Hps in H. unfold psb in H at 1. rewrite ps_upd_same in H.
      assert (Ec : ((c + 1 - 1 =? 0) = false)%Z) by (specialize (Hwf _ _ _ _ _ Ep); apply Z.eqb_neq; timeout 20 lia).
      rewrite Ec in H. inversion H; subst h2 ps2 oc. split.
      * intros u b. destruct (key_eqb (u, b) (t, a)) eqn:Ek.
        -- apply key_eqb_eq in Ek. inversion Ek; subst u b. rewrite ps_upd_same, Ep.
           replace (c + 1 - 1)%Z with c by (timeout 20 lia). reflexivity.
        -- assert (Hne : (u, b) <> (t, a)) by (intro E; apply key_eqb_eq in E; congruence).
           rewrite ps_upd_other by assumption. rewrite Hps. unfold psb. now apply ps_upd_other.
      * exists ps_in. repeat split; assumption.
    + (* inactive: the 0 -> 1 transition patches *)
      rewrite Hact, Ep. simpl.
      destruct (fpoint_at f k) eqn:Efp; try (inversion H; fail);
        destruct (lookup h t a) as [orig|] eqn:El; try (inversion H; fail);
        destruct (pf orig) as [new|] eqn:Epf; try (inversion H; fail).
      set (h1 := py_setattr h t a new) in *.
      set (psb := ps_upd ps t a (Some (orig, 1%Z, true))) in *.
      destruct (amp_nested rest (S k) f body h1 psb) as [[[h2' ps2'] oc'] ent] eqn:En. simpl in H.
      destruct ent; simpl in H; [|inversion H].
      assert (Hwfb : ps_wf psb).
      { intros u b o' c' w' E. unfold psb, ps_upd in E. destruct ((u =? t)%N && (b =? a)%N).
        - inversion E. timeout 20 lia.
        - now apply (Hwf u b o' c' w'). }
      assert (Hactb : forall u b, owned_add act t a u b = is_some (psb u b)).
      { intros u b. unfold owned_add, psb, ps_upd. rewrite Hact.
        destruct ((u =? t)%N && (b =? a)%N); simpl; [apply orb_true_r|apply orb_false_r]. }
      assert (Hcovb : forall s, In s ks0 -> In s rest \/ active psb (amp_key s)).
      { intros s Hs. destruct (Hcov s Hs) as [[E|I]|A].
        - right. subst s. unfold active, amp_key, psb. simpl. now rewrite ps_upd_same.
        - now left.
        - right. unfold active, psb, ps_upd in *. destruct (_ && _); [reflexivity|assumption]. }
      destruct (IH (S k) h1 psb _ h2' ps2' oc' Hwfb Hactb Hcovb En) as [Hps [ps_in [Hwi [Hai Hsim]]]].
      unfold amp_exit1 in H. rewrite Hps in H. unfold psb in H at 1. rewrite ps_upd_same in H.
      simpl in H. inversion H; subst h2 ps2 oc. split.
      * intros u b. destruct (key_eqb (u, b) (t, a)) eqn:Ek.
        -- apply key_eqb_eq in Ek. inversion Ek; subst u b. now rewrite ps_upd_same, Ep.
        -- assert (Hne : (u, b) <> (t, a)) by (intro E; apply key_eqb_eq in E; congruence).
           rewrite ps_upd_other by assumption. rewrite Hps. unfold psb. now apply ps_upd_other.
      * exists ps_in. repeat split; try assumption.
        simpl. rewrite Epf. fold h1. rewrite <- Hsim. reflexivity.
Qed.

Lemma amp_items_keys_gen : forall ks act k f k' f',
  map (fun it : item => spec_key (fst it)) (amp_items act ks k f)
  = map (fun it : item => spec_key (fst it)) (amp_items act ks k' f').
Proof.
  induction ks as [|[[t a] pf] rest IH]; intros act k f k' f'; simpl; [reflexivity|].
  destruct (act t a); simpl; [apply IH|]. f_equal. apply IH.
Qed.
Lemma amp_items_keys act f ks k :
  map (fun it : item => spec_key (fst it)) (amp_items act ks k f)
  = map (fun it : item => spec_key (fst it)) (amp_items act ks 0 NoFault).
Proof. apply amp_items_keys_gen. Qed.
Definition no_apply_fault (f : fault) : Prop := match f with NoFault | InBody => True | _ => False end.
Lemma amp_items_sync act f : no_apply_fault f -> forall ks k, sync_items (amp_items act ks k f).
Proof.
  intros Hf ks. revert act. induction ks as [|[[t a] pf] rest IH]; intros act k s; simpl; [tauto|].
  destruct (act t a); [apply IH|]. intros [E|I]; [|now apply (IH (owned_add act t a) (S k) s)].
  inversion E. destruct f; simpl in *; try discriminate; contradiction.
Qed.

(* a legitimate body of an activation of ks: whenever it is run with every key of ks active, it
   gives _PATCH_STATE back as it found it and changes own dicts at most by materialising keys in Sb *)
Definition amp_body_ok (ks : list amp_spec) (Sb : list key) (body : amp_body) : Prop :=
  amp_body_ps_ok ks body /\
  forall h0 ps0, ps_wf ps0 -> all_active ps0 ks -> R M Sb h0 (fst (fst (body (h0, ps0)))).

Lemma amp_body_of_ok ks Sb f body : amp_body_ok ks Sb body -> amp_body_ok ks Sb (amp_body_of f body).
Proof.
  intros [H1 H2]. unfold amp_body_of. destruct (is_in_body f); [|split; assumption].
  split; [intros h0 ps0 _ _ t a; reflexivity|intros h0 ps0 _ _; apply R_refl].
Qed.

(* MAIN (ref-counting): whenever the enter loop completes, for every body exit (normal or raising)
   and every prior _PATCH_STATE (i.e. at every nesting depth): _PATCH_STATE is exactly as before and
   the own dicts are as before up to materialisation of the keys this activation patched itself.    *)
Theorem refcount_restores ks f body Sb h ps :
  no_apply_fault f -> ps_wf ps -> amp_body_ok ks Sb body ->
  clash_free M (owned_in h) (amp_patched ps ks) Sb = true ->
  amp_entered ks f (h, ps) = true ->
  let r := with_amp ks f body (h, ps) in
  (forall t a, snd (fst r) t a = ps t a) /\ R M (amp_patched ps ks ++ Sb) h (fst (fst r)).
Proof.
  intros Hf Hwf Hb Hc He. destruct (with_amp_nested ks f body h ps) as [E1 E2]. cbv zeta.
  rewrite E1. rewrite E2 in He. cbv zeta.
  destruct (amp_nested ks 0 f (amp_body_of f body) h ps) as [[[h2 ps2] oc] ent] eqn:En.
  simpl in He. subst ent. simpl.
  pose proof (amp_body_of_ok ks Sb f body Hb) as [Hb1 Hb2].
  destruct (amp_nested_sim ks _ f Hb1 ks 0 h ps (fun t a => is_some (ps t a)) h2 ps2 oc Hwf
              (fun _ _ => eq_refl) (fun s Hs => or_introl Hs) En) as [Hps [ps_in [Hwi [Hai Hsim]]]].
  split; [assumption|].
  replace h2 with (fst (core M false (amp_items (fun t a => is_some (ps t a)) ks 0 f)
                            (proj_body (amp_body_of f body) ps_in) h)) by (now rewrite <- Hsim).
  unfold amp_patched. rewrite <- (amp_items_keys _ f ks 0).
  apply (core_R M _ _ _ _ (owned_in h)).
  - reflexivity.
  - now apply amp_items_sync.
  - rewrite (amp_items_keys _ f ks 0). exact Hc.
  - intro h0. unfold proj_body. simpl. now apply Hb2.
Qed.

(* an activation entered while all its keys are already active only counts *)
Lemma amp_items_active act f : forall ks k,
  (forall s, In s ks -> act (fst (fst s)) (snd (fst s)) = true) -> amp_items act ks k f = [].
Proof.
  induction ks as [|[[t a] pf] rest IH]; intros k H; simpl; [reflexivity|].
  pose proof (H (t, a, pf) (or_introl eq_refl)) as E. simpl in E. rewrite E.
  apply IH. intros s Hs. apply H. now right.
Qed.
Lemma amp_active_enters body f : forall ks k h ps,
  all_active ps ks -> snd (amp_nested ks k f body h ps) = true.
Proof.
  induction ks as [|[[t a] pf] rest IH]; intros k h ps Ha; simpl; [reflexivity|].
  pose proof (Ha (t, a, pf) (or_introl eq_refl)) as A. unfold active, amp_key in A. simpl in A.
  destruct (ps t a) as [[[orig c] ow]|]; [|discriminate].
  assert (Hb : all_active (ps_upd ps t a (Some (orig, (c + 1)%Z, ow))) rest).
  { intros s Hs. unfold active, ps_upd. destruct (_ && _); [reflexivity|]. apply (Ha s). now right. }
  pose proof (IH (S k) h _ Hb) as IH'.
  destruct (amp_nested rest (S k) f body h (ps_upd ps t a (Some (orig, (c + 1)%Z, ow)))) as [[[h2 ps2] oc2] ent].
  simpl in *. now rewrite IH'.
Qed.
Theorem refcount_reentrant ks f body Sb h ps :
  no_apply_fault f -> ps_wf ps -> all_active ps ks -> amp_body_ok ks Sb body ->
  let r := with_amp ks f body (h, ps) in
  amp_entered ks f (h, ps) = true /\
  (forall t a, snd (fst r) t a = ps t a) /\ R M Sb h (fst (fst r)).
Proof.
  intros Hf Hwf Ha Hb.
  assert (He : amp_entered ks f (h, ps) = true).
  { destruct (with_amp_nested ks f body h ps) as [_ E2]. rewrite E2. now apply amp_active_enters. }
  assert (Ep : amp_patched ps ks = []).
  { unfold amp_patched. rewrite amp_items_active; [reflexivity|]. intros s Hs. apply (Ha s Hs). }
  split; [assumption|].
  pose proof (refcount_restores ks f body Sb h ps Hf Hwf Hb) as T. rewrite Ep in T. simpl in T.
  apply T; [reflexivity|assumption].
Qed.

Lemma amp_depth_ok ks Sb fb body : amp_body_ok ks Sb body -> forall n, amp_body_ok ks Sb (amp_depth n ks fb body).
Proof.
  intros Hb. induction n as [|n IH]; simpl; [now apply amp_body_of_ok|].
  split.
  - intros h0 ps0 Hwf Ha t a.
    destruct (refcount_reentrant ks NoFault _ Sb h0 ps0 I Hwf Ha IH) as [_ [H _]]. apply H.
  - intros h0 ps0 Hwf Ha.
    destruct (refcount_reentrant ks NoFault _ Sb h0 ps0 I Hwf Ha IH) as [_ [_ H]]. apply H.
Qed.
Theorem refcount_nesting n ks fb body Sb h ps :
  ps_wf ps -> amp_body_ok ks Sb body ->
  clash_free M (owned_in h) (amp_patched ps ks) Sb = true ->
  amp_entered ks NoFault (h, ps) = true ->
  let r := amp_depth (S n) ks fb body (h, ps) in
  (forall t a, snd (fst r) t a = ps t a) /\ R M (amp_patched ps ks ++ Sb) h (fst (fst r)).
Proof.
  intros Hwf Hb Hc He. simpl.
  apply (refcount_restores ks NoFault (amp_depth n ks fb body) Sb h ps I Hwf); try assumption.
  now apply amp_depth_ok.
Qed.
(* getattr-level corollary *)
Corollary refcount_restores_lookup ks f body h ps :
  no_apply_fault f -> ps_wf ps -> amp_body_ok ks [] body ->
  clash_free M (owned_in h) (amp_patched ps ks) [] = true ->
  amp_entered ks f (h, ps) = true ->
  forall D a, coh M h (amp_patched ps ks) a (D :: M D) = true ->
    lookup (fst (fst (with_amp ks f body (h, ps)))) D a = lookup h D a.
Proof.
  intros Hf Hwf Hb Hc He D a Hcoh.
  destruct (refcount_restores ks f body [] h ps Hf Hwf Hb Hc He) as [_ HR].
  apply (R_lookup M (amp_patched ps ks ++ [])); [exact HR|now rewrite app_nil_r].
Qed.

End Amp.

(* ################################################################## PART F — the code SINCE b0781c1
   (fixed = true): ownership recorded when patching, unowned attributes restored by delattr, the
   apply loop of apply_monkey_patches inside its try.  Every own dict is restored EXACTLY, hence
   getattr for every observer — no no_inherited_clash, no MRO coherence.  What remains: the
   asynchronous fault between setattr and the bookkeeping append (witness below).                  *)
Section Fixed.
Variable M : hierarchy.
Notation lookup := (lookup M).

Lemma own_eq_lookup (h h' : heap) : (forall u b, h' u b = h u b) -> forall D a, lookup h' D a = lookup h D a.
Proof.
  intros E D a. unfold Patch.lookup. generalize (D :: M D). induction l as [|w r IH]; simpl; [reflexivity|].
  now rewrite E, IH.
Qed.

Lemma restore1_exact h2 h t a :
  is_some (h2 t a) = true -> restore1 h2 (t, a, lookup h t a, is_some (h t a)) t a = h t a.
Proof.
  intro H2. unfold restore1. destruct (h t a) as [x|] eqn:Eh; simpl.
  - rewrite (lookup_owned M _ _ _ _ Eh). apply set_same.
  - unfold py_delattr. destruct (h2 t a) eqn:E2; [|discriminate].
    destruct (lookup h t a); now rewrite !N.eqb_refl.
Qed.

Lemma core_exact : forall items body h,
  sync_items items -> body_restores body -> forall u b, fst (core M true items body h) u b = h u b.
Proof.
  induction items as [|[s fp] rest IH]; intros body h Hs Hb u b; simpl; [apply Hb|].
  assert (Hs' : sync_items rest) by (intros s0 I; apply (Hs s0); now right).
  destruct fp; simpl; [|reflexivity|exfalso; apply (Hs s); now left].
  destruct (new_value s (lookup h (spec_target s) (spec_attr s))) as [v|]; simpl; [|reflexivity].
  set (t := spec_target s). set (a := spec_attr s). set (h1 := py_setattr h t a v).
  pose proof (IH body h1 Hs' Hb) as E.
  destruct (key_eqb (u, b) (t, a)) eqn:Ek.
  - apply key_eqb_eq in Ek. inversion Ek; subst u b. unfold owned_flag.
    apply restore1_exact. rewrite E. unfold h1. now rewrite set_same.
  - assert (Hne : (u, b) <> (t, a)) by (intro X; apply key_eqb_eq in X; congruence).
    rewrite restore1_other by assumption. rewrite E. unfold h1. now apply set_other.
Qed.

(* MAIN: every own dict is restored exactly — for ALL spec lists (duplicates, inheriting targets in
   any order), ALL synchronous fault points, ALL bodies that restore own dicts exactly *)
Theorem apply_patches_restores_exact specs f body h :
  sync_fault f -> body_restores body ->
  forall u b, fst (with_patches M true specs f body h) u b = h u b.
Proof.
  intros Hf Hb u b. rewrite with_patches_core. apply core_exact.
  - now apply sync_annotate.
  - unfold body_of. destruct (is_in_body f); [intros h0 u0 b0; reflexivity|assumption].
Qed.
(* ... hence getattr, for every observer, with NO side condition *)
Theorem apply_patches_restores_getattr specs f body h :
  sync_fault f -> body_restores body ->
  forall D a, lookup (fst (with_patches M true specs f body h)) D a = lookup h D a.
Proof. intros Hf Hb. apply own_eq_lookup. now apply apply_patches_restores_exact. Qed.
(* owned stays owned with the same value, unowned stays unowned *)
Corollary own_dict_restored specs f body h t a :
  sync_fault f -> body_restores body ->
  (forall x, h t a = Some x -> fst (with_patches M true specs f body h) t a = Some x) /\
  (h t a = None -> fst (with_patches M true specs f body h) t a = None).
Proof.
  intros Hf Hb. pose proof (apply_patches_restores_exact specs f body h Hf Hb t a) as E.
  split; intros; now rewrite E.
Qed.
(* nesting: an activation is itself a restoring body, so activations compose to any depth *)
Theorem with_patches_is_restoring_body specs f body :
  sync_fault f -> body_restores body -> body_restores (with_patches M true specs f body).
Proof. intros Hf Hb h0 u b. now apply apply_patches_restores_exact. Qed.
Theorem stack_restores_exact frames body :
  (forall sf, In sf frames -> sync_fault (snd sf)) -> body_restores body ->
  body_restores (with_stack M true frames body).
Proof.
  induction frames as [|[specs f] rest IH]; intros Hf Hb; simpl; [assumption|].
  apply with_patches_is_restoring_body.
  - apply (Hf (specs, f)). now left.
  - apply IH; [|assumption]. intros sf I. apply Hf. now right.
Qed.
Fixpoint run_history_fixed (hist : list (list (list spec * fault))) (body : heap -> heap * outcome) (h : heap) : heap :=
  match hist with
  | [] => h
  | frames :: rest => run_history_fixed rest body (fst (with_stack M true frames body h))
  end.
Theorem history_restores_exact body : body_restores body ->
  forall hist h,
  (forall frames, In frames hist -> forall sf, In sf frames -> sync_fault (snd sf)) ->
  (forall u b, run_history_fixed hist body h u b = h u b) /\
  (forall D a, lookup (run_history_fixed hist body h) D a = lookup h D a).
Proof.
  intros Hb hist h Hall.
  assert (G : forall u b, run_history_fixed hist body h u b = h u b).
  { revert h. induction hist as [|frames rest IH]; intros h u b; simpl; [reflexivity|].
    rewrite IH by (intros fr I; apply Hall; now right).
    apply stack_restores_exact; [|assumption]. apply Hall. now left. }
  split; [exact G|]. now apply own_eq_lookup.
Qed.

(* ---- apply_monkey_patches since b0781c1 *)
Definition amp_body_exact (body : amp_body) : Prop :=
  forall h0 ps0, ps_wf ps0 ->
    (forall t a, snd (fst (body (h0, ps0))) t a = ps0 t a) /\
    (forall u b, fst (fst (body (h0, ps0))) u b = h0 u b).

Lemma amp_nested_exact body f : sync_fault f -> amp_body_exact body ->
  forall ks k h ps, ps_wf ps ->
  let r := amp_nested M true ks k f body h ps in
  (forall t a, snd (fst (fst r)) t a = ps t a) /\ (forall u b, fst (fst (fst r)) u b = h u b).
Proof.
  intros Hf Hb. induction ks as [|[[t a] pf] rest IH]; intros k h ps Hwf; simpl.
  - destruct (Hb h ps Hwf) as [H1 H2]. destruct (body (h, ps)) as [[hb psb] ocb]. simpl in *. now split.
  - destruct (ps t a) as [[[orig c] ow]|] eqn:Ep.
    + set (psb := ps_upd ps t a (Some (orig, (c + 1)%Z, ow))).
      assert (Hwfb : ps_wf psb).
      { intros u b o' c' w' E. unfold psb, ps_upd in E. destruct ((u =? t)%N && (b =? a)%N).
        - inversion E. specialize (Hwf _ _ _ _ _ Ep). timeout 20 lia.
        - now apply (Hwf u b o' c' w'). }
      destruct (IH (S k) h psb Hwfb) as [Hps Hh].
      destruct (amp_nested M true rest (S k) f body h psb) as [[[h2 ps2] oc2] ent]. simpl in *.
      assert (Epsb : psb t a = Some (orig, (c + 1)%Z, ow)) by (unfold psb; apply ps_upd_same).
      rewrite orb_true_r. simpl. rewrite Hps, Epsb.
      assert (Ec : ((c + 1 - 1 =? 0) = false)%Z) by (specialize (Hwf _ _ _ _ _ Ep); apply Z.eqb_neq; timeout 20 lia).
      rewrite Ec. simpl. split; [|assumption].
      intros u b. destruct (key_eqb (u, b) (t, a)) eqn:Ek.
      * apply key_eqb_eq in Ek. inversion Ek; subst u b. rewrite ps_upd_same, Ep.
        replace (c + 1 - 1)%Z with c by (timeout 20 lia). reflexivity.
      * assert (Hne : (u, b) <> (t, a)) by (intro X; apply key_eqb_eq in X; congruence).
        rewrite ps_upd_other by assumption. rewrite Hps. unfold psb. now apply ps_upd_other.
    + destruct (fpoint_at f k) eqn:Efp; simpl; try (split; intros; reflexivity).
      * destruct (lookup h t a) as [orig|] eqn:El; simpl; [|split; intros; reflexivity].
        destruct (pf orig) as [new|]; simpl; [|split; intros; reflexivity].
        set (h1 := py_setattr h t a new).
        set (psb := ps_upd ps t a (Some (orig, 1%Z, is_some (h t a)))).
        assert (Hwfb : ps_wf psb).
        { intros u b o' c' w' E. unfold psb, ps_upd in E. destruct ((u =? t)%N && (b =? a)%N).
          - inversion E. timeout 20 lia.
          - now apply (Hwf u b o' c' w'). }
        destruct (IH (S k) h1 psb Hwfb) as [Hps Hh].
        destruct (amp_nested M true rest (S k) f body h1 psb) as [[[h2 ps2] oc2] ent]. simpl in *.
        assert (Epsb : psb t a = Some (orig, 1%Z, is_some (h t a))) by (unfold psb; apply ps_upd_same).
        rewrite orb_true_r. simpl. rewrite Hps, Epsb. simpl. split.
        -- intros u b. destruct (key_eqb (u, b) (t, a)) eqn:Ek.
           ++ apply key_eqb_eq in Ek. inversion Ek; subst u b. now rewrite ps_upd_same, Ep.
           ++ assert (Hne : (u, b) <> (t, a)) by (intro X; apply key_eqb_eq in X; congruence).
              rewrite ps_upd_other by assumption. rewrite Hps. unfold psb. now apply ps_upd_other.
        -- intros u b. destruct (key_eqb (u, b) (t, a)) eqn:Ek.
           ++ apply key_eqb_eq in Ek. inversion Ek; subst u b. rewrite <- El.
              apply restore1_exact. rewrite Hh. unfold h1. now rewrite set_same.
           ++ assert (Hne : (u, b) <> (t, a)) by (intro X; apply key_eqb_eq in X; congruence).
              rewrite restore1_other by assumption. rewrite Hh. unfold h1. now apply set_other.
      * exfalso. destruct f; simpl in *; try discriminate; try contradiction.
        destruct (Nat.eqb k0 k); discriminate.
Qed.

(* MAIN (ref-counting since b0781c1): for every prior _PATCH_STATE (every nesting depth), every
   synchronous fault — INCLUDING faults inside the enter loop (getattr on a missing attribute,
   patch_fn raising, setattr raising) — and every body exit: _PATCH_STATE and all own dicts are
   exactly as before.  No side condition, no `amp_entered` premise.                                *)
Theorem refcount_restores_exact ks f body h ps :
  sync_fault f -> ps_wf ps -> amp_body_exact body ->
  let r := with_amp M true ks f body (h, ps) in
  (forall t a, snd (fst r) t a = ps t a) /\ (forall u b, fst (fst r) u b = h u b).
Proof.
  intros Hf Hwf Hb. destruct (with_amp_nested M true ks f body h ps) as [E1 _]. cbv zeta. rewrite E1.
  apply amp_nested_exact; try assumption.
  unfold amp_body_of. destruct (is_in_body f); [|assumption].
  intros h0 ps0 _. split; intros; reflexivity.
Qed.
Theorem with_amp_is_exact_body ks f body :
  sync_fault f -> amp_body_exact body -> amp_body_exact (with_amp M true ks f body).
Proof. intros Hf Hb h0 ps0 Hwf. now apply refcount_restores_exact. Qed.
Theorem refcount_nesting_exact n ks fb body :
  amp_body_exact body -> amp_body_exact (amp_depth M true n ks fb body).
Proof.
  intros Hb. induction n as [|n IH]; simpl.
  - unfold amp_body_of. destruct (is_in_body fb); [|assumption].
    intros h0 ps0 _. split; intros; reflexivity.
  - now apply with_amp_is_exact_body.
Qed.
Corollary refcount_restores_getattr ks f body h ps :
  sync_fault f -> ps_wf ps -> amp_body_exact body ->
  forall D a, lookup (fst (fst (with_amp M true ks f body (h, ps)))) D a = lookup h D a.
Proof.
  intros Hf Hwf Hb. apply own_eq_lookup.
  now destruct (refcount_restores_exact ks f body h ps Hf Hwf Hb).
Qed.

(* conversion_api._activate_plugin_worlds: apply_monkey_patches around the ExitStack of plugin frames *)
Definition lift_body (b : heap -> heap * outcome) : amp_body :=
  fun hp => let r := b (fst hp) in (fst r, snd hp, snd r).
Definition activate_worlds (ks : list amp_spec) (fa : fault) (frames : list (list spec * fault))
  (body : heap -> heap * outcome) : amp_body :=
  with_amp M true ks fa (lift_body (with_stack M true frames body)).
Theorem activate_worlds_exact ks fa frames body :
  sync_fault fa -> (forall sf, In sf frames -> sync_fault (snd sf)) -> body_restores body ->
  amp_body_exact (activate_worlds ks fa frames body).
Proof.
  intros Hfa Hf Hb. apply with_amp_is_exact_body; [assumption|].
  intros h0 ps0 _. unfold lift_body. simpl. split; [reflexivity|].
  now apply stack_restores_exact.
Qed.


(* ---- histories: conversions interleaved with writes of the HOST program.  The property is per call:
   after each conversion the attribute table is what it was immediately BEFORE that call — also when
   the host has rebound or deleted a patched attribute since the previous conversion.  The model of
   apply_monkey_patches has no state that survives a call other than _PATCH_STATE, which every call
   hands back unchanged (empty at top level); the harness ties the running function to that
   (tie:apply_monkey_patches-keeps-no-cross-call-state + differential histories).                  *)
Inductive hevent :=
| HConv (ks : list amp_spec) (fa : fault) (frames : list (list spec * fault)) (body : heap -> heap * outcome)
| HSet (t : target) (a : attr) (v : value)        (* host: setattr(t, a, v) — rebinding, also of a patched key *)
| HDel (t : target) (a : attr).                   (* host: delattr(t, a) (AttributeError ignored) *)
Definition hstep (e : hevent) (st : heap * pstate) : heap * pstate :=
  match e with
  | HConv ks fa frames body => fst (activate_worlds ks fa frames body st)
  | HSet t a v => (py_setattr (fst st) t a v, snd st)
  | HDel t a => (match py_delattr (fst st) t a with Some h' => h' | None => fst st end, snd st)
  end.
Definition hevent_ok (e : hevent) : Prop :=
  match e with
  | HConv ks fa frames body => sync_fault fa /\ (forall sf, In sf frames -> sync_fault (snd sf)) /\ body_restores body
  | _ => True
  end.
Fixpoint every_call_restores (evs : list hevent) (st : heap * pstate) : Prop :=
  match evs with
  | [] => True
  | e :: r =>
    (match e with
     | HConv _ _ _ _ => (forall u b, fst (hstep e st) u b = fst st u b) /\
                        (forall t a, snd (hstep e st) t a = snd st t a) /\
                        (forall D a, lookup (fst (hstep e st)) D a = lookup (fst st) D a)
     | _ => True
     end) /\ every_call_restores r (hstep e st)
  end.
Theorem host_history_restores : forall evs st,
  ps_wf (snd st) -> (forall e, In e evs -> hevent_ok e) -> every_call_restores evs st.
Proof.
  induction evs as [|e r IH]; intros [h ps] Hwf Hok; simpl; [exact I|].
  pose proof (Hok e (or_introl eq_refl)) as He.
  assert (Hr : forall e', In e' r -> hevent_ok e') by (intros e' I'; apply Hok; now right).
  destruct e as [ks fa frames body|t a v|t a]; simpl in *.
  - destruct He as [Hfa [Hfr Hb]].
    destruct (activate_worlds_exact ks fa frames body Hfa Hfr Hb h ps Hwf) as [Hps Hh].
    split.
    + split; [exact Hh|]. split; [exact Hps|]. now apply own_eq_lookup.
    + destruct (activate_worlds ks fa frames body (h, ps)) as [[h' ps'] oc]. simpl in *.
      apply IH; [|assumption]. simpl. intros t a o c w E. rewrite Hps in E. now apply (Hwf t a o c w).
  - split; [exact I|]. now apply IH.
  - split; [exact I|]. now apply IH.
Qed.

End Fixed.

(* ################################################################## EXIT KINDS and handler shapes
   How the body (or the apply loop) is left is a PARAMETER: normal return, an Exception, or a
   BaseException that is not an Exception (KeyboardInterrupt, SystemExit, GeneratorExit, pytest's
   Skipped/Failed).  `try: ... finally: restore` runs the restoration for every kind; the shape
   `try: ... except Exception: restore; raise   else: restore` does not.  The harness ties the
   running code to HFinally (AST: the restoring loop sits in a `finally:` / ExitStack, fail closed)
   and injects all three kinds at every fault point.                                               *)
Inductive exit_kind := ExitReturn | ExitException | ExitBaseException.
Inductive handler := HFinally | HExceptExceptionElse.
Definition restores_on (hd : handler) (k : exit_kind) : bool :=
  match hd, k with
  | HFinally, _ => true
  | HExceptExceptionElse, ExitBaseException => false
  | HExceptExceptionElse, _ => true
  end.
Section ExitKinds.
Variable M : hierarchy.
(* `xk`: the kind of whatever exception occurs in this activation (in the apply loop or the body) *)
Definition with_patches_k (hd : handler) (fixed : bool) (specs : list spec) (f : fault) (xk : exit_kind)
  (body : heap -> heap * outcome) (h : heap) : heap * outcome :=
  let '(h1, applied, oc) := apply_loop M fixed specs 0 f h [] in
  let r := match oc with Raised => (h1, Raised) | Returned => body_of f body h1 end in
  let k := match snd r with Returned => ExitReturn | Raised => xk end in
  ((if restores_on hd k then restore_all applied (fst r) else fst r), snd r).
Definition with_amp_k (hd : handler) (ks : list amp_spec) (f : fault) (xk : exit_kind) (body : amp_body)
  (hp : heap * pstate) : heap * pstate * outcome :=
  let '(h1, ps1, touched, oc) := amp_enter M true ks 0 f (fst hp) (snd hp) [] in
  let r := match oc with Raised => (h1, ps1, Raised) | Returned => amp_body_of f body (h1, ps1) end in
  let k := match snd r with Returned => ExitReturn | Raised => xk end in
  ((if restores_on hd k then amp_exit_all touched (fst r) else fst r), snd r).

(* `finally` = restoration for EVERY exit kind: the model used by all theorems above is kind-blind *)
Theorem finally_restores_on_every_exit_kind fixed specs f body h : forall xk,
  with_patches_k HFinally fixed specs f xk body h = with_patches M fixed specs f body h.
Proof.
  intro xk. unfold with_patches_k, with_patches.
  destruct (apply_loop M fixed specs 0 f h []) as [[h1 applied] oc]. reflexivity.
Qed.
Theorem amp_finally_restores_on_every_exit_kind ks f body hp : forall xk,
  with_amp_k HFinally ks f xk body hp = with_amp M true ks f body hp.
Proof.
  intro xk. unfold with_amp_k, with_amp, amp_finish.
  destruct (amp_enter M true ks 0 f (fst hp) (snd hp) []) as [[[h1 ps1] touched] oc].
  destruct oc; simpl; [|reflexivity].
  destruct (amp_body_of f body (h1, ps1)) as [[h2 ps2] oc2]. reflexivity.
Qed.
Corollary restores_for_every_exit_kind specs f xk body h :
  sync_fault f -> body_restores body ->
  forall u b, fst (with_patches_k HFinally true specs f xk body h) u b = h u b.
Proof. intros Hf Hb u b. rewrite finally_restores_on_every_exit_kind. now apply apply_patches_restores_exact. Qed.
Corollary refcount_restores_for_every_exit_kind ks f xk body h ps :
  sync_fault f -> ps_wf ps -> amp_body_exact body ->
  let r := with_amp_k HFinally ks f xk body (h, ps) in
  (forall t a, snd (fst r) t a = ps t a) /\ (forall u b, fst (fst r) u b = h u b).
Proof.
  intros Hf Hwf Hb. cbv zeta. rewrite amp_finally_restores_on_every_exit_kind.
  now apply refcount_restores_exact.
Qed.
End ExitKinds.

(* ================================================================== the x64 flag *)
(* user_interface._temporary_x64(enabled) wraps conversion_api._force_jax_x64(enabled).
   A body maps the flag it is entered with to the flag it leaves behind and how it exits. *)
Definition flag_body := bool -> bool * outcome.
Definition temporary_x64 (enabled : bool) (body : flag_body) (flag : bool) : bool * outcome :=
  let prev := flag in
  let flag1 := if negb (Bool.eqb enabled prev) then enabled else flag in   (* inside try *)
  let r := body flag1 in
  ((if negb (Bool.eqb (fst r) prev) then prev else fst r), snd r).        (* finally *)
Definition force_x64 (tgt : bool) (body : flag_body) (flag : bool) : bool * outcome :=
  let previous := flag in
  let flag1 := if negb (Bool.eqb previous tgt) then tgt else flag in
  let r := body flag1 in
  ((if negb (Bool.eqb previous tgt) then previous else fst r), snd r).    (* finally *)
Definition to_onnx_x64 (enable_double : bool) (body : flag_body) : bool -> bool * outcome :=
  temporary_x64 enable_double (force_x64 enable_double body).

Theorem temporary_x64_restores enabled body flag : fst (temporary_x64 enabled body flag) = flag.
Proof.
  unfold temporary_x64. simpl. destruct (Bool.eqb (fst (body _)) flag) eqn:E; simpl; [|reflexivity].
  now apply Bool.eqb_prop in E.
Qed.
Theorem temporary_x64_outcome enabled body flag :
  snd (temporary_x64 enabled body flag) = snd (body (if negb (Bool.eqb enabled flag) then enabled else flag)).
Proof. reflexivity. Qed.
Definition flag_restoring (body : flag_body) : Prop := forall fl, fst (body fl) = fl.
Theorem force_x64_restores tgt body flag : flag_restoring body -> fst (force_x64 tgt body flag) = flag.
Proof.
  intro Hb. unfold force_x64. simpl. destruct (Bool.eqb flag tgt) eqn:E; simpl; [apply Hb|reflexivity].
Qed.
(* every previous flag value, every requested precision, every body (restoring or not, raising or not) *)
Theorem x64_flag_restored enable_double body flag : fst (to_onnx_x64 enable_double body flag) = flag.
Proof. apply temporary_x64_restores. Qed.
Theorem x64_flag_during_body enable_double body flag :
  flag_restoring body ->
  snd (to_onnx_x64 enable_double body flag) = snd (body enable_double).
Proof.
  intros Hb. unfold to_onnx_x64. rewrite temporary_x64_outcome. unfold force_x64. simpl.
  destruct enable_double, flag; reflexivity.
Qed.
(* the inner manager alone is not robust against a body that changes the flag *)
Theorem force_x64_alone_not_robust : exists tgt body flag, fst (force_x64 tgt body flag) <> flag.
Proof. exists true, (fun _ => (false, Raised)), true. vm_compute. discriminate. Qed.

(* ContextVar discipline of FunctionPlugin lowering: active = V.get(); V.set(active | {name});
   try: body finally: V.set(active) *)
Definition scoped_set {A} (new : A) (body : A -> A * outcome) (cur : A) : A * outcome :=
  let r := body new in (cur, snd r).
Theorem in_function_build_restored {A} (new : A) body cur : fst (scoped_set new body cur) = cur.
Proof. reflexivity. Qed.

(* ================================================================== the jit trace cache *)
(* jax.jit caches the traced jaxpr of a callable per (callable, avals) — NOT per patch state.  A
   jitted callee first traced while the converter's substitutes are active is cached with plugin
   primitives, which have no MLIR lowering; a later eager call with the same avals hits that entry. *)
Inductive trace := Clean | WithPluginPrims.
Definition cache := list (nat * nat * trace).
Fixpoint cache_get (c : cache) (g av : nat) : option trace :=
  match c with
  | [] => None
  | (g', av', tr) :: r => if (g' =? g) && (av' =? av) then Some tr else cache_get r g av
  end.
Definition call_jitted (patched : bool) (c : cache) (g av : nat) : cache * trace :=
  match cache_get c g av with
  | Some tr => (c, tr)
  | None => let tr := if patched then WithPluginPrims else Clean in ((g, av, tr) :: c, tr)
  end.
(* Export g av: to_onnx of a function that calls the jitted g at avals av (whether the export
   succeeds or fails later in lowering is irrelevant: tracing has happened) *)
Inductive event := EExport (g av : nat) | EEager (g av : nat).
Inductive eager_result := EagerOk | NoMlirRule.
Fixpoint run_events (evs : list event) (c : cache) : list eager_result :=
  match evs with
  | [] => []
  | EExport g av :: r => run_events r (fst (call_jitted true c g av))
  | EEager g av :: r =>
    let x := call_jitted false c g av in
    (match snd x with Clean => EagerOk | WithPluginPrims => NoMlirRule end) :: run_events r (fst x)
  end.
Definition fresh_process_results (evs : list event) : list eager_result :=
  map (fun _ => EagerOk) (filter (fun e => match e with EEager _ _ => true | _ => false end) evs).

(* REFUTED on the unchanged code: eager calls behave as in a fresh process after any history *)
Theorem eager_after_export_refuted : exists hist, run_events hist [] <> fresh_process_results hist.
Proof. exists [EExport 0 0; EEager 0 0]. vm_compute. discriminate. Qed.

Definition cache_clean (c : cache) : Prop := forall g av tr, cache_get c g av = Some tr -> tr = Clean.
Lemma eager_keeps_clean c g av : cache_clean c -> cache_clean (fst (call_jitted false c g av)) /\ snd (call_jitted false c g av) = Clean.
Proof.
  intro H. unfold call_jitted. destruct (cache_get c g av) as [tr|] eqn:E; simpl.
  - split; [assumption|now apply (H g av)].
  - split; [|reflexivity]. intros g' av' tr'. simpl.
    destruct ((g =? g') && (av =? av')); [intro X; now inversion X|apply H].
Qed.
(* PARTIAL: the pollution enters only through exports — without them every eager call is fine *)
Theorem eager_ok_without_export : forall hist c,
  cache_clean c -> (forall e, In e hist -> match e with EEager _ _ => True | _ => False end) ->
  run_events hist c = fresh_process_results hist.
Proof.
  induction hist as [|e r IH]; intros c Hc Hall; [reflexivity|].
  pose proof (Hall e (or_introl eq_refl)) as He. destruct e as [g av|g av]; [destruct He|].
  unfold fresh_process_results. simpl. destruct (eager_keeps_clean c g av Hc) as [H1 H2]. rewrite H2.
  f_equal. apply IH; [assumption|]. intros e' I. apply Hall. now right.
Qed.
(* PARTIAL: a callee that was traced eagerly before the export stays usable (and the export then
   sees the un-substituted trace) *)
Theorem warm_cache_protects g av rest :
  (forall e, In e rest -> e = EExport g av \/ e = EEager g av) ->
  run_events (EEager g av :: rest) [] = fresh_process_results (EEager g av :: rest).
Proof.
  intro Hall. unfold fresh_process_results. simpl. f_equal.
  assert (G : forall r, (forall e, In e r -> e = EExport g av \/ e = EEager g av) ->
            run_events r [(g, av, Clean)] =
            map (fun _ => EagerOk) (filter (fun e => match e with EEager _ _ => true | _ => false end) r)).
  { induction r as [|e r IHr]; intro H; [reflexivity|].
    destruct (H e (or_introl eq_refl)) as [-> | ->]; simpl; unfold call_jitted; simpl;
      rewrite !Nat.eqb_refl; simpl; [|f_equal]; apply IHr; intros e' I; apply H; now right. }
  now apply G.
Qed.
(* the repair: key the cache by the patch state as well *)
Definition cachek := list (nat * nat * bool * trace).
Fixpoint cachek_get (c : cachek) (g av : nat) (p : bool) : option trace :=
  match c with
  | [] => None
  | (g', av', p', tr) :: r => if (g' =? g) && (av' =? av) && Bool.eqb p' p then Some tr else cachek_get r g av p
  end.
Definition call_jitted_keyed (patched : bool) (c : cachek) (g av : nat) : cachek * trace :=
  match cachek_get c g av patched with
  | Some tr => (c, tr)
  | None => let tr := if patched then WithPluginPrims else Clean in ((g, av, patched, tr) :: c, tr)
  end.
Fixpoint run_events_keyed (evs : list event) (c : cachek) : list eager_result :=
  match evs with
  | [] => []
  | EExport g av :: r => run_events_keyed r (fst (call_jitted_keyed true c g av))
  | EEager g av :: r =>
    let x := call_jitted_keyed false c g av in
    (match snd x with Clean => EagerOk | WithPluginPrims => NoMlirRule end) :: run_events_keyed r (fst x)
  end.
Definition unpatched_clean (c : cachek) : Prop := forall g av tr, cachek_get c g av false = Some tr -> tr = Clean.
Theorem keyed_cache_repairs : forall hist c, unpatched_clean c -> run_events_keyed hist c = fresh_process_results hist.
Proof.
  induction hist as [|e r IH]; intros c Hc; [reflexivity|]. destruct e as [g av|g av].
  - unfold fresh_process_results. simpl. apply IH.
    unfold call_jitted_keyed. destruct (cachek_get c g av true); simpl; [assumption|].
    intros g' av' tr'. simpl. rewrite andb_false_r. apply Hc.
  - unfold fresh_process_results. simpl. unfold call_jitted_keyed.
    destruct (cachek_get c g av false) as [tr|] eqn:E; simpl.
    + rewrite (Hc g av tr E). f_equal. now apply IH.
    + f_equal. apply IH. intros g' av' tr'. simpl.
      destruct ((g =? g') && (av =? av') && true); [intro X; now inversion X|apply Hc].
Qed.

(* ================================================================== data-level interface (harness) *)
Inductive spec_d := DAssign (t : target) (a : attr) (v : value)
                  | DMonkey (t : target) (a : attr) (base : N)        (* make_value(o) = base + code(o) *)
                  | DMonkeyRaise (t : target) (a : attr).
Definition code_orig (o : option value) : N := match o with None => 0%N | Some x => N.succ x end.
Definition spec_of_d (d : spec_d) : spec :=
  match d with
  | DAssign t a v => Assign t a v
  | DMonkey t a base => Monkey t a (fun o => Some (base + code_orig o)%N)
  | DMonkeyRaise t a => Monkey t a (fun _ => None)
  end.
Definition heap_of (l : list (target * attr * value)) : heap :=
  fun t a => match find (fun e => key_eqb (fst e) (t, a)) l with Some e => Some (snd e) | None => None end.
Definition mro_of (l : list (target * list target)) : hierarchy :=
  fun t => match find (fun e => (fst e =? t)%N) l with Some e => snd e | None => [] end.
(* an observation: (target, attr, own entry, getattr result) *)
Definition obs := (target * attr * option value * option value)%type.
Definition obs_ok (M : hierarchy) (h : heap) (l : list obs) : bool :=
  forallb (fun o => let '(t, a, ow, lk) := o in opt_eqb (h t a) ow && opt_eqb (lookup M h t a) lk) l.
Definition outcome_eqb (x y : outcome) : bool :=
  match x, y with Returned, Returned | Raised, Raised => true | _, _ => false end.

(* heap at the moment the body is entered (None: an exception prevented that) *)
Fixpoint core_mid (M : hierarchy) (items : list item) (h : heap) : option heap :=
  match items with
  | [] => Some h
  | (s, fp) :: rest =>
    match fp with
    | FNone =>
      match new_value s (lookup M h (spec_target s) (spec_attr s)) with
      | None => None
      | Some v => core_mid M rest (py_setattr h (spec_target s) (spec_attr s) v)
      end
    | _ => None
    end
  end.
Lemma core_mid_spec M fixed : forall items h hm, core_mid M items h = Some hm ->
  exists unwind, forall body, core M fixed items body h = (unwind (fst (body hm)), snd (body hm)).
Proof.
  induction items as [|[s fp] rest IH]; intros h hm H; simpl in H.
  - inversion H; subst. exists (fun x => x). intro body. simpl. now destruct (body hm).
  - destruct fp; try discriminate.
    destruct (new_value s (lookup M h (spec_target s) (spec_attr s))) as [v|] eqn:En; [|discriminate].
    destruct (IH _ _ H) as [u Hu].
    exists (fun x => restore1 (u x) (spec_target s, spec_attr s, lookup M h (spec_target s) (spec_attr s),
                                     owned_flag fixed h (spec_target s) (spec_attr s))).
    intro body. simpl. rewrite En, Hu. reflexivity.
Qed.

Definition frames_of (fr : list (list spec_d * fault)) : list (list spec * fault) :=
  map (fun x => (map spec_of_d (fst x), snd x)) fr.
(* one tie-D case for apply_patches: hierarchy, initial own entries, the activation stack, whether
   the body returns, the observations made by the body (None: body not reached), after, outcome *)
Definition pcase := (list (target * list target) * list (target * attr * value) *
                     list (list spec_d * fault) * bool * option (list obs) * list obs * outcome)%type.
Definition pcase_ok (fixed : bool) (c : pcase) : bool :=
  let '(ml, ol, fr, body_returns, mid, after, oc) := c in
  let M := mro_of ml in let h := heap_of ol in
  let frames := frames_of fr in
  let body : heap -> heap * outcome := fun x => (x, if body_returns then Returned else Raised) in
  let r := with_stack M fixed frames body h in
  obs_ok M (fst r) after && outcome_eqb (snd r) oc &&
  match core_mid M (stack_items frames) h, mid with
  | Some hm, Some l => negb (existsb (fun x => is_in_body (snd x)) fr) && obs_ok M hm l
  | None, None => true
  | Some _, None => existsb (fun x => is_in_body (snd x)) fr
  | None, Some _ => false
  end.

(* one tie-D case for apply_monkey_patches: nesting depth (>= 1), keys with patch_fn as data *)
Inductive pf_d := PfAffine (base : N) | PfRaise.
Definition pf_of (d : pf_d) : value -> option value :=
  match d with PfAffine base => fun o => Some (base + N.succ o)%N | PfRaise => fun _ => None end.
Definition acase := (list (target * list target) * list (target * attr * value) *
                     list (target * attr * pf_d) * nat * bool *
                     list obs * list (target * attr * option (value * Z * bool)) * outcome)%type.
Definition ps_obs_ok (ps : pstate) (l : list (target * attr * option (value * Z * bool))) : bool :=
  forallb (fun o => let '(t, a, e) := o in
    match ps t a, e with
    | Some (v, c, w), Some (v', c', w') => N.eqb v v' && (c =? c')%Z && Bool.eqb w w'
    | None, None => true
    | _, _ => false
    end) l.
(* a HISTORY of activations of the same keys with host writes in between: per round an optional host
   write (value None = delattr), nesting depth, whether the body returns, and what is observed after *)
Definition around := (option (target * attr * option value) * nat * bool *
                      list obs * list (target * attr * option (value * Z * bool)) * outcome)%type.
Definition ahcase := (list (target * list target) * list (target * attr * value) *
                      list (target * attr * pf_d) * list around)%type.
Definition host_write (h : heap) (w : option (target * attr * option value)) : heap :=
  match w with
  | None => h
  | Some (t, a, Some v) => py_setattr h t a v
  | Some (t, a, None) => match py_delattr h t a with Some h' => h' | None => h end
  end.
Definition acase_ok (fixed : bool) (c : acase) : bool :=
  let '(ml, ol, ks, depth, body_returns, after, psafter, oc) := c in
  let M := mro_of ml in let h := heap_of ol in
  let ks' := map (fun x => (fst (fst x), snd (fst x), pf_of (snd x))) ks in
  let body : amp_body := fun hp => (fst hp, snd hp, if body_returns then Returned else Raised) in
  let r := amp_depth M fixed depth ks' NoFault body (h, ps_empty) in
  obs_ok M (fst (fst r)) after && ps_obs_ok (snd (fst r)) psafter && outcome_eqb (snd r) oc.

(* tolerant variants: an implementation that restores MORE than the model (an entry equal to the
   initial own entry, or to what getattr found initially; getattr equal to the initial getattr) is
   not a broken tie — it can only be closer to the property *)
Definition obs_ok_tol (M : hierarchy) (h0 hm : heap) (l : list obs) : bool :=
  forallb (fun o => let '(t, a, ow, lk) := o in
    (opt_eqb (hm t a) ow || opt_eqb (h0 t a) ow || opt_eqb (lookup M h0 t a) ow) &&
    (opt_eqb (lookup M hm t a) lk || opt_eqb (lookup M h0 t a) lk)) l.
Definition pcase_ok_tol (fixed : bool) (c : pcase) : bool :=
  let '(ml, ol, fr, body_returns, mid, after, oc) := c in
  let M := mro_of ml in let h := heap_of ol in
  let frames := frames_of fr in
  let body : heap -> heap * outcome := fun x => (x, if body_returns then Returned else Raised) in
  let r := with_stack M fixed frames body h in
  obs_ok_tol M h (fst r) after && outcome_eqb (snd r) oc &&
  match core_mid M (stack_items frames) h, mid with
  | Some hm, Some l => negb (existsb (fun x => is_in_body (snd x)) fr) && obs_ok M hm l
  | None, None => true
  | Some _, None => existsb (fun x => is_in_body (snd x)) fr
  | None, Some _ => false
  end.
Definition ps_obs_ok_tol (ps : pstate) (l : list (target * attr * option (value * Z * bool))) : bool :=
  forallb (fun o => let '(t, a, e) := o in
    match ps t a, e with
    | Some (v, c, w), Some (v', c', w') => N.eqb v v' && (c =? c')%Z && Bool.eqb w w'
    | _, None => true
    | None, Some _ => false
    end) l.
Definition acase_ok_tol (fixed : bool) (c : acase) : bool :=
  let '(ml, ol, ks, depth, body_returns, after, psafter, oc) := c in
  let M := mro_of ml in let h := heap_of ol in
  let ks' := map (fun x => (fst (fst x), snd (fst x), pf_of (snd x))) ks in
  let body : amp_body := fun hp => (fst hp, snd hp, if body_returns then Returned else Raised) in
  let r := amp_depth M fixed depth ks' NoFault body (h, ps_empty) in
  obs_ok_tol M h (fst (fst r)) after && ps_obs_ok_tol (snd (fst r)) psafter && outcome_eqb (snd r) oc.

Fixpoint ahrounds_ok (M : hierarchy) (fixed tol : bool) (ks : list amp_spec) (rs : list around) (st : heap * pstate) : bool :=
  match rs with
  | [] => true
  | (w, depth, body_returns, after, psafter, oc) :: rest =>
    let h1 := host_write (fst st) w in
    let body : amp_body := fun hp => (fst hp, snd hp, if body_returns then Returned else Raised) in
    let r := amp_depth M fixed depth ks NoFault body (h1, snd st) in
    (if tol then obs_ok_tol M h1 (fst (fst r)) after && ps_obs_ok_tol (snd (fst r)) psafter
     else obs_ok M (fst (fst r)) after && ps_obs_ok (snd (fst r)) psafter)
    && outcome_eqb (snd r) oc && ahrounds_ok M fixed tol ks rest (fst r)
  end.
Definition ahcase_ok (fixed tol : bool) (c : ahcase) : bool :=
  let '(ml, ol, ks, rs) := c in
  ahrounds_ok (mro_of ml) fixed tol (map (fun x => (fst (fst x), snd (fst x), pf_of (snd x))) ks) rs (heap_of ol, ps_empty).

(* the real spec list, dumped by the harness: predicted own / getattr differences after one
   activation stack, and the clashes that explain them *)
(* fixed_a: code shape of apply_monkey_patches, whose keys (first occurrences, empty _PATCH_STATE, enter
   loop completing) act as one outermost frame `amp`; fixed_p: code shape of apply_patches *)
Definition predicted_diffs (fixed_a fixed_p : bool) (ml : list (target * list target)) (ol : list (target * attr * value))
  (amp : list spec_d) (fr : list (list spec_d * fault)) (universe : list key) : list key * list key :=
  let M := mro_of ml in let h := heap_of ol in
  let h' := fst (with_patches M fixed_a (map spec_of_d amp) NoFault
                   (with_stack M fixed_p (frames_of fr) (fun x => (x, Returned))) h) in
  (filter (fun k => negb (opt_eqb (lookup M h' (fst k) (snd k)) (lookup M h (fst k) (snd k)))) universe,
   filter (fun k => negb (opt_eqb (h' (fst k) (snd k)) (h (fst k) (snd k)))) universe).
Definition real_clashes (ml : list (target * list target)) (ol : list (target * attr * value))
  (ks : list key) : list (target * key) :=
  clash_list (mro_of ml) (owned_in (heap_of ol)) ks [].
Definition real_incoherent (ml : list (target * list target)) (ol : list (target * attr * value))
  (ks : list key) (universe : list key) : list key :=
  filter (fun k => negb (coh (mro_of ml) (heap_of ol) ks (snd k) (fst k :: mro_of ml (fst k)))) universe.

(* ================================================================== non-vacuity and refutations *)
Module Examples.
Local Open Scope N_scope.
(* targets: 0 = class Base, 1 = class Child(Base), 2 = a module, 3 = class Mix, 4 = class D(Child, Mix)
   attrs:   0 = __call__, 1 = helper (missing everywhere), 2 = f (module function)                  *)
Definition M0 : hierarchy := mro_of [(1, [0]); (4, [1; 3; 0])].
Definition h0 : heap := heap_of [(0, 0, 10%N); (2, 2, 20%N); (3, 0, 30%N)].
Definition all_own_equal (h : heap) : bool :=
  forallb (fun t => forallb (fun a => opt_eqb (h t a) (h0 t a)) [0; 1; 2]) [0; 1; 2; 3; 4].
Definition all_getattr_equal (h : heap) : bool :=
  forallb (fun t => forallb (fun a => opt_eqb (lookup M0 h t a) (lookup M0 h0 t a)) [0; 1; 2]) [0; 1; 2; 3; 4].
Definition some_faults : list fault :=
  [NoFault; InBody; BeforeSet 0; BeforeSet 1; BeforeSet 2; BeforeSet 3; BeforeSet 4; BeforeSet 5].

(* child patched BEFORE parent; duplicate spec; missing attribute *)
Definition specs_ok : list spec :=
  [Assign 2 1 77%N; Monkey 1 0 (fun o => Some 100%N); Monkey 0 0 (fun o => Some 101%N);
   Assign 2 2 21%N; Assign 2 2 22%N; Monkey 1 0 (fun o => Some 102%N)].
(* parent patched BEFORE the inheriting child *)
Definition specs_clash : list spec := [Monkey 0 0 (fun o => Some 101%N); Monkey 1 0 (fun o => Some 100%N)].

Example ex_patched_inside :
  let hm := core_mid M0 (annotate specs_ok 0 NoFault) h0 in
  match hm with
  | Some h => (lookup M0 h 1 0, lookup M0 h 0 0, lookup M0 h 2 2, lookup M0 h 2 1) = (Some 102%N, Some 101%N, Some 22%N, Some 77%N)
  | None => False
  end.
Proof. vm_compute. reflexivity. Qed.

(* ---- since b0781c1 (fixed = true): own dicts exactly restored in both orders, at every fault point,
   also for the diamond observer 4 *)
Example ex_fixed_restores_exactly :
  forallb (fun specs => forallb (fun f =>
    all_own_equal (fst (with_patches M0 true specs f (fun x => (x, Returned)) h0))) some_faults)
    [specs_ok; specs_clash; [Monkey 1 0 (fun _ => Some 100%N)]] = true.
Proof. vm_compute. reflexivity. Qed.

(* ---- before b0781c1 (fixed = false) *)
Example ex_clash_free : no_inherited_clash M0 h0 specs_ok = true.
Proof. vm_compute. reflexivity. Qed.
Example ex_restored_all_faults :
  forallb (fun f =>
    let h := fst (with_patches M0 false specs_ok f (fun x => (x, Returned)) h0) in
    forallb (fun t => forallb (fun a => opt_eqb (lookup M0 h t a) (lookup M0 h0 t a)) [0; 1; 2]) [0; 1; 2; 3])
    some_faults = true.
Proof. vm_compute. reflexivity. Qed.
(* the own dict of Child gains __call__ (materialised), the missing helper is deleted again *)
Example ex_materialised :
  let h := fst (with_patches M0 false specs_ok NoFault (fun x => (x, Returned)) h0) in
  (h0 1 0, h 1 0, h 2 1, h0 2 1) = (None, Some 10%N, None, None).
Proof. vm_compute. reflexivity. Qed.
Example ex_coherent_for_chain : mro_coherent M0 h0 specs_ok 1 0 = true.
Proof. vm_compute. reflexivity. Qed.
Example ex_clash_detected : no_inherited_clash M0 h0 specs_clash = false.
Proof. vm_compute. reflexivity. Qed.
End Examples.

Local Open Scope N_scope.
(* ---------------------------------------------------------------- still true of the current code *)
(* an exception between setattr and applied.append (asynchronous only) is not unwound — by either
   code shape *)
Theorem async_fault_after_setattr_leaks : exists M h specs k t a, forall fixed,
  lookup M (fst (with_patches M fixed specs (AfterSet k) (fun x => (x, Returned)) h)) t a <> lookup M h t a.
Proof.
  exists Examples.M0, Examples.h0, [Assign 2 2 21%N], 0%nat, 2, 2. intros [|]; vm_compute; discriminate.
Qed.
(* the same window in apply_monkey_patches: between setattr and `_PATCH_STATE[key] = ...` *)
Theorem amp_async_fault_leaks : exists M h ks k t a,
  lookup M (fst (fst (with_amp M true ks (AfterSet k) (fun hp => (fst hp, snd hp, Returned)) (h, ps_empty)))) t a
  <> lookup M h t a.
Proof.
  exists Examples.M0, Examples.h0, [(0, 0, fun o => Some 500%N)], 0%nat, 0, 0. vm_compute. discriminate.
Qed.
(* non-vacuity of refcount_restores_exact / refcount_nesting_exact: depth 3, body raising, and an
   enter-loop fault (getattr on a missing attribute for the second key) *)
Example amp_fixed_example :
  let ks := [(0, 0, fun o => Some 500%N); (2, 2, fun o => Some 501%N); (0, 0, fun o => Some 502%N)] in
  let r := amp_depth Examples.M0 true 3 ks InBody (fun hp => (fst hp, snd hp, Returned)) (Examples.h0, ps_empty) in
  let bad := [(0, 0, fun o => Some 500%N); (2, 1, fun o => Some 501%N)] in
  let r' := with_amp Examples.M0 true bad NoFault (fun hp => (fst hp, snd hp, Returned)) (Examples.h0, ps_empty) in
  snd r = Raised /\ Examples.all_own_equal (fst (fst r)) = true /\
  amp_entered Examples.M0 true bad NoFault (Examples.h0, ps_empty) = false /\
  snd r' = Raised /\ Examples.all_own_equal (fst (fst r')) = true /\
  forallb (fun t => forallb (fun a => negb (is_some (snd (fst r) t a)) && negb (is_some (snd (fst r') t a)))
                            [0; 1; 2]) [0; 1; 2; 3] = true.
Proof. vm_compute. repeat split; reflexivity. Qed.

(* ---------------------------------------------------------------- the defects b0781c1 repaired:
   refutations of the code BEFORE that commit (fixed = false), kept as documentation and because the
   harness still recognises that code shape *)
(* the side condition was necessary: the child saves the parent's PATCHED value as its original *)
Theorem inherited_clash_leaks : exists M h specs t a,
  no_inherited_clash M h specs = false /\ mro_coherent M h specs t a = true /\
  lookup M (fst (with_patches M false specs NoFault (fun x => (x, Returned)) h)) t a <> lookup M h t a /\
  lookup M (fst (with_patches M true specs NoFault (fun x => (x, Returned)) h)) t a = lookup M h t a.
Proof.
  exists Examples.M0, Examples.h0, Examples.specs_clash, 1, 0. vm_compute.
  repeat split; try discriminate.
Qed.
(* multiple inheritance: materialising an inherited attribute on a class shadowed what a subclass
   resolved through ANOTHER base — no clash, one spec; mro_coherent ruled it out *)
Theorem incoherent_mro_leaks : exists M h specs D a,
  no_inherited_clash M h specs = true /\ mro_coherent M h specs D a = false /\
  lookup M (fst (with_patches M false specs NoFault (fun x => (x, Returned)) h)) D a <> lookup M h D a /\
  lookup M (fst (with_patches M true specs NoFault (fun x => (x, Returned)) h)) D a = lookup M h D a.
Proof.
  exists Examples.M0, Examples.h0, [Monkey 1 0 (fun _ => Some 100%N)], 4, 0. vm_compute.
  repeat split; try discriminate.
Qed.
(* apply_monkey_patches: an exception in the enter loop (getattr on a missing attribute for the
   second key) left the first key patched and its count at 1 for ever; repaired *)
Theorem amp_apply_fault_leaks : exists M h ks t a,
  let r := with_amp M false ks NoFault (fun hp => (fst hp, snd hp, Returned)) (h, ps_empty) in
  let r' := with_amp M true ks NoFault (fun hp => (fst hp, snd hp, Returned)) (h, ps_empty) in
  amp_entered M false ks NoFault (h, ps_empty) = false /\
  lookup M (fst (fst r)) t a <> lookup M h t a /\ snd (fst r) t a <> ps_empty t a /\
  lookup M (fst (fst r')) t a = lookup M h t a /\ snd (fst r') t a = ps_empty t a.
Proof.
  exists Examples.M0, Examples.h0, [(0, 0, fun o => Some 500%N); (2, 1, fun o => Some 501%N)], 0, 0.
  vm_compute. repeat split; try discriminate.
Qed.
(* non-vacuity of the pre-b0781c1 refcount_restores / refcount_nesting: depth 3, body raising *)
Example amp_nesting_example :
  let ks := [(0, 0, fun o => Some 500%N); (2, 2, fun o => Some 501%N); (0, 0, fun o => Some 502%N)] in
  let r := amp_depth Examples.M0 false 3 ks InBody (fun hp => (fst hp, snd hp, Returned)) (Examples.h0, ps_empty) in
  amp_entered Examples.M0 false ks NoFault (Examples.h0, ps_empty) = true /\
  snd r = Raised /\
  forallb (fun t => forallb (fun a => opt_eqb (fst (fst r) t a) (Examples.h0 t a) &&
                                       negb (is_some (snd (fst r) t a))) [0; 1; 2]) [0; 1; 2; 3] = true.
Proof. vm_compute. repeat split; reflexivity. Qed.

(* `except Exception: restore; raise / else: restore` instead of `finally`: REFUTED by a body left through
   a BaseException that is not an Exception (KeyboardInterrupt) — nothing is restored *)
Theorem except_exception_handler_refuted : exists M specs h t a,
  lookup M (fst (with_patches_k M HExceptExceptionElse true specs NoFault ExitBaseException
                   (fun x => (x, Raised)) h)) t a <> lookup M h t a /\
  lookup M (fst (with_patches_k M HExceptExceptionElse true specs NoFault ExitException
                   (fun x => (x, Raised)) h)) t a = lookup M h t a /\
  lookup M (fst (with_patches_k M HFinally true specs NoFault ExitBaseException
                   (fun x => (x, Raised)) h)) t a = lookup M h t a.
Proof.
  exists Examples.M0, Examples.specs_ok, Examples.h0, 2, 2. vm_compute. repeat split; try discriminate.
Qed.
