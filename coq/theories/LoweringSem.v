(* LoweringSem (C01): the glue of the converter is correct for EVERY program relative to a
   per-equation plugin contract.  Contexts carry the emitted nodes (Graph.v); the dispatcher is the one
   of Lowering.v (same input check, result binding and output check) lifted to these contexts. *)
From Coq Require Import String List Bool Arith Lia.
From J2O Require Import Graph Lowering.
Import ListNotations.

Record sctx := mkS { s_bind : list (var * vname); s_inputs : list vname; s_nodes : list node }.
Definition erase (s : sctx) : ctx := mkCtx (s_bind s) (s_inputs s ++ defs (s_nodes s)).
Definition with_bind (s : sctx) (b : list (var * vname)) : sctx := mkS b (s_inputs s) (s_nodes s).

Definition splugin := sctx -> eqn -> result (sctx * lres).
Definition sregistry := string -> option splugin.

Definition slower_eqn (reg : sregistry) (s : sctx) (e : eqn) : result sctx :=
  match reg (e_prim e) with
  | None => Err (ENotImplemented (e_prim e))
  | Some p =>
      if negb (inputs_bound (erase s) e) then Err EUnboundInput else
      match p s e with
      | Err x => Err x
      | Ok (s1, r) =>
          match bind_returned (erase s1) e r with
          | Err x => Err x
          | Ok c2 => match outputs_ok c2 (non_drop e) with
                     | Ok _ => Ok (with_bind s1 (c_bind c2))
                     | Err x => Err x end
          end
      end
  end.

Fixpoint slower_jaxpr (reg : sregistry) (s : sctx) (jp : jaxpr) : result sctx :=
  match jp with
  | [] => Ok s
  | e :: r => match slower_eqn reg s e with Ok s1 => slower_jaxpr reg s1 r | Err x => Err x end
  end.

(* the lifted dispatcher is the dispatcher of Lowering.v on the erased contexts *)
Definition erase_plugin (p : splugin) (lift : ctx -> sctx) : plugin :=
  fun c e => match p (lift c) e with Ok (s1, r) => Ok (erase s1, r) | Err x => Err x end.

Lemma bind_returned_conn c e r c2 : bind_returned c e r = Ok c2 -> c_conn c2 = c_conn c.
Proof.
  assert (Hw : forall vs ns c0, c_conn (bind_where_needed c0 vs ns) = c_conn c0).
  { induction vs as [|v vr IH]; intros [|n nr] c0; simpl; auto. rewrite IH. now destruct (needs_binding c0 v). }
  assert (Ha : forall vs ns c0, c_conn (bind_all c0 vs ns) = c_conn c0).
  { induction vs as [|v vr IH]; intros [|n nr] c0; simpl; auto. now rewrite IH. }
  unfold bind_returned. remember (filter (needs_binding c) (non_drop e)) as ub eqn:Eub.
  destruct ub as [|u us]; [intro H; now injection H as <-|].
  destruct r as [|l|]; intro H; try discriminate; [now injection H as <-|].
  destruct (Nat.eqb (length l) (length (non_drop e))); [injection H as <-; apply Hw|].
  destruct (Nat.eqb (length l) (length (u :: us))); [injection H as <-; apply (Ha (u :: us) l c) | discriminate].
Qed.

Lemma slower_eqn_erase reg s e s' : slower_eqn reg s e = Ok s' ->
  forall p, reg (e_prim e) = Some p ->
  lower_eqn (fun q => if String.eqb q (e_prim e) then Some (fun _ e0 => match p s e0 with Ok (s1, r) => Ok (erase s1, r) | Err x => Err x end) else None)
            (erase s) e = Ok (erase s').
Proof.
  unfold slower_eqn, lower_eqn. intros H p Hp. rewrite Hp in H. rewrite String.eqb_refl.
  destruct (negb (inputs_bound (erase s) e)); [discriminate|].
  destruct (p s e) as [[s1 r]|x]; [|discriminate].
  destruct (bind_returned (erase s1) e r) as [c2|x] eqn:Eb; [|discriminate].
  destruct (outputs_ok c2 (non_drop e)) as [[]|x]; [|discriminate].
  injection H as <-. f_equal.
  pose proof (bind_returned_conn _ _ _ _ Eb) as Hc.
  destruct c2 as [b cn]. simpl in *. subst cn. reflexivity.
Qed.

Section Correct.
  Variable V : Type.
  Variable psem : string -> list V -> option (list V).               (* what each JAX primitive computes *)
  Variable gsem : string -> list nat -> list V -> option (list V).    (* what each ONNX operator computes *)
  Notation genv := (env V).
  Notation geval := (eval V gsem).

  (* ---- jaxpr evaluation *)
  Definition jenv := var -> option V.
  Definition jread (r : jenv) (lit : V) (i : invar) : option V := match i with IVar v => r v | ILit => Some lit end.
  Fixpoint jreads (r : jenv) (lit : V) (l : list invar) : option (list V) :=
    match l with [] => Some [] | i :: t => match jread r lit i, jreads r lit t with Some a, Some b => Some (a :: b) | _, _ => None end end.
  Fixpoint jwrite (r : jenv) (outs : list (option var)) (vals : list V) : jenv :=
    match outs, vals with
    | Some v :: ot, a :: vt => jwrite (fun w => if Nat.eqb w v then Some a else r w) ot vt
    | None :: ot, _ :: vt => jwrite r ot vt
    | _, _ => r
    end.

  (* relation between the lowering context, the jaxpr environment and the graph environment:
     every bound variable's graph value carries the variable's JAX value *)
  Definition related (s : sctx) (r : jenv) (g : genv) : Prop :=
    (forall v n, bound (erase s) v = Some n -> exists a, r v = Some a /\ g n = Some a) /\
    (forall n a, g n = Some a -> connected (erase s) n = true).      (* the graph env lives on graph values only *)

  Definition genv_le (g g' : genv) : Prop := forall n a, g n = Some a -> g' n = Some a.

  (* PER-EQUATION CONTRACT of a registry (this is what each plugin has to satisfy; literals are the
     plugin's business, hence the parameter [lit] is only used to state the jaxpr side):
     when the dispatcher accepts the equation, the nodes emitted for it evaluate, leave existing graph
     values untouched, keep earlier bindings, and bind the outvars to values carrying the primitive's result *)
  Definition eqn_contract (reg : sregistry) (lit : V) : Prop :=
    forall s e s', slower_eqn reg s e = Ok s' ->
      exists new, s_nodes s' = s_nodes s ++ new /\ s_inputs s' = s_inputs s /\
        (forall v, ~ In v (non_drop e) -> bound (erase s') v = bound (erase s) v) /\
        forall (r : jenv) (g : genv) vals outs,
          related s r g -> jreads r lit (e_ins e) = Some vals -> psem (e_prim e) vals = Some outs ->
          length outs = length (e_outs e) ->
          exists g', geval new g = Some g' /\ genv_le g g' /\ related s' (jwrite r (e_outs e) outs) g'.

  Fixpoint jeval (lit : V) (jp : jaxpr) (r : jenv) : option jenv :=
    match jp with
    | [] => Some r
    | e :: t => match jreads r lit (e_ins e) with
                | Some vals => match psem (e_prim e) vals with
                               | Some outs => if Nat.eqb (length outs) (length (e_outs e)) then jeval lit t (jwrite r (e_outs e) outs) else None
                               | None => None end
                | None => None end
    end.

  Lemma eval_app_some ns1 ns2 (g g1 g2 : genv) :
    geval ns1 g = Some g1 -> geval ns2 g1 = Some g2 -> geval (ns1 ++ ns2) g = Some g2.
  Proof. intros H1 H2. rewrite eval_app, H1. exact H2. Qed.

  (* WHOLE-PROGRAM CORRECTNESS OF THE GLUE, any length: if lowering succeeds and the JAX program evaluates,
     the emitted graph evaluates and every bound variable (in particular every jaxpr output) carries the JAX value *)
  Theorem lower_jaxpr_correct reg lit :
    eqn_contract reg lit ->
    forall jp s s', slower_jaxpr reg s jp = Ok s' ->
    forall r g r', related s r g -> jeval lit jp r = Some r' ->
    exists new g', s_nodes s' = s_nodes s ++ new /\ geval new g = Some g' /\ genv_le g g' /\ related s' r' g'.
  Proof.
    intros Hc. induction jp as [|e t IH]; simpl; intros s s' Hl r g r' Hrel Hj.
    - injection Hl as <-. injection Hj as <-. exists [], g.
      split; [now rewrite app_nil_r|]. split; [reflexivity|]. split; [intros n a H; exact H | exact Hrel].
    - destruct (slower_eqn reg s e) as [s1|x] eqn:E1; [|discriminate].
      destruct (jreads r lit (e_ins e)) as [vals|] eqn:Er; [|discriminate].
      destruct (psem (e_prim e) vals) as [outs|] eqn:Ep; [|discriminate].
      destruct (Nat.eqb (length outs) (length (e_outs e))) eqn:El; [|discriminate].
      apply Nat.eqb_eq in El.
      destruct (Hc s e s1 E1) as (new1 & Hn1 & Hi1 & Hkeep & Hsem).
      destruct (Hsem r g vals outs Hrel Er Ep El) as (g1 & Hg1 & Hle1 & Hrel1).
      destruct (IH s1 s' Hl _ g1 r' Hrel1 Hj) as (new2 & g2 & Hn2 & Hg2 & Hle2 & Hrel2).
      exists (new1 ++ new2), g2.
      split; [rewrite Hn2, Hn1; now rewrite app_assoc|].
      split; [eapply eval_app_some; eauto|].
      split; [intros n a H; apply Hle2; now apply Hle1 | exact Hrel2].
  Qed.

  (* outputs: the graph values bound to the jaxpr's output variables are the JAX results *)
  Corollary lower_jaxpr_outputs reg lit jp s s' r g r' outvars :
    eqn_contract reg lit -> slower_jaxpr reg s jp = Ok s' -> related s r g -> jeval lit jp r = Some r' ->
    Forall (fun v => bound (erase s') v <> None) outvars ->
    exists new g', s_nodes s' = s_nodes s ++ new /\ geval new g = Some g' /\
      Forall (fun v => exists n a, bound (erase s') v = Some n /\ g' n = Some a /\ r' v = Some a) outvars.
  Proof.
    intros Hc Hl Hrel Hj Hb.
    destruct (lower_jaxpr_correct reg lit Hc jp s s' Hl r g r' Hrel Hj) as (new & g' & Hn & Hg & _ & Hr).
    exists new, g'. split; [exact Hn|]. split; [exact Hg|]. rewrite Forall_forall in *. intros v Hv.
    destruct (bound (erase s') v) as [n|] eqn:Eb; [|exfalso; now apply (Hb v Hv)].
    destruct Hr as [Hr _]. destruct (Hr v n Eb) as (a & Ha & Hga). eauto.
  Qed.
End Correct.

(* ---------------------------------------------------------------- non-vacuity: a concrete registry meeting the contract *)
(* values are naturals; one primitive "inc" lowered to one node "Inc"; fresh names taken above every name in use *)
Definition ex_psem (p : string) (vs : list nat) : option (list nat) :=
  if String.eqb p "inc" then match vs with [a] => Some [S a] | _ => None end else None.
Definition ex_gsem (op : string) (_ : list nat) (vs : list nat) : option (list nat) :=
  if String.eqb op "Inc" then match vs with [a] => Some [S a] | _ => None end else None.
Definition fresh_above (s : sctx) : vname := S (fold_right Nat.max 0 (s_inputs s ++ defs (s_nodes s) ++ map snd (s_bind s))).
Definition inc_plugin : splugin := fun s e =>
  match e_ins e, e_outs e with
  | [IVar v], [Some o] =>
      match bound (erase s) v with
      | Some n => let y := fresh_above s in
                  Ok (mkS ((o, y) :: s_bind s) (s_inputs s) (s_nodes s ++ [mkNode "Inc" [] [n] [] [y]]), RNone)
      | None => Err EPlugin end
  | _, _ => Err EPlugin
  end.
Definition ex_reg : sregistry := fun p => if String.eqb p "inc" then Some inc_plugin else None.

Example ex_lowering :
  slower_jaxpr ex_reg (mkS [(0, 0)] [0] []) [mkEqn "inc" [IVar 0] [Some 1]; mkEqn "inc" [IVar 1] [Some 2]]
  = Ok (mkS [(2, 2); (1, 1); (0, 0)] [0] [mkNode "Inc" [] [0] [] [1]; mkNode "Inc" [] [1] [] [2]]).
Proof. reflexivity. Qed.

(* ---- the example registry really satisfies the contract (so the theorem's hypothesis is satisfiable) *)
Lemma fold_max_ge l x : In x l -> x <= fold_right Nat.max 0 l.
Proof. induction l as [|y l IH]; simpl; intro H; [contradiction|]. destruct H as [->|H]; [lia|]. specialize (IH H). lia. Qed.

Lemma connected_In c n : connected c n = true <-> In n (c_conn c).
Proof.
  unfold connected. rewrite existsb_exists. split.
  - intros (x & Hx & E). apply Nat.eqb_eq in E. now subst.
  - intro H. exists n. split; auto. apply Nat.eqb_refl.
Qed.

Lemma fresh_above_fresh s : ~ In (fresh_above s) (s_inputs s ++ defs (s_nodes s)).
Proof.
  intro H. unfold fresh_above in H.
  assert (Hin : In (S (fold_right Nat.max 0 (s_inputs s ++ defs (s_nodes s) ++ map snd (s_bind s))))
                   (s_inputs s ++ defs (s_nodes s) ++ map snd (s_bind s))).
  { apply in_app_or in H. apply in_or_app. destruct H as [H|H]; [now left | right; apply in_or_app; now left]. }
  apply fold_max_ge in Hin. lia.
Qed.

Lemma defs_app a b : defs (a ++ b) = defs a ++ defs b.
Proof. unfold defs. apply flat_map_app. Qed.

Theorem ex_contract : eqn_contract nat ex_psem ex_gsem ex_reg 0.
Proof.
  intros s e s' H. unfold slower_eqn, ex_reg in H.
  destruct (String.eqb (e_prim e) "inc") eqn:Ep; [|discriminate].
  destruct (negb (inputs_bound (erase s) e)); [discriminate|].
  unfold inc_plugin in H.
  destruct (e_ins e) as [|[v|] [|? ?]] eqn:Ei; try discriminate.
  destruct (e_outs e) as [|[o|] [|? ?]] eqn:Eo; try discriminate.
  destruct (bound (erase s) v) as [n|] eqn:Eb; [|discriminate].
  set (y := fresh_above s) in *.
  set (s1 := mkS ((o, y) :: s_bind s) (s_inputs s) (s_nodes s ++ [mkNode "Inc" [] [n] [] [y]])) in *.
  assert (Hy1 : connected (erase s1) y = true).
  { apply connected_In. simpl. rewrite defs_app. simpl. apply in_or_app. right. apply in_or_app. right. now left. }
  assert (Hnd : non_drop e = [o]) by (unfold non_drop; rewrite Eo; reflexivity).
  assert (Hbo : bound (erase s1) o = Some y) by (unfold bound; simpl; now rewrite Nat.eqb_refl).
  assert (Hbr : bind_returned (erase s1) e RNone = Ok (erase s1)).
  { unfold bind_returned. rewrite Hnd. simpl. unfold needs_binding. rewrite Hbo, Hy1. reflexivity. }
  rewrite Hbr in H. rewrite Hnd in H. simpl in H. rewrite Hbo, Hy1 in H.
  injection H as <-.
  exists [mkNode "Inc" [] [n] [] [y]]. split; [reflexivity|]. split; [reflexivity|]. split.
  - intros w Hw. rewrite Hnd in Hw. unfold bound. simpl.
    destruct (Nat.eqb_spec o w) as [->|]; [exfalso; apply Hw; now left | reflexivity].
  - intros r g vals outs [Hrel Hdom] Hread Hsem Hlen.
    try rewrite Ei in Hread. simpl in Hread. destruct (r v) as [a|] eqn:Erv; [|discriminate]. injection Hread as <-.
    apply String.eqb_eq in Ep. rewrite Ep in Hsem. simpl in Hsem. injection Hsem as <-.
    destruct (Hrel v n Eb) as (a' & Ha' & Hgn). rewrite Erv in Ha'. injection Ha' as <-.
    assert (Hgy : g y = None).
    { destruct (g y) as [b|] eqn:E; auto. apply Hdom in E. apply connected_In in E. simpl in E.
      exfalso. now apply (fresh_above_fresh s). }
    exists (upd nat g y (S a)). split; [|split].
    + simpl. unfold step, n_uses. simpl. rewrite Hgn. simpl. reflexivity.
    + intros m b Hm. unfold upd. destruct (Nat.eqb_spec m y) as [->|]; [congruence | exact Hm].
    + split.
      * intros w m Hb. unfold bound in Hb. simpl in Hb. try rewrite Eo. simpl.
        destruct (Nat.eqb_spec o w) as [->|Hne].
        -- injection Hb as <-. exists (S a). rewrite Nat.eqb_refl. split; auto. unfold upd. now rewrite Nat.eqb_refl.
        -- destruct (Hrel w m Hb) as (b & Hrb & Hgb). exists b.
           destruct (Nat.eqb_spec w o) as [->|]; [contradiction|]. split; auto.
           unfold upd. destruct (Nat.eqb_spec m y) as [->|]; [congruence | exact Hgb].
      * intros m b Hm. apply connected_In. simpl. rewrite defs_app. simpl.
        unfold upd in Hm. destruct (Nat.eqb_spec m y) as [->|].
        -- apply in_or_app. right. apply in_or_app. right. now left.
        -- apply Hdom in Hm. apply connected_In in Hm. simpl in Hm.
           apply in_app_or in Hm as [Hm|Hm]; apply in_or_app; [now left | right; apply in_or_app; now left].
Qed.

(* the end-to-end instance: a two-equation program, for every input value *)
Example ex_end_to_end : forall x : nat,
  exists g', eval nat ex_gsem [mkNode "Inc" [] [0] [] [1]; mkNode "Inc" [] [1] [] [2]] (fun n => if Nat.eqb n 0 then Some x else None) = Some g'
             /\ g' 2 = Some (S (S x)).
Proof. intro x. eexists. split; reflexivity. Qed.
