(* Kernels: the exact kernels K of property C01.  For each kernel k:
     jax_k      the function JAX documents / implements (validated against eager JAX, harness tie D2),
     lowered_k  the operator graph the jax2onnx plugin emits, as an expression over the OnnxInt operators
                (harness tie S: the graph of a REAL single-primitive export is translated to a Gallina term that
                 Coq checks to be convertible to lowered_k at every dtype variant),
     k_correct  forall in-range inputs, lowered_k = jax_k     (unbounded; generic in the bit width)
   and, where the faithful lowered_k is wrong, k_correct_refuted (a witness) and k_correct_partial (the exact
   or a sufficient domain on which it is right).
   Integers of type sb = (signed?, bits) are mathematical integers in [int_lo sb, int_hi sb]. *)
From Coq Require Import ZArith Bool Lia List.
From J2O Require Import PyLib Dtype OnnxInt.
Import ListNotations.
Local Open Scope Z_scope.

Ltac Zify.zify_post_hook ::= Z.to_euclidean_division_equations.

Definition ity_eqb (a b : ity) : bool := Bool.eqb (fst a) (fst b) && (snd a =? snd b).
(* index operands are cast to int64 unless they already are *)
Definition cast_idx (sb : ity) (v : Z) : Z := if ity_eqb sb I64 then v else o_cast I64 v.
(* no integer-division overflow: JAX documents x / 0 and INT_MIN / -1 as implementation defined *)
Definition div_dom (sb : ity) (x y : Z) : Prop := y <> 0 /\ ~ (is_signed sb = true /\ x = int_lo sb /\ y = -1).

Lemma in_int_bounds sb x : 0 < snd sb -> in_int sb x ->
  (is_signed sb = true /\ - 2 ^ (snd sb - 1) <= x <= 2 ^ (snd sb - 1) - 1) \/
  (is_signed sb = false /\ 0 <= x <= 2 ^ snd sb - 1).
Proof. destruct sb as [[|] b]; unfold in_int, int_lo, int_hi; simpl; intros; [left|right]; auto. Qed.

Ltac range_tac sb Hb :=
  destruct sb as [sg b]; unfold in_int, int_lo, int_hi, is_signed in *; simpl in *;
  pose proof (pow2_pos (b - 1) ltac:(lia)); pose proof (pow2_split b Hb).

(* ================================================================ 1. ring operations *)
Definition jax_add (sb : ity) (x y : Z) := wrap sb (x + y).
Definition jax_sub (sb : ity) (x y : Z) := wrap sb (x - y).
Definition jax_mul (sb : ity) (x y : Z) := wrap sb (x * y).
Definition lowered_add (sb : ity) (x y : Z) := o_add sb x y.
Definition lowered_sub (sb : ity) (x y : Z) := o_sub sb x y.
Definition lowered_mul (sb : ity) (x y : Z) := o_mul sb x y.
Theorem add_correct sb x y : lowered_add sb x y = jax_add sb x y. Proof. reflexivity. Qed.
Theorem sub_correct sb x y : lowered_sub sb x y = jax_sub sb x y. Proof. reflexivity. Qed.
Theorem mul_correct sb x y : lowered_mul sb x y = jax_mul sb x y. Proof. reflexivity. Qed.

(* lax.neg: two's-complement negation (INT_MIN stays; unsigned: 2^b - x) *)
Definition jax_neg (sb : ity) (x : Z) := if x =? 0 then 0 else if is_signed sb then (if x =? int_lo sb then x else - x) else 2 ^ snd sb - x.
Definition prerepair_neg (sb : ity) (x : Z) := o_neg sb x.
Theorem prerepair_neg_correct sb x : 0 < snd sb -> in_int sb x -> prerepair_neg sb x = jax_neg sb x.
Proof.
  intros Hb Hx. unfold prerepair_neg, o_neg, jax_neg.
  destruct (x =? 0) eqn:E0; [apply Z.eqb_eq in E0; subst; apply wrap_id; auto|]. apply Z.eqb_neq in E0.
  destruct sb as [sg b]; unfold in_int, int_lo, int_hi, is_signed, wrap in *; simpl in *.
  pose proof (pow2_pos (b - 1) ltac:(lia)). pose proof (pow2_split b Hb).
  destruct sg.
  - destruct (x =? - 2 ^ (b - 1)) eqn:E1.
    + apply Z.eqb_eq in E1. subst x. replace (- - 2 ^ (b - 1) + 2 ^ (b - 1)) with (2 ^ b) by lia.
      rewrite Z.mod_same by lia. lia.
    + apply Z.eqb_neq in E1. rewrite Z.mod_small by lia. lia.
  - replace (- x) with (2 ^ b - x + (-1) * 2 ^ b) by lia. rewrite Z.mod_add by lia. apply Z.mod_small. lia.
Qed.
(* ONNX Neg is not defined on unsigned element types: for them prerepair_neg is outside its ONNX domain *)
Definition neg_dom (sb : ity) : Prop := is_signed sb = true.
Theorem neg_unsigned_outside_onnx_domain sb : is_signed sb = false -> ~ neg_dom sb.
Proof. unfold neg_dom; intros H1 H2; congruence. Qed.

(* lax.abs wraps at INT_MIN *)
Definition jax_abs (sb : ity) (x : Z) := if x =? int_lo sb then x else Z.abs x.
Definition lowered_abs (sb : ity) (x : Z) := o_abs sb x.
Theorem abs_correct sb x : 0 < snd sb -> is_signed sb = true -> in_int sb x -> lowered_abs sb x = jax_abs sb x.
Proof.
  intros Hb Hs Hx. unfold lowered_abs, o_abs, jax_abs.
  destruct sb as [sg b]; unfold in_int, int_lo, int_hi, is_signed, wrap in *; simpl in *. subst sg.
  pose proof (pow2_pos (b - 1) ltac:(lia)). pose proof (pow2_split b Hb).
  destruct (x =? - 2 ^ (b - 1)) eqn:E1.
  - apply Z.eqb_eq in E1. subst x. rewrite Z.abs_neq by lia.
    replace (- - 2 ^ (b - 1) + 2 ^ (b - 1)) with (2 ^ b) by lia. rewrite Z.mod_same by lia. lia.
  - apply Z.eqb_neq in E1. rewrite Z.mod_small by lia. lia.
Qed.

Theorem abs_unsigned_correct sb x : 0 < snd sb -> is_signed sb = false -> in_int sb x -> lowered_abs sb x = jax_abs sb x.
Proof.
  intros Hb Hs Hx. unfold lowered_abs, o_abs, jax_abs.
  destruct sb as [sg b]; unfold in_int, int_lo, int_hi, is_signed in *; simpl in *. subst sg.
  rewrite Z.abs_eq by lia. rewrite Z.mod_small by lia. now destruct (x =? 0).
Qed.

Definition jax_sign (sb : ity) (x : Z) := if x <? 0 then -1 else if x =? 0 then 0 else 1.
Definition lowered_sign (sb : ity) (x : Z) := o_sign sb x.
Theorem sign_correct sb x : 0 < snd sb -> in_int sb x -> lowered_sign sb x = jax_sign sb x.
Proof.
  intros Hb Hx. unfold lowered_sign, o_sign, jax_sign.
  assert (Hs : Z.sgn x = if x <? 0 then -1 else if x =? 0 then 0 else 1).
  { destruct (x <? 0) eqn:E1; [|destruct (x =? 0) eqn:E2]; lia. }
  rewrite <- Hs. apply wrap_id; auto. range_tac sb Hb. destruct sg; lia.
Qed.

(* ================================================================ 2. division family *)
(* lax.div: truncation toward zero *)
Definition jax_div (sb : ity) (x y : Z) := Z.quot x y.
Definition lowered_div (sb : ity) (x y : Z) := o_div sb x y.
Lemma quot_abs_bound x y : y <> 0 -> Z.abs y * Z.abs (Z.quot x y) <= Z.abs x.
Proof. intro. rewrite <- Z.quot_abs by auto. apply Z.mul_quot_le; lia. Qed.
Lemma quot_in_range sb x y : 0 < snd sb -> in_int sb x -> in_int sb y -> div_dom sb x y -> in_int sb (Z.quot x y).
Proof.
  intros Hb Hx Hy [Hy0 Hov]. pose proof (quot_abs_bound x y Hy0) as Hq. range_tac sb Hb.
  destruct sg.
  - destruct (Z.eq_dec y (-1)) as [->|Hn1].
    + change (Z.quot x (-1)) with (Z.quot x (- (1))). rewrite Z.quot_opp_r, Z.quot_1_r by lia. assert (x <> - 2 ^ (b - 1)) by (intro; apply Hov; auto). lia.
    + destruct (Z.eq_dec y 1) as [->|Hn2]; [rewrite Z.quot_1_r; lia|].
      assert (2 * Z.abs (Z.quot x y) <= Z.abs y * Z.abs (Z.quot x y)) by nia. lia.
  - assert (0 <= Z.quot x y) by (apply Z.quot_pos; lia).
    assert (1 * Z.abs (Z.quot x y) <= Z.abs y * Z.abs (Z.quot x y)) by nia. lia.
Qed.
Theorem div_correct sb x y : 0 < snd sb -> in_int sb x -> in_int sb y -> div_dom sb x y ->
  lowered_div sb x y = jax_div sb x y.
Proof. intros. unfold lowered_div, o_div, jax_div. apply wrap_id; auto. now apply quot_in_range. Qed.

(* lax.rem: sign of the dividend; the plugin emits x - (x / y) * y *)
Definition jax_rem (sb : ity) (x y : Z) := Z.rem x y.
Definition lowered_rem (sb : ity) (x y : Z) := o_sub sb x (o_mul sb (o_div sb x y) y).
Lemma rem_in_range sb x y : 0 < snd sb -> in_int sb x -> in_int sb y -> y <> 0 -> in_int sb (Z.rem x y).
Proof. intros Hb Hx Hy Hy0. range_tac sb Hb. destruct sg; lia. Qed.
Lemma lowered_rem_eq sb x y : 0 < snd sb -> in_int sb x -> in_int sb y -> y <> 0 -> lowered_rem sb x y = Z.rem x y.
Proof.
  intros Hb Hx Hy Hy0. unfold lowered_rem, o_sub, o_mul, o_div.
  rewrite wrap_mul_l, wrap_sub_r by auto.
  replace (x - Z.quot x y * y) with (Z.rem x y) by (pose proof (Z.quot_rem' x y); lia).
  apply wrap_id; auto. now apply rem_in_range.
Qed.
(* holds even at INT_MIN rem -1 (= 0) once the Div node is given its wrapped value there *)
Theorem rem_correct sb x y : 0 < snd sb -> in_int sb x -> in_int sb y -> y <> 0 -> lowered_rem sb x y = jax_rem sb x y.
Proof. apply lowered_rem_eq. Qed.

(* jnp.floor_divide (the jax.numpy plugin's own integer lowering):
     q = Div(x, y); r = Sub(x, Mul(q, y)); Where(And(Not(Equal(r, 0)), Xor(Less(r, 0), Less(y, 0))), Sub(q, 1), q)
   i.e. one step down from the truncated quotient exactly when the remainder is non-zero and its sign differs from the
   divisor's (the test compares SIGNS; a product r * y would wrap) *)
Definition jax_floor_divide (sb : ity) (x y : Z) := x / y.
Definition lowered_floor_divide (sb : ity) (x y : Z) :=
  let q := o_div sb x y in
  let r := o_sub sb x (o_mul sb q y) in
  o_where (o_and (o_not (o_equal r 0)) (o_xor (o_less r 0) (o_less y 0))) (o_sub sb q 1) q.
Lemma div_from_quot_rem x y : y <> 0 ->
  x / y = if negb (Z.rem x y =? 0) && xorb (Z.rem x y <? 0) (y <? 0) then Z.quot x y - 1 else Z.quot x y.
Proof.
  intro Hy. pose proof (Z.quot_rem' x y) as Hq. pose proof (Z.rem_bound_abs x y Hy) as Hb.
  destruct (Z.rem x y =? 0) eqn:E0; simpl.
  - apply Z.eqb_eq in E0. symmetry. apply Z.div_unique with (r := 0); lia.
  - apply Z.eqb_neq in E0.
    destruct (Z.rem x y <? 0) eqn:E1, (y <? 0) eqn:E2; simpl; symmetry.
    + apply Z.div_unique with (r := Z.rem x y); lia.
    + apply Z.div_unique with (r := Z.rem x y + y); lia.
    + apply Z.div_unique with (r := Z.rem x y + y); lia.
    + apply Z.div_unique with (r := Z.rem x y); lia.
Qed.
Theorem floor_divide_correct sb x y : 0 < snd sb -> in_int sb x -> in_int sb y -> div_dom sb x y ->
  lowered_floor_divide sb x y = jax_floor_divide sb x y.
Proof.
  intros Hb Hx Hy Hd. pose proof Hd as [Hy0 Hov]. unfold lowered_floor_divide, jax_floor_divide. cbv zeta.
  pose proof (quot_in_range sb x y Hb Hx Hy Hd) as Hq.
  change (o_sub sb x (o_mul sb (o_div sb x y) y)) with (lowered_rem sb x y).
  rewrite lowered_rem_eq by auto.
  unfold o_div. rewrite (wrap_id sb (Z.quot x y)) by auto.
  rewrite (div_from_quot_rem x y Hy0). unfold o_where, o_and, o_not, o_xor, o_equal, o_less.
  destruct (negb (Z.rem x y =? 0) && xorb (Z.rem x y <? 0) (y <? 0)) eqn:E; [|reflexivity].
  unfold o_sub. apply wrap_id; auto.
  (* q - 1 is in range: the remainder is non-zero and its sign differs from the divisor's, so q <= 0 and q > INT_MIN *)
  apply andb_prop in E as [E1 E2]. apply negb_true_iff, Z.eqb_neq in E1.
  pose proof (Z.quot_rem' x y). pose proof (Z.rem_bound_abs x y Hy0).
  assert (Hsx : Z.sgn (Z.rem x y) = Z.sgn x) by (apply Z.rem_sign_nz; auto).
  range_tac sb Hb. destruct sg.
  - assert (Hq0 : Z.quot x y <= 0).
    { destruct (Z.rem x y <? 0) eqn:L1, (y <? 0) eqn:L2; simpl in E2; try discriminate; nia. }
    assert (- 2 ^ (b - 1) < Z.quot x y \/ Z.quot x y = - 2 ^ (b - 1)) as [|Heq] by lia; [lia|].
    exfalso. nia.
  - destruct (Z.rem x y <? 0) eqn:L1, (y <? 0) eqn:L2; simpl in E2; try discriminate; lia.
Qed.

(* jnp.mod / jnp.remainder: sign of the divisor; x mod 0 = 0.  The jaxpr (and so the graph) guards the divisor,
   takes the truncated remainder and adds the divisor when signs differ *)
Definition jax_mod (sb : ity) (x y : Z) := if y =? 0 then 0 else x mod y.
Definition lowered_mod (sb : ity) (x y : Z) :=
  let y' := o_where (o_equal y 0) 1 y in
  let r := o_sub sb x (o_mul sb (o_div sb x y') y') in
  o_where (o_and (o_not (o_equal_b (o_less r 0) (o_less y' 0))) (o_not (o_equal r 0))) (o_add sb r y') r.
Theorem mod_correct sb x y : 0 < snd sb -> in_int sb 1 -> in_int sb x -> in_int sb y -> lowered_mod sb x y = jax_mod sb x y.
Proof.
  intros Hb H1 Hx Hy. unfold lowered_mod, jax_mod. cbv zeta.
  replace (o_where (o_equal y 0) 1 y) with (if y =? 0 then 1 else y) by reflexivity.
  destruct (y =? 0) eqn:E0.
  - change (o_sub sb x (o_mul sb (o_div sb x 1) 1)) with (lowered_rem sb x 1).
    rewrite lowered_rem_eq by (auto; lia). rewrite Z.rem_1_r. reflexivity.
  - apply Z.eqb_neq in E0.
    change (o_sub sb x (o_mul sb (o_div sb x y) y)) with (lowered_rem sb x y).
    rewrite lowered_rem_eq by auto.
    rewrite (mod_from_rem x y E0). unfold o_where, o_and, o_not, o_equal_b, o_equal, o_less.
    rewrite andb_comm.
    destruct (negb (Z.rem x y =? 0) && negb (eqb (Z.rem x y <? 0) (y <? 0))) eqn:E; [|reflexivity].
    unfold o_add. apply wrap_id; auto.
    apply andb_prop in E as [E1 E2]. apply negb_true_iff in E1, E2. apply Z.eqb_neq in E1.
    pose proof (Z.rem_bound_abs x y E0).
    range_tac sb Hb.
    destruct (Z.rem x y <? 0) eqn:L1, (y <? 0) eqn:L2; simpl in E2; try discriminate; destruct sg; lia.
Qed.

(* jnp.fmod: sign of the dividend; fmod(x, 0) = 0 *)
Definition jax_fmod (sb : ity) (x y : Z) := if y =? 0 then 0 else Z.rem x y.
Definition lowered_fmod (sb : ity) (x y : Z) :=
  let y' := o_where (o_equal y 0) 1 y in o_sub sb x (o_mul sb (o_div sb x y') y').
Theorem fmod_correct sb x y : 0 < snd sb -> in_int sb 1 -> in_int sb x -> in_int sb y -> lowered_fmod sb x y = jax_fmod sb x y.
Proof.
  intros Hb H1 Hx Hy. unfold lowered_fmod, jax_fmod. cbv zeta.
  replace (o_where (o_equal y 0) 1 y) with (if y =? 0 then 1 else y) by reflexivity.
  destruct (y =? 0) eqn:E0.
  - change (o_sub sb x (o_mul sb (o_div sb x 1) 1)) with (lowered_rem sb x 1).
    rewrite lowered_rem_eq by (auto; lia). apply Z.rem_1_r.
  - apply Z.eqb_neq in E0. apply lowered_rem_eq; auto.
Qed.

(* ================================================================ 3. order: max / min / clamp / clip / relu *)
Definition jax_max (x y : Z) := if x <? y then y else x.
Definition jax_min (x y : Z) := if y <? x then y else x.
Definition lowered_max (x y : Z) := o_max x y.
Definition lowered_min (x y : Z) := o_min x y.
Theorem max_correct x y : lowered_max x y = jax_max x y.
Proof. unfold lowered_max, o_max, jax_max. destruct (x <? y) eqn:E; lia. Qed.
Theorem min_correct x y : lowered_min x y = jax_min x y.
Proof. unfold lowered_min, o_min, jax_min. destruct (y <? x) eqn:E; lia. Qed.

(* lax.clamp(lo, x, hi) = min(max(x, lo), hi) (StableHLO clamp); for lo > hi the result is hi.
   The plugin emits Max(x, lo) then Min(., hi) *)
Definition jax_clamp (x lo hi : Z) := jax_min (jax_max x lo) hi.
Definition lowered_clamp (x lo hi : Z) := o_min (o_max x lo) hi.
Theorem clamp_correct x lo hi : lowered_clamp x lo hi = jax_clamp x lo hi.
Proof. unfold lowered_clamp, jax_clamp. now rewrite <- max_correct, <- min_correct. Qed.
(* in the documented case lo <= hi this is the usual three-way definition *)
Theorem clamp_spec x lo hi : lo <= hi ->
  lowered_clamp x lo hi = if x <? lo then lo else if hi <? x then hi else x.
Proof. intro. unfold lowered_clamp, o_min, o_max. destruct (x <? lo) eqn:E1; [|destruct (hi <? x) eqn:E2]; lia. Qed.
Theorem clamp_lo_gt_hi x lo hi : hi < lo -> lowered_clamp x lo hi = hi.
Proof. intro. unfold lowered_clamp, o_min, o_max. lia. Qed.
(* swapping the two nodes (Min first, then Max) would NOT be equivalent *)
Theorem clamp_order_matters : exists x lo hi, o_max (o_min x hi) lo <> lowered_clamp x lo hi.
Proof. exists 0, 5, 2. vm_compute. discriminate. Qed.

(* jnp.clip(x, lo, hi) = minimum(maximum(x, lo), hi) *)
Definition jax_clip (x lo hi : Z) := jax_min (jax_max x lo) hi.
Definition lowered_clip (x lo hi : Z) := o_min (o_max x lo) hi.
Theorem clip_correct x lo hi : lowered_clip x lo hi = jax_clip x lo hi.
Proof. exact (clamp_correct x lo hi). Qed.

(* jnp.clip with scalar bounds: the Clip operator *)
Definition lowered_clip_op (x lo hi : Z) := o_clip x lo hi.
Theorem clip_op_correct x lo hi : lowered_clip_op x lo hi = jax_clip x lo hi.
Proof. exact (clamp_correct x lo hi). Qed.

Definition jax_relu (x : Z) := if x <? 0 then 0 else x.
Definition prerepair_relu (x : Z) := o_relu x.      (* the Relu operator (before cc0a643 also on unsigned types, where it does not exist) *)
Theorem prerepair_relu_correct x : prerepair_relu x = jax_relu x.
Proof. unfold prerepair_relu, o_relu, jax_relu. destruct (x <? 0) eqn:E; lia. Qed.
(* jax.nn.relu6 of an integer is a float: minimum(maximum(x, 0), 6.); exact on integers *)
Definition jax_relu6 (x : Z) := if x <? 0 then 0 else if 6 <? x then 6 else x.
Definition lowered_relu6 (x : Z) := o_min (o_cast_float (o_max x 0)) 6.
Theorem relu6_correct x : lowered_relu6 x = jax_relu6 x.
Proof. unfold lowered_relu6, o_min, o_cast_float, o_max, jax_relu6. destruct (x <? 0) eqn:E1; [|destruct (6 <? x) eqn:E2]; lia. Qed.

(* ================================================================ 4. selection *)
(* lax.select_n(which, case0, case1): which = false -> case0.  ONNX Where(c, A, B) takes A where c is true,
   so the plugin must swap the cases *)
Definition jax_select_n (p : bool) (c0 c1 : Z) := if p then c1 else c0.
Definition lowered_select_n (p : bool) (c0 c1 : Z) := o_where p c1 c0.
Theorem select_n_correct p c0 c1 : lowered_select_n p c0 c1 = jax_select_n p c0 c1.
Proof. reflexivity. Qed.
Theorem select_n_unswapped_wrong : exists p c0 c1, o_where p c0 c1 <> jax_select_n p c0 c1.
Proof. exists true, 0, 1. vm_compute. discriminate. Qed.
Definition jax_select_n_b (p c0 c1 : bool) := if p then c1 else c0.
Definition lowered_select_n_b (p c0 c1 : bool) := o_where_b p c1 c0.
Theorem select_n_b_correct p c0 c1 : lowered_select_n_b p c0 c1 = jax_select_n_b p c0 c1.
Proof. reflexivity. Qed.
(* integer selector with two cases (which in {0, 1}; other values are implementation defined in JAX) *)
Definition jax_select_n_int (p c0 c1 : Z) := if p =? 0 then c0 else c1.
Definition lowered_select_n_int (p c0 c1 : Z) := o_where (o_equal (o_cast I64 p) 1) c1 c0.
Theorem select_n_int_correct p c0 c1 : p = 0 \/ p = 1 -> lowered_select_n_int p c0 c1 = jax_select_n_int p c0 c1.
Proof. intros [-> | ->]; reflexivity. Qed.
Definition jax_where (p : bool) (x y : Z) := if p then x else y.
Definition lowered_where (p : bool) (x y : Z) := o_where p x y.
Theorem where_correct p x y : lowered_where p x y = jax_where p x y. Proof. reflexivity. Qed.
Definition jax_where_b (p x y : bool) := if p then x else y.
Definition lowered_where_b (p x y : bool) := o_where_b p x y.
Theorem where_b_correct p x y : lowered_where_b p x y = jax_where_b p x y. Proof. reflexivity. Qed.

(* ================================================================ 5. boolean and bitwise logic *)
Definition jax_bool_and (a b : bool) := if a then b else false.
Definition jax_bool_or (a b : bool) := if a then true else b.
Definition jax_bool_xor (a b : bool) := if a then negb b else b.
Definition jax_bool_not (a : bool) := if a then false else true.
Definition lowered_bool_and := o_and.   Definition lowered_bool_or := o_or.
Definition lowered_bool_xor := o_xor.   Definition lowered_bool_not := o_not.
Theorem bool_and_correct a b : lowered_bool_and a b = jax_bool_and a b. Proof. now destruct a, b. Qed.
Theorem bool_or_correct a b : lowered_bool_or a b = jax_bool_or a b. Proof. now destruct a, b. Qed.
Theorem bool_xor_correct a b : lowered_bool_xor a b = jax_bool_xor a b. Proof. now destruct a, b. Qed.
Theorem bool_not_correct a : lowered_bool_not a = jax_bool_not a. Proof. now destruct a. Qed.

(* integer and / or / xor: bit i of the result is the operation on bit i of the two's-complement operands
   (Z.land / Z.lor / Z.lxor are exactly that on Z); the result of in-range operands is re-wrapped *)
Definition jax_bitand (sb : ity) (x y : Z) := wrap sb (Z.land x y).
Definition jax_bitor (sb : ity) (x y : Z) := wrap sb (Z.lor x y).
Definition jax_bitxor (sb : ity) (x y : Z) := wrap sb (Z.lxor x y).
Definition lowered_bitand (sb : ity) (x y : Z) := o_bitand sb x y.
Definition lowered_bitor (sb : ity) (x y : Z) := o_bitor sb x y.
Definition lowered_bitxor (sb : ity) (x y : Z) := o_bitxor sb x y.
Theorem bitand_correct sb x y : lowered_bitand sb x y = jax_bitand sb x y. Proof. reflexivity. Qed.
Theorem bitor_correct sb x y : lowered_bitor sb x y = jax_bitor sb x y. Proof. reflexivity. Qed.
Theorem bitxor_correct sb x y : lowered_bitxor sb x y = jax_bitxor sb x y. Proof. reflexivity. Qed.
(* lax.bitwise_not: signed -x-1, unsigned 2^b-1-x *)
Definition jax_bitnot (sb : ity) (x : Z) := if is_signed sb then - x - 1 else 2 ^ snd sb - 1 - x.
Definition lowered_bitnot (sb : ity) (x : Z) := o_bitnot sb x.
Theorem bitnot_correct sb x : 0 < snd sb -> in_int sb x -> lowered_bitnot sb x = jax_bitnot sb x.
Proof.
  intros Hb Hx. unfold lowered_bitnot, o_bitnot, jax_bitnot, Z.lnot, Z.pred.
  destruct sb as [sg b]; unfold in_int, int_lo, int_hi, is_signed, wrap in *; simpl in *.
  pose proof (pow2_pos (b - 1) ltac:(lia)). pose proof (pow2_split b Hb).
  destruct sg.
  - rewrite Z.mod_small by lia. lia.
  - replace (- x + -1) with (2 ^ b - 1 - x + (-1) * 2 ^ b) by lia. rewrite Z.mod_add by lia. apply Z.mod_small. lia.
Qed.

(* ================================================================ 6. shifts *)
(* JAX (XLA): a shift amount >= bit width (compared as unsigned) gives 0 for the logical shifts and the sign
   fill for the arithmetic shift.  ONNX BitShift exists for UNSIGNED element types only. *)
Definition jax_shift_left (sb : ity) (x s : Z) := if s <? snd sb then wrap sb (x * 2 ^ s) else 0.
Definition prerepair_shift_left (sb : ity) (x s : Z) := o_shl sb x s.
Theorem prerepair_shift_left_correct sb x s : 0 <= s -> prerepair_shift_left sb x s = jax_shift_left sb x s.
Proof.
  intro Hs. unfold prerepair_shift_left, o_shl, jax_shift_left, bits.
  destruct (s <? snd sb); [|reflexivity]. now rewrite Z.shiftl_mul_pow2.
Qed.
Definition jax_shift_right_logical (sb : ity) (x s : Z) :=
  if s <? snd sb then wrap sb ((x mod 2 ^ snd sb) / 2 ^ s) else 0.
Definition prerepair_shift_right_logical (sb : ity) (x s : Z) := o_shr sb x s.
Theorem prerepair_shift_right_logical_correct sb x s : 0 < snd sb -> shift_dom sb -> in_int sb x -> 0 <= s ->
  prerepair_shift_right_logical sb x s = jax_shift_right_logical sb x s.
Proof.
  intros Hb Hd Hx Hs. unfold prerepair_shift_right_logical, o_shr, jax_shift_right_logical, bits.
  destruct (s <? snd sb); [|reflexivity]. rewrite Z.shiftr_div_pow2 by auto.
  destruct sb as [sg b]; unfold shift_dom, in_int, int_lo, int_hi, is_signed in *; cbn [fst snd] in *. subst sg.
  rewrite Z.mod_small by lia. symmetry. apply wrap_id; [exact Hb|].
  pose proof (pow2_pos s Hs). unfold in_int, int_lo, int_hi.
  split; [apply Z.div_pos; lia|]. apply Z.le_trans with x; [|lia]. apply Z.div_le_upper_bound; nia.
Qed.
(* signed element types: the emitted BitShift node is outside its ONNX domain (type constraint T: unsigned) *)
Theorem shift_signed_outside_onnx_domain sb : is_signed sb = true -> ~ shift_dom sb.
Proof. unfold shift_dom; intros H1 H2; congruence. Qed.

(* lax.shift_right_arithmetic replicates the TOP BIT of the element, also for unsigned element types
   (uint8 128 >> 1 = 192); amounts >= bits behave like bits - 1 *)
Definition jax_shift_right_arithmetic (sb : ity) (x s : Z) :=
  wrap sb (wrap (true, snd sb) x / 2 ^ Z.min s (snd sb - 1)).
(* unsigned element types: the plugin emits a LOGICAL BitShift *)
Definition prerepair_sra_unsigned (sb : ity) (x s : Z) := o_shr sb x s.
Theorem sra_unsigned_prerepair_refuted :
  exists x s, in_int U8 x /\ 0 <= s /\ prerepair_sra_unsigned U8 x s <> jax_shift_right_arithmetic U8 x s.
Proof. exists 128, 1. split; [|split]; vm_compute; try discriminate; split; discriminate. Qed.
Theorem sra_unsigned_prerepair_partial sb x s : 0 < snd sb -> shift_dom sb -> 0 <= x < 2 ^ (snd sb - 1) -> 0 <= s ->
  prerepair_sra_unsigned sb x s = jax_shift_right_arithmetic sb x s.
Proof.
  intros Hb Hd Hx Hs. unfold prerepair_sra_unsigned, o_shr, jax_shift_right_arithmetic, bits.
  destruct sb as [sg b]; unfold shift_dom, is_signed in *; cbn [fst snd] in *. subst sg.
  pose proof (pow2_pos (b - 1) ltac:(lia)). pose proof (pow2_split b Hb).
  assert (Hi : in_int (true, b) x) by (unfold in_int, int_lo, int_hi; lia).
  rewrite (wrap_id (true, b) x Hb Hi).
  assert (Hq : forall k, 0 <= k -> 0 <= x / 2 ^ k <= x).
  { intros k Hk. pose proof (pow2_pos k Hk). split; [apply Z.div_pos; lia|]. apply Z.div_le_upper_bound; nia. }
  assert (Hj : in_int (false, b) (x / 2 ^ Z.min s (b - 1))).
  { specialize (Hq (Z.min s (b - 1)) ltac:(lia)). unfold in_int, int_lo, int_hi; lia. }
  rewrite (wrap_id (false, b) _ Hb Hj).
  destruct (s <? b) eqn:E.
  - apply Z.ltb_lt in E. rewrite Z.shiftr_div_pow2 by auto.
    destruct (Z.eq_dec s (b - 1)) as [->|]; [rewrite Z.min_id; reflexivity|]. rewrite Z.min_l by lia. reflexivity.
  - apply Z.ltb_ge in E. rewrite Z.min_r by lia. symmetry. apply Z.div_small. lia.
Qed.

(* signed element types: emulation on the unsigned twin type —
     sc = Min(Cast_u(Max(s, 0)), bits); shifted = BitShift_R(Cast_u(x), sc);
     mask = BitShift_L(all ones, bits - sc) * (sc <> 0); neg = shifted | mask;
     out = Cast_s(shifted + (neg - shifted) * (x < 0)) *)
Definition lowered_sra_signed (sb : ity) (x s : Z) : Z :=
  let b := snd sb in let ub : ity := (false, b) in
  let sc := o_min (o_cast ub (o_max s 0)) b in
  let shifted := o_shr ub (o_cast ub x) sc in
  let mask := o_mul ub (o_shl ub (2 ^ b - 1) (o_sub ub b sc)) (o_cast_of_bool ub (o_not (o_equal sc 0))) in
  o_cast sb (o_add ub shifted (o_mul ub (o_sub ub (o_bitor ub shifted mask) shifted) (o_cast_of_bool ub (o_less x 0)))).

Lemma land_low_high a m k : 0 <= k -> 0 <= a < 2 ^ k -> Z.land a (m * 2 ^ k) = 0.
Proof.
  intros Hk Ha. apply Z.bits_inj'. intros n Hn. rewrite Z.land_spec, Z.bits_0, <- Z.shiftl_mul_pow2 by auto.
  destruct (Z.lt_ge_cases n k) as [Hlt | Hge].
  - rewrite Z.shiftl_spec_low by auto. apply andb_false_r.
  - rewrite <- (Z.mod_small a (2 ^ k)) by lia. rewrite Z.mod_pow2_bits_high by lia. reflexivity.
Qed.
Lemma lor_low_high a m k : 0 <= k -> 0 <= a < 2 ^ k -> Z.lor a (m * 2 ^ k) = a + m * 2 ^ k.
Proof.
  intros Hk Ha. pose proof (land_low_high a m k Hk Ha) as H0.
  rewrite <- (Z.lxor_lor _ _ H0). symmetry. now apply Z.add_nocarry_lxor.
Qed.

Theorem sra_signed_correct sb x s : 0 < snd sb -> is_signed sb = true -> in_int sb x -> in_int sb s -> 0 <= s ->
  lowered_sra_signed sb x s = jax_shift_right_arithmetic sb x s.
Proof.
  intros Hb Hsg Hx Hs Hs0. destruct sb as [sg b]; unfold is_signed in Hsg; cbn [fst snd] in *. subst sg.
  unfold lowered_sra_signed, jax_shift_right_arithmetic; cbn [fst snd].
  set (ub := (false, b)). set (sb := (true, b)).
  pose proof (pow2_pos (b - 1) ltac:(lia)) as HM. pose proof (pow2_split b Hb) as HP.
  assert (Hbb : b < 2 ^ b) by (apply Z.pow_gt_lin_r; lia).
  unfold in_int, int_lo, int_hi in Hx, Hs.
  assert (Hub : forall v, 0 <= v < 2 ^ b -> wrap ub v = v).
  { intros v Hv. apply wrap_id; [exact Hb|]. unfold ub, in_int, int_lo, int_hi. lia. }
  assert (Hsbw : forall v, - 2 ^ (b - 1) <= v < 2 ^ (b - 1) -> wrap sb v = v).
  { intros v Hv. apply wrap_id; [exact Hb|]. unfold sb, in_int, int_lo, int_hi. lia. }
  rewrite (Hsbw x) by lia.
  (* the shift count *)
  assert (Hsc : o_min (o_cast ub (o_max s 0)) b = Z.min s b).
  { unfold o_min, o_cast, o_max. rewrite (Z.max_l s 0) by lia. rewrite (Hub s) by lia. reflexivity. }
  rewrite !Hsc. clear Hsc. set (sc := Z.min s b).
  destruct (Z.lt_ge_cases x 0) as [Hneg | Hpos].
  - (* negative x: the result is Cast_s(neg) *)
    assert (Hl : o_less x 0 = true) by (apply Z.ltb_lt; auto). rewrite Hl.
    assert (Hsel : forall shifted mask,
               o_add ub shifted (o_mul ub (o_sub ub (o_bitor ub shifted mask) shifted) (o_cast_of_bool ub true))
               = o_bitor ub shifted mask).
    { intros shifted mask. unfold o_add, o_mul, o_sub, o_cast_of_bool, o_bitor. rewrite Z.mul_1_r.
      rewrite wrap_wrap, wrap_sub_l, wrap_add_r by exact Hb.
      replace (shifted + (Z.lor shifted mask - shifted)) with (Z.lor shifted mask) by lia. reflexivity. }
    rewrite Hsel. clear Hsel.
    assert (Hxu : o_cast ub x = x + 2 ^ b).
    { unfold o_cast, ub, wrap. replace x with (x + 2 ^ b + (-1) * 2 ^ b) at 1 by lia.
      rewrite Z.mod_add by lia. apply Z.mod_small. lia. }
    rewrite Hxu. unfold sc. clear sc.
    destruct (Z.eq_dec s 0) as [Hz | Hnz]; [| destruct (Z.lt_ge_cases s b) as [Hlt | Hge]].
    + (* no shift *)
      subst s. rewrite (Z.min_l 0 b), (Z.min_l 0 (b - 1)) by lia.
      assert (Hm0 : o_mul ub (o_shl ub (2 ^ b - 1) (o_sub ub b 0)) (o_cast_of_bool ub (o_not (o_equal 0 0))) = 0).
      { unfold o_mul, o_cast_of_bool, o_not, o_equal. rewrite Z.eqb_refl. cbn [negb]. cbv iota.
        rewrite Z.mul_0_r. apply Hub. lia. }
      assert (Hsh : o_shr ub (x + 2 ^ b) 0 = x + 2 ^ b).
      { unfold o_shr, bits; cbn [snd ub]. rewrite (proj2 (Z.ltb_lt 0 b)) by lia. apply Z.shiftr_0_r. }
      unfold o_bitor. rewrite Hm0, Hsh, Z.lor_0_r. rewrite (Hub (x + 2 ^ b)) by lia.
      rewrite Z.pow_0_r, Z.div_1_r. unfold o_cast. apply wrap_congr; [exact Hb|]. cbn [snd sb].
      rewrite <- (Z.mul_1_l (2 ^ b)) at 1. apply Z.mod_add. lia.
    + (* 0 < s < bits *)
      rewrite (Z.min_l s b), (Z.min_l s (b - 1)) by lia.
      pose proof (pow2_pos s ltac:(lia)) as H2s. pose proof (pow2_pos (b - s) ltac:(lia)) as H2bs.
      assert (Hsplit : 2 ^ b = 2 ^ (b - s) * 2 ^ s) by (rewrite <- Z.pow_add_r by lia; f_equal; lia).
      assert (Hsh : o_shr ub (x + 2 ^ b) s = x / 2 ^ s + 2 ^ (b - s)).
      { unfold o_shr, bits; cbn [snd ub]. rewrite (proj2 (Z.ltb_lt s b)) by lia.
        rewrite Z.shiftr_div_pow2 by lia. rewrite Hsplit. apply Z.div_add. lia. }
      assert (Hq : - 2 ^ (b - s) <= x / 2 ^ s < 0).
      { split.
        - apply Z.div_le_lower_bound; [lia|]. rewrite Z.mul_opp_r, Z.mul_comm, <- Hsplit. lia.
        - apply Z.div_lt_upper_bound; lia. }
      assert (Hmask : o_mul ub (o_shl ub (2 ^ b - 1) (o_sub ub b s)) (o_cast_of_bool ub (o_not (o_equal s 0)))
                      = (2 ^ s - 1) * 2 ^ (b - s)).
      { unfold o_mul, o_cast_of_bool, o_not, o_equal.
        rewrite (proj2 (Z.eqb_neq s 0)) by lia. cbn [negb]. cbv iota. rewrite Z.mul_1_r.
        unfold o_sub. rewrite (Hub (b - s)) by lia.
        unfold o_shl, bits; cbn [snd ub]. rewrite (proj2 (Z.ltb_lt (b - s) b)) by lia.
        rewrite wrap_wrap by exact Hb. rewrite Z.shiftl_mul_pow2 by lia.
        replace ((2 ^ b - 1) * 2 ^ (b - s)) with ((2 ^ s - 1) * 2 ^ (b - s) + (2 ^ (b - s) - 1) * 2 ^ b) by (rewrite Hsplit; ring).
        unfold ub, wrap. rewrite Z.mod_add by lia. apply Z.mod_small. rewrite Hsplit. nia. }
      unfold o_bitor. rewrite Hmask, Hsh, lor_low_high by lia.
      replace (x / 2 ^ s + 2 ^ (b - s) + (2 ^ s - 1) * 2 ^ (b - s)) with (x / 2 ^ s + 2 ^ b) by (rewrite Hsplit; ring).
      assert (Hlow : 2 ^ (b - s) <= 2 ^ (b - 1)) by (apply Z.pow_le_mono_r; lia).
      rewrite (Hub (x / 2 ^ s + 2 ^ b)) by lia.
      unfold o_cast. apply wrap_congr; [exact Hb|]. cbn [snd sb].
      rewrite <- (Z.mul_1_l (2 ^ b)) at 1. apply Z.mod_add. lia.
    + (* s >= bits: all ones *)
      rewrite (Z.min_r s b), (Z.min_r s (b - 1)) by lia.
      assert (Hsh : o_shr ub (x + 2 ^ b) b = 0).
      { unfold o_shr, bits; cbn [snd ub]. rewrite (proj2 (Z.ltb_ge b b)) by lia. reflexivity. }
      assert (Hmask : o_mul ub (o_shl ub (2 ^ b - 1) (o_sub ub b b)) (o_cast_of_bool ub (o_not (o_equal b 0))) = 2 ^ b - 1).
      { unfold o_mul, o_cast_of_bool, o_not, o_equal.
        rewrite (proj2 (Z.eqb_neq b 0)) by lia. cbn [negb]. cbv iota. rewrite Z.mul_1_r.
        unfold o_sub. rewrite Z.sub_diag. rewrite (Hub 0) by lia.
        unfold o_shl, bits; cbn [snd ub]. rewrite (proj2 (Z.ltb_lt 0 b)) by lia.
        rewrite Z.shiftl_0_r, wrap_wrap by exact Hb. apply Hub. lia. }
      unfold o_bitor. rewrite Hsh, Hmask, Z.lor_0_l. rewrite (Hub (2 ^ b - 1)) by lia.
      unfold o_cast.
      assert (x / 2 ^ (b - 1) = -1) as -> by (symmetry; apply Z.div_unique with (r := x + 2 ^ (b - 1)); lia).
      apply wrap_congr; [exact Hb|]. cbn [snd sb].
      replace (2 ^ b - 1) with (-1 + 1 * 2 ^ b) by lia. apply Z.mod_add. lia.
  - (* non-negative x: the correction term vanishes *)
    assert (Hl : o_less x 0 = false) by (apply Z.ltb_ge; auto). rewrite Hl.
    set (shifted := o_shr ub (o_cast ub x) sc).
    assert (Hxu : o_cast ub x = x) by (apply Hub; lia).
    assert (Hq : forall k, 0 <= k -> 0 <= x / 2 ^ k <= x).
    { intros k Hk. pose proof (pow2_pos k Hk). split; [apply Z.div_pos; lia|]. apply Z.div_le_upper_bound; nia. }
    assert (Hsh : shifted = x / 2 ^ Z.min s (b - 1)).
    { unfold shifted, o_shr, bits; cbn [snd ub]. rewrite Hxu. unfold sc.
      destruct (Z.lt_ge_cases s b) as [Hlt | Hge].
      - rewrite Z.min_l by lia. rewrite (proj2 (Z.ltb_lt s b)) by lia. rewrite Z.shiftr_div_pow2 by lia.
        destruct (Z.eq_dec s (b - 1)) as [->|]; [rewrite Z.min_id; reflexivity | rewrite Z.min_l by lia; reflexivity].
      - rewrite Z.min_r by lia. rewrite (proj2 (Z.ltb_ge b b)) by lia. rewrite Z.min_r by lia.
        symmetry. apply Z.div_small. lia. }
    unfold o_add, o_mul at 1, o_cast_of_bool. rewrite Z.mul_0_r. rewrite (Hub 0) by lia. rewrite Z.add_0_r.
    specialize (Hq (Z.min s (b - 1)) ltac:(lia)).
    rewrite Hsh, (Hub (x / 2 ^ Z.min s (b - 1))) by lia. reflexivity.
Qed.

(* ================================================================ 7. comparisons *)
Definition jax_eq (x y : Z) := x =? y.        Definition lowered_eq (x y : Z) := o_equal x y.
Definition jax_ne (x y : Z) := negb (x =? y). Definition lowered_ne (x y : Z) := o_not (o_equal x y).
Definition jax_lt (x y : Z) := x <? y.        Definition lowered_lt (x y : Z) := o_less x y.
Definition jax_le (x y : Z) := negb (y <? x). Definition lowered_le (x y : Z) := o_le x y.
Definition jax_gt (x y : Z) := y <? x.        Definition lowered_gt (x y : Z) := o_greater x y.
Definition jax_ge (x y : Z) := negb (x <? y). Definition lowered_ge (x y : Z) := o_ge x y.
Theorem eq_correct x y : lowered_eq x y = jax_eq x y. Proof. reflexivity. Qed.
Theorem ne_correct x y : lowered_ne x y = jax_ne x y. Proof. reflexivity. Qed.
Theorem lt_correct x y : lowered_lt x y = jax_lt x y. Proof. reflexivity. Qed.
Theorem le_correct x y : lowered_le x y = jax_le x y.
Proof. unfold lowered_le, o_le, jax_le. destruct (x <=? y) eqn:E1, (y <? x) eqn:E2; simpl; lia. Qed.
Theorem gt_correct x y : lowered_gt x y = jax_gt x y.
Proof. unfold lowered_gt, o_greater, jax_gt. destruct (x >? y) eqn:E1, (y <? x) eqn:E2; lia. Qed.
Theorem ge_correct x y : lowered_ge x y = jax_ge x y.
Proof. unfold lowered_ge, o_ge, jax_ge. destruct (x >=? y) eqn:E1, (x <? y) eqn:E2; simpl; lia. Qed.
Definition jax_eq_b (a b : bool) := if a then b else negb b.
Definition lowered_eq_b (a b : bool) := o_equal_b a b.
Definition jax_ne_b (a b : bool) := if a then negb b else b.
Definition lowered_ne_b (a b : bool) := o_not (o_equal_b a b).
Theorem eq_b_correct a b : lowered_eq_b a b = jax_eq_b a b. Proof. now destruct a, b. Qed.
Theorem ne_b_correct a b : lowered_ne_b a b = jax_ne_b a b. Proof. now destruct a, b. Qed.

(* ================================================================ 8. rounding (on exact fractions n/d, d > 0) *)
Definition jax_floor (q : frac) : Z := fst q / snd q.
Definition jax_ceil (q : frac) : Z := (fst q + snd q - 1) / snd q.
Definition lowered_floor (q : frac) := o_floor q.
Definition lowered_ceil (q : frac) := o_ceil q.
Theorem floor_correct q : frac_ok q -> lowered_floor q = jax_floor q. Proof. reflexivity. Qed.
Theorem ceil_correct q : frac_ok q -> lowered_ceil q = jax_ceil q.
Proof.
  destruct q as [n d]; unfold frac_ok, lowered_ceil, o_ceil, jax_ceil; cbn [fst snd]; intro Hd.
  pose proof (Z.mod_pos_bound (- n) d Hd) as Hr. pose proof (Z.div_mod (- n) d ltac:(lia)) as He.
  set (q := - n / d) in *. set (r := (- n) mod d) in *. clearbody q r.
  apply Z.div_unique with (r := d - 1 - r); [lia | nia].
Qed.
(* lax.round, rounding_method = AWAY_FROM_ZERO (the lax default): sign(x) * floor(|x| + 1/2) *)
Definition jax_round_away (q : frac) : Z := Z.sgn (fst q) * ((2 * Z.abs (fst q) + snd q) / (2 * snd q)).
(* rounding_method = TO_NEAREST_EVEN (jnp.round): floor(x + 1/2), minus one on a tie whose floor(x + 1/2) is odd *)
Definition jax_round_even (q : frac) : Z :=
  let k := (2 * fst q + snd q) / (2 * snd q) in
  if ((2 * fst q + snd q) mod (2 * snd q) =? 0) && Z.odd k then k - 1 else k.
(* the plugin ignores rounding_method and always emits ONNX Round (half to even) *)
Definition lowered_round (q : frac) := o_round q.

Lemma round_decompose n d : 0 < d ->
  let f := n / d in let r := n mod d in
  n = d * f + r /\ 0 <= r < d.
Proof. intro Hd. split; [apply Z.div_mod; lia | apply Z.mod_pos_bound; lia]. Qed.

Lemma half_up_floor n d : 0 < d ->
  (2 * n + d) / (2 * d) = (if 2 * (n mod d) <? d then n / d else n / d + 1) /\
  ((2 * n + d) mod (2 * d) = 0 <-> 2 * (n mod d) = d).
Proof.
  intro Hd. destruct (round_decompose n d Hd) as [He Hr].
  set (f := n / d) in *. set (r := n mod d) in *. clearbody f r.
  destruct (2 * r <? d) eqn:E.
  - apply Z.ltb_lt in E.
    assert (Hq : (2 * n + d) / (2 * d) = f) by (symmetry; apply Z.div_unique with (r := 2 * r + d); nia).
    split; [exact Hq|].
    assert (Hm : (2 * n + d) mod (2 * d) = 2 * r + d) by (symmetry; apply Z.mod_unique with (q := f); nia).
    rewrite Hm. lia.
  - apply Z.ltb_ge in E.
    assert (Hq : (2 * n + d) / (2 * d) = f + 1) by (symmetry; apply Z.div_unique with (r := 2 * r - d); nia).
    split; [exact Hq|].
    assert (Hm : (2 * n + d) mod (2 * d) = 2 * r - d) by (symmetry; apply Z.mod_unique with (q := f + 1); nia).
    rewrite Hm. lia.
Qed.

Theorem round_even_correct q : frac_ok q -> lowered_round q = jax_round_even q.
Proof.
  destruct q as [n d]; unfold frac_ok, lowered_round, o_round, jax_round_even; cbn [fst snd]; intro Hd.
  destruct (half_up_floor n d Hd) as [Hq Ht]. rewrite Hq.
  destruct (2 * (n mod d) <? d) eqn:E1.
  - apply Z.ltb_lt in E1.
    destruct ((2 * n + d) mod (2 * d) =? 0) eqn:E0; [apply Z.eqb_eq in E0; lia|]. reflexivity.
  - apply Z.ltb_ge in E1. destruct (d <? 2 * (n mod d)) eqn:E2.
    + apply Z.ltb_lt in E2.
      destruct ((2 * n + d) mod (2 * d) =? 0) eqn:E0; [apply Z.eqb_eq in E0; lia|]. reflexivity.
    + apply Z.ltb_ge in E2.
      assert (E0 : (2 * n + d) mod (2 * d) =? 0 = true) by (apply Z.eqb_eq; apply Ht; lia).
      rewrite E0. simpl. rewrite Z.odd_add. simpl. rewrite <- Z.negb_even.
      destruct (Z.even (n / d)); simpl; lia.
Qed.

(* the exact set of inputs on which half-to-even and half-away-from-zero agree:
   no tie, or a tie n/d = f + 1/2 with (f even <-> f negative) *)
Definition round_modes_agree (q : frac) : bool :=
  negb (2 * (fst q mod snd q) =? snd q) || Bool.eqb (Z.even (fst q / snd q)) (fst q / snd q <? 0).

Lemma round_away_floor n d : 0 < d ->
  jax_round_away (n, d) =
    if 2 * (n mod d) <? d then n / d
    else if d <? 2 * (n mod d) then n / d + 1
    else if n / d <? 0 then n / d else n / d + 1.
Proof.
  intro Hd. unfold jax_round_away; cbn [fst snd].
  destruct (round_decompose n d Hd) as [He Hr].
  set (f := n / d) in *. set (r := n mod d) in *. clearbody f r.
  destruct (Z.lt_trichotomy n 0) as [Hn | [Hn | Hn]].
  - rewrite Z.sgn_neg, Z.abs_neq by lia.
    assert (Hf : f < 0) by nia.
    destruct (2 * r <? d) eqn:E1.
    + apply Z.ltb_lt in E1.
      assert ((2 * - n + d) / (2 * d) = - f) as -> by (symmetry; apply Z.div_unique with (r := d - 2 * r); nia). lia.
    + apply Z.ltb_ge in E1. destruct (d <? 2 * r) eqn:E2.
      * apply Z.ltb_lt in E2.
        assert ((2 * - n + d) / (2 * d) = - f - 1) as -> by (symmetry; apply Z.div_unique with (r := 3 * d - 2 * r); nia). lia.
      * apply Z.ltb_ge in E2. rewrite (proj2 (Z.ltb_lt f 0) Hf).
        assert ((2 * - n + d) / (2 * d) = - f) as -> by (symmetry; apply Z.div_unique with (r := 0); nia). lia.
  - rewrite Hn in *. assert (Hf0 : f = 0) by nia. rewrite Hf0 in *. assert (Hr0 : r = 0) by lia. rewrite Hr0.
    change (Z.sgn 0) with 0. rewrite Z.mul_0_l. replace (2 * 0) with 0 by lia.
    rewrite (proj2 (Z.ltb_lt 0 d)) by lia. reflexivity.
  - rewrite Z.sgn_pos, Z.abs_eq by lia.
    assert (Hf : 0 <= f) by nia.
    destruct (2 * r <? d) eqn:E1.
    + apply Z.ltb_lt in E1.
      assert ((2 * n + d) / (2 * d) = f) as -> by (symmetry; apply Z.div_unique with (r := 2 * r + d); nia). lia.
    + apply Z.ltb_ge in E1. destruct (d <? 2 * r) eqn:E2.
      * apply Z.ltb_lt in E2.
        assert ((2 * n + d) / (2 * d) = f + 1) as -> by (symmetry; apply Z.div_unique with (r := 2 * r - d); nia). lia.
      * apply Z.ltb_ge in E2. rewrite (proj2 (Z.ltb_ge f 0) Hf).
        assert ((2 * n + d) / (2 * d) = f + 1) as -> by (symmetry; apply Z.div_unique with (r := 0); nia). lia.
Qed.

(* HISTORY — the lowering before the repair; THE STATEMENT (false of that plugin): forall q, frac_ok q -> lowered_round q = jax_round_away q *)
Theorem round_away_prerepair_refuted : exists q, frac_ok q /\ lowered_round q <> jax_round_away q.
Proof. exists (1, 2). split; [reflexivity|]. vm_compute. discriminate. Qed.
Theorem round_away_prerepair_iff q : frac_ok q ->
  (lowered_round q = jax_round_away q <-> round_modes_agree q = true).
Proof.
  destruct q as [n d]; unfold frac_ok, lowered_round, o_round, round_modes_agree; cbn [fst snd]; intro Hd.
  rewrite (round_away_floor n d Hd).
  destruct (2 * (n mod d) <? d) eqn:E1.
  - apply Z.ltb_lt in E1. rewrite (proj2 (Z.eqb_neq _ _)) by lia. simpl. tauto.
  - apply Z.ltb_ge in E1. destruct (d <? 2 * (n mod d)) eqn:E2.
    + apply Z.ltb_lt in E2. rewrite (proj2 (Z.eqb_neq _ _)) by lia. simpl. tauto.
    + apply Z.ltb_ge in E2. rewrite (proj2 (Z.eqb_eq _ _)) by lia. simpl.
      destruct (Z.even (n / d)), (n / d <? 0); simpl; split; intro; try reflexivity; try discriminate; lia.
Qed.
Theorem round_away_prerepair_partial q : frac_ok q -> round_modes_agree q = true -> lowered_round q = jax_round_away q.
Proof. intros Hq H. now apply (round_away_prerepair_iff q Hq). Qed.

(* the repaired lowering (.scratch/c01k/fix_round.diff): Round is kept except on exact halfway cases of |x|,
     Where(Equal(Sub(Abs x, Floor(Abs x)), 0.5), Mul(Sign x, Add(Floor(Abs x), 1)), Round x) *)
Definition repaired_round_away (q : frac) : Z :=
  o_where (q_eqb (q_sub_z (q_abs q) (o_floor (q_abs q))) (1, 2))
          (z_mul (q_sign q) (z_add (o_floor (q_abs q)) 1))
          (o_round q).

Lemma tie_abs n d : 0 < d -> (2 * (Z.abs n mod d) = d <-> 2 * (n mod d) = d).
Proof.
  intro Hd. destruct (Z.le_gt_cases 0 n) as [Hn | Hn]; [rewrite Z.abs_eq by lia; tauto|].
  rewrite Z.abs_neq by lia.
  pose proof (Z.div_mod n d ltac:(lia)) as He. pose proof (Z.mod_pos_bound n d Hd) as Hr.
  set (f := n / d) in *. set (r := n mod d) in *. clearbody f r.
  destruct (Z.eq_dec r 0) as [Hr0 | Hr0].
  - assert (Hm : (- n) mod d = 0) by (symmetry; apply Z.mod_unique with (q := - f); nia). rewrite Hm. lia.
  - assert (Hm : (- n) mod d = d - r) by (symmetry; apply Z.mod_unique with (q := - f - 1); nia). rewrite Hm. lia.
Qed.

Theorem repaired_round_away_correct q : frac_ok q -> repaired_round_away q = jax_round_away q.
Proof.
  destruct q as [n d]; unfold frac_ok; cbn [fst snd]; intro Hd.
  unfold repaired_round_away, q_eqb, q_sub_z, q_abs, q_sign, o_floor, o_where, z_mul, z_add; cbn [fst snd].
  pose proof (Z.div_mod (Z.abs n) d ltac:(lia)) as He. pose proof (Z.mod_pos_bound (Z.abs n) d Hd) as Hr.
  destruct ((Z.abs n - Z.abs n / d * d) * 2 =? 1 * d) eqn:E.
  - (* halfway case of |x| *)
    apply Z.eqb_eq in E. assert (Ht : 2 * (Z.abs n mod d) = d) by nia.
    unfold jax_round_away; cbn [fst snd]. f_equal.
    destruct (half_up_floor (Z.abs n) d Hd) as [Hq _]. rewrite Hq.
    rewrite (proj2 (Z.ltb_ge (2 * (Z.abs n mod d)) d)) by lia. reflexivity.
  - apply Z.eqb_neq in E. assert (Ht : 2 * (Z.abs n mod d) <> d) by nia.
    apply (round_away_prerepair_partial (n, d) Hd). unfold round_modes_agree; cbn [fst snd].
    rewrite (proj2 (Z.eqb_neq (2 * (n mod d)) d)) by (intro H; apply Ht; apply (tie_abs n d Hd); exact H).
    reflexivity.
Qed.

(* the lowering of /repo since 3fcaa9c *)
Definition lowered_round_away (q : frac) : Z := repaired_round_away q.
Theorem round_away_correct q : frac_ok q -> lowered_round_away q = jax_round_away q.
Proof. exact (repaired_round_away_correct q). Qed.

(* ================================================================ 9. integer_pow, convert_element_type *)
(* lax.integer_pow: repeated wrapped multiplication *)
Fixpoint jax_integer_pow (sb : ity) (x : Z) (n : nat) : Z :=
  match n with O => wrap sb 1 | S k => wrap sb (x * jax_integer_pow sb x k) end.
Definition prerepair_integer_pow (sb : ity) (x : Z) (n : nat) := o_pow sb x (Z.of_nat n).
Theorem prerepair_integer_pow_correct sb x n : 0 < snd sb -> prerepair_integer_pow sb x n = jax_integer_pow sb x n.
Proof.
  intro Hb. unfold prerepair_integer_pow, o_pow. induction n as [|k IH].
  - reflexivity.
  - rewrite Nat2Z.inj_succ, Z.pow_succ_r by lia. simpl. rewrite <- IH, wrap_mul_r by auto. reflexivity.
Qed.
(* ONNX Pow accepts int32 / int64 bases only *)
Definition pow_dom (sb : ity) : Prop := sb = I32 \/ sb = I64.
Theorem integer_pow_outside_onnx_domain sb : In sb [I8; I16; U8; U16; U32; U64] -> ~ pow_dom sb.
Proof. unfold pow_dom. simpl. intros [<-|[<-|[<-|[<-|[<-|[<-|[]]]]]]] [H|H]; discriminate. Qed.

(* convert_element_type int -> int: the unique value of the target type congruent modulo 2^bits *)
Definition jax_convert_int (t : ity) (x : Z) := wrap t x.
Definition lowered_convert_int (t : ity) (x : Z) := o_cast t x.
Theorem convert_int_correct t x : lowered_convert_int t x = jax_convert_int t x. Proof. reflexivity. Qed.
Theorem convert_int_spec t x : 0 < snd t ->
  in_int t (lowered_convert_int t x) /\ (lowered_convert_int t x) mod 2 ^ snd t = x mod 2 ^ snd t /\
  (in_int t x -> lowered_convert_int t x = x).
Proof.
  intro Hb. unfold lowered_convert_int, o_cast. split; [now apply wrap_range|]. split; [now apply wrap_mod|].
  intro. now apply wrap_id.
Qed.
Definition jax_convert_to_bool (x : Z) := if x =? 0 then false else true.
Definition lowered_convert_to_bool (x : Z) := o_cast_to_bool x.
Theorem convert_to_bool_correct x : lowered_convert_to_bool x = jax_convert_to_bool x.
Proof. unfold lowered_convert_to_bool, o_cast_to_bool, jax_convert_to_bool. now destruct (x =? 0). Qed.
Definition jax_convert_of_bool (t : ity) (b : bool) := if b then 1 else 0.
Definition lowered_convert_of_bool (t : ity) (b : bool) := o_cast_of_bool t b.
Theorem convert_of_bool_correct t b : lowered_convert_of_bool t b = jax_convert_of_bool t b. Proof. reflexivity. Qed.

(* ================================================================ 10. one_hot *)
(* jax.nn.one_hot(i, n)[j] = (i == j): any i outside [0, n) gives an all-zero row.
   The plugin emits OneHot(Cast_int64(i), n, [0, 1]); ONNX OneHot counts negative indices from the end *)
Definition jax_one_hot (n i j : Z) : Z := if i =? j then 1 else 0.
Definition prerepair_one_hot (sb : ity) (n i j : Z) : Z := o_onehot n 0 1 (cast_idx sb i) j.
Lemma cast_idx_id sb i : In sb std_itys -> sb <> U64 -> in_int sb i -> cast_idx sb i = i.
Proof.
  intros Hin Hne Hi. unfold cast_idx.
  destruct (ity_eqb sb I64) eqn:E; [reflexivity|].
  unfold o_cast. apply wrap_id; [simpl; lia|].
  simpl in Hin. destruct Hin as [<-|[<-|[<-|[<-|[<-|[<-|[<-|[<-|[]]]]]]]]];
    try congruence; unfold in_int, int_lo, int_hi in *; simpl in *; lia.
Qed.
(* HISTORY — the lowering before the repair; THE STATEMENT (false of that plugin) *)
Theorem one_hot_prerepair_refuted :
  exists i j, in_int I32 i /\ 0 <= j < 4 /\ prerepair_one_hot I32 4 i j <> jax_one_hot 4 i j.
Proof. exists (-1), 3. split; [split; vm_compute; discriminate|]. split; [lia|]. vm_compute. discriminate. Qed.
Theorem one_hot_prerepair_iff sb n i j : In sb std_itys -> sb <> U64 -> in_int sb i -> 0 < n -> 0 <= j < n ->
  (prerepair_one_hot sb n i j = jax_one_hot n i j <-> ~ (- n <= i < 0 /\ i + n = j)).
Proof.
  intros Hin Hne Hi Hn Hj. unfold prerepair_one_hot, jax_one_hot. rewrite cast_idx_id by auto. unfold o_onehot.
  destruct (- n <=? i) eqn:E1, (i <? n) eqn:E2, (i <? 0) eqn:E3, (i =? j) eqn:E4; simpl;
    try destruct (i + n =? j) eqn:E5; split; intro H; try reflexivity; try discriminate; try lia;
    try (exfalso; apply H; lia).
Qed.
Theorem one_hot_prerepair_partial sb n i j : In sb std_itys -> sb <> U64 -> in_int sb i -> 0 < n -> 0 <= j < n ->
  (0 <= i \/ i < - n) -> prerepair_one_hot sb n i j = jax_one_hot n i j.
Proof. intros Hin Hne Hi Hn Hj Hd. apply one_hot_prerepair_iff; auto. lia. Qed.
(* a repaired lowering masks negative indices out before OneHot (.scratch/c01k/fix_one_hot.diff):
   Where(Less(i, 0), depth, i) — depth is out of range for OneHot and gives an all-off row *)
Definition repaired_one_hot (sb : ity) (n i j : Z) : Z :=
  let i64 := cast_idx sb i in o_onehot n 0 1 (o_where (o_less i64 0) n i64) j.
Theorem repaired_one_hot_correct sb n i j : In sb std_itys -> sb <> U64 -> in_int sb i -> 0 < n -> 0 <= j < n ->
  repaired_one_hot sb n i j = jax_one_hot n i j.
Proof.
  intros Hin Hne Hi Hn Hj. unfold repaired_one_hot, jax_one_hot. rewrite cast_idx_id by auto.
  unfold o_onehot, o_where, o_less.
  destruct (i <? 0) eqn:E3.
  - rewrite (proj2 (Z.ltb_ge n n)) by lia. rewrite andb_false_r. destruct (i =? j) eqn:E4; [lia|reflexivity].
  - rewrite E3. destruct (- n <=? i) eqn:E1, (i <? n) eqn:E2, (i =? j) eqn:E4; simpl; try reflexivity; lia.
Qed.

(* the lowering of /repo since ef51d4a: signed index types are masked, unsigned ones go to OneHot directly *)
Definition lowered_one_hot (sb : ity) (n i j : Z) : Z :=
  if is_signed sb then repaired_one_hot sb n i j else prerepair_one_hot sb n i j.
Theorem one_hot_correct sb n i j : In sb std_itys -> sb <> U64 -> in_int sb i -> 0 < n -> 0 <= j < n ->
  lowered_one_hot sb n i j = jax_one_hot n i j.
Proof.
  intros Hin Hne Hi Hn Hj. unfold lowered_one_hot. destruct (is_signed sb) eqn:Hs.
  - now apply repaired_one_hot_correct.
  - apply one_hot_prerepair_partial; auto. left.
    destruct sb as [sg b]; unfold is_signed in Hs; simpl in Hs; subst sg. unfold in_int, int_lo in Hi. simpl in Hi. lia.
Qed.

(* ================================================================ 11. dynamic_slice start index (one axis) *)
(* operand extent dim, slice size size (1 <= size <= dim), start index i of integer type sb.
   JAX: a negative index counts from the end (i + dim), then the start is CLAMPED into [0, dim - size];
   the result is the (first index, length) of the window.  The jaxpr carries the i < 0 ? i + dim : i part
   (lowered by the lt / add / select_n plugins); the dynamic_slice plugin emits Slice(x, start, start + size). *)
Definition jax_dynamic_slice (sb : ity) (dim size i : Z) : Z * Z :=
  let i1 := if i <? 0 then wrap sb (i + dim) else i in
  (Z.min (Z.max i1 0) (dim - size), size).
Definition prerepair_dynamic_slice (sb : ity) (dim size i : Z) : Z * Z :=
  let i1 := o_where (o_less i 0) (o_add sb i dim) i in
  o_slice1 dim (cast_idx sb i1) (o_add I64 (cast_idx sb i1) size).
(* HISTORY — the lowering before the repair; THE STATEMENT (false of that plugin) *)
Theorem dynamic_slice_prerepair_refuted :
  exists i, in_int I32 i /\ prerepair_dynamic_slice I32 6 3 i <> jax_dynamic_slice I32 6 3 i.
Proof. exists 5. split; [split; vm_compute; discriminate|]. vm_compute. discriminate. Qed.
Example dynamic_slice_witnesses :
  (prerepair_dynamic_slice I32 6 3 5, jax_dynamic_slice I32 6 3 5, prerepair_dynamic_slice I32 6 3 (-2), jax_dynamic_slice I32 6 3 (-2))
  = ((5, 1), (3, 3), (4, 2), (3, 3)).
Proof. reflexivity. Qed.
(* correct whenever the (normalised) start needs no clamping *)
Theorem dynamic_slice_prerepair_partial sb dim size i :
  sb = I32 \/ sb = I64 -> in_int sb i -> 1 <= size <= dim -> dim < 2 ^ 31 ->
  (0 <= i <= dim - size \/ - dim <= i <= - size) ->
  prerepair_dynamic_slice sb dim size i = jax_dynamic_slice sb dim size i.
Proof.
  intros Hsb Hi Hsz Hdim Hdom. unfold prerepair_dynamic_slice, jax_dynamic_slice, o_where, o_less, o_add.
  assert (Hstd : In sb std_itys /\ sb <> U64 /\ 0 < snd sb) by (destruct Hsb; subst; simpl; repeat split; auto; try discriminate; lia).
  destruct Hstd as (Hstd & Hne & Hb).
  set (i1 := if i <? 0 then wrap sb (i + dim) else i).
  assert (Hi1 : i1 = (if i <? 0 then i + dim else i) /\ in_int sb i1).
  { unfold i1. destruct (i <? 0) eqn:E; [|auto]. apply Z.ltb_lt in E.
    assert (in_int sb (i + dim)) by (destruct Hsb; subst; unfold in_int, int_lo, int_hi in *; simpl in *; lia).
    rewrite wrap_id by auto. auto. }
  destruct Hi1 as [Hv Hr]. rewrite (cast_idx_id sb i1) by auto.
  assert (H0 : 0 <= i1 <= dim - size) by (rewrite Hv; destruct (i <? 0) eqn:E; lia).
  rewrite (wrap_id I64 (i1 + size)) by (simpl; try lia; unfold in_int; simpl; lia).
  unfold o_slice1, slice_norm.
  rewrite (proj2 (Z.ltb_ge i1 0)) by lia. rewrite (proj2 (Z.ltb_ge (i1 + size) 0)) by lia.
  f_equal; lia.
Qed.
(* a repaired lowering clamps the start with Max / Min before Slice (.scratch/c01k/fix_dynamic_slice.diff) *)
Definition repaired_dynamic_slice (sb : ity) (dim size i : Z) : Z * Z :=
  let i1 := o_where (o_less i 0) (o_add sb i dim) i in
  let st := o_min (o_max (cast_idx sb i1) 0) (dim - size) in
  o_slice1 dim st (o_add I64 st size).
Theorem repaired_dynamic_slice_correct sb dim size i :
  sb = I32 \/ sb = I64 -> in_int sb i -> 1 <= size <= dim -> dim < 2 ^ 31 ->
  repaired_dynamic_slice sb dim size i = jax_dynamic_slice sb dim size i.
Proof.
  intros Hsb Hi Hsz Hdim. unfold repaired_dynamic_slice, jax_dynamic_slice, o_where, o_less, o_add, o_min, o_max.
  assert (Hstd : In sb std_itys /\ sb <> U64 /\ 0 < snd sb) by (destruct Hsb; subst; simpl; repeat split; auto; try discriminate; lia).
  destruct Hstd as (Hstd & Hne & Hb).
  set (i1 := if i <? 0 then wrap sb (i + dim) else i).
  assert (Hr : in_int sb i1).
  { unfold i1. destruct (i <? 0); [apply wrap_range|]; auto. }
  rewrite (cast_idx_id sb i1) by auto.
  set (st := Z.min (Z.max i1 0) (dim - size)). assert (H0 : 0 <= st <= dim - size) by (unfold st; lia).
  rewrite (wrap_id I64 (st + size)) by (simpl; try lia; unfold in_int; simpl; lia).
  unfold o_slice1, slice_norm.
  rewrite (proj2 (Z.ltb_ge st 0)) by lia. rewrite (proj2 (Z.ltb_ge (st + size) 0)) by lia.
  f_equal; lia.
Qed.

(* the lowering of /repo since 7604d8b *)
Definition lowered_dynamic_slice (sb : ity) (dim size i : Z) : Z * Z := repaired_dynamic_slice sb dim size i.
Theorem dynamic_slice_correct sb dim size i :
  sb = I32 \/ sb = I64 -> in_int sb i -> 1 <= size <= dim -> dim < 2 ^ 31 ->
  lowered_dynamic_slice sb dim size i = jax_dynamic_slice sb dim size i.
Proof. exact (repaired_dynamic_slice_correct sb dim size i). Qed.

(* ================================================================ 12. repairs of the findings about neg / shifts / integer_pow (committed patches
   .scratch/c01k/fix_neg_unsigned.diff, fix_shift_signed.diff, fix_sra_unsigned.diff, fix_integer_pow.diff): the graphs
   those patches emit, proved correct at full strength; tie S accepts them next to the current lowered_k *)
Definition utwin (sb : ity) : ity := (false, snd sb).

(* lax.neg on unsigned types: Sub(0, x) *)
Definition repaired_neg (sb : ity) (x : Z) := if is_signed sb then o_neg sb x else o_sub sb 0 x.
Theorem repaired_neg_correct sb x : 0 < snd sb -> in_int sb x -> repaired_neg sb x = jax_neg sb x.
Proof.
  intros Hb Hx. unfold repaired_neg. destruct (is_signed sb); [exact (prerepair_neg_correct sb x Hb Hx)|].
  unfold o_sub. rewrite Z.sub_0_l. exact (prerepair_neg_correct sb x Hb Hx).
Qed.

(* shift_left / shift_right_logical on signed types: Cast to the unsigned twin, BitShift, Cast back *)
Definition repaired_shift_left (sb : ity) (x s : Z) :=
  if is_signed sb then o_cast sb (o_shl (utwin sb) (o_cast (utwin sb) x) (o_cast (utwin sb) s)) else o_shl sb x s.
Definition repaired_shift_right_logical (sb : ity) (x s : Z) :=
  if is_signed sb then o_cast sb (o_shr (utwin sb) (o_cast (utwin sb) x) (o_cast (utwin sb) s)) else o_shr sb x s.

Lemma utwin_cast_amount sb s : 0 < snd sb -> is_signed sb = true -> in_int sb s -> 0 <= s -> o_cast (utwin sb) s = s.
Proof.
  intros Hb Hs Hi H0. unfold o_cast, utwin. apply wrap_id; [exact Hb|].
  destruct sb as [sg b]; unfold is_signed in Hs; cbn [fst snd] in *; subst sg.
  pose proof (pow2_pos (b - 1) ltac:(lia)). pose proof (pow2_split b Hb).
  unfold in_int, int_lo, int_hi in *. lia.
Qed.

Theorem repaired_shift_left_correct sb x s : 0 < snd sb -> in_int sb s -> 0 <= s ->
  repaired_shift_left sb x s = jax_shift_left sb x s.
Proof.
  intros Hb Hi H0. unfold repaired_shift_left. destruct (is_signed sb) eqn:Hs; [|now apply prerepair_shift_left_correct].
  rewrite (utwin_cast_amount sb s) by auto.
  unfold o_shl, jax_shift_left, bits; cbn [utwin snd].
  destruct (s <? snd sb); [|apply wrap_id; [exact Hb|]].
  - unfold o_cast. apply wrap_congr; [exact Hb|].
    pose proof (pow2_pos (snd sb) ltac:(lia)).
    rewrite (wrap_mod (false, snd sb)) by exact Hb. cbn [snd]. rewrite Z.shiftl_mul_pow2 by auto.
    unfold wrap at 1. apply Z.mul_mod_idemp_l. lia.
  - destruct sb as [sg b]; unfold is_signed in Hs; cbn [fst snd] in *; subst sg.
    pose proof (pow2_pos (b - 1) ltac:(lia)). unfold in_int, int_lo, int_hi. lia.
Qed.

Theorem repaired_shift_right_logical_correct sb x s : 0 < snd sb -> in_int sb x -> in_int sb s -> 0 <= s ->
  repaired_shift_right_logical sb x s = jax_shift_right_logical sb x s.
Proof.
  intros Hb Hx Hi H0. unfold repaired_shift_right_logical. destruct (is_signed sb) eqn:Hs.
  - rewrite (utwin_cast_amount sb s) by auto.
    unfold o_shr, jax_shift_right_logical, bits; cbn [utwin snd].
    destruct (s <? snd sb).
    + rewrite Z.shiftr_div_pow2 by auto. reflexivity.
    + apply wrap_id; [exact Hb|]. destruct sb as [sg b]; unfold is_signed in Hs; cbn [fst snd] in *; subst sg.
      pose proof (pow2_pos (b - 1) ltac:(lia)). unfold in_int, int_lo, int_hi. lia.
  - apply prerepair_shift_right_logical_correct; auto.
Qed.

(* lax.integer_pow on integers: repeated Mul (exact wrap) instead of Pow; exponent 0 keeps Pow *)
Fixpoint mul_chain (sb : ity) (x : Z) (k : nat) : Z :=
  match k with O => x | S k' => o_mul sb (mul_chain sb x k') x end.
Definition repaired_integer_pow (sb : ity) (x : Z) (n : nat) : Z :=
  match n with O => o_pow sb x 0 | S k => mul_chain sb x k end.
Theorem repaired_integer_pow_correct sb x n : 0 < snd sb -> in_int sb x ->
  repaired_integer_pow sb x n = jax_integer_pow sb x n.
Proof.
  intros Hb Hx. rewrite <- (prerepair_integer_pow_correct sb x n Hb). unfold prerepair_integer_pow, o_pow.
  destruct n as [|k]; [reflexivity|]. unfold repaired_integer_pow.
  induction k as [|k IH].
  - simpl mul_chain. change (Z.of_nat 1) with 1. rewrite Z.pow_1_r. symmetry. now apply wrap_id.
  - simpl mul_chain. rewrite IH. unfold o_mul. rewrite wrap_mul_l by exact Hb.
    f_equal. rewrite (Nat2Z.inj_succ (S k)), Z.pow_succ_r by lia. lia.
Qed.

(* lax.shift_right_arithmetic on unsigned types: logical shift OR-ed with the replicated top bit,
     sc = Min(s, bits); (x >> sc) | (ones << (bits - sc)) * (sc <> 0) * (x >> (bits - 1)) *)
Definition repaired_sra_unsigned (sb : ity) (x s : Z) : Z :=
  let b := snd sb in
  let sc := o_min s b in
  let shifted := o_shr sb x sc in
  let mask := o_mul sb (o_shl sb (2 ^ b - 1) (o_sub sb b sc)) (o_cast_of_bool sb (o_not (o_equal sc 0))) in
  o_bitor sb shifted (o_mul sb mask (o_shr sb x (b - 1))).

Theorem repaired_sra_unsigned_correct sb x s : 0 < snd sb -> shift_dom sb -> in_int sb x -> in_int sb s ->
  repaired_sra_unsigned sb x s = jax_shift_right_arithmetic sb x s.
Proof.
  intros Hb Hd Hx Hs. destruct sb as [sg b]; unfold shift_dom, is_signed in Hd; cbn [fst snd] in *. subst sg.
  set (ub := (false, b)).
  pose proof (pow2_pos (b - 1) ltac:(lia)) as HM. pose proof (pow2_split b Hb) as HP.
  assert (Hbb : b < 2 ^ b) by (apply Z.pow_gt_lin_r; lia).
  unfold in_int, int_lo, int_hi in Hx, Hs.
  assert (Hub : forall v, 0 <= v < 2 ^ b -> wrap ub v = v).
  { intros v Hv. apply wrap_id; [exact Hb|]. unfold ub, in_int, int_lo, int_hi. lia. }
  assert (Htop : o_shr ub x (b - 1) = x / 2 ^ (b - 1)).
  { unfold o_shr, bits; cbn [snd ub]. rewrite (proj2 (Z.ltb_lt (b - 1) b)) by lia. apply Z.shiftr_div_pow2. lia. }
  destruct (Z.lt_ge_cases x (2 ^ (b - 1))) as [Hlow | Hhigh].
  - (* top bit clear: the fill vanishes and the logical shift is right *)
    rewrite <- (sra_unsigned_prerepair_partial ub x s Hb eq_refl ltac:(cbn [snd ub]; lia) ltac:(lia)).
    unfold repaired_sra_unsigned, prerepair_sra_unsigned; cbn [snd ub]. cbv zeta.
    rewrite Htop, (Z.div_small x (2 ^ (b - 1))) by lia.
    unfold o_mul at 1. rewrite Z.mul_0_r, (Hub 0) by lia.
    unfold o_bitor. rewrite Z.lor_0_r. unfold o_min, o_shr, bits; cbn [snd ub].
    destruct (Z.lt_ge_cases s b) as [Hlt | Hge].
    + rewrite Z.min_l by lia. rewrite (proj2 (Z.ltb_lt s b)) by lia. apply Hub.
      rewrite Z.shiftr_div_pow2 by lia. pose proof (pow2_pos s ltac:(lia)).
      split; [apply Z.div_pos; lia|]. apply Z.le_lt_trans with x; [apply Z.div_le_upper_bound; nia | lia].
    + rewrite Z.min_r by lia. rewrite (proj2 (Z.ltb_ge b b)), (proj2 (Z.ltb_ge s b)) by lia. apply Hub. lia.
  - (* top bit set *)
    assert (Hxs : wrap (true, b) x = x - 2 ^ b).
    { unfold wrap. replace (x + 2 ^ (b - 1)) with (x - 2 ^ (b - 1) + 1 * 2 ^ b) by lia.
      rewrite Z.mod_add by lia. rewrite Z.mod_small by lia. lia. }
    unfold repaired_sra_unsigned, jax_shift_right_arithmetic; cbn [snd ub]. cbv zeta. rewrite Hxs, Htop.
    assert (Ht1 : x / 2 ^ (b - 1) = 1) by (symmetry; apply Z.div_unique with (r := x - 2 ^ (b - 1)); lia).
    rewrite Ht1. unfold o_min.
    set (mask := o_mul ub (o_shl ub (2 ^ b - 1) (o_sub ub b (Z.min s b))) (o_cast_of_bool ub (o_not (o_equal (Z.min s b) 0)))).
    assert (Hfill : o_mul ub mask 1 = mask).
    { unfold o_mul at 1. rewrite Z.mul_1_r. unfold mask, o_mul. apply wrap_wrap. exact Hb. }
    rewrite Hfill. unfold mask. clear Hfill mask.
    destruct (Z.eq_dec s 0) as [Hz | Hnz]; [| destruct (Z.lt_ge_cases s b) as [Hlt | Hge]].
    + subst s. rewrite (Z.min_l 0 b), (Z.min_l 0 (b - 1)) by lia.
      assert (Hm0 : o_mul ub (o_shl ub (2 ^ b - 1) (o_sub ub b 0)) (o_cast_of_bool ub (o_not (o_equal 0 0))) = 0).
      { unfold o_mul, o_cast_of_bool, o_not, o_equal. rewrite Z.eqb_refl. cbn [negb]. cbv iota.
        rewrite Z.mul_0_r. apply Hub. lia. }
      assert (Hsh : o_shr ub x 0 = x).
      { unfold o_shr, bits; cbn [snd ub]. rewrite (proj2 (Z.ltb_lt 0 b)) by lia. apply Z.shiftr_0_r. }
      unfold o_bitor. rewrite Hm0, Hsh, Z.lor_0_r, Z.pow_0_r, Z.div_1_r.
      apply wrap_congr; [exact Hb|]. cbn [snd ub].
      replace x with (x - 2 ^ b + 1 * 2 ^ b) at 1 by lia. apply Z.mod_add. lia.
    + rewrite (Z.min_l s b), (Z.min_l s (b - 1)) by lia.
      pose proof (pow2_pos s ltac:(lia)) as H2s. pose proof (pow2_pos (b - s) ltac:(lia)) as H2bs.
      assert (Hsplit : 2 ^ b = 2 ^ (b - s) * 2 ^ s) by (rewrite <- Z.pow_add_r by lia; f_equal; lia).
      assert (Hsh : o_shr ub x s = x / 2 ^ s).
      { unfold o_shr, bits; cbn [snd ub]. rewrite (proj2 (Z.ltb_lt s b)) by lia. apply Z.shiftr_div_pow2. lia. }
      assert (Hq : 0 <= x / 2 ^ s < 2 ^ (b - s)).
      { split; [apply Z.div_pos; lia|]. apply Z.div_lt_upper_bound; [lia|]. rewrite Z.mul_comm, <- Hsplit. lia. }
      assert (Hmask : o_mul ub (o_shl ub (2 ^ b - 1) (o_sub ub b s)) (o_cast_of_bool ub (o_not (o_equal s 0)))
                      = (2 ^ s - 1) * 2 ^ (b - s)).
      { unfold o_mul, o_cast_of_bool, o_not, o_equal.
        rewrite (proj2 (Z.eqb_neq s 0)) by lia. cbn [negb]. cbv iota. rewrite Z.mul_1_r.
        unfold o_sub. rewrite (Hub (b - s)) by lia.
        unfold o_shl, bits; cbn [snd ub]. rewrite (proj2 (Z.ltb_lt (b - s) b)) by lia.
        rewrite wrap_wrap by exact Hb. rewrite Z.shiftl_mul_pow2 by lia.
        replace ((2 ^ b - 1) * 2 ^ (b - s)) with ((2 ^ s - 1) * 2 ^ (b - s) + (2 ^ (b - s) - 1) * 2 ^ b) by (rewrite Hsplit; ring).
        unfold ub, wrap. rewrite Z.mod_add by lia. apply Z.mod_small. rewrite Hsplit. nia. }
      unfold o_bitor. rewrite Hmask, Hsh, lor_low_high by lia.
      apply wrap_congr; [exact Hb|]. cbn [snd ub].
      replace ((x - 2 ^ b) / 2 ^ s) with (x / 2 ^ s - 2 ^ (b - s)).
      2:{ replace (x - 2 ^ b) with (x + (- 2 ^ (b - s)) * 2 ^ s) by (rewrite Hsplit; ring). rewrite Z.div_add by lia. lia. }
      replace (x / 2 ^ s + (2 ^ s - 1) * 2 ^ (b - s)) with (x / 2 ^ s - 2 ^ (b - s) + 1 * 2 ^ b) by (rewrite Hsplit; ring).
      apply Z.mod_add. lia.
    + rewrite (Z.min_r s b), (Z.min_r s (b - 1)) by lia.
      assert (Hsh : o_shr ub x b = 0).
      { unfold o_shr, bits; cbn [snd ub]. rewrite (proj2 (Z.ltb_ge b b)) by lia. reflexivity. }
      assert (Hmask : o_mul ub (o_shl ub (2 ^ b - 1) (o_sub ub b b)) (o_cast_of_bool ub (o_not (o_equal b 0))) = 2 ^ b - 1).
      { unfold o_mul, o_cast_of_bool, o_not, o_equal.
        rewrite (proj2 (Z.eqb_neq b 0)) by lia. cbn [negb]. cbv iota. rewrite Z.mul_1_r.
        unfold o_sub. rewrite Z.sub_diag. rewrite (Hub 0) by lia.
        unfold o_shl, bits; cbn [snd ub]. rewrite (proj2 (Z.ltb_lt 0 b)) by lia.
        rewrite Z.shiftl_0_r, wrap_wrap by exact Hb. apply Hub. lia. }
      unfold o_bitor. rewrite Hsh, Hmask, Z.lor_0_l.
      assert ((x - 2 ^ b) / 2 ^ (b - 1) = -1) as -> by (symmetry; apply Z.div_unique with (r := x - 2 ^ (b - 1)); lia).
      apply wrap_congr; [exact Hb|]. cbn [snd ub].
      replace (2 ^ b - 1) with (-1 + 1 * 2 ^ b) by lia. apply Z.mod_add. lia.
Qed.

(* ---------------------------------------------------------------- the lowerings of /repo since f821443 (neg), df7c8d6 (shifts),
   0f3d227 (arithmetic shift), 48bcbc4 (integer_pow): the repaired graphs above *)
Definition lowered_neg (sb : ity) (x : Z) := repaired_neg sb x.
Theorem neg_correct sb x : 0 < snd sb -> in_int sb x -> lowered_neg sb x = jax_neg sb x.
Proof. exact (repaired_neg_correct sb x). Qed.
Definition lowered_shift_left (sb : ity) (x s : Z) := repaired_shift_left sb x s.
Theorem shift_left_correct sb x s : 0 < snd sb -> in_int sb s -> 0 <= s -> lowered_shift_left sb x s = jax_shift_left sb x s.
Proof. exact (repaired_shift_left_correct sb x s). Qed.
Definition lowered_shift_right_logical (sb : ity) (x s : Z) := repaired_shift_right_logical sb x s.
Theorem shift_right_logical_correct sb x s : 0 < snd sb -> in_int sb x -> in_int sb s -> 0 <= s ->
  lowered_shift_right_logical sb x s = jax_shift_right_logical sb x s.
Proof. exact (repaired_shift_right_logical_correct sb x s). Qed.
Definition lowered_sra_unsigned (sb : ity) (x s : Z) := repaired_sra_unsigned sb x s.
Definition lowered_shift_right_arithmetic (sb : ity) (x s : Z) :=
  if is_signed sb then lowered_sra_signed sb x s else lowered_sra_unsigned sb x s.
Theorem shift_right_arithmetic_correct sb x s : 0 < snd sb -> in_int sb x -> in_int sb s -> 0 <= s ->
  lowered_shift_right_arithmetic sb x s = jax_shift_right_arithmetic sb x s.
Proof.
  intros Hb Hx Hs H0. unfold lowered_shift_right_arithmetic. destruct (is_signed sb) eqn:E.
  - now apply sra_signed_correct.
  - now apply repaired_sra_unsigned_correct.
Qed.
(* ---------------------------------------------------------------- repair committed as 22a5583 (.scratch/c01k/fix_integer_pow0.diff) *)
(* lax.integer_pow(x, 0) on integers: Add(Mul(x, 0), 1) instead of Pow (which has no int8 / int16 / unsigned base) *)
Definition repaired_integer_pow0 (sb : ity) (x : Z) : Z := o_add sb (o_mul sb x 0) 1.
Theorem repaired_integer_pow0_correct sb x : 0 < snd sb -> repaired_integer_pow0 sb x = jax_integer_pow sb x 0.
Proof.
  intro Hb. unfold repaired_integer_pow0, o_add, o_mul. rewrite Z.mul_0_r, wrap_add_l by exact Hb. reflexivity.
Qed.

(* the lowering of /repo since 22a5583: exponent 0 is Add(Mul(x, 0), 1), exponents >= 1 the repeated Mul of 48bcbc4 *)
Definition lowered_integer_pow (sb : ity) (x : Z) (n : nat) :=
  match n with O => repaired_integer_pow0 sb x | _ => repaired_integer_pow sb x n end.
Theorem integer_pow_correct sb x n : 0 < snd sb -> in_int sb x -> lowered_integer_pow sb x n = jax_integer_pow sb x n.
Proof.
  intros Hb Hx. destruct n as [|k]; [exact (repaired_integer_pow0_correct sb x Hb) | exact (repaired_integer_pow_correct sb x (S k) Hb Hx)].
Qed.

(* ---------------------------------------------------------------- repairs committed as cc0a643 (relu) and ccb100d (jnp.power) *)
(* jax.nn.relu on unsigned types: Identity instead of Relu (which has no unsigned variant) *)
Definition repaired_relu (sb : ity) (x : Z) := if is_signed sb then o_relu x else o_identity x.
Theorem repaired_relu_correct sb x : in_int sb x -> repaired_relu sb x = jax_relu x.
Proof.
  intro Hx. unfold repaired_relu. destruct (is_signed sb) eqn:Hs; [apply prerepair_relu_correct|].
  unfold o_identity, jax_relu. destruct sb as [sg b]; unfold is_signed in Hs; simpl in Hs; subst sg.
  unfold in_int, int_lo in Hx; simpl in Hx. destruct (x <? 0) eqn:E; lia.
Qed.
(* jnp.power / jnp.pow with a constant integer exponent on integers: the repeated-Mul graph of lowered_integer_pow
   (integer_pow_correct); the Pow graph (prerepair_integer_pow) is valid ONNX for int32 / int64 bases only *)

(* the lowering of /repo since cc0a643: Relu on signed types, Identity on unsigned ones *)
Definition lowered_relu (sb : ity) (x : Z) := repaired_relu sb x.
Theorem relu_correct sb x : in_int sb x -> lowered_relu sb x = jax_relu x.
Proof. exact (repaired_relu_correct sb x). Qed.
Definition relu_dom (sb : ity) : Prop := is_signed sb = true.
Theorem relu_unsigned_outside_onnx_domain sb : is_signed sb = false -> ~ relu_dom sb.
Proof. unfold relu_dom; intros H1 H2; congruence. Qed.

(* ================================================================ non-vacuity *)
Example nonvacuous_div : in_int I32 (-7) /\ in_int I32 2 /\ div_dom I32 (-7) 2 /\ lowered_div I32 (-7) 2 = -3.
Proof. repeat split; vm_compute; try discriminate; try reflexivity. intros (_ & H & _). discriminate. Qed.
Example nonvacuous_mod : (lowered_mod I32 (-7) 2, lowered_mod I32 7 (-2), lowered_mod I32 7 0, lowered_fmod I32 (-7) 2) = (1, -1, 0, -1).
Proof. reflexivity. Qed.
Example nonvacuous_floor_divide : (lowered_floor_divide I32 (-7) 2, lowered_floor_divide U8 7 2, lowered_floor_divide I8 (-128) 127) = (-4, 3, -2).
Proof. reflexivity. Qed.
Example nonvacuous_round : (lowered_round (5, 2), jax_round_away (5, 2), jax_round_even (5, 2), lowered_round (-7, 2), jax_round_away (-7, 2)) = (2, 3, 2, -4, -4).
Proof. reflexivity. Qed.
Example nonvacuous_round_agree : round_modes_agree (3, 2) = true /\ round_modes_agree (5, 2) = false /\ round_modes_agree (7, 3) = true.
Proof. repeat split. Qed.
Example nonvacuous_one_hot : map (prerepair_one_hot I32 4 2) [0; 1; 2; 3] = [0; 0; 1; 0] /\ map (prerepair_one_hot I32 4 (-1)) [0; 1; 2; 3] = [0; 0; 0; 1]
  /\ map (repaired_one_hot I32 4 (-1)) [0; 1; 2; 3] = [0; 0; 0; 0].
Proof. repeat split. Qed.
Example nonvacuous_sra : (jax_shift_right_arithmetic U8 128 1, jax_shift_right_arithmetic I8 (-8) 1, jax_shift_right_arithmetic I8 (-8) 200, jax_shift_right_arithmetic I32 8 32) = (192, -4, -1, 0).
Proof. reflexivity. Qed.
