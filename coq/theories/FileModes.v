(* C15 — all return and file modes deliver the same model.

   Model of what `jax2onnx.user_interface.to_onnx(..., return_mode="file")` does to the file system
   (the nested helper `_save_model_proto`), on top of ASSUMED behaviour of the third-party writer
   `onnx.save_model` / reader `onnx.load` (trusted base, validated on every run by harness/c15.py):

     * files        : a directory is a finite map  name -> file ; a file is either a serialized model
                      (`FMain s`; protobuf parse o serialize = id is ASSUMED, the encoding is not modelled)
                      or raw bytes (`FData d`, the external-data sidecar `<name>.data`).
     * byte strings : abstract (`BlobOps`), with four laws (`BlobLaws`).  Two implementations are proved to
                      satisfy the laws: `list N` (`ListOps`, the reference reading "bytes = list of bytes")
                      and run-length strings (`RleOps`, used by the harness so that 3 MiB parameters stay
                      small inside Coq).  Every theorem of the Model section holds for BOTH.
     * onnx writer  : `v_writer`, `v_cwd_check` of `variant` = how `onnx.save_model(save_as_external_data=True,
                      location=L)` treats an existing sidecar (`WAppend`: new payloads are written at the END of
                      the existing file, offset recorded; `WTruncate`: file restarted) and whether it refuses
                      to run when a file named L exists RELATIVE TO THE PROCESS CWD (onnx 1.22:
                      `if os.path.exists(location): raise FileExistsError`).
     * jax2onnx     : standard export (`pre` then `standard_core`) = [since 1d7bd45, `v_remove_before`: remove an existing sidecar FIRST], then
                      the onnx writer with threshold (since e203da0 jax2onnx marks the initializers itself and
                      the writer's CWD check is never reached: `v_cwd_check = false`, variant `current`), THEN remove the sidecar only when the export referenced no
                      external data and the sidecar is EMPTY; `save_web` = self-contained write, THEN remove any
                      sidecar.  An export that raises has already performed the removal (`save` returns the
                      directory and a success flag).  The harness determines the variant that code + installed
                      onnx exhibit; general theorems quantify over all variants, the strong ones need
                      `v_remove_before = true`.
     * reader       : `load` resolves every external reference by (location, offset, length) against the
                      CURRENT directory contents, with onnx's bounds checks.

   Scope: one directory, flat names; the sidecar name of `p` is `p ++ ".data"`; one export = one `step`. *)
From Coq Require Import Arith NArith PArith String List Bool Lia.
Import ListNotations.
Open Scope N_scope.
Local Ltac lia_ := timeout 20 lia.

(* ------------------------------------------------------------------ names *)
Definition sidecar (p : string) : string := (p ++ ".data")%string.

Lemma length_append (a b : string) :
  String.length (a ++ b) = (String.length a + String.length b)%nat.
Proof. induction a as [|c a IH]; simpl; [reflexivity | now rewrite IH]. Qed.

Lemma sidecar_neq p : sidecar p <> p.
Proof.
  intro H. apply (f_equal String.length) in H. unfold sidecar in H.
  rewrite length_append in H. simpl in H. lia_.
Qed.

Lemma sidecar_eqb_l p : String.eqb (sidecar p) p = false.
Proof. apply String.eqb_neq. apply sidecar_neq. Qed.

Lemma sidecar_eqb_r p : String.eqb p (sidecar p) = false.
Proof. apply String.eqb_neq. intro H. symmetry in H. now apply sidecar_neq in H. Qed.

(* ------------------------------------------------------------------ byte strings *)
Record BlobOps : Type := {
  blob : Type;
  blen : blob -> N;
  bapp : blob -> blob -> blob;
  bsub : N -> N -> blob -> blob;        (* bsub off len b = b[off : off+len] *)
  bempty : blob }.

Record BlobLaws (O : BlobOps) : Prop := {
  len_app : forall a b, blen O (bapp O a b) = blen O a + blen O b;
  len_empty : blen O (bempty O) = 0;
  sub_app_l : forall a b off len, off + len <= blen O a -> bsub O off len (bapp O a b) = bsub O off len a;
  sub_app_r : forall a b, bsub O (blen O a) (blen O b) (bapp O a b) = b }.

(* ------------------------------------------------------------------ assumed third-party behaviour *)
Inductive writer := WAppend | WTruncate.
(* v_remove_before: jax2onnx (since 1d7bd45) removes an existing sidecar BEFORE calling the writer *)
Record variant := { v_writer : writer; v_cwd_check : bool; v_remove_before : bool }.
(* where the process CWD is at the time of the export: the output directory itself, a directory without a
   file named like the sidecar, or some other directory that happens to contain such a file *)
Inductive cwd := CwdDest | CwdClean | CwdClash.
Inductive mode := Standard | Web.

Section Model.
Variable O : BlobOps.
Local Notation B := (blob O).

Inductive payload := Inline (b : B) | External (loc : string) (off len : N).
Record stored := { s_graph : N; s_inits : list (string * payload) }.
Record model := { m_graph : N; m_inits : list (string * B) }.
Inductive file := FMain (s : stored) | FData (d : B).
Definition fs := list (string * file).

Fixpoint lookup (f : fs) (k : string) : option file :=
  match f with
  | [] => None
  | (k', v) :: r => if String.eqb k k' then Some v else lookup r k
  end.
Fixpoint remove (f : fs) (k : string) : fs :=
  match f with
  | [] => []
  | (k', v) :: r => if String.eqb k k' then remove r k else (k', v) :: remove r k
  end.
Definition update (f : fs) (k : string) (v : file) : fs := (k, v) :: remove f k.

Definition data_of (f : fs) (k : string) : B :=
  match lookup f k with Some (FData d) => d | _ => bempty O end.
Definition sidecar_size (f : fs) (p : string) : N := blen O (data_of f (sidecar p)).

(* ---- onnx.save_model(save_as_external_data=True, all_tensors_to_one_file=True, location=loc,
        size_threshold=thr): convert_model_to_external_data marks every initializer whose raw data is
        >= thr; write_external_data_tensors writes them IN ORDER at the current end of the data file and
        records (location, offset, length).  ASSUMED. *)
Definition is_ext (thr : N) (b : B) : bool := thr <=? blen O b.
Definition has_external (thr : N) (l : list (string * B)) : bool :=
  existsb (fun nb => is_ext thr (snd nb)) l.

Fixpoint write_inits (thr : N) (loc : string) (data : B) (l : list (string * B))
  : B * list (string * payload) :=
  match l with
  | [] => (data, [])
  | (n, b) :: r =>
      if is_ext thr b then
        let (d', r') := write_inits thr loc (bapp O data b) r in
        (d', (n, External loc (blen O data) (blen O b)) :: r')
      else
        let (d', r') := write_inits thr loc data r in
        (d', (n, Inline b) :: r')
  end.

Definition onnx_save_external (w : writer) (thr : N) (f : fs) (p : string) (m : model) : fs :=
  let loc := sidecar p in
  let old := match w with WAppend => data_of f loc | WTruncate => bempty O end in
  let (d', sl) := write_inits thr loc old (m_inits m) in
  let f1 := if has_external thr (m_inits m) then update f loc (FData d') else f in
  update f1 p (FMain {| s_graph := m_graph m; s_inits := sl |}).

(* onnx.save_model(save_as_external_data=False) *)
Definition inline_all (l : list (string * B)) : list (string * payload) :=
  map (fun nb => (fst nb, Inline (snd nb))) l.
Definition onnx_save_plain (f : fs) (p : string) (m : model) : fs :=
  update f p (FMain {| s_graph := m_graph m; s_inits := inline_all (m_inits m) |}).

(* convert_model_to_external_data: `if os.path.exists(location): raise FileExistsError` — the name is
   resolved against the process CWD, not against the directory of the model *)
Definition location_exists (c : cwd) (f : fs) (p : string) : bool :=
  match c with
  | CwdDest => match lookup f (sidecar p) with Some _ => true | None => false end
  | CwdClean => false
  | CwdClash => true
  end.

(* ---- jax2onnx: _save_model_proto(model_proto, dest, mode=...), the part from onnx.save_model on;
        None = the writer raised (it writes nothing in that case) *)
Definition standard_core (v : variant) (thr : N) (c : cwd) (f : fs) (p : string) (m : model)
  : option fs :=
  if v_cwd_check v && location_exists c f p then None
  else
    let f1 := onnx_save_external (v_writer v) thr f p m in
    Some (if has_external thr (m_inits m) then f1
          else match lookup f1 (sidecar p) with
               | Some (FData d) => if blen O d =? 0 then remove f1 (sidecar p) else f1
               | _ => f1
               end).

Definition save_web (f : fs) (p : string) (m : model) : fs :=
  remove (onnx_save_plain f p m) (sidecar p).

(* ---- onnx.load(path) with load_external_data=True.  ASSUMED. *)
Definition read_ref (f : fs) (loc : string) (off len : N) : option B :=
  match lookup f loc with
  | Some (FData d) =>
      if (off <=? blen O d) && (len <=? blen O d - off) then Some (bsub O off len d) else None
  | _ => None
  end.
Fixpoint load_inits (f : fs) (l : list (string * payload)) : option (list (string * B)) :=
  match l with
  | [] => Some []
  | (n, pl) :: r =>
      match (match pl with Inline b => Some b | External loc off len => read_ref f loc off len end),
            load_inits f r with
      | Some b, Some r' => Some ((n, b) :: r')
      | _, _ => None
      end
  end.
Definition load (f : fs) (p : string) : option model :=
  match lookup f p with
  | Some (FMain s) =>
      match load_inits f (s_inits s) with
      | Some l => Some {| m_graph := s_graph s; m_inits := l |}
      | None => None
      end
  | _ => None
  end.

(* external references recorded in the main file *)
Fixpoint refs_in (l : list (string * payload)) : list (string * N * N) :=
  match l with
  | [] => []
  | (_, Inline _) :: r => refs_in r
  | (_, External loc off len) :: r => (loc, off, len) :: refs_in r
  end.
Definition refs_of (f : fs) (p : string) : list (string * N * N) :=
  match lookup f p with Some (FMain s) => refs_in (s_inits s) | _ => [] end.

(* ---- histories of exports to ONE path *)
Record step := { st_mode : mode; st_cwd : cwd; st_model : model }.
Definition save_core (v : variant) (thr : N) (f : fs) (p : string) (s : step) : option fs :=
  match st_mode s with
  | Standard => standard_core v thr (st_cwd s) f p (st_model s)
  | Web => Some (save_web f p (st_model s))
  end.
(* standard mode, since 1d7bd45: `if os.path.exists(data_path): os.remove(data_path)` BEFORE onnx.save_model *)
Definition pre (v : variant) (f : fs) (p : string) (s : step) : fs :=
  match st_mode s with
  | Standard => if v_remove_before v then remove f (sidecar p) else f
  | Web => f
  end.
(* one export: the directory afterwards, and whether it returned (true) or raised (false).  A raising export
   has already performed the removal. *)
Definition save (v : variant) (thr : N) (f : fs) (p : string) (s : step) : fs * bool :=
  match save_core v thr (pre v f p s) p s with
  | Some f' => (f', true)
  | None => (pre v f p s, false)
  end.

(* ghost state: the last model whose export did not raise, and where the data region written by that
   export starts in the sidecar *)
Record state := { st_fs : fs; st_last : option model; st_lo : N }.
Definition init (f : fs) : state := {| st_fs := f; st_last := None; st_lo := 0 |}.
Definition region_start (w : writer) (f : fs) (p : string) : N :=
  match w with WAppend => sidecar_size f p | WTruncate => 0 end.
Definition exec (v : variant) (thr : N) (p : string) (st : state) (s : step) : state :=
  let r := save v thr (st_fs st) p s in
  if snd r then {| st_fs := fst r; st_last := Some (st_model s);
                   st_lo := region_start (v_writer v) (pre v (st_fs st) p s) p |}
  else {| st_fs := fst r; st_last := st_last st; st_lo := st_lo st |}.
Definition run (v : variant) (thr : N) (p : string) (st : state) (h : list step) : state :=
  fold_left (exec v thr p) h st.

(* a step that cannot raise: web, or a CWD in which no file is named like the sidecar *)
Definition clean (s : step) : Prop := st_mode s = Web \/ st_cwd s = CwdClean.
(* a step that is not issued from an unrelated directory containing a file named like the sidecar *)
Definition no_clash (s : step) : Prop := st_mode s = Web \/ st_cwd s <> CwdClash.
(* scope of the model: the sidecar name does not hold a serialized model *)
Definition sidecar_is_data (f : fs) (p : string) : Prop :=
  match lookup f (sidecar p) with Some (FMain _) => False | _ => True end.
Definition expected_sidecar (md : mode) (thr : N) (m : model) : N :=
  match md with
  | Web => 0
  | Standard => fold_right (fun nb acc => if is_ext thr (snd nb) then blen O (snd nb) + acc else acc) 0 (m_inits m)
  end.

(* ------------------------------------------------------------------ finite map facts *)
Lemma lookup_remove_eq f k : lookup (remove f k) k = None.
Proof.
  induction f as [|[k' v] r IH]; simpl; [reflexivity|].
  destruct (String.eqb k k') eqn:E; [exact IH|]. simpl. now rewrite E.
Qed.
Lemma lookup_remove_neq f k k' : k <> k' -> lookup (remove f k) k' = lookup f k'.
Proof.
  intro Hn. induction f as [|[k0 v] r IH]; simpl; [reflexivity|].
  destruct (String.eqb k k0) eqn:E.
  - apply String.eqb_eq in E. subst k0. rewrite IH.
    destruct (String.eqb k' k) eqn:E2; [apply String.eqb_eq in E2; congruence | reflexivity].
  - simpl. now rewrite IH.
Qed.
Lemma lookup_update_eq f k v : lookup (update f k v) k = Some v.
Proof. unfold update. simpl. now rewrite String.eqb_refl. Qed.
Lemma lookup_update_neq f k k' v : k <> k' -> lookup (update f k v) k' = lookup f k'.
Proof.
  intro Hn. unfold update. simpl.
  destruct (String.eqb k' k) eqn:E; [apply String.eqb_eq in E; congruence|].
  now apply lookup_remove_neq.
Qed.

(* ------------------------------------------------------------------ theorems (need the laws) *)
Section Laws.
Hypothesis L : BlobLaws O.

(* d extends a: a is a prefix of d as far as reads are concerned *)
Definition ext (a d : B) : Prop :=
  blen O a <= blen O d /\ forall off len, off + len <= blen O a -> bsub O off len d = bsub O off len a.
Lemma ext_refl a : ext a a.
Proof. split; [lia_ | reflexivity]. Qed.
Lemma ext_trans a b c : ext a b -> ext b c -> ext a c.
Proof.
  intros [H1 H2] [H3 H4]. split; [lia_|]. intros off len Hb.
  rewrite H4 by lia_. now apply H2.
Qed.
Lemma ext_app a b : ext a (bapp O a b).
Proof.
  split; [rewrite (len_app O L); lia_|]. intros off len Hb. now apply (sub_app_l O L).
Qed.

Lemma inline_load f l : load_inits f (inline_all l) = Some l.
Proof.
  induction l as [|[n b] r IH]; simpl; [reflexivity|]. now rewrite IH.
Qed.
Lemma inline_refs l : refs_in (inline_all l) = [].
Proof. induction l as [|[n b] r IH]; simpl; [reflexivity | exact IH]. Qed.

Lemma write_inits_spec thr loc : forall l data d' sl,
  write_inits thr loc data l = (d', sl) ->
  ext data d' /\
  (forall f d'', lookup f loc = Some (FData d'') -> ext d' d'' -> load_inits f sl = Some l) /\
  (forall loc' off len, In (loc', off, len) (refs_in sl) ->
     loc' = loc /\ blen O data <= off /\ off + len <= blen O d') /\
  (has_external thr l = false -> d' = data /\ sl = inline_all l) /\
  blen O d' = blen O data +
              fold_right (fun nb acc => if is_ext thr (snd nb) then blen O (snd nb) + acc else acc) 0 l.
Proof.
  induction l as [|[n b] r IH]; intros data d' sl Hw; simpl in Hw.
  - inversion Hw; subst. split; [apply ext_refl|]. split; [reflexivity|].
    split; [intros loc' off len []|]. split; [intros _; split; reflexivity|]. simpl. lia_.
  - simpl. destruct (is_ext thr b) eqn:E.
    + destruct (write_inits thr loc (bapp O data b) r) as [d1 r1] eqn:W.
      inversion Hw; subst d' sl. clear Hw.
      destruct (IH _ _ _ W) as (Hext & Hload & Hrefs & _ & Hlen).
      assert (Hdb : ext data (bapp O data b)) by apply ext_app.
      split; [eapply ext_trans; eauto|].
      split; [|split; [|split]].
      * intros f d'' Hl He. simpl. unfold read_ref. rewrite Hl.
        assert (He2 : ext (bapp O data b) d'') by (eapply ext_trans; eauto).
        destruct He2 as [Hle Hsub].
        rewrite (len_app O L) in Hle.
        assert (Hc : (blen O data <=? blen O d'') && (blen O b <=? blen O d'' - blen O data) = true).
        { apply andb_true_iff; split; apply N.leb_le; lia_. }
        rewrite Hc. rewrite Hsub by (rewrite (len_app O L); lia_).
        rewrite (sub_app_r O L). now rewrite (Hload f d'' Hl He).
      * intros loc' off len Hin. simpl in Hin. destruct Hin as [Heq|Hin].
        -- inversion Heq; subst. destruct Hext as [Hle _]. rewrite (len_app O L) in Hle.
           repeat split; lia_.
        -- destruct (Hrefs _ _ _ Hin) as (Ha & Hb & Hc). rewrite (len_app O L) in Hb.
           repeat split; [exact Ha | lia_ | exact Hc].
      * intro Hf. simpl in Hf. discriminate Hf.
      * rewrite Hlen, (len_app O L). lia_.
    + destruct (write_inits thr loc data r) as [d1 r1] eqn:W.
      inversion Hw; subst d' sl. clear Hw.
      destruct (IH _ _ _ W) as (Hext & Hload & Hrefs & Hnone & Hlen).
      split; [exact Hext|]. split; [|split; [|split]].
      * intros f d'' Hl He. simpl. now rewrite (Hload f d'' Hl He).
      * intros loc' off len Hin. simpl in Hin. now apply Hrefs.
      * intro Hf. simpl in Hf. destruct (Hnone Hf) as [-> ->]. split; reflexivity.
      * exact Hlen.
Qed.

(* what one successful export establishes, whatever the directory looked like before *)
Definition post (v : variant) (thr : N) (f : fs) (p : string) (s : step) (f' : fs) : Prop :=
  load f' p = Some (st_model s) /\
  (forall loc off len, In (loc, off, len) (refs_of f' p) ->
     loc = sidecar p /\ region_start (v_writer v) f p <= off /\ off + len <= sidecar_size f' p) /\
  (v_writer v = WAppend -> lookup f' (sidecar p) <> None -> ext (data_of f (sidecar p)) (data_of f' (sidecar p))) /\
  (forall q, q <> p -> q <> sidecar p -> lookup f' q = lookup f q) /\
  (sidecar_is_data f p -> sidecar_is_data f' p) /\
  (sidecar_size f p = 0 \/ st_mode s = Web -> sidecar_size f' p = expected_sidecar (st_mode s) thr (st_model s)).

Lemma web_post v thr f p s : st_mode s = Web -> post v thr f p s (save_web f p (st_model s)).
Proof.
  intro Hm. unfold post, save_web, onnx_save_plain.
  assert (Hp : lookup (remove (update f p (FMain {| s_graph := m_graph (st_model s);
                 s_inits := inline_all (m_inits (st_model s)) |})) (sidecar p)) p
               = Some (FMain {| s_graph := m_graph (st_model s); s_inits := inline_all (m_inits (st_model s)) |})).
  { rewrite lookup_remove_neq by apply sidecar_neq. apply lookup_update_eq. }
  split; [|split; [|split; [|split; [|split]]]].
  - unfold load. rewrite Hp. simpl. rewrite inline_load. now destruct (st_model s).
  - unfold refs_of. rewrite Hp. simpl. rewrite inline_refs. intros loc off len [].
  - intros _ Hne. now rewrite lookup_remove_eq in Hne.
  - intros q Hq1 Hq2. rewrite lookup_remove_neq by congruence. now rewrite lookup_update_neq by congruence.
  - intros _. unfold sidecar_is_data. now rewrite lookup_remove_eq.
  - intros _. unfold sidecar_size, data_of. rewrite lookup_remove_eq, Hm. simpl. apply (len_empty O L).
Qed.

Lemma standard_post v thr c f p m f' :
  standard_core v thr c f p m = Some f' ->
  post v thr f p {| st_mode := Standard; st_cwd := c; st_model := m |} f'.
Proof.
  unfold standard_core. destruct (v_cwd_check v && location_exists c f p); [discriminate|].
  intro H. injection H as Hf'.
  unfold onnx_save_external in *.
  set (old := match v_writer v with WAppend => data_of f (sidecar p) | WTruncate => bempty O end) in *.
  destruct (write_inits thr (sidecar p) old (m_inits m)) as [d' sl] eqn:W.
  destruct (write_inits_spec _ _ _ _ _ _ W) as (Hext & Hload & Hrefs & Hnone & Hlen).
  assert (Hold : region_start (v_writer v) f p = blen O old).
  { unfold region_start, sidecar_size, old. destruct (v_writer v); [reflexivity | now rewrite (len_empty O L)]. }
  unfold post. simpl st_model. simpl st_mode.
  destruct (has_external thr (m_inits m)) eqn:HE.
  - (* something was written to the sidecar *)
    set (st := {| s_graph := m_graph m; s_inits := sl |}) in *. subst f'.
    assert (Hp : lookup (update (update f (sidecar p) (FData d')) p (FMain st)) p = Some (FMain st))
      by apply lookup_update_eq.
    assert (Hs : lookup (update (update f (sidecar p) (FData d')) p (FMain st)) (sidecar p) = Some (FData d')).
    { rewrite lookup_update_neq by (intro X; symmetry in X; now apply sidecar_neq in X). apply lookup_update_eq. }
    split; [|split; [|split; [|split; [|split]]]].
    + unfold load. rewrite Hp. simpl. rewrite (Hload _ d' Hs (ext_refl d')). now destruct m.
    + unfold refs_of. rewrite Hp. simpl. intros loc off len Hin.
      destruct (Hrefs _ _ _ Hin) as (Ha & Hb & Hc). unfold sidecar_size, data_of. rewrite Hs. rewrite Hold.
      repeat split; assumption.
    + intros Hw _. unfold data_of at 2. rewrite Hs. unfold old in Hext. now rewrite Hw in Hext.
    + intros q Hq1 Hq2. rewrite lookup_update_neq by congruence. now rewrite lookup_update_neq by congruence.
    + intros _. unfold sidecar_is_data. now rewrite Hs.
    + intros [Hz|Hw]; [|discriminate Hw]. unfold sidecar_size, data_of at 1. rewrite Hs. rewrite Hlen.
      unfold expected_sidecar.
      assert (Ho : blen O old = 0).
      { unfold old. destruct (v_writer v); [exact Hz | apply (len_empty O L)]. }
      rewrite Ho. lia_.
  - (* nothing external: the main file is self-contained; an EMPTY sidecar is removed, a non-empty one stays *)
    destruct (Hnone eq_refl) as [-> ->].
    set (st := {| s_graph := m_graph m; s_inits := inline_all (m_inits m) |}) in *.
    set (f1 := update f p (FMain st)) in *.
    assert (Hp1 : lookup f1 p = Some (FMain st)) by apply lookup_update_eq.
    assert (Hs1 : lookup f1 (sidecar p) = lookup f (sidecar p)).
    { unfold f1. apply lookup_update_neq. intro X; symmetry in X; now apply sidecar_neq in X. }
    assert (Hexp : expected_sidecar Standard thr m = 0).
    { unfold expected_sidecar. clear - HE. induction (m_inits m) as [|[n b] r IH]; simpl in *; [reflexivity|].
      apply orb_false_iff in HE. destruct HE as [E1 E2]. rewrite E1. now apply IH. }
    assert (Hcases : (f' = f1 /\ (sidecar_size f p = 0 -> sidecar_size f1 p = 0)) \/
                     (f' = remove f1 (sidecar p) /\ exists d, lookup f (sidecar p) = Some (FData d))).
    { rewrite <- Hf'. rewrite Hs1. destruct (lookup f (sidecar p)) as [[s0|d0]|] eqn:Hl.
      - left. split; [reflexivity|]. unfold sidecar_size, data_of. now rewrite Hs1, Hl.
      - destruct (blen O d0 =? 0) eqn:Hz.
        + right. split; [reflexivity | now exists d0].
        + left. split; [reflexivity|]. unfold sidecar_size, data_of. now rewrite Hs1, Hl.
      - left. split; [reflexivity|]. unfold sidecar_size, data_of. now rewrite Hs1, Hl. }
    clear Hf'. destruct Hcases as [[-> Hsz] | [-> [d0 Hd0]]].
    + split; [|split; [|split; [|split; [|split]]]].
      * unfold load. rewrite Hp1. simpl. rewrite inline_load. now destruct m.
      * unfold refs_of. rewrite Hp1. simpl. rewrite inline_refs. intros loc off len [].
      * intros _ _. unfold data_of. rewrite Hs1. apply ext_refl.
      * intros q Hq1 Hq2. unfold f1. now rewrite lookup_update_neq by congruence.
      * unfold sidecar_is_data. now rewrite Hs1.
      * intros [Hz|Hw]; [|discriminate Hw]. rewrite Hexp. now apply Hsz.
    + assert (Hp2 : lookup (remove f1 (sidecar p)) p = Some (FMain st)).
      { rewrite lookup_remove_neq by apply sidecar_neq. exact Hp1. }
      split; [|split; [|split; [|split; [|split]]]].
      * unfold load. rewrite Hp2. simpl. rewrite inline_load. now destruct m.
      * unfold refs_of. rewrite Hp2. simpl. rewrite inline_refs. intros loc off len [].
      * intros _ Hne. now rewrite lookup_remove_eq in Hne.
      * intros q Hq1 Hq2. rewrite lookup_remove_neq by congruence. unfold f1.
        now rewrite lookup_update_neq by congruence.
      * intros _. unfold sidecar_is_data. now rewrite lookup_remove_eq.
      * intros _. rewrite Hexp. unfold sidecar_size, data_of. rewrite lookup_remove_eq. apply (len_empty O L).
Qed.

Lemma core_post v thr f p s f' : save_core v thr f p s = Some f' -> post v thr f p s f'.
Proof.
  unfold save_core. destruct s as [md c m]. simpl. destruct md.
  - apply standard_post.
  - intro H. inversion H. now apply (web_post v thr f p {| st_mode := Web; st_cwd := c; st_model := m |}).
Qed.

(* ---- the export as jax2onnx performs it: optional removal of the old sidecar, then the core *)
Lemma pre_frame v f p s q : q <> sidecar p -> lookup (pre v f p s) q = lookup f q.
Proof.
  intro Hq. unfold pre. destruct (st_mode s); [|reflexivity].
  destruct (v_remove_before v); [|reflexivity]. apply lookup_remove_neq. congruence.
Qed.
Lemma pre_wf v f p s : sidecar_is_data f p -> sidecar_is_data (pre v f p s) p.
Proof.
  unfold pre. destruct (st_mode s); [|tauto]. destruct (v_remove_before v); [|tauto].
  intros _. unfold sidecar_is_data. now rewrite lookup_remove_eq.
Qed.
Lemma pre_old v f p s : v_remove_before v = false -> pre v f p s = f.
Proof. intro H. unfold pre. rewrite H. now destruct (st_mode s). Qed.
Lemma pre_repaired v f p s :
  v_remove_before v = true -> st_mode s = Standard -> lookup (pre v f p s) (sidecar p) = None.
Proof. intros H Hm. unfold pre. rewrite H, Hm. apply lookup_remove_eq. Qed.
Lemma pre_size v f p s : sidecar_size f p = 0 -> sidecar_size (pre v f p s) p = 0.
Proof.
  intro Hz. unfold pre. destruct (st_mode s); [|exact Hz]. destruct (v_remove_before v); [|exact Hz].
  unfold sidecar_size, data_of. rewrite lookup_remove_eq. apply (len_empty O L).
Qed.

Lemma save_ok v thr f p s : snd (save v thr f p s) = true ->
  save_core v thr (pre v f p s) p s = Some (fst (save v thr f p s)).
Proof. unfold save. destruct (save_core v thr (pre v f p s) p s); simpl; [reflexivity | discriminate]. Qed.
Lemma save_raised v thr f p s : snd (save v thr f p s) = false ->
  save_core v thr (pre v f p s) p s = None /\ fst (save v thr f p s) = pre v f p s.
Proof. unfold save. destruct (save_core v thr (pre v f p s) p s); simpl; [discriminate | now split]. Qed.

Lemma save_post v thr f p s : snd (save v thr f p s) = true ->
  post v thr (pre v f p s) p s (fst (save v thr f p s)) /\
  (forall q, q <> p -> q <> sidecar p -> lookup (fst (save v thr f p s)) q = lookup f q) /\
  (sidecar_is_data f p -> sidecar_is_data (fst (save v thr f p s)) p).
Proof.
  intro Hok. pose proof (core_post _ _ _ _ _ _ (save_ok _ _ _ _ _ Hok)) as Hp. split; [exact Hp|].
  destruct Hp as (_ & _ & _ & Hq & Hw & _). split.
  - intros q H1 H2. rewrite Hq by assumption. now apply pre_frame.
  - intro H0. apply Hw. now apply pre_wf.
Qed.

Lemma clean_succeeds v thr f p s : clean s -> snd (save v thr f p s) = true.
Proof.
  unfold clean, save, save_core. destruct s as [md c m]. simpl. intros [->| ->]; [reflexivity|].
  destruct md; [|reflexivity]. unfold standard_core. simpl. rewrite andb_false_r. reflexivity.
Qed.
Lemma no_check_succeeds v thr f p s : v_cwd_check v = false -> snd (save v thr f p s) = true.
Proof.
  intro Hc. unfold save, save_core. destruct (st_mode s); [|reflexivity].
  unfold standard_core. rewrite Hc. reflexivity.
Qed.
Lemma repaired_succeeds v thr f p s :
  v_remove_before v = true -> no_clash s -> snd (save v thr f p s) = true.
Proof.
  intros Hr Hn. unfold save, save_core. destruct (st_mode s) eqn:Hm; [|reflexivity].
  unfold standard_core.
  assert (Hl : location_exists (st_cwd s) (pre v f p s) p = false).
  { destruct Hn as [Hn|Hn]; [congruence|]. unfold location_exists.
    destruct (st_cwd s); [|reflexivity|congruence]. now rewrite (pre_repaired v f p s Hr Hm). }
  rewrite Hl, andb_false_r. reflexivity.
Qed.

(* exactly when and how an export raises: standard mode, writer with the CWD check, and a file named like the
   sidecar visible from the CWD — after the removal, if the code removes first.  What it leaves behind is the
   directory after that removal. *)
Theorem G_raise_effect : forall v thr f p s,
  snd (save v thr f p s) = false ->
  fst (save v thr f p s) = pre v f p s /\ st_mode s = Standard /\ v_cwd_check v = true /\
  (st_cwd s = CwdClash \/
   (st_cwd s = CwdDest /\ v_remove_before v = false /\ lookup f (sidecar p) <> None)).
Proof.
  intros v thr f p s Hr. destruct (save_raised _ _ _ _ _ Hr) as [Hc Hf]. split; [exact Hf|].
  unfold save_core in Hc. destruct (st_mode s) eqn:Hm; [|discriminate]. split; [reflexivity|].
  unfold standard_core in Hc.
  destruct (v_cwd_check v) eqn:Hk; [|discriminate]. split; [reflexivity|].
  destruct (location_exists (st_cwd s) (pre v f p s) p) eqn:Hl; [|discriminate].
  unfold location_exists in Hl. destruct (st_cwd s); [right|discriminate|now left].
  split; [reflexivity|]. destruct (v_remove_before v) eqn:Hb.
  - rewrite (pre_repaired v f p s Hb Hm) in Hl. discriminate.
  - split; [reflexivity|]. rewrite (pre_old v f p s Hb) in Hl. intro Hn. now rewrite Hn in Hl.
Qed.

Theorem G_raise_atomic_partial : forall v thr f p s,
  v_remove_before v = false -> snd (save v thr f p s) = false -> fst (save v thr f p s) = f.
Proof.
  intros v thr f p s Hb Hr. destruct (save_raised _ _ _ _ _ Hr) as [_ Hf]. rewrite Hf. now apply pre_old.
Qed.

(* ---- induction over the history: facts that hold for every variant *)
Definition ginv (p : string) (f0 : fs) (st : state) : Prop :=
  (forall q, q <> p -> q <> sidecar p -> lookup (st_fs st) q = lookup f0 q) /\
  (sidecar_is_data f0 p -> sidecar_is_data (st_fs st) p).

Lemma ginv_exec v thr p f0 st s : ginv p f0 st -> ginv p f0 (exec v thr p st s).
Proof.
  intros (Hfr & Hwf). unfold exec. destruct (snd (save v thr (st_fs st) p s)) eqn:Hs.
  - destruct (save_post _ _ _ _ _ Hs) as (_ & Hq & Hw). unfold ginv. simpl. split.
    + intros q Hq1 Hq2. rewrite Hq by assumption. now apply Hfr.
    + intro H0. apply Hw. now apply Hwf.
  - destruct (save_raised _ _ _ _ _ Hs) as [_ Hf]. unfold ginv. simpl. rewrite Hf. split.
    + intros q Hq1 Hq2. rewrite pre_frame by assumption. now apply Hfr.
    + intro H0. apply pre_wf. now apply Hwf.
Qed.
Lemma ginv_run v thr p f0 h : forall st, ginv p f0 st -> ginv p f0 (run v thr p st h).
Proof.
  unfold run. induction h as [|s h IH]; intros st Hi; simpl; [exact Hi|]. apply IH. now apply ginv_exec.
Qed.
Lemma ginv_init p f0 : ginv p f0 (init f0).
Proof. unfold ginv, init. simpl. split; auto. Qed.

(* ---- ... and for a code variant whose raising exports are atomic (no removal before the writer) *)
Definition inv (p : string) (f0 : fs) (st : state) : Prop :=
  match st_last st with
  | None => st_fs st = f0 /\ st_lo st = 0
  | Some m =>
      load (st_fs st) p = Some m /\
      (forall loc off len, In (loc, off, len) (refs_of (st_fs st) p) ->
         loc = sidecar p /\ st_lo st <= off /\ off + len <= sidecar_size (st_fs st) p)
  end.

Lemma inv_exec v thr p f0 st s : v_remove_before v = false -> inv p f0 st -> inv p f0 (exec v thr p st s).
Proof.
  intros Hb Hi. unfold exec. destruct (snd (save v thr (st_fs st) p s)) eqn:Hs.
  - destruct (save_post _ _ _ _ _ Hs) as ((Hl & Hr & _) & _).
    unfold inv. simpl. split; [exact Hl|]. intros loc off len Hin. now apply (Hr loc off len).
  - rewrite (G_raise_atomic_partial _ _ _ _ _ Hb Hs). unfold inv in *. simpl. now destruct st.
Qed.
Lemma inv_run v thr p f0 h : v_remove_before v = false ->
  forall st, inv p f0 st -> inv p f0 (run v thr p st h).
Proof.
  intro Hb. unfold run. induction h as [|s h IH]; intros st Hi; simpl; [exact Hi|].
  apply IH. now apply inv_exec.
Qed.
Lemma inv_init p f0 : inv p f0 (init f0).
Proof. unfold inv, init. simpl. split; reflexivity. Qed.

Lemma run_snoc v thr p st h s : run v thr p st (h ++ [s]) = exec v thr p (run v thr p st h) s.
Proof. unfold run. now rewrite fold_left_app. Qed.

(* T1: whatever happened before (any mix of modes, sizes, CWDs, raising exports, any prior directory), after an
   export that returns the file at p loads to exactly that model, every initializer byte-identical *)
Theorem G_load_after_save_partial : forall v thr p f0 h s,
  snd (save v thr (st_fs (run v thr p (init f0) h)) p s) = true ->
  load (st_fs (run v thr p (init f0) (h ++ [s]))) p = Some (st_model s).
Proof.
  intros v thr p f0 h s Hs. rewrite run_snoc. unfold exec. rewrite Hs. simpl.
  now destruct (save_post _ _ _ _ _ Hs) as ((Hl & _) & _).
Qed.

Theorem G_load_after_save_clean : forall v thr p f0 h s,
  clean s -> load (st_fs (run v thr p (init f0) (h ++ [s]))) p = Some (st_model s).
Proof. intros. apply G_load_after_save_partial. now apply clean_succeeds. Qed.

Theorem G_load_after_save_no_cwd_check : forall v thr p f0 h s,
  v_cwd_check v = false -> load (st_fs (run v thr p (init f0) (h ++ [s]))) p = Some (st_model s).
Proof. intros. apply G_load_after_save_partial. now apply no_check_succeeds. Qed.

(* the repaired code: full strength for every history whose LAST step is not issued from an unrelated directory
   that contains a file named like the sidecar (earlier steps may be anything, including such raising ones) *)
Theorem G_load_after_save_repaired : forall v thr p f0 h s,
  v_remove_before v = true -> no_clash s ->
  load (st_fs (run v thr p (init f0) (h ++ [s]))) p = Some (st_model s).
Proof. intros. apply G_load_after_save_partial. now apply repaired_succeeds. Qed.

(* code without the removal: a raising export is atomic, so the file always loads to the last export that
   returned *)
Theorem G_load_after_history_atomic : forall v thr p f0 h,
  v_remove_before v = false ->
  let st := run v thr p (init f0) h in
  match st_last st with
  | Some m => load (st_fs st) p = Some m
  | None => st_fs st = f0
  end.
Proof.
  intros v thr p f0 h Hb st. pose proof (inv_run v thr p f0 h Hb (init f0) (inv_init p f0)) as Hi.
  fold st in Hi. unfold inv in Hi. destruct (st_last st); tauto.
Qed.

(* T2: web export after any history: the main file holds no external reference, no sidecar is left, and the
   main file ALONE (a directory containing nothing else) loads to the exported model *)
Theorem G_web_self_contained : forall v thr p f0 h s,
  st_mode s = Web ->
  let f' := st_fs (run v thr p (init f0) (h ++ [s])) in
  refs_of f' p = [] /\ lookup f' (sidecar p) = None /\
  exists mf, lookup f' p = Some mf /\ load [(p, mf)] p = Some (st_model s).
Proof.
  intros v thr p f0 h s Hm f'. unfold f'. rewrite run_snoc. unfold exec, save, pre, save_core. rewrite Hm. simpl.
  set (f := st_fs (run v thr p (init f0) h)).
  unfold save_web, onnx_save_plain.
  set (mf := FMain {| s_graph := m_graph (st_model s); s_inits := inline_all (m_inits (st_model s)) |}).
  assert (Hp : lookup (remove (update f p mf) (sidecar p)) p = Some mf).
  { rewrite lookup_remove_neq by apply sidecar_neq. apply lookup_update_eq. }
  split; [|split].
  - unfold refs_of. rewrite Hp. simpl. apply inline_refs.
  - apply lookup_remove_eq.
  - exists mf. split; [exact Hp|]. unfold load. simpl. rewrite String.eqb_refl. simpl.
    rewrite inline_load. now destruct (st_model s).
Qed.

(* T3: after an export that returns, every external reference of the main file names the sidecar of p and lies
   inside [lo, size): the region THIS export wrote; lo = size of the sidecar the writer found (append writer;
   0 when the code removed it first) or 0 (truncating writer) *)
Theorem G_stale_sidecar_unreferenced : forall v thr p f0 h s,
  let f := st_fs (run v thr p (init f0) h) in
  snd (save v thr f p s) = true ->
  let st := run v thr p (init f0) (h ++ [s]) in
  st_lo st = region_start (v_writer v) (pre v f p s) p /\
  forall loc off len, In (loc, off, len) (refs_of (st_fs st) p) ->
    loc = sidecar p /\ st_lo st <= off /\ off + len <= sidecar_size (st_fs st) p.
Proof.
  intros v thr p f0 h s f Hs st. unfold st. rewrite run_snoc. unfold exec. fold f. rewrite Hs. simpl.
  split; [reflexivity|]. destruct (save_post _ _ _ _ _ Hs) as ((_ & Hr & _) & _). exact Hr.
Qed.

Theorem G_stale_sidecar_unreferenced_atomic : forall v thr p f0 h m,
  v_remove_before v = false ->
  let st := run v thr p (init f0) h in
  st_last st = Some m ->
  forall loc off len, In (loc, off, len) (refs_of (st_fs st) p) ->
    loc = sidecar p /\ st_lo st <= off /\ off + len <= sidecar_size (st_fs st) p.
Proof.
  intros v thr p f0 h m Hb st Hl. pose proof (inv_run v thr p f0 h Hb (init f0) (inv_init p f0)) as Hi.
  fold st in Hi. unfold inv in Hi. rewrite Hl in Hi. now destruct Hi.
Qed.

(* with the append writer the bytes below lo are exactly what the writer found: an export only ever adds *)
Theorem G_append_keeps_old_bytes : forall v thr f p s,
  v_writer v = WAppend -> snd (save v thr f p s) = true -> lookup (fst (save v thr f p s)) (sidecar p) <> None ->
  region_start (v_writer v) (pre v f p s) p = blen O (data_of (pre v f p s) (sidecar p)) /\
  ext (data_of (pre v f p s) (sidecar p)) (data_of (fst (save v thr f p s)) (sidecar p)).
Proof.
  intros v thr f p s Hw Hs Hne. destruct (save_post _ _ _ _ _ Hs) as ((_ & _ & He & _) & _).
  split; [now rewrite Hw | now apply He].
Qed.

Theorem G_frame : forall v thr p f0 h q,
  q <> p -> q <> sidecar p -> lookup (st_fs (run v thr p (init f0) h)) q = lookup f0 q.
Proof.
  intros v thr p f0 h q H1 H2.
  destruct (ginv_run v thr p f0 h (init f0) (ginv_init p f0)) as (Hf & _). now apply Hf.
Qed.

Theorem G_sidecar_stays_data : forall v thr p f0 h,
  sidecar_is_data f0 p -> sidecar_is_data (st_fs (run v thr p (init f0) h)) p.
Proof.
  intros v thr p f0 h. destruct (ginv_run v thr p f0 h (init f0) (ginv_init p f0)) as (_ & Hw). exact Hw.
Qed.

(* the sidecar is exactly as large as what a fresh export writes: when the code removes the old one first, or
   it was absent/empty before, or for web *)
Theorem G_sidecar_exact_partial : forall v thr f p s,
  snd (save v thr f p s) = true ->
  v_remove_before v = true \/ sidecar_size f p = 0 \/ st_mode s = Web ->
  sidecar_size (fst (save v thr f p s)) p = expected_sidecar (st_mode s) thr (st_model s).
Proof.
  intros v thr f p s Hs Hc. destruct (save_post _ _ _ _ _ Hs) as ((_ & _ & _ & _ & _ & He) & _). apply He.
  destruct Hc as [Hb|[Hz|Hw]]; [|left; now apply pre_size|now right].
  destruct (st_mode s) eqn:Hm; [left|now right].
  unfold sidecar_size, data_of. rewrite (pre_repaired v f p s Hb Hm). apply (len_empty O L).
Qed.

(* the repaired code is HISTORY INDEPENDENT: whether an export returns, and the two files it leaves (main file
   and sidecar, presence and contents), are those of the same export into an empty directory — no byte of an
   earlier export survives *)
Theorem G_history_independent : forall v thr f p s,
  v_remove_before v = true ->
  snd (save v thr f p s) = snd (save v thr [] p s) /\
  (snd (save v thr f p s) = true ->
   lookup (fst (save v thr f p s)) p = lookup (fst (save v thr [] p s)) p /\
   lookup (fst (save v thr f p s)) (sidecar p) = lookup (fst (save v thr [] p s)) (sidecar p)).
Proof.
  intros v thr f p s Hb. unfold save, save_core, pre. rewrite Hb. destruct s as [md c m]. simpl. destruct md.
  - (* standard *)
    simpl. unfold standard_core.
    assert (Hn : lookup (remove f (sidecar p)) (sidecar p) = None) by apply lookup_remove_eq.
    assert (Hloc : location_exists c (remove f (sidecar p)) p = location_exists c [] p).
    { unfold location_exists. destruct c; try reflexivity. now rewrite Hn. }
    rewrite Hloc. destruct (v_cwd_check v && location_exists c [] p); simpl; [split; [reflexivity | discriminate]|].
    split; [reflexivity|]. intros _.
    unfold onnx_save_external.
    assert (Hold : match v_writer v with WAppend => data_of (remove f (sidecar p)) (sidecar p) | WTruncate => bempty O end
                   = match v_writer v with WAppend => data_of [] (sidecar p) | WTruncate => bempty O end).
    { destruct (v_writer v); [|reflexivity]. unfold data_of. now rewrite Hn. }
    rewrite Hold.
    destruct (write_inits thr (sidecar p) _ (m_inits m)) as [d' sl].
    destruct (has_external thr (m_inits m)).
    + split.
      * now rewrite !lookup_update_eq.
      * rewrite !(lookup_update_neq _ p (sidecar p)) by (intro X; symmetry in X; now apply sidecar_neq in X).
        now rewrite !lookup_update_eq.
    + assert (H1 : lookup (update (remove f (sidecar p)) p (FMain {| s_graph := m_graph m; s_inits := sl |})) (sidecar p) = None).
      { rewrite lookup_update_neq by (intro X; symmetry in X; now apply sidecar_neq in X). exact Hn. }
      assert (H2 : lookup (update [] p (FMain {| s_graph := m_graph m; s_inits := sl |})) (sidecar p) = None).
      { rewrite lookup_update_neq by (intro X; symmetry in X; now apply sidecar_neq in X). reflexivity. }
      rewrite H1, H2. split; [now rewrite !lookup_update_eq | now rewrite H1, H2].
  - (* web *)
    simpl. split; [reflexivity|]. intros _. unfold save_web, onnx_save_plain. split.
    + rewrite !lookup_remove_neq by apply sidecar_neq. now rewrite !lookup_update_eq.
    + now rewrite !lookup_remove_eq.
Qed.

End Laws.
End Model.

Arguments Inline {O} _.
Arguments External {O} _ _ _.
Arguments FMain {O} _.
Arguments FData {O} _.

(* ================================================================== instance 1: bytes = list N *)
Definition bytes := list N.
Definition ListOps : BlobOps :=
  {| blob := bytes;
     blen := fun l => N.of_nat (length l);
     bapp := @app N;
     bsub := fun off len l => firstn (N.to_nat len) (skipn (N.to_nat off) l);
     bempty := [] |}.

Lemma ListLaws : BlobLaws ListOps.
Proof.
  constructor; simpl.
  - intros a b. rewrite app_length. lia_.
  - reflexivity.
  - intros a b off len H.
    rewrite skipn_app, firstn_app.
    replace (N.to_nat off - length a)%nat with 0%nat by lia_. simpl skipn at 2.
    rewrite skipn_length.
    replace (N.to_nat len - (length a - N.to_nat off))%nat with 0%nat by lia_.
    simpl. apply app_nil_r.
  - intros a b. rewrite !Nnat.Nat2N.id. rewrite skipn_app, Nat.sub_diag. simpl.
    rewrite skipn_all. simpl. apply firstn_all.
Qed.

(* ================================================================== instance 2: run-length strings *)
(* (tag, count) runs with positive counts; used by the harness to evaluate the model at true sizes *)
Definition rle := list (N * positive).
Local Arguments N.add : simpl never.
Local Arguments N.sub : simpl never.
Fixpoint rle_len (r : rle) : N :=
  match r with [] => 0 | (_, c) :: r' => N.pos c + rle_len r' end.
Fixpoint rle_drop (off : N) (r : rle) : rle :=
  match r with
  | [] => []
  | (t, c) :: r' =>
      match off with
      | 0 => r
      | N.pos o => if (c <=? o)%positive then rle_drop (N.pos o - N.pos c) r'
                   else (t, (c - o)%positive) :: r'
      end
  end.
Fixpoint rle_take (len : N) (r : rle) : rle :=
  match r with
  | [] => []
  | (t, c) :: r' =>
      match len with
      | 0 => []
      | N.pos l => if (c <=? l)%positive then (t, c) :: rle_take (N.pos l - N.pos c) r'
                   else [(t, l)]
      end
  end.
Definition RleOps : BlobOps :=
  {| blob := rle; blen := rle_len; bapp := @app (N * positive);
     bsub := fun off len r => rle_take len (rle_drop off r); bempty := [] |}.

Lemma rle_len_app a b : rle_len (a ++ b) = rle_len a + rle_len b.
Proof. induction a as [|[t c] a IH]; simpl; [reflexivity | rewrite IH; lia_]. Qed.
Lemma rle_take_0 r : rle_take 0 r = [].
Proof. destruct r as [|[t c] r]; reflexivity. Qed.
Lemma rle_take_all b : rle_take (rle_len b) b = b.
Proof.
  induction b as [|[t c] b IH]; simpl; [reflexivity|].
  destruct (N.pos c + rle_len b) as [|l] eqn:E; [lia_|].
  destruct (c <=? l)%positive eqn:E2.
  - replace (N.pos l - N.pos c) with (rle_len b) by lia_. now rewrite IH.
  - apply Pos.leb_gt in E2. lia_.
Qed.
Lemma rle_take_app a b : forall len, len <= rle_len a -> rle_take len (a ++ b) = rle_take len a.
Proof.
  induction a as [|[t c] a IH]; intros len H; simpl in *.
  - assert (len = 0) by lia_. subst. apply rle_take_0.
  - destruct len as [|l]; [reflexivity|].
    destruct (c <=? l)%positive eqn:E; [|reflexivity].
    apply Pos.leb_le in E. rewrite IH by lia_. reflexivity.
Qed.
Lemma rle_drop_app_r a b : rle_drop (rle_len a) (a ++ b) = b.
Proof.
  induction a as [|[t c] a IH]; simpl.
  - destruct b as [|[t c] b]; reflexivity.
  - destruct (N.pos c + rle_len a) as [|o] eqn:E; [lia_|].
    destruct (c <=? o)%positive eqn:E2.
    + replace (N.pos o - N.pos c) with (rle_len a) by lia_. exact IH.
    + apply Pos.leb_gt in E2. lia_.
Qed.

Lemma RleLaws : BlobLaws RleOps.
Proof.
  constructor; simpl.
  - apply rle_len_app.
  - reflexivity.
  - intros a b. induction a as [|[t c] a IH]; intros off len H; simpl in *.
    + assert (off = 0) by lia_. assert (len = 0) by lia_. subst.
      rewrite !rle_take_0. reflexivity.
    + destruct off as [|o].
      * change ((t, c) :: a ++ b) with (((t, c) :: a) ++ b). apply rle_take_app. simpl. lia_.
      * destruct (c <=? o)%positive eqn:E.
        -- apply Pos.leb_le in E. apply IH. lia_.
        -- apply Pos.leb_gt in E.
           change ((t, (c - o)%positive) :: a ++ b) with (((t, (c - o)%positive) :: a) ++ b).
           apply rle_take_app. simpl. lia_.
  - intros a b. rewrite rle_drop_app_r. apply rle_take_all.
Qed.

(* ================================================================== the theorems, for bytes = list N *)
Notation Lmodel := (model ListOps).
Notation Lstep := (step ListOps).
Notation Lfs := (fs ListOps).

Definition load_after_save_partial := G_load_after_save_partial ListOps ListLaws.
Definition load_after_save_clean := G_load_after_save_clean ListOps ListLaws.
Definition load_after_save_no_cwd_check := G_load_after_save_no_cwd_check ListOps ListLaws.
Definition load_after_save_repaired := G_load_after_save_repaired ListOps ListLaws.
Definition load_after_history_atomic := G_load_after_history_atomic ListOps ListLaws.
Definition web_self_contained := G_web_self_contained ListOps.
Definition stale_sidecar_unreferenced := G_stale_sidecar_unreferenced ListOps ListLaws.
Definition stale_sidecar_unreferenced_atomic := G_stale_sidecar_unreferenced_atomic ListOps ListLaws.
Definition append_keeps_old_bytes := G_append_keeps_old_bytes ListOps ListLaws.
Definition frame := G_frame ListOps ListLaws.
Definition sidecar_stays_data := G_sidecar_stays_data ListOps ListLaws.
Definition sidecar_exact_partial := G_sidecar_exact_partial ListOps ListLaws.
Definition history_independent := G_history_independent ListOps.
Definition raise_effect := G_raise_effect ListOps.
Definition raise_atomic_partial := G_raise_atomic_partial ListOps.
(* the same, for the run-length instance evaluated by the harness *)
Definition rle_load_after_save_repaired := G_load_after_save_repaired RleOps RleLaws.
Definition rle_history_independent := G_history_independent RleOps.

(* ---- witnesses (threshold 2: a 3-byte parameter spills, a 1-byte parameter does not) *)
(* installed onnx 1.22 (append writer, CWD-relative existence check) under jax2onnx before 1d7bd45 / at 1d7bd45 *)
Definition unrepaired : variant := {| v_writer := WAppend; v_cwd_check := true; v_remove_before := false |}.
Definition repaired : variant := {| v_writer := WAppend; v_cwd_check := true; v_remove_before := true |}.
(* since e203da0 jax2onnx marks the large initializers itself and calls plain onnx.save_model(model, dest): the
   writer's CWD-relative existence check is never reached.  This is the variant the harness ties the current
   code to. *)
Definition current : variant := {| v_writer := WAppend; v_cwd_check := false; v_remove_before := true |}.
Definition mk (g : N) (b : bytes) : Lmodel := Build_model ListOps g [("w"%string, b)].
Definition stp (md : mode) (c : cwd) (m : Lmodel) : Lstep := Build_step ListOps md c m.
Definition big1 := mk 1 [11; 12; 13].
Definition big2 := mk 2 [21; 22; 23].
Definition small3 := mk 3 [31].
Definition P := "m.onnx"%string.

(* full-strength statement: "load p = the model of the LAST export" for every history, every CWD. *)
Definition load_after_save_statement (v : variant) : Prop :=
  forall thr p (f0 : Lfs) h s,
    load ListOps (st_fs ListOps (run ListOps v thr p (init ListOps f0) (h ++ [s]))) p = Some (st_model ListOps s).

(* TRUE of the current code, unconditionally: every history, every CWD, every prior directory *)
Theorem load_after_save_current : load_after_save_statement current.
Proof. intros thr p f0 h s. now apply load_after_save_no_cwd_check. Qed.
Theorem current_never_raises : forall thr (f : Lfs) p s, snd (save ListOps current thr f p s) = true.
Proof. intros. now apply (no_check_succeeds ListOps). Qed.

(* false of the 1d7bd45 code, only because of the unrelated-CWD clash: the export raises FileExistsError *)
Theorem load_after_save_refuted : ~ load_after_save_statement repaired.
Proof.
  intro H. specialize (H 2 P [] [stp Standard CwdClean big1] (stp Standard CwdClash big2)).
  vm_compute in H. discriminate H.
Qed.
(* before the repair it was also false for a plain re-export issued from inside the output directory *)
Theorem load_after_save_refuted_unrepaired : ~ load_after_save_statement unrepaired.
Proof.
  intro H. specialize (H 2 P [] [stp Standard CwdDest big1] (stp Standard CwdDest big2)).
  vm_compute in H. discriminate H.
Qed.
(* ... which the repaired code handles *)
Example dest_reexport_repaired :
  let st := run ListOps repaired 2 P (init ListOps []) [stp Standard CwdDest big1; stp Standard CwdDest big2] in
  load ListOps (st_fs ListOps st) P = Some big2 /\ refs_of ListOps (st_fs ListOps st) P = [(sidecar P, 0, 3)] /\
  sidecar_size ListOps (st_fs ListOps st) P = 3.
Proof. vm_compute. repeat split; reflexivity. Qed.

(* "an export that raises leaves the directory as it was": true before 1d7bd45, FALSE at 1d7bd45 (the current
   code never raises: current_never_raises): the removal
   happens before the writer refuses, so the PREVIOUS export loses its sidecar and no longer loads *)
Definition raise_atomic_statement (v : variant) : Prop :=
  forall thr (f : Lfs) p s, snd (save ListOps v thr f p s) = false -> fst (save ListOps v thr f p s) = f.
Theorem raise_atomic_unrepaired : raise_atomic_statement unrepaired.
Proof. intros thr f p s. now apply raise_atomic_partial. Qed.
Theorem raise_atomic_refuted : ~ raise_atomic_statement repaired.
Proof.
  intro H.
  assert (E := H 2 [(sidecar P, FData (O := ListOps) [11; 12; 13])] P (stp Standard CwdClash small3) eq_refl).
  vm_compute in E. discriminate E.
Qed.
Example clash_raise_damages_previous_export :
  let st := run ListOps repaired 2 P (init ListOps []) [stp Standard CwdClean big1; stp Standard CwdClash small3] in
  st_last ListOps st = Some big1 /\ load ListOps (st_fs ListOps st) P = None /\
  map fst (st_fs ListOps st) = [P].
Proof. vm_compute. repeat split; reflexivity. Qed.

(* "the sidecar is exactly as large as what a fresh export writes": false before the repair (append writer:
   a second large export doubles the sidecar, a following small export leaves it behind), TRUE since *)
Definition sidecar_exact_statement (v : variant) : Prop :=
  forall thr p (f : Lfs) s,
    snd (save ListOps v thr f p s) = true ->
    sidecar_size ListOps (fst (save ListOps v thr f p s)) p
    = expected_sidecar ListOps (st_mode ListOps s) thr (st_model ListOps s).

Theorem sidecar_exact_current : sidecar_exact_statement current.
Proof. intros thr p f s Hs. apply sidecar_exact_partial; [exact Hs | now left]. Qed.
Theorem sidecar_exact_repaired : sidecar_exact_statement repaired.
Proof. intros thr p f s Hs. apply sidecar_exact_partial; [exact Hs | now left]. Qed.
Theorem sidecar_exact_refuted_unrepaired : ~ sidecar_exact_statement unrepaired.
Proof.
  intro H.
  assert (E := H 2 P [(sidecar P, FData (O := ListOps) [11; 12; 13])] (stp Standard CwdClean big2) eq_refl).
  vm_compute in E. discriminate E.
Qed.

Example sidecar_grew_unrepaired :
  let st := run ListOps unrepaired 2 P (init ListOps []) [stp Standard CwdClean big1; stp Standard CwdClean big2] in
  sidecar_size ListOps (st_fs ListOps st) P = 6 /\ refs_of ListOps (st_fs ListOps st) P = [(sidecar P, 3, 3)] /\
  st_lo ListOps st = 3 /\ load ListOps (st_fs ListOps st) P = Some big2.
Proof. vm_compute. repeat split; reflexivity. Qed.
Example sidecar_replaced_repaired :
  let st := run ListOps repaired 2 P (init ListOps []) [stp Standard CwdClean big1; stp Standard CwdClean big2] in
  sidecar_size ListOps (st_fs ListOps st) P = 3 /\ refs_of ListOps (st_fs ListOps st) P = [(sidecar P, 0, 3)] /\
  st_lo ListOps st = 0 /\ load ListOps (st_fs ListOps st) P = Some big2.
Proof. vm_compute. repeat split; reflexivity. Qed.
Example small_after_large_repaired :
  let st := run ListOps repaired 2 P (init ListOps [])
              [stp Standard CwdClean big1; stp Standard CwdClean small3] in
  map fst (st_fs ListOps st) = [P] /\ refs_of ListOps (st_fs ListOps st) P = [] /\
  load ListOps (st_fs ListOps st) P = Some small3.
Proof. vm_compute. repeat split; reflexivity. Qed.
Example web_removes_sidecar :
  let st := run ListOps repaired 2 P (init ListOps []) [stp Standard CwdClean big1; stp Web CwdDest big2] in
  map fst (st_fs ListOps st) = [P] /\ load ListOps (st_fs ListOps st) P = Some big2.
Proof. vm_compute. split; reflexivity. Qed.

(* non-vacuity of the hypotheses *)
Example clean_nonvacuous : clean ListOps (stp Standard CwdClean big1) /\ clean ListOps (stp Web CwdDest big1).
Proof. split; [right | left]; reflexivity. Qed.
Example no_clash_nonvacuous :
  no_clash ListOps (stp Standard CwdDest big1) /\ no_clash ListOps (stp Web CwdClash big1) /\
  ~ no_clash ListOps (stp Standard CwdClash big1).
Proof.
  split; [right; discriminate|]. split; [left; reflexivity|]. intros [H|H]; [discriminate H | now apply H].
Qed.
Example raising_step_exists :
  snd (save ListOps repaired 2 [] P (stp Standard CwdClash small3)) = false /\
  snd (save ListOps unrepaired 2 [(sidecar P, FData (O := ListOps) [0])] P (stp Standard CwdDest small3)) = false.
Proof. split; reflexivity. Qed.
Example threshold_is_inclusive :
  refs_of ListOps (st_fs ListOps (run ListOps repaired 3 P (init ListOps []) [stp Standard CwdClean big1])) P
    = [(sidecar P, 0, 3)] /\
  refs_of ListOps (st_fs ListOps (run ListOps repaired 4 P (init ListOps []) [stp Standard CwdClean big1])) P = [].
Proof. vm_compute. split; reflexivity. Qed.

(* ================================================================== tie support (harness/c15.py) *)
(* one observation per step: (raised, main file present, sidecar size, external refs (offset,length),
   load p = last non-raising model) *)
Definition rle_eqb (a b : rle) : bool :=
  (fix go (a b : rle) : bool :=
     match a, b with
     | [], [] => true
     | (t, c) :: a', (u, d) :: b' => (t =? u) && (c =? d)%positive && go a' b'
     | _, _ => false
     end) a b.
Fixpoint inits_eqb (a b : list (string * rle)) : bool :=
  match a, b with
  | [], [] => true
  | (n, x) :: a', (k, y) :: b' => String.eqb n k && rle_eqb x y && inits_eqb a' b'
  | _, _ => false
  end.
Definition rmodel_eqb (a b : model RleOps) : bool :=
  (m_graph RleOps a =? m_graph RleOps b) && inits_eqb (m_inits RleOps a) (m_inits RleOps b).

Definition obs := (bool * bool * option N * list (N * N) * bool)%type.
Definition observe (p : string) (raised : bool) (st : state RleOps) : obs :=
  let f := st_fs RleOps st in
  (raised,
   match lookup RleOps f p with Some _ => true | None => false end,
   match lookup RleOps f (sidecar p) with
   | Some (FData d) => Some (rle_len d) | Some (FMain _) => Some 0 | None => None end,
   map (fun r => (snd (fst r), snd r)) (refs_of RleOps f p),
   match st_last RleOps st, load RleOps f p with
   | Some m, Some m' => rmodel_eqb m m'
   | None, None => true
   | _, _ => false
   end).
Fixpoint run_obs (v : variant) (thr : N) (p : string) (st : state RleOps) (h : list (step RleOps))
  : list obs :=
  match h with
  | [] => []
  | s :: r =>
      let raised := negb (snd (save RleOps v thr (st_fs RleOps st) p s)) in
      let st' := exec RleOps v thr p st s in
      observe p raised st' :: run_obs v thr p st' r
  end.
Definition obs_eqb (a b : obs) : bool :=
  let '(r1, m1, s1, l1, o1) := a in
  let '(r2, m2, s2, l2, o2) := b in
  Bool.eqb r1 r2 && Bool.eqb m1 m2 &&
  match s1, s2 with Some x, Some y => x =? y | None, None => true | _, _ => false end &&
  (fix go (a b : list (N * N)) : bool :=
     match a, b with
     | [], [] => true
     | (x, y) :: a', (u, w) :: b' => (x =? u) && (y =? w) && go a' b'
     | _, _ => false
     end) l1 l2 &&
  Bool.eqb o1 o2.
Fixpoint obs_list_eqb (a b : list obs) : bool :=
  match a, b with
  | [], [] => true
  | x :: a', y :: b' => obs_eqb x y && obs_list_eqb a' b'
  | _, _ => false
  end.
(* a blob of `n` bytes all tagged `t` *)
Definition rblob (t n : N) : rle := match n with 0 => [] | N.pos c => [(t, c)] end.
