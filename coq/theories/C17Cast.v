(* C17: the TRANSLATED cast-elimination decision (gen/GenCast.v, regenerated from /repo on every
   run) accepts only round trips that are the identity on every value of the source type. *)
From Coq Require Import ZArith Reals String List Bool Lia.
From J2O Require Import PyLib Dtype CastSem.
From J2OGen Require Import LibTables GenCast.
Import ListNotations.
Local Open Scope Z_scope.

(* ---- the library dump agrees with the reference table of Dtype.v *)
Definition lib_int_info (d : dtype) : option (bool * Z) :=
  if dtype_is_integer d then
    match dtype_is_signed d, dtype_bitwidth d with Some s, Some b => Some (s, b) | _, _ => None end
  else None.

Lemma lib_agrees : forall d, lib_int_info d = int_info d.
Proof. intro d; destruct d; vm_compute; reflexivity. Qed.

(* ---- the decision, on dtypes *)
Definition decision (s t : dtype) : option bool :=
  cast_roundtrip_is_value_preserving (code_of s) (code_of t).

Definition decision_table_ok : bool :=
  forallb (fun s => forallb (fun t =>
    match decision s t with
    | Some true => ref_ok s t
    | Some false => true
    | None => false            (* the Python function must not raise on valid codes *)
    end) all_dtypes) all_dtypes.

Lemma decision_table_ok_true : decision_table_ok = true.
Proof. vm_compute. reflexivity. Qed.

Lemma decision_implies_ref s t : decision s t = Some true -> ref_ok s t = true.
Proof.
  intro H. pose proof decision_table_ok_true as T. unfold decision_table_ok in T.
  rewrite forallb_forall in T. specialize (T s (all_dtypes_complete s)).
  rewrite forallb_forall in T. specialize (T t (all_dtypes_complete t)).
  now rewrite H in T.
Qed.

Lemma decision_total s t : decision s t <> None.
Proof.
  intro H. pose proof decision_table_ok_true as T. unfold decision_table_ok in T.
  rewrite forallb_forall in T. specialize (T s (all_dtypes_complete s)).
  rewrite forallb_forall in T. specialize (T t (all_dtypes_complete t)).
  now rewrite H in T.
Qed.

(* codes that are not element types are never accepted (try/except ValueError -> False) *)
Lemma decision_bad_code cs ct :
  dtype_of_code cs = None \/ dtype_of_code ct = None ->
  cast_roundtrip_is_value_preserving cs ct = Some false.
Proof.
  unfold cast_roundtrip_is_value_preserving. intros [H|H].
  - now rewrite H.
  - destruct (dtype_of_code cs); cbv beta iota; [rewrite H|]; reflexivity.
Qed.

(* MAIN: for every pair of integer codes the decision accepts, the round trip is the identity
   on every value of the source type (all integers of the type; every finite float of the format,
   signed zeros, infinities, NaN; both booleans; complex pairs). *)
Theorem roundtrip_sound cs ct :
  cast_roundtrip_is_value_preserving cs ct = Some true ->
  exists s t, dtype_of_code cs = Some s /\ dtype_of_code ct = Some t /\
    forall v, in_dom s v -> exists w, cast s t v = Some w /\ cast t s w = Some v.
Proof.
  intro H.
  destruct (dtype_of_code cs) as [s|] eqn:Es;
    [| rewrite decision_bad_code in H by auto; discriminate].
  destruct (dtype_of_code ct) as [t|] eqn:Et;
    [| rewrite decision_bad_code in H by auto; discriminate].
  exists s, t. repeat split; auto. intros v Hv.
  apply ref_ok_roundtrip; auto. apply decision_implies_ref. unfold decision.
  now rewrite (code_of_dtype_of _ _ Es), (code_of_dtype_of _ _ Et).
Qed.

(* same-type cast removal: Cast to the type the value already has *)
Theorem same_type_cast_id d v : cast d d v = Some v.
Proof. unfold cast. now rewrite (proj2 (dtype_eqb_eq d d) eq_refl). Qed.

(* non-vacuity: the table accepts non-trivial pairs and rejects lossy ones *)
Example accepts_f32_f64 : decision DT_FLOAT DT_DOUBLE = Some true. Proof. reflexivity. Qed.
Example accepts_i32_f64 : decision DT_INT32 DT_DOUBLE = Some true. Proof. reflexivity. Qed.
Example rejects_f64_f32 : decision DT_DOUBLE DT_FLOAT = Some false. Proof. reflexivity. Qed.
Example rejects_i64_f64 : decision DT_INT64 DT_DOUBLE = Some false. Proof. reflexivity. Qed.
Example rejects_u8_i8 : decision DT_UINT8 DT_INT8 = Some false. Proof. reflexivity. Qed.
Definition accepted_pairs : nat :=
  List.length (filter (fun st => match decision (fst st) (snd st) with Some true => negb (dtype_eqb (fst st) (snd st)) | _ => false end)
    (list_prod all_dtypes all_dtypes)).

(* ---------------------------------------------------------------- Range-based narrowing *)
(* ONNX Range(start, limit, delta): n = max(ceil((limit-start)/delta), 0) elements start + i*delta *)
Definition cdiv (a b : Z) : Z := - ((- a) / b).
Definition range_len (start limit delta : Z) : Z := Z.max 0 (cdiv (limit - start) delta).
Definition range_elem (start limit delta i : Z) : Prop := 0 <= i < range_len start limit delta.

Ltac Zify.zify_post_hook ::= Z.to_euclidean_division_equations.

Lemma range_elem_side start limit delta i : delta <> 0 -> range_elem start limit delta i ->
  0 <= i /\ (0 < delta -> start + i * delta < limit) /\ (delta < 0 -> start + i * delta > limit).
Proof.
  unfold range_elem, range_len, cdiv. intros Hd [Hi Hn]. split; [exact Hi|].
  split; intro Hs.
  - assert (i < - ((- (limit - start)) / delta)) by lia.
    assert (Hq : (- (limit - start)) = delta * ((- (limit - start)) / delta) + (- (limit - start)) mod delta)
      by (apply Z.div_mod; lia).
    pose proof (Z.mod_pos_bound (- (limit - start)) delta Hs). nia.
  - assert (i < - ((- (limit - start)) / delta)) by lia.
    assert (Hq : (- (limit - start)) = delta * ((- (limit - start)) / delta) + (- (limit - start)) mod delta)
      by (apply Z.div_mod; lia).
    pose proof (Z.mod_neg_bound (- (limit - start)) delta Hs). nia.
Qed.

Theorem range_bounds_sound start limit delta lo hi :
  range_value_bounds start limit delta = Some (Some (lo, hi)) ->
  forall i, range_elem start limit delta i -> lo <= start + i * delta <= hi.
Proof.
  unfold range_value_bounds. destruct (delta =? 0) eqn:Ed; [discriminate|].
  apply Z.eqb_neq in Ed. intros H i Hi.
  pose proof (range_elem_side _ _ _ _ Ed Hi) as (Hi0 & Hpos & Hneg).
  destruct (delta >? 0) eqn:Eg.
  - assert (Hd : 0 < delta) by lia. specialize (Hpos Hd).
    destruct (start >=? limit) eqn:Es.
    + exfalso. assert (start >= limit) by lia. nia.
    + unfold py_floordiv in H. destruct (delta =? 0) eqn:E0; [lia|].
      injection H as <- <-. split; [nia|].
      assert (Hq : limit - start - 1 = delta * ((limit - start - 1) / delta) + (limit - start - 1) mod delta)
        by (apply Z.div_mod; lia).
      pose proof (Z.mod_pos_bound (limit - start - 1) delta Hd).
      assert (i <= (limit - start - 1) / delta) by nia. nia.
  - assert (Hd : delta < 0) by lia. specialize (Hneg Hd).
    destruct (start <=? limit) eqn:Es.
    + exfalso. assert (start <= limit) by lia. nia.
    + unfold py_floordiv in H. destruct (- delta =? 0) eqn:E0; [lia|].
      injection H as <- <-. split; [|nia].
      assert (Hd' : 0 < - delta) by lia.
      assert (Hq : start - limit - 1 = (- delta) * ((start - limit - 1) / (- delta)) + (start - limit - 1) mod (- delta))
        by (apply Z.div_mod; lia).
      pose proof (Z.mod_pos_bound (start - limit - 1) (- delta) Hd').
      assert (i <= (start - limit - 1) / (- delta)) by nia. nia.
Qed.

(* delta = 0 is never proven (ONNX Range with delta 0 is invalid) *)
Lemma range_bounds_delta0 start limit : range_value_bounds start limit 0 = Some None.
Proof. reflexivity. Qed.

(* the translated bounds of an integer dtype are the true bounds *)
Lemma integer_dtype_bounds_ok d :
  integer_dtype_bounds (code_of d) =
  Some (match int_info d with Some sb => Some (int_lo sb, int_hi sb) | None => None end).
Proof. destruct d; vm_compute; reflexivity. Qed.

Theorem narrowing_roundtrip_sound s t sb tb vmin vmax tmin tmax :
  int_info s = Some sb -> int_info t = Some tb ->
  integer_dtype_bounds (code_of t) = Some (Some (tmin, tmax)) ->
  known_values_fit_tail vmin vmax (tmin, tmax) = Some true ->
  forall z, in_int sb z -> vmin <= z <= vmax -> wrap sb (wrap tb z) = z.
Proof.
  intros Hs Ht Hb Hfit z Hz Hrange.
  rewrite integer_dtype_bounds_ok, Ht in Hb. injection Hb as <- <-.
  unfold known_values_fit_tail in Hfit.
  destruct (vmin >? vmax) eqn:E1; [lia|].
  destruct (vmin >=? int_lo tb) eqn:E2; [|discriminate].
  injection Hfit as Hfit.
  assert (Hin : in_int tb z) by (unfold in_int; lia).
  assert (0 < snd sb /\ 0 < snd tb) as [Hsb Htb].
  { destruct s; try discriminate; destruct t; try discriminate;
      injection Hs as <-; injection Ht as <-; simpl; lia. }
  rewrite (wrap_id tb) by auto. now apply wrap_id.
Qed.

(* combined with the Range bounds: every element of a constant Range that the decision sees survives *)
Corollary range_narrowing_sound s t sb tb start limit delta vmin vmax tmin tmax :
  int_info s = Some sb -> int_info t = Some tb ->
  range_value_bounds start limit delta = Some (Some (vmin, vmax)) ->
  integer_dtype_bounds (code_of t) = Some (Some (tmin, tmax)) ->
  known_values_fit_tail vmin vmax (tmin, tmax) = Some true ->
  forall i, range_elem start limit delta i -> in_int sb (start + i * delta) ->
    wrap sb (wrap tb (start + i * delta)) = start + i * delta.
Proof.
  intros Hs Ht Hr Hb Hfit i Hi Hz.
  eapply narrowing_roundtrip_sound; eauto. eapply range_bounds_sound; eauto.
Qed.

(* the operators through which value bounds are propagated must be pure data movement *)
Definition shape_only_ops : list string :=
  ["Expand"; "Flatten"; "Identity"; "Reshape"; "Squeeze"; "Transpose"; "Unsqueeze"]%string.
Lemma value_preserving_ops_are_shape_only :
  forallb (fun o => str_in o shape_only_ops) INTEGER_VALUE_PRESERVING_OPS = true.
Proof. vm_compute. reflexivity. Qed.

Example range_nonvacuous : range_value_bounds 7 (-5) (-3) = Some (Some (-2, 7)).
Proof. reflexivity. Qed.
Example range_elems_7 : range_len 7 (-5) (-3) = 4. Proof. reflexivity. Qed.
