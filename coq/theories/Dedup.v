(* Dedup: C07 — ONNX function boundaries are transparent; bodies shared only when equal.

   Part A  a call node whose operator is a function f (formals, body, outputs) computes exactly what the
           body computes when it is inlined into the caller with the actuals substituted for the formals
           and fresh names for the body's own values (function_transparent, inline_call_sound), over the
           SSA-graph semantics of Graph.v with uninterpreted operator semantics.
   Part B  the dedup registry of plugin_system.FunctionPlugin._lower_and_call as a fold over the call
           sites in lowering order; soundness for EVERY key function that is adequate, the converse
           hazard, arities.
   Part C  the key exactly as _lower_and_call builds it (default mode: (id(callee), captures); unique mode:
           _build_unique_signature with the instance-state fingerprint), adequacy modulo explicit
           hypotheses, and the two holes of the unchanged code as refuted statements. *)
From Coq Require Import String List Arith Lia Bool PeanoNat.
From J2O Require Import Graph.
Import ListNotations.

(* ================================================================================================ *)
(* Part A: inlining                                                                                   *)
(* ================================================================================================ *)

Record func := mkFunc { f_name : string; f_ins : list name; f_body : list node; f_outs : list name }.

Definition fnames (f : func) : list name := f_ins f ++ defs (f_body f).

(* a function body reads only its formals and its own values; formals are distinct and never redefined *)
Record wf_function (f : func) : Prop := mkWf {
  wf_ins_nodup : NoDup (f_ins f);
  wf_disj : forall x, In x (f_ins f) -> ~ In x (defs (f_body f));
  wf_closed : forall n x, In n (f_body f) -> In x (n_uses n) -> In x (fnames f);
  wf_outs : forall x, In x (f_outs f) -> In x (fnames f) }.

Definition ren_node (r : name -> name) (n : node) : node :=
  mkNode (n_op n) (n_attrs n) (map r (n_ins n)) (map r (n_caps n)) (map r (n_outs n)).

Definition orel {A B} (R : A -> B -> Prop) (x : option A) (y : option B) : Prop :=
  match x, y with Some a, Some b => R a b | None, None => True | _, _ => False end.

Section Inline.
Variable V : Type.
Variable sem : string -> list nat -> list V -> option (list V).

Definition env0 : env V := fun _ => None.

(* ONNX semantics of a call: evaluate the body in a scope of its own holding only the formals *)
Definition eval_call (f : func) (args : list V) : option (list V) :=
  if Nat.eqb (length args) (length (f_ins f)) then
    match eval V sem (f_body f) (upds V env0 (f_ins f) args) with
    | Some ef => lookups V ef (f_outs f)
    | None => None
    end
  else None.

(* the body inlined into a caller whose environment is e: every name x of the body becomes r x *)
Definition eval_body (f : func) (r : name -> name) (e : env V) : option (list V) :=
  match eval V sem (map (ren_node r) (f_body f)) e with
  | Some ef => lookups V ef (map r (f_outs f))
  | None => None
  end.

(* r substitutes the actuals for the formals and gives the body's own values names that are fresh in the
   caller and do not clash with each other or with the actuals *)
Record inline_ok (f : func) (r : name -> name) (acts : list name) (e : env V) : Prop := mkIok {
  io_formals : map r (f_ins f) = acts;
  io_inj : forall x y, In x (fnames f) -> In y (defs (f_body f)) -> r x = r y -> x = y;
  io_fresh : forall y, In y (defs (f_body f)) -> e (r y) = None }.

Lemma lookups_length (e : env V) xs vs : lookups V e xs = Some vs -> length vs = length xs.
Proof.
  revert vs. induction xs as [|x r IH]; simpl; intros vs H.
  - now injection H as <-.
  - destruct (e x); [|discriminate]. destruct (lookups V e r) as [ws|]; [|discriminate].
    injection H as <-. simpl. f_equal. now apply IH.
Qed.

Lemma lookups_ren (r : name -> name) (ef ei : env V) xs :
  (forall x, In x xs -> ef x = ei (r x)) -> lookups V ef xs = lookups V ei (map r xs).
Proof.
  induction xs as [|x xr IH]; simpl; intro H; auto.
  rewrite (H x) by now left. rewrite IH by (intros; apply H; now right). reflexivity.
Qed.

Lemma upds_ren (r : name -> name) x : forall outs o (e e' : env V),
  (forall y, In y outs -> r x = r y -> x = y) -> e x = e' (r x) ->
  upds V e outs o x = upds V e' (map r outs) o (r x).
Proof.
  induction outs as [|a outs IH]; intros [|v o] e e' Hinj He; simpl; auto.
  apply IH; [intros; apply Hinj; auto; now right|].
  unfold upd. destruct (Nat.eqb_spec x a) as [->|Hne].
  - now rewrite Nat.eqb_refl.
  - destruct (Nat.eqb_spec (r x) (r a)) as [Hr|_]; auto.
    exfalso. apply Hne. apply Hinj; auto. now left.
Qed.

Lemma upds_formals (r : name -> name) (e : env V) : forall xs args (e' : env V),
  NoDup xs -> lookups V e (map r xs) = Some args -> forall x, In x xs -> upds V e' xs args x = e (r x).
Proof.
  induction xs as [|a xs IH]; intros args e' Hnd Hl x Hx; [contradiction|].
  simpl in Hl. destruct (e (r a)) as [v|] eqn:Ea; [|discriminate].
  destruct (lookups V e (map r xs)) as [vs|] eqn:El; [|discriminate]. injection Hl as <-.
  inversion Hnd as [|? ? Hni Hnd']; subst. simpl.
  destruct (in_dec Nat.eq_dec x xs) as [Hin|Hnin].
  - now apply IH.
  - destruct Hx as [->|Hx]; [|contradiction].
    rewrite upds_other by exact Hnin. unfold upd. now rewrite Nat.eqb_refl.
Qed.

Lemma n_uses_ren r n : n_uses (ren_node r n) = map r (n_uses n).
Proof. unfold n_uses, ren_node; simpl. now rewrite map_app. Qed.

Lemma defs_ren r ns : defs (map (ren_node r) ns) = map r (defs ns).
Proof. unfold defs. induction ns as [|n ns IH]; simpl; auto. now rewrite map_app, IH. Qed.

Lemma outs_in_defs n ns x : In n ns -> In x (n_outs n) -> In x (defs ns).
Proof. intros Hn Hx. unfold defs. apply in_flat_map. timeout 20 eauto. Qed.

Section OneFunction.
Variable f : func.
Variable r : name -> name.

Definition J (ef ei : env V) : Prop := forall x, In x (fnames f) -> ef x = ei (r x).

Lemma step_ren ef ei n : wf_function f ->
  (forall x y, In x (fnames f) -> In y (defs (f_body f)) -> r x = r y -> x = y) ->
  In n (f_body f) -> J ef ei -> orel J (step V sem ef n) (step V sem ei (ren_node r n)).
Proof.
  intros Hwf Hinj Hn HJ. unfold step. rewrite n_uses_ren.
  rewrite <- (lookups_ren r ef ei) by (intros x Hx; apply HJ; eapply wf_closed; timeout 20 eauto).
  destruct (lookups V ef (n_uses n)) as [vs|]; [|exact I]. cbn [n_op n_attrs n_outs ren_node].
  destruct (sem (n_op n) (n_attrs n) vs) as [o|]; [|exact I].
  rewrite map_length. destruct (Nat.eqb (length o) (length (n_outs n))); [|exact I].
  simpl. intros x Hx. apply upds_ren; [|now apply HJ].
  intros y Hy. apply Hinj; auto. eapply outs_in_defs; timeout 20 eauto.
Qed.

Lemma eval_ren : wf_function f ->
  (forall x y, In x (fnames f) -> In y (defs (f_body f)) -> r x = r y -> x = y) ->
  forall ns, (forall n, In n ns -> In n (f_body f)) -> forall ef ei, J ef ei ->
  orel J (eval V sem ns ef) (eval V sem (map (ren_node r) ns) ei).
Proof.
  intros Hwf Hinj. induction ns as [|n ns IH]; intros Hsub ef ei HJ; simpl; auto.
  pose proof (step_ren ef ei n Hwf Hinj (Hsub n (or_introl eq_refl)) HJ) as Hs.
  destruct (step V sem ef n) as [ef'|], (step V sem ei (ren_node r n)) as [ei'|]; simpl in Hs; try contradiction; auto.
  apply IH; auto. intros; apply Hsub; now right.
Qed.

Theorem function_transparent acts args e :
  wf_function f -> inline_ok f r acts e -> lookups V e acts = Some args ->
  eval_call f args = eval_body f r e.
Proof.
  intros Hwf Hok Hl. unfold eval_call, eval_body.
  assert (Hlen : length args = length (f_ins f)).
  { rewrite (lookups_length _ _ _ Hl), <- (io_formals _ _ _ _ Hok). apply map_length. }
  rewrite Hlen, Nat.eqb_refl.
  assert (HJ0 : J (upds V env0 (f_ins f) args) e).
  { intros x Hx. unfold fnames in Hx. apply in_app_or in Hx. destruct Hx as [Hx|Hx].
    - apply (upds_formals r e); auto. apply (wf_ins_nodup _ Hwf). now rewrite (io_formals _ _ _ _ Hok).
    - rewrite upds_other by (intro Hi; exact (wf_disj _ Hwf _ Hi Hx)).
      unfold env0. symmetry. now apply (io_fresh _ _ _ _ Hok). }
  pose proof (eval_ren Hwf (io_inj _ _ _ _ Hok) (f_body f) (fun n H => H) _ _ HJ0) as He.
  destruct (eval V sem (f_body f) (upds V env0 (f_ins f) args)) as [ef|],
           (eval V sem (map (ren_node r) (f_body f)) e) as [ei|]; simpl in He; try contradiction; auto.
  apply lookups_ren. intros x Hx. apply He. now apply (wf_outs _ Hwf).
Qed.

(* the inlined body leaves every other value of the caller untouched *)
Lemma inline_frame e ef : eval V sem (map (ren_node r) (f_body f)) e = Some ef ->
  forall y, ~ In y (map r (defs (f_body f))) -> ef y = e y.
Proof.
  intros Hev y Hy. rewrite <- defs_ren in Hy.
  destruct (e y) as [a|] eqn:Ey.
  - eapply eval_mono; timeout 20 eauto.
  - eapply eval_undefined; timeout 20 eauto.
Qed.

End OneFunction.
End Inline.

(* ---- graph level: a caller graph with a call node vs. the same graph with the body spliced in *)
Section InlineGraph.
Variable V : Type.
Variable veq : V -> V -> Prop.
Hypothesis veq_refl : forall a, veq a a.
Variable sem : string -> list nat -> list V -> option (list V).
Variable f : func.
Variable r : name -> name.

(* operator semantics of a model that carries f as a local function *)
Definition sem_with : string -> list nat -> list V -> option (list V) :=
  fun op ats vs => if String.eqb op (f_name f) then eval_call V sem f vs else sem op ats vs.

Lemma eval_sem_ext ns : (forall n, In n ns -> n_op n <> f_name f) ->
  forall e, eval V sem_with ns e = eval V sem ns e.
Proof.
  induction ns as [|n ns IH]; intros Hop e; simpl; auto.
  assert (Hs : step V sem_with e n = step V sem e n).
  { unfold step, sem_with. destruct (String.eqb_spec (n_op n) (f_name f)) as [E|_]; auto.
    exfalso. apply (Hop n); auto. now left. }
  rewrite Hs. destruct (step V sem e n); auto. apply IH. intros; apply Hop; now right.
Qed.

Lemma upds_lookups (em ei : env V) : forall xs ov, lookups V ei xs = Some ov ->
  forall y, In y xs -> upds V em xs ov y = ei y.
Proof.
  intros xs. revert em. induction xs as [|a xs IH]; intros em ov Hl y Hy; [contradiction|].
  simpl in Hl. destruct (ei a) as [v|] eqn:Ea; [|discriminate].
  destruct (lookups V ei xs) as [vs|] eqn:El; [|discriminate]. injection Hl as <-. simpl.
  destruct (in_dec Nat.eq_dec y xs) as [Hin|Hnin].
  - now apply IH.
  - destruct Hy as [->|Hy]; [|contradiction]. rewrite upds_other by exact Hnin.
    unfold upd. now rewrite Nat.eqb_refl.
Qed.

Definition internal_names : list name :=
  filter (fun y => negb (existsb (Nat.eqb y) (map r (f_outs f)))) (map r (defs (f_body f))).

Definition call_node (ats : list nat) (acts : list name) : node :=
  mkNode (f_name f) ats acts [] (map r (f_outs f)).

(* Replacing the call node by the renamed body preserves the result of the whole graph, provided the
   names given to the body's internal values are not read by the rest of the graph. *)
Theorem inline_call_sound pre post gouts ats acts e o :
  wf_function f ->
  (forall n, In n (f_body f) -> n_op n <> f_name f) ->                      (* ONNX functions are not recursive *)
  (forall em, eval V sem_with pre e = Some em -> inline_ok V f r acts em) ->
  (forall m x, In m post -> In x (n_uses m) -> ~ In x internal_names) ->
  (forall x, In x gouts -> ~ In x internal_names) ->
  run V sem_with (mkGraph (pre ++ call_node ats acts :: post) gouts) e = Some o ->
  run V sem_with (mkGraph (pre ++ map (ren_node r) (f_body f) ++ post) gouts) e = Some o.
Proof.
  intros Hwf Hnorec Hok Hpost Hgo Hrun. unfold run in *. simpl in *.
  rewrite eval_app in Hrun. rewrite eval_app.
  destruct (eval V sem_with pre e) as [em|] eqn:Epre; [|discriminate]. specialize (Hok em eq_refl).
  simpl in Hrun. rewrite eval_app.
  destruct (step V sem_with em (call_node ats acts)) as [e1|] eqn:Es; [|discriminate].
  unfold step, n_uses, call_node in Es. cbn [n_ins n_caps n_op n_attrs n_outs] in Es. rewrite app_nil_r in Es.
  destruct (lookups V em acts) as [args|] eqn:El; [|discriminate].
  unfold sem_with in Es at 1. rewrite String.eqb_refl in Es.
  rewrite (function_transparent V sem f r acts args em Hwf Hok El) in Es.
  unfold eval_body in Es.
  rewrite eval_sem_ext by (intros n Hn; apply in_map_iff in Hn; destruct Hn as (n0 & <- & Hn0); cbn [n_op ren_node]; now apply Hnorec).
  destruct (eval V sem (map (ren_node r) (f_body f)) em) as [ei|] eqn:Ei; [|discriminate].
  destruct (lookups V ei (map r (f_outs f))) as [ov|] eqn:Eo; [|discriminate].
  destruct (Nat.eqb (length ov) (length (map r (f_outs f)))); [|discriminate]. injection Es as <-.
  assert (Ha : agree_except V internal_names (upds V em (map r (f_outs f)) ov) ei).
  { intros y Hy. destruct (in_dec Nat.eq_dec y (map r (f_outs f))) as [Hin|Hnin].
    - now apply upds_lookups.
    - rewrite upds_other by exact Hnin. symmetry. eapply inline_frame; timeout 20 eauto.
      intro Hd. apply Hy. unfold internal_names. apply filter_In. split; auto.
      apply negb_true_iff. apply not_true_is_false. intro Hex. apply existsb_exists in Hex.
      destruct Hex as (z & Hz & Hyz). apply Nat.eqb_eq in Hyz. subst z. contradiction. }
  destruct (eval V sem_with post (upds V em (map r (f_outs f)) ov)) as [ef|] eqn:Ep; [|discriminate].
  destruct (eval_agree V sem_with internal_names post _ ei ef Ha Hpost Ep) as (ef' & Ep' & Ha'). rewrite Ep'.
  rewrite <- (lookups_agree V internal_names ef ef' gouts Ha' Hgo). exact Hrun.
Qed.

End InlineGraph.

(* ================================================================================================ *)
(* Part B: the dedup registry as a fold over call sites                                              *)
(* ================================================================================================ *)

(* (op_type base name, unique flag, index): the identifier _allocate_friendly_name gives a definition:
   domain "custom.<base>.<idx>"  resp.  "custom.<base>.unique[.<idx>]", name "<base>" *)
Record fname := mkFn { fn_base : nat; fn_unique : bool; fn_idx : nat }.
Definition fam_eqb (a b : nat * bool) : bool := Nat.eqb (fst a) (fst b) && Bool.eqb (snd a) (snd b).
Definition fn_fam (n : fname) : nat * bool := (fn_base n, fn_unique n).

Lemma fam_eqb_eq a b : fam_eqb a b = true <-> a = b.
Proof.
  destruct a as [a1 a2], b as [b1 b2]. unfold fam_eqb; simpl. rewrite andb_true_iff, Nat.eqb_eq, eqb_true_iff.
  split; [intros [-> ->]; reflexivity | intro H; injection H; auto].
Qed.

Section Dedup.
Variables site K D : Type.
Variable K_eq_dec : forall a b : K, {a = b} + {a <> b}.
Variable key : site -> K.          (* FunctionKey of a call site *)
Variable sem : site -> D.          (* the function the call site denotes *)
Variable nin : site -> nat.        (* operands of the call node: positional inputs + dynamic parameters *)
Variable nout : site -> nat.       (* results of the call node (eqn.outvars) *)
Variable fam : site -> nat * bool. (* counter family of the plugin: (base name, unique) *)

Definition key_adequate_on (P : site -> Prop) : Prop :=
  forall c1 c2, P c1 -> P c2 -> key c1 = key c2 -> sem c1 = sem c2.
Definition key_adequate : Prop := forall c1 c2, key c1 = key c2 -> sem c1 = sem c2.

Record fdef := mkDef { d_name : fname; d_key : K; d_sem : D; d_nin : nat; d_nout : nat }.
(* a call node: where it is emitted (None = main graph, Some n = body of definition n), the site it stands
   for, the definition its (domain, op_type) names, and its own operand / result counts *)
Record callref := mkCall { c_container : option fname; c_site : site; c_def : fdef; c_nin : nat; c_nout : nat }.

(* st_status: per processed site, Some d when the site created definition d (its nested sites are lowered
   into d's body), None when it hit the registry or was not visited at all (nested sites are NOT visited:
   the body is not traced again) *)
Record lstate := mkSt { st_defs : list fdef; st_status : list (option fdef); st_calls : list callref }.

Definition keyb (k : K) (d : fdef) : bool := if K_eq_dec (d_key d) k then true else false.
Definition count_fam (fm : nat * bool) (ds : list fdef) : nat :=
  length (filter (fun d => fam_eqb (fn_fam (d_name d)) fm) ds).

(* where a site with the given parent is lowered: None = not visited *)
Definition container_of (st : lstate) (parent : option nat) : option (option fname) :=
  match parent with
  | None => Some None
  | Some j => match nth_error (st_status st) j with
              | Some (Some d) => Some (Some (d_name d))
              | _ => None
              end
  end.

Definition lower_site (st : lstate) (ps : site * option nat) : lstate :=
  let (s, parent) := ps in
  match container_of st parent with
  | None => mkSt (st_defs st) (st_status st ++ [None]) (st_calls st)
  | Some cont =>
      match find (keyb (key s)) (st_defs st) with
      | Some d => mkSt (st_defs st) (st_status st ++ [None]) (st_calls st ++ [mkCall cont s d (nin s) (nout s)])
      | None =>
          let d := mkDef (mkFn (fst (fam s)) (snd (fam s)) (S (count_fam (fam s) (st_defs st))))
                         (key s) (sem s) (nin s) (nout s) in   (* = new_def (st_defs st) s *)
          mkSt (st_defs st ++ [d]) (st_status st ++ [Some d]) (st_calls st ++ [mkCall cont s d (nin s) (nout s)])
      end
  end.

Definition st0 : lstate := mkSt [] [] [].
Definition lower_sites (sites : list (site * option nat)) : lstate := fold_left lower_site sites st0.

(* ---- invariant *)
Section Inv.
Variable P : site -> Prop.

Definition def_ok (d : fdef) : Prop :=
  exists s0, P s0 /\ d_key d = key s0 /\ d_sem d = sem s0 /\ d_nin d = nin s0 /\ d_nout d = nout s0.
Definition call_ok (ds : list fdef) (c : callref) : Prop :=
  P (c_site c) /\ In (c_def c) ds /\ d_key (c_def c) = key (c_site c) /\ c_nin c = nin (c_site c) /\ c_nout c = nout (c_site c).
Definition inv (st : lstate) : Prop :=
  Forall def_ok (st_defs st) /\ Forall (call_ok (st_defs st)) (st_calls st).

Lemma call_ok_mono ds ds' c : call_ok ds c -> call_ok (ds ++ ds') c.
Proof. intros (H1 & H2 & H3). split; auto. split; auto. apply in_or_app. now left. Qed.

Lemma inv_step st ps : P (fst ps) -> inv st -> inv (lower_site st ps).
Proof.
  destruct ps as [s parent]. simpl. intros Hp [Hd Hc]. unfold lower_site.
  destruct (container_of st parent) as [cont|]; [|split; assumption].
  destruct (find (keyb (key s)) (st_defs st)) as [d|] eqn:Ef.
  - split; simpl; auto. apply Forall_app. split; auto. constructor; [|constructor].
    apply find_some in Ef. destruct Ef as [Hin Hk]. unfold keyb in Hk.
    destruct (K_eq_dec (d_key d) (key s)) as [E|]; [|discriminate].
    repeat split; simpl; auto.
  - split; simpl.
    + apply Forall_app. split; auto. constructor; [|constructor]. exists s. simpl. repeat split; auto.
    + apply Forall_app. split.
      * eapply Forall_impl; [|exact Hc]. intros c. apply call_ok_mono.
      * constructor; [|constructor]. repeat split; simpl; auto. apply in_or_app. right. now left.
Qed.

Lemma inv_fold sites : Forall (fun ps => P (fst ps)) sites -> forall st, inv st -> inv (fold_left lower_site sites st).
Proof.
  induction 1 as [|ps sites Hp _ IH]; intros st Hi; simpl; auto.
  apply IH. now apply inv_step.
Qed.

Lemma inv_lower sites : Forall (fun ps => P (fst ps)) sites -> inv (lower_sites sites).
Proof. intro H. apply inv_fold; auto. split; constructor. Qed.

(* THE soundness theorem: for an adequate key, whatever the sequence of call sites (any order, any length,
   any nesting), every emitted call node refers to a definition denoting that site's function *)
Theorem dedup_sound_on : key_adequate_on P -> forall sites, Forall (fun ps => P (fst ps)) sites ->
  forall c, In c (st_calls (lower_sites sites)) -> d_sem (c_def c) = sem (c_site c).
Proof.
  intros Hka sites Hs c Hc. destruct (inv_lower sites Hs) as [Hd Hcs].
  rewrite Forall_forall in Hd, Hcs. destruct (Hcs c Hc) as (Hp & Hin & Hk & _).
  destruct (Hd _ Hin) as (s0 & Hp0 & Hk0 & Hs0 & _). rewrite Hs0. apply Hka; auto. timeout 20 congruence.
Qed.

(* two call nodes name the same definition only if their sites denote the same function *)
Corollary shared_only_if_equal_on : key_adequate_on P -> forall sites, Forall (fun ps => P (fst ps)) sites ->
  forall c1 c2, In c1 (st_calls (lower_sites sites)) -> In c2 (st_calls (lower_sites sites)) ->
  c_def c1 = c_def c2 -> sem (c_site c1) = sem (c_site c2).
Proof.
  intros Hka sites Hs c1 c2 H1 H2 E.
  rewrite <- (dedup_sound_on Hka sites Hs c1 H1), <- (dedup_sound_on Hka sites Hs c2 H2). now rewrite E.
Qed.

(* arities: the call node's operand count equals its definition's as soon as the key fixes the operand
   count (proved for the real key below, no hypothesis); result counts agree for adequate keys *)
Theorem arity_matches_on :
  (forall c1 c2, key c1 = key c2 -> nin c1 = nin c2) ->
  (forall c1 c2, sem c1 = sem c2 -> nout c1 = nout c2) ->
  key_adequate_on P -> forall sites, Forall (fun ps => P (fst ps)) sites ->
  forall c, In c (st_calls (lower_sites sites)) ->
    c_nin c = d_nin (c_def c) /\ c_nout c = d_nout (c_def c).
Proof.
  intros Hni Hno Hka sites Hs c Hc. destruct (inv_lower sites Hs) as [Hd Hcs].
  rewrite Forall_forall in Hd, Hcs. destruct (Hcs c Hc) as (Hp & Hin & Hk & Hn1 & Hn2).
  destruct (Hd _ Hin) as (s0 & Hp0 & Hk0 & Hs0 & Hn3 & Hn4). rewrite Hn1, Hn2, Hn3, Hn4. split.
  - apply Hni. timeout 20 congruence.
  - apply Hno. symmetry. apply Hka; auto. timeout 20 congruence.
Qed.
End Inv.

Theorem dedup_sound : key_adequate -> forall sites c, In c (st_calls (lower_sites sites)) ->
  d_sem (c_def c) = sem (c_site c).
Proof.
  intros Hka sites c Hc. apply (dedup_sound_on (fun _ => True)) with (sites := sites); auto.
  - intros c1 c2 _ _. apply Hka.
  - apply Forall_forall. auto.
Qed.

Theorem arity_matches :
  (forall c1 c2, key c1 = key c2 -> nin c1 = nin c2) ->
  (forall c1 c2, sem c1 = sem c2 -> nout c1 = nout c2) ->
  key_adequate -> forall sites c, In c (st_calls (lower_sites sites)) ->
    c_nin c = d_nin (c_def c) /\ c_nout c = d_nout (c_def c).
Proof.
  intros Hni Hno Hka sites c Hc. apply (arity_matches_on (fun _ => True)) with (sites := sites); auto.
  - intros c1 c2 _ _. apply Hka.
  - apply Forall_forall. auto.
Qed.

(* the converse hazard, for EVERY key that is not adequate: lowering the two witnesses one after the other
   makes the second call node name the first one's definition *)
Theorem dedup_unsound_if_not_adequate :
  (exists c1 c2, key c1 = key c2 /\ sem c1 <> sem c2) ->
  exists sites c, In c (st_calls (lower_sites sites)) /\ d_sem (c_def c) <> sem (c_site c).
Proof.
  intros (c1 & c2 & Hk & Hs). exists [(c1, None); (c2, None)].
  unfold lower_sites. simpl. unfold keyb at 1. simpl.
  destruct (K_eq_dec (key c1) (key c2)) as [_|Hn]; [|contradiction].
  simpl. eexists. split; [right; left; reflexivity|]. simpl. exact Hs.
Qed.

(* ---- (domain, name) identifiers of the definitions are pairwise distinct, so a call node's reference
        by name resolves to exactly the definition the registry returned *)
Definition names_inv (ds : list fdef) : Prop :=
  NoDup (map d_name ds) /\ forall d, In d ds -> fn_idx (d_name d) <= count_fam (fn_fam (d_name d)) ds.

Lemma count_fam_app fm ds ds' : count_fam fm (ds ++ ds') = count_fam fm ds + count_fam fm ds'.
Proof. unfold count_fam. now rewrite filter_app, app_length. Qed.

Lemma NoDup_snoc {A} (l : list A) a : NoDup l -> ~ In a l -> NoDup (l ++ [a]).
Proof.
  induction l as [|b l IH]; simpl; intros Hnd Hni.
  - constructor; [intros []|constructor].
  - inversion Hnd as [|? ? Hb Hnd']; subst. constructor.
    + intro Hin. apply in_app_or in Hin. destruct Hin as [Hin|[Hin|[]]]; [contradiction|].
      subst. apply Hni. now left.
    + apply IH; auto.
Qed.

Definition new_def (ds : list fdef) (s : site) : fdef :=
  mkDef (mkFn (fst (fam s)) (snd (fam s)) (S (count_fam (fam s) ds))) (key s) (sem s) (nin s) (nout s).

Lemma new_def_fam ds s : fn_fam (d_name (new_def ds s)) = fam s.
Proof. unfold new_def, fn_fam. simpl. now rewrite <- surjective_pairing. Qed.

Lemma names_step ds s : names_inv ds -> names_inv (ds ++ [new_def ds s]).
Proof.
  intros [Hnd Hle]. split.
  - rewrite map_app. cbn [map]. apply NoDup_snoc; auto.
    intro Hin. apply in_map_iff in Hin. destruct Hin as (d' & Hn & Hd').
    specialize (Hle _ Hd'). rewrite Hn, new_def_fam in Hle. unfold new_def in Hle. simpl in Hle. timeout 20 lia.
  - intros d' Hd'. rewrite count_fam_app. apply in_app_or in Hd'. destruct Hd' as [Hd'|[<-|[]]].
    + specialize (Hle _ Hd'). timeout 20 lia.
    + rewrite new_def_fam.
      assert (H1 : count_fam (fam s) [new_def ds s] = 1).
      { unfold count_fam. cbn [filter]. rewrite new_def_fam.
        now rewrite (proj2 (fam_eqb_eq (fam s) (fam s)) eq_refl). }
      rewrite H1. unfold new_def. simpl. timeout 20 lia.
Qed.

Lemma names_fold sites : forall st, names_inv (st_defs st) -> names_inv (st_defs (fold_left lower_site sites st)).
Proof.
  induction sites as [|[s parent] sites IH]; intros st Hi; simpl; auto.
  apply IH. unfold lower_site. destruct (container_of st parent); auto.
  destruct (find (keyb (key s)) (st_defs st)); simpl; auto.
  apply (names_step (st_defs st) s Hi).
Qed.

Theorem def_names_unique sites : NoDup (map d_name (st_defs (lower_sites sites))).
Proof. apply (names_fold sites st0). split; [constructor | intros d []]. Qed.

(* one definition per key *)
Lemma keys_fold sites : forall st, NoDup (map d_key (st_defs st)) -> NoDup (map d_key (st_defs (fold_left lower_site sites st))).
Proof.
  induction sites as [|[s parent] sites IH]; intros st Hi; simpl; auto.
  apply IH. unfold lower_site. destruct (container_of st parent); auto.
  destruct (find (keyb (key s)) (st_defs st)) eqn:Ef; simpl; auto.
  rewrite map_app. simpl. apply NoDup_snoc; auto.
  intro Hin. apply in_map_iff in Hin. destruct Hin as (d' & Hk & Hd').
  apply (find_none _ _ Ef) in Hd'. unfold keyb in Hd'. destruct (K_eq_dec (d_key d') (key s)); [discriminate|contradiction].
Qed.

Theorem one_definition_per_key sites : NoDup (map d_key (st_defs (lower_sites sites))).
Proof. apply (keys_fold sites st0). constructor. Qed.

End Dedup.

(* ================================================================================================ *)
(* Part C: the key as FunctionPlugin._lower_and_call builds it                                       *)
(* ================================================================================================ *)

Definition aval := (list nat * nat)%type.        (* (shape, dtype) of an operand: eqn.invars[i].aval *)

(* a static keyword argument as _capture_const sees it *)
Inductive kwval :=
  | KArr (shape : list nat) (dtype : nat) (bytes : list nat)   (* np.asarray(value) / tobytes() succeed *)
  | KOpaque (tyname : nat) (payload : nat).                    (* they raise: only type(value).__name__ is kept *)

Inductive param :=
  | PStatic (v : kwval)        (* ordinary keyword argument: baked into the body *)
  | PDynamic (a : aval)        (* traced keyword argument: extra operand *)
  | PCallInput (a : aval).     (* to_onnx(input_params=...) parameter: extra operand fed by a graph input *)

(* the callee object: what the fingerprint of unique mode exposes, and what it does not (array elements
   elided by repr(), dataclass fields with repr=False, attributes a custom __repr__ omits) *)
Record cstate := mkState { st_shown : nat; st_hidden : nat }.

Record rsite := mkSite {
  s_qualname : nat;                 (* FunctionPlugin.name = "onnx_fn::<module>.<name>" of the decorated target *)
  s_base : nat;                     (* _friendly_name_base(): op_type of the call nodes; not part of the key *)
  s_unique : bool;                  (* plugin.unique *)
  s_is_class : bool;                (* inspect.isclass(plugin.target) *)
  s_obj : nat;                      (* id(callee) *)
  s_inst_type : nat;                (* class targets: type(callee); function targets: module + __qualname__ *)
  s_state : cstate;                 (* everything of the callee its call reads *)
  s_in_avals : list aval;           (* positional operands *)
  s_params : list (nat * param);    (* keyword arguments in call order: (name, kind) *)
  s_nout : nat }.                   (* results (jax.eval_shape at the site) *)

(* counter family of _allocate_friendly_name: (namespace, base, "unique" | "shared") *)
Definition rfam (c : rsite) : nat * bool := (s_base c, s_unique c).

Section RealKey.
Variables HT FPT D : Type.
Variable hash : list nat -> HT.     (* hash(arr.tobytes()) *)
Variable fp : nat -> FPT.           (* _fingerprint_instance_state on what it can see *)
Variable HT_eq_dec : forall a b : HT, {a = b} + {a <> b}.
Variable FPT_eq_dec : forall a b : FPT, {a = b} + {a <> b}.
(* the function a call site denotes is determined by the decorated target, the callee (its type and state),
   the operand types and the keyword arguments *)
Variable denote : nat -> nat -> cstate -> list aval -> list (nat * param) -> D.
Definition rsem (c : rsite) : D :=
  denote (s_qualname c) (s_inst_type c) (s_state c) (s_in_avals c) (s_params c).

Inductive capture :=
  | CConst (shape : list nat) (dtype : nat) (h : HT)     (* ("const", shape, dtype, hash(bytes)) *)
  | CStaticFallback (tyname : nat)                       (* ("static", type name) *)
  | CDynamic (a : aval)                                  (* ("dynamic", shape, dtype) *)
  | CCallInput (a : aval).                               (* ("call_input", shape, dtype) *)

Definition capture_of (p : param) : capture :=
  match p with
  | PStatic (KArr s d b) => CConst s d (hash b)
  | PStatic (KOpaque t _) => CStaticFallback t
  | PDynamic a => CDynamic a
  | PCallInput a => CCallInput a
  end.

Inductive capsig :=
  | CapDefault (id : nat) (caps : list (nat * capture))                               (* (id(callee), captures) *)
  | CapUniqueClass (target : nat) (caps : list (nat * capture)) (inst_type : nat) (state_fp : FPT)
  | CapUniqueFun (target : nat) (caps : list (nat * capture)) (callable_ident : nat).

Record fkey := mkKey { k_qualname : nat; k_input_sig : list aval; k_capture_sig : capsig }.

Definition caps_of (c : rsite) : list (nat * capture) := map (fun np => (fst np, capture_of (snd np))) (s_params c).

Definition real_key (c : rsite) : fkey :=
  mkKey (s_qualname c) (s_in_avals c)
    (if s_unique c then
       if s_is_class c then CapUniqueClass (s_qualname c) (caps_of c) (s_inst_type c) (fp (st_shown (s_state c)))
       else CapUniqueFun (s_qualname c) (caps_of c) (s_inst_type c)
     else CapDefault (s_obj c) (caps_of c)).

Definition is_dyn (np : nat * param) : bool := match snd np with PStatic _ => false | _ => true end.
Definition rnin (c : rsite) : nat := length (s_in_avals c) + length (filter is_dyn (s_params c)).

Definition aval_eq_dec : forall a b : aval, {a = b} + {a <> b}.
Proof. decide equality; [apply Nat.eq_dec | apply (list_eq_dec Nat.eq_dec)]. Defined.
Definition capture_eq_dec : forall a b : capture, {a = b} + {a <> b}.
Proof. decide equality; auto using Nat.eq_dec, (list_eq_dec Nat.eq_dec), aval_eq_dec. Defined.
Definition ncap_eq_dec : forall a b : nat * capture, {a = b} + {a <> b}.
Proof. decide equality; auto using Nat.eq_dec, capture_eq_dec. Defined.
Definition capsig_eq_dec : forall a b : capsig, {a = b} + {a <> b}.
Proof. decide equality; auto using Nat.eq_dec, (list_eq_dec ncap_eq_dec). Defined.
Definition fkey_eq_dec : forall a b : fkey, {a = b} + {a <> b}.
Proof. decide equality; auto using Nat.eq_dec, (list_eq_dec aval_eq_dec), capsig_eq_dec. Defined.

(* ---- what the key determines without any assumption: the operand count *)
Definition cap_dyn (nc : nat * capture) : bool :=
  match snd nc with CDynamic _ | CCallInput _ => true | _ => false end.

Lemma caps_dyn_count (ps : list (nat * param)) : length (filter cap_dyn (map (fun np => (fst np, capture_of (snd np))) ps)) = length (filter is_dyn ps).
Proof.
  induction ps as [|[n p] ps IH]; simpl; auto.
  unfold cap_dyn, is_dyn at 1. simpl. destruct p as [[s d b|t y]|a|a]; simpl; auto.
Qed.

Lemma key_caps c1 c2 : real_key c1 = real_key c2 -> caps_of c1 = caps_of c2.
Proof.
  unfold real_key. intro H. injection H as _ _ H.
  destruct (s_unique c1), (s_unique c2), (s_is_class c1), (s_is_class c2); try discriminate; now injection H.
Qed.

Theorem real_key_fixes_nin c1 c2 : real_key c1 = real_key c2 -> rnin c1 = rnin c2.
Proof.
  intro H. unfold rnin. pose proof (key_caps _ _ H) as Hc. unfold real_key in H. injection H as _ Ha _.
  rewrite Ha. f_equal. rewrite <- !caps_dyn_count. unfold caps_of in Hc. now rewrite Hc.
Qed.

(* ---- adequacy modulo explicit hypotheses *)
Variable live : rsite -> Prop.      (* the call sites of ONE conversion *)

Definition static_ok (c : rsite) : Prop :=
  forall n v, In (n, PStatic v) (s_params c) -> exists s d b, v = KArr s d b.
Definition state_shown (c : rsite) : Prop :=
  s_unique c = true -> s_is_class c = true -> st_hidden (s_state c) = 0.
Definition clean (c : rsite) : Prop := live c /\ static_ok c /\ state_shown c.

Lemma capture_of_inj p1 p2 :
  (forall b1 b2, hash b1 = hash b2 -> b1 = b2) ->
  (forall v, p1 = PStatic v -> exists s d b, v = KArr s d b) ->
  (forall v, p2 = PStatic v -> exists s d b, v = KArr s d b) ->
  capture_of p1 = capture_of p2 -> p1 = p2.
Proof.
  intros Hh H1 H2 E.
  destruct p1 as [[s d b|t y]|a|a], p2 as [[s' d' b'|t' y']|a'|a']; simpl in E; try discriminate.
  - injection E as -> -> Hb. now rewrite (Hh _ _ Hb).
  - destruct (H1 _ eq_refl) as (? & ? & ? & ?). discriminate.
  - now injection E as ->.
  - now injection E as ->.
Qed.

Lemma caps_inj : (forall b1 b2, hash b1 = hash b2 -> b1 = b2) ->
  forall ps1 ps2 : list (nat * param),
  (forall n v, In (n, PStatic v) ps1 -> exists s d b, v = KArr s d b) ->
  (forall n v, In (n, PStatic v) ps2 -> exists s d b, v = KArr s d b) ->
  map (fun np => (fst np, capture_of (snd np))) ps1 = map (fun np => (fst np, capture_of (snd np))) ps2 -> ps1 = ps2.
Proof.
  intros Hh. induction ps1 as [|[n1 p1] ps1 IH]; intros [|[n2 p2] ps2] H1 H2 E; simpl in E; try discriminate; auto.
  injection E as En Ep Er. subst n2. f_equal.
  - f_equal. apply capture_of_inj; auto.
    + intros v ->. apply (H1 n1). now left.
    + intros v ->. apply (H2 n1). now left.
  - apply IH; auto; intros n v Hin; [apply (H1 n) | apply (H2 n)]; now right.
Qed.

Theorem real_key_adequate :
  (* no collision of the 64-bit hash(bytes) of a static keyword argument *)
  (forall b1 b2, hash b1 = hash b2 -> b1 = b2) ->
  (* no SHA-1 / repr collision on the part of the state the fingerprint sees *)
  (forall a b, fp a = fp b -> a = b) ->
  (* default mode: id() of two callees alive in one conversion is equal only for the same object, and that
     object is not mutated between the two call sites *)
  (forall c1 c2, live c1 -> live c2 -> s_unique c1 = false -> s_unique c2 = false ->
     s_qualname c1 = s_qualname c2 -> s_obj c1 = s_obj c2 ->
     s_state c1 = s_state c2 /\ s_inst_type c1 = s_inst_type c2) ->
  (* unique mode, decorated free function: one function object per qualified name, and what it reads from
     its globals / closure is not mutated during the conversion *)
  (forall c1 c2, live c1 -> live c2 -> s_unique c1 = true -> s_unique c2 = true ->
     s_is_class c1 = false -> s_is_class c2 = false ->
     s_qualname c1 = s_qualname c2 -> s_state c1 = s_state c2) ->
  key_adequate_on rsite fkey D real_key rsem clean.
Proof.
  intros Hh Hf Hid Hfun c1 c2 (L1 & S1 & V1) (L2 & S2 & V2) Hk.
  pose proof (key_caps _ _ Hk) as Hc. unfold caps_of in Hc.
  pose proof (caps_inj Hh _ _ S1 S2 Hc) as Hp.
  unfold real_key in Hk. injection Hk as Hq Ha Hs.
  unfold rsem. rewrite Hq, Ha, Hp.
  unfold state_shown in V1, V2.
  destruct (s_unique c1) eqn:U1, (s_unique c2) eqn:U2; try (destruct (s_is_class c1), (s_is_class c2); discriminate).
  - destruct (s_is_class c1) eqn:I1, (s_is_class c2) eqn:I2; try discriminate.
    + injection Hs as _ _ Ht Hfp. apply Hf in Hfp.
      specialize (V1 eq_refl eq_refl). specialize (V2 eq_refl eq_refl).
      destruct (s_state c1) as [sh1 hi1], (s_state c2) as [sh2 hi2]. simpl in *. subst. now rewrite Ht.
    + injection Hs as _ _ Ht. rewrite Ht. now rewrite (Hfun c1 c2 L1 L2 U1 U2 I1 I2 Hq).
  - injection Hs as Ho _. destruct (Hid c1 c2 L1 L2 U1 U2 Hq Ho) as [-> ->]. reflexivity.
Qed.

(* end to end for the real key *)
Theorem real_dedup_sound :
  (forall b1 b2, hash b1 = hash b2 -> b1 = b2) ->
  (forall a b, fp a = fp b -> a = b) ->
  (forall c1 c2, live c1 -> live c2 -> s_unique c1 = false -> s_unique c2 = false ->
     s_qualname c1 = s_qualname c2 -> s_obj c1 = s_obj c2 ->
     s_state c1 = s_state c2 /\ s_inst_type c1 = s_inst_type c2) ->
  (forall c1 c2, live c1 -> live c2 -> s_unique c1 = true -> s_unique c2 = true ->
     s_is_class c1 = false -> s_is_class c2 = false ->
     s_qualname c1 = s_qualname c2 -> s_state c1 = s_state c2) ->
  (forall c1 c2, rsem c1 = rsem c2 -> s_nout c1 = s_nout c2) ->
  forall sites, Forall (fun ps => clean (fst ps)) sites ->
  forall c, In c (st_calls _ _ _ (lower_sites rsite fkey D fkey_eq_dec real_key rsem rnin s_nout rfam sites)) ->
    d_sem _ _ (c_def _ _ _ c) = rsem (c_site _ _ _ c) /\
    c_nin _ _ _ c = d_nin _ _ (c_def _ _ _ c) /\ c_nout _ _ _ c = d_nout _ _ (c_def _ _ _ c).
Proof.
  intros Hh Hf Hid Hfun Hno sites Hs c Hc.
  pose proof (real_key_adequate Hh Hf Hid Hfun) as Hka.
  split.
  - eapply dedup_sound_on; timeout 20 eauto.
  - eapply arity_matches_on; timeout 20 eauto. exact real_key_fixes_nin.
Qed.

(* ---- the two holes of the unchanged code: key components that change the denotation but not the key *)
Definition ground (c : rsite) := (s_qualname c, s_inst_type c, s_state c, s_in_avals c, s_params c).

(* a static keyword argument whose array conversion fails contributes only its type name *)
Definition w_site (payload : nat) : rsite :=
  mkSite 0 0 false false 7 0 (mkState 0 0) [([2; 3], 1)] [(0, PStatic (KOpaque 5 payload))] 1.
Theorem real_key_static_kwarg_refuted :
  exists c1 c2, real_key c1 = real_key c2 /\ s_params c1 <> s_params c2 /\ s_state c1 = s_state c2 /\ s_obj c1 = s_obj c2.
Proof. exists (w_site 0), (w_site 1). repeat split; try reflexivity. discriminate. Qed.

(* unique mode: a part of the callee's state the fingerprint does not expose *)
Definition u_site (obj hidden : nat) : rsite :=
  mkSite 0 0 true true obj 3 (mkState 4 hidden) [([2; 3], 1)] [] 1.
Theorem real_key_unique_hidden_state_refuted :
  exists c1 c2, s_unique c1 = true /\ real_key c1 = real_key c2 /\ s_state c1 <> s_state c2 /\ s_params c1 = s_params c2.
Proof. exists (u_site 1 0), (u_site 2 1). repeat split; try reflexivity. discriminate. Qed.

End RealKey.

(* ================================================================================================ *)
(* Part D: the executable instance the harness evaluates against real exports, and examples          *)
(* ================================================================================================ *)

(* fingerprints modelled by the fingerprinted data itself (injective by construction) *)
Definition ckey : rsite -> fkey (list nat) nat := real_key (list nat) nat (fun b => b) (fun s => s).
Definition ckey_eq_dec := fkey_eq_dec (list nat) nat (list_eq_dec Nat.eq_dec) Nat.eq_dec.

Definition predict (sites : list (rsite * option nat)) :=
  lower_sites rsite (fkey (list nat) nat) unit ckey_eq_dec ckey (fun _ => tt) rnin s_nout rfam sites.

Definition fname_eqb (a b : fname) : bool :=
  Nat.eqb (fn_base a) (fn_base b) && Bool.eqb (fn_unique a) (fn_unique b) && Nat.eqb (fn_idx a) (fn_idx b).
Definition ofname_eqb (a b : option fname) : bool :=
  match a, b with Some x, Some y => fname_eqb x y | None, None => true | _, _ => false end.
Definition fsig := (fname * nat * nat)%type.       (* identifier, #inputs, #outputs *)
Definition fsig_eqb (a b : fsig) : bool :=
  let '(n1, i1, o1) := a in let '(n2, i2, o2) := b in fname_eqb n1 n2 && Nat.eqb i1 i2 && Nat.eqb o1 o2.
Fixpoint list_eqb {A} (eqb : A -> A -> bool) (l1 l2 : list A) : bool :=
  match l1, l2 with [] , [] => true | a :: r1, b :: r2 => eqb a b && list_eqb eqb r1 r2 | _, _ => false end.

(* observed: the FunctionProtos (identifier, arity) and, per container (None = main graph), the call nodes
   in node order with the identifier they name and their own operand / result counts *)
Definition tie_ok (sites : list (rsite * option nat)) (obs_defs : list fsig)
                  (obs_calls : list (option fname * list fsig)) : bool :=
  let st := predict sites in
  let pdefs := map (fun d => (d_name _ _ d, d_nin _ _ d, d_nout _ _ d)) (st_defs _ _ _ st) in
  let pcalls := st_calls _ _ _ st in
  Nat.eqb (length pdefs) (length obs_defs) &&
  forallb (fun o => existsb (fsig_eqb o) pdefs) obs_defs &&
  forallb (fun p => existsb (fsig_eqb p) obs_defs) pdefs &&
  forallb (fun cl => list_eqb fsig_eqb
                      (map (fun c => (d_name _ _ (c_def _ _ _ c), c_nin _ _ _ c, c_nout _ _ _ c))
                           (filter (fun c => ofname_eqb (c_container _ _ _ c) (fst cl)) pcalls))
                      (snd cl)) obs_calls &&
  Nat.eqb (length pcalls) (list_sum (map (fun cl => length (snd cl)) obs_calls)).

(* ---- examples: the hypotheses of real_key_adequate are satisfiable by distinct, sharing and non-sharing sites *)
Definition ex_av : list aval := [([2; 3], 1)].
Definition ex_a1 := mkSite 1 1 false true 11 5 (mkState 7 0) ex_av [] 1.                      (* instance a *)
Definition ex_a2 := mkSite 1 1 false true 12 5 (mkState 7 0) ex_av [] 1.                      (* equal weights, other object *)
Definition ex_a3 := mkSite 1 1 false true 11 5 (mkState 7 0) [([1; 3], 1)] [] 1.              (* instance a, other shape *)
Definition ex_a4 := mkSite 1 1 false true 11 5 (mkState 7 0) ex_av [(0, PStatic (KArr [] 11 [2]))] 1.  (* a, kwarg k=2.0 *)
Definition ex_live (c : rsite) : Prop := c = ex_a1 \/ c = ex_a2 \/ c = ex_a3 \/ c = ex_a4.

Example real_key_adequate_nonvacuous :
  key_adequate_on rsite _ _ ckey (rsem _ (fun q t s a p => (q, t, s, a, p))) (clean ex_live)
  /\ clean ex_live ex_a1 /\ clean ex_live ex_a2 /\ clean ex_live ex_a3 /\ clean ex_live ex_a4.
Proof.
  split.
  - apply real_key_adequate; auto.
    + intros c1 c2 [-> | [-> | [-> | -> ]]] [-> | [-> | [-> | -> ]]]; simpl; intros; try discriminate; auto.
    + intros c1 c2 [-> | [-> | [-> | -> ]]] [-> | [-> | [-> | -> ]]]; simpl; intros; try discriminate; auto.
  - unfold clean, ex_live, static_ok, state_shown.
    repeat split; auto; simpl; intros; try discriminate; try contradiction.
    destruct H as [H|[]]. injection H as _ <-. timeout 20 eauto.
Qed.

(* a, a again, the twin object, a with another shape, a with a kwarg, a again with the same kwarg:
   definitions 1..4, calls 1 1 2 3 4 4 *)
Example ex_prediction :
  map (fun c => fn_idx (d_name _ _ (c_def _ _ _ c)))
      (st_calls _ _ _ (predict [(ex_a1, None); (ex_a1, None); (ex_a2, None); (ex_a3, None); (ex_a4, None); (ex_a4, None)]))
  = [1; 1; 2; 3; 4; 4].
Proof. vm_compute. reflexivity. Qed.

(* the converse hazard for a key that ignores the weights: the qualified name alone *)
Theorem dedup_unsound_weightless_key :
  exists sites c,
    In c (st_calls _ _ _ (lower_sites rsite nat cstate Nat.eq_dec s_qualname s_state rnin s_nout rfam sites)) /\
    d_sem _ _ (c_def _ _ _ c) <> s_state (c_site _ _ _ c).
Proof.
  exists [(u_site 1 0, None); (u_site 2 1, None)]. eexists. split.
  - vm_compute. right. left. reflexivity.
  - vm_compute. discriminate.
Qed.

(* ================================================================================================ *)
(* Part E: histories — several conversions in one process, callees mutated in between               *)
(* ================================================================================================ *)
(* Every to_onnx call starts from a fresh FunctionRegistry, and the key of a site must be a function of the
   site's CURRENT components.  A key computed from a state remembered from an earlier conversion (a
   per-instance fingerprint cache keyed by id(instance)) is the current-state key only as long as no callee
   was mutated since it was first fingerprinted. *)

Definition with_state (c : rsite) (s : cstate) : rsite :=
  mkSite (s_qualname c) (s_base c) (s_unique c) (s_is_class c) (s_obj c) (s_inst_type c) s
         (s_in_avals c) (s_params c) (s_nout c).

Definition fcache := list (nat * cstate).        (* id(instance) -> state when first fingerprinted *)
Fixpoint cache_find (o : nat) (m : fcache) : option cstate :=
  match m with [] => None | (o', s) :: r => if Nat.eqb o o' then Some s else cache_find o r end.
Definition cache_add (m : fcache) (c : rsite) : fcache :=
  match cache_find (s_obj c) m with Some _ => m | None => m ++ [(s_obj c, s_state c)] end.
Definition cache_extend (m : fcache) (sites : list (rsite * option nat)) : fcache :=
  fold_left (fun m ps => cache_add m (fst ps)) sites m.
(* what a cached fingerprint makes the key see *)
Definition stale_view (m : fcache) (c : rsite) : rsite :=
  match cache_find (s_obj c) m with Some s => with_state c s | None => c end.

Definition first_state (o : nat) (sites : list (rsite * option nat)) : option cstate :=
  match find (fun ps => Nat.eqb o (s_obj (fst ps))) sites with Some ps => Some (s_state (fst ps)) | None => None end.

Lemma cache_find_app o m m' : cache_find o (m ++ m') =
  match cache_find o m with Some s => Some s | None => cache_find o m' end.
Proof. induction m as [|[o' s] m IH]; simpl; auto. destruct (Nat.eqb o o'); auto. Qed.

Lemma cache_find_extend o : forall sites m, cache_find o (cache_extend m sites) =
  match cache_find o m with Some s => Some s | None => first_state o sites end.
Proof.
  induction sites as [|[c par] sites IH]; intro m; simpl.
  - unfold first_state. simpl. destruct (cache_find o m); auto.
  - unfold cache_extend in *. simpl. rewrite IH. unfold first_state. simpl. unfold cache_add.
    destruct (cache_find (s_obj c) m) as [sc|] eqn:Ec.
    + destruct (cache_find o m) eqn:Eo; auto.
      destruct (Nat.eqb_spec o (s_obj c)) as [->|]; auto. rewrite Ec in Eo. discriminate.
    + rewrite cache_find_app. destruct (cache_find o m); auto. simpl.
      destruct (Nat.eqb o (s_obj c)); auto.
Qed.

Lemma with_state_id c : with_state c (s_state c) = c.
Proof. destruct c. reflexivity. Qed.

(* a single conversion from an empty cache, callees not mutated during it: the cached view IS the site *)
Theorem stale_view_first_conversion sites :
  (forall c1 c2, In c1 (map fst sites) -> In c2 (map fst sites) -> s_obj c1 = s_obj c2 -> s_state c1 = s_state c2) ->
  forall c, In c (map fst sites) -> stale_view (cache_extend [] sites) c = c.
Proof.
  intros Hid c Hc. unfold stale_view. rewrite cache_find_extend. simpl. unfold first_state.
  destruct (find (fun ps => Nat.eqb (s_obj c) (s_obj (fst ps))) sites) as [ps|] eqn:Ef.
  - apply find_some in Ef. destruct Ef as [Hin Ho]. apply Nat.eqb_eq in Ho.
    rewrite <- (Hid c (fst ps)); auto; [apply with_state_id | apply in_map; exact Hin].
  - exfalso. apply in_map_iff in Hc. destruct Hc as (ps & <- & Hin).
    pose proof (find_none _ _ Ef _ Hin) as Hn. simpl in Hn. now rewrite Nat.eqb_refl in Hn.
Qed.

Section History.
Variables HT FPT D : Type.
Variable hash : list nat -> HT.
Variable fp : nat -> FPT.
Variable HT_eq_dec : forall a b : HT, {a = b} + {a <> b}.
Variable FPT_eq_dec : forall a b : FPT, {a = b} + {a <> b}.
Variable denote : nat -> nat -> cstate -> list aval -> list (nat * param) -> D.

Definition stale_key (m : fcache) (c : rsite) : fkey HT FPT := real_key HT FPT hash fp (stale_view m c).

(* one conversion with the key as the code builds it from the current site *)
Definition convert_current (sites : list (rsite * option nat)) :=
  lower_sites rsite (fkey HT FPT) D (fkey_eq_dec HT FPT HT_eq_dec FPT_eq_dec)
              (real_key HT FPT hash fp) (rsem D denote) rnin s_nout rfam sites.
(* ... and with fingerprints remembered per instance across conversions *)
Definition convert_stale (m : fcache) (sites : list (rsite * option nat)) :=
  lower_sites rsite (fkey HT FPT) D (fkey_eq_dec HT FPT HT_eq_dec FPT_eq_dec)
              (stale_key (cache_extend m sites)) (rsem D denote) rnin s_nout rfam sites.
Fixpoint run_history_stale (m : fcache) (history : list (list (rsite * option nat))) :=
  match history with
  | [] => []
  | sites :: rest => convert_stale m sites :: run_history_stale (cache_extend m sites) rest
  end.

(* the per-conversion assumptions of real_key_adequate, with "live" = the sites of THAT conversion *)
Definition conversion_ok (sites : list (rsite * option nat)) : Prop :=
  let live := fun c => In c (map fst sites) in
  (forall c1 c2, live c1 -> live c2 -> s_unique c1 = false -> s_unique c2 = false ->
     s_qualname c1 = s_qualname c2 -> s_obj c1 = s_obj c2 ->
     s_state c1 = s_state c2 /\ s_inst_type c1 = s_inst_type c2) /\
  (forall c1 c2, live c1 -> live c2 -> s_unique c1 = true -> s_unique c2 = true ->
     s_is_class c1 = false -> s_is_class c2 = false ->
     s_qualname c1 = s_qualname c2 -> s_state c1 = s_state c2) /\
  Forall (fun ps => clean live (fst ps)) sites.

(* the current-state key stays sound along EVERY history: whatever happened to the callees between two
   conversions, each conversion's call nodes name definitions of the function the site denotes NOW *)
Theorem current_key_sound_along_histories :
  (forall b1 b2, hash b1 = hash b2 -> b1 = b2) ->
  (forall a b, fp a = fp b -> a = b) ->
  (forall c1 c2, rsem D denote c1 = rsem D denote c2 -> s_nout c1 = s_nout c2) ->
  forall history, Forall conversion_ok history ->
  Forall (fun sites => forall c, In c (st_calls _ _ _ (convert_current sites)) ->
            d_sem _ _ (c_def _ _ _ c) = rsem D denote (c_site _ _ _ c) /\
            c_nin _ _ _ c = d_nin _ _ (c_def _ _ _ c) /\ c_nout _ _ _ c = d_nout _ _ (c_def _ _ _ c)) history.
Proof.
  intros Hh Hf Hno history Hok. eapply Forall_impl; [|exact Hok].
  intros sites (Hid & Hfun & Hcl) c Hc.
  apply (real_dedup_sound HT FPT D hash fp HT_eq_dec FPT_eq_dec denote (fun c => In c (map fst sites)) Hh Hf Hid Hfun Hno sites Hcl c Hc).
Qed.

(* a single conversion with a cold cache behaves like the current-state key *)
Theorem stale_key_first_conversion sites :
  (forall c1 c2, In c1 (map fst sites) -> In c2 (map fst sites) -> s_obj c1 = s_obj c2 -> s_state c1 = s_state c2) ->
  forall c, In c (map fst sites) -> stale_key (cache_extend [] sites) c = real_key HT FPT hash fp c.
Proof. intros Hid c Hc. unfold stale_key. now rewrite stale_view_first_conversion. Qed.

End History.

(* the hazard: two unique=True instances start identical, are converted, one is updated in place, and are
   converted again.  With remembered fingerprints the second conversion still merges them: the call node
   of the updated instance names the definition built from the other one. *)
Definition h_site (obj shown : nat) : rsite := mkSite 0 0 true true obj 3 (mkState shown 0) [([2; 3], 1)] [] 1.
Definition h_history : list (list (rsite * option nat)) :=
  [ [(h_site 1 4, None); (h_site 2 4, None)];          (* export #1: identical states *)
    [(h_site 1 4, None); (h_site 2 5, None)] ].        (* instance 2 mutated in place; export #2 *)
Definition h_denote (q t : nat) (s : cstate) (a : list aval) (p : list (nat * param)) := (q, t, s, a, p).

Lemma h_conv_ok a b : conversion_ok [(h_site 1 a, None); (h_site 2 b, None)].
Proof.
  unfold conversion_ok. simpl. split; [|split].
  - intros c1 c2 H1 H2 U1. destruct H1 as [<-|[<-|[]]]; simpl in U1; discriminate.
  - intros c1 c2 H1 H2 _ _ I1. destruct H1 as [<-|[<-|[]]]; simpl in I1; discriminate.
  - constructor; [|constructor; [|constructor]];
      (split; [simpl; auto | split; [intros n v [] | intros _ _; reflexivity]]).
Qed.

Theorem stale_key_breaks_adequacy :
  exists history st c,
    Forall conversion_ok history /\
    nth_error (run_history_stale (list nat) nat _ (fun b => b) (fun s => s) (list_eq_dec Nat.eq_dec) Nat.eq_dec h_denote [] history) 1 = Some st /\
    In c (st_calls _ _ _ st) /\
    d_sem _ _ (c_def _ _ _ c) <> rsem _ h_denote (c_site _ _ _ c).
Proof.
  exists h_history. eexists. eexists. split; [|split; [vm_compute; reflexivity | split]].
  - constructor; [apply h_conv_ok | constructor; [apply h_conv_ok | constructor]].
  - right. left. reflexivity.
  - vm_compute. discriminate.
Qed.

(* the same history under the current-state key: two definitions in the second conversion *)
Example current_key_on_h_history :
  map (fun sites => length (st_defs _ _ _ (predict sites))) h_history = [1; 2].
Proof. vm_compute. reflexivity. Qed.

(* ================================================================================================ *)
(* Part F: call-site constants passed as operands                                                    *)
(* ================================================================================================ *)
(* The key records only the TYPES of the operands.  A definition is therefore shared by call sites whose
   constant operands differ in value; the value travels through the call node.  The shared body must be a
   function of the key's inputs only: a body specialised on the first site's constant is exposed by any
   later site with the same key and another constant. *)
Section ConstOperands.
Variables site K C R : Type.
Variable K_eq_dec : forall a b : K, {a = b} + {a <> b}.
Variable key : site -> K.
Variable nin nout : site -> nat.
Variable fam : site -> nat * bool.
Variable cval : site -> C.           (* the values the site passes for its constant operands *)
Variable body : site -> C -> R.      (* the body traced at the site, as a function of those operands *)

Theorem generic_body_sound :
  (forall c1 c2, key c1 = key c2 -> body c1 = body c2) ->
  forall sites c, In c (st_calls _ _ _ (lower_sites site K (C -> R) K_eq_dec key body nin nout fam sites)) ->
    d_sem _ _ (c_def _ _ _ c) (cval (c_site _ _ _ c)) = body (c_site _ _ _ c) (cval (c_site _ _ _ c)).
Proof.
  intros Hg sites c Hc.
  now rewrite (dedup_sound site K (C -> R) K_eq_dec key body nin nout fam Hg sites c Hc).
Qed.

Theorem specialised_body_unsound :
  forall c1 c2, key c1 = key c2 -> body c1 (cval c2) <> body c2 (cval c2) ->
  exists sites c, In c (st_calls _ _ _ (lower_sites site K (C -> R) K_eq_dec key body nin nout fam sites)) /\
    d_sem _ _ (c_def _ _ _ c) (cval (c_site _ _ _ c)) <> body (c_site _ _ _ c) (cval (c_site _ _ _ c)).
Proof.
  intros c1 c2 Hk Hb. exists [(c1, None); (c2, None)].
  unfold lower_sites. simpl. unfold keyb at 1. simpl.
  destruct (K_eq_dec (key c1) (key c2)) as [_|Hn]; [|contradiction].
  simpl. eexists. split; [right; left; reflexivity|]. simpl. exact Hb.
Qed.
End ConstOperands.

(* the real key ignores the value of a positional constant: two sites that differ only there have one key *)
Theorem real_key_ignores_operand_values :
  forall (HT FPT : Type) (hash : list nat -> HT) (fp : nat -> FPT) (c1 c2 : rsite),
  s_qualname c1 = s_qualname c2 -> s_unique c1 = s_unique c2 -> s_is_class c1 = s_is_class c2 -> s_obj c1 = s_obj c2 ->
  s_inst_type c1 = s_inst_type c2 -> s_state c1 = s_state c2 -> s_in_avals c1 = s_in_avals c2 -> s_params c1 = s_params c2 ->
  real_key HT FPT hash fp c1 = real_key HT FPT hash fp c2.
Proof.
  intros HT FPT hash fp c1 c2 Hq Hu Hi Ho Ht Hs Ha Hp. unfold real_key, caps_of. now rewrite Hq, Hu, Hi, Ho, Ht, Hs, Ha, Hp.
Qed.
