(* TransposeReducePass (C02): a faithful model of remove_redundant_transpose_reduce_ir
     Transpose T1 (perm p) -> ReduceMean (keepdims = 1, constant axes) -> Transpose T2 (perm p^-1)
   becomes ReduceMean over the re-mapped axes sorted([p[a] for a in axes]) of T1's source; T2 is bypassed and removed, T1 stays
   (it may have other readers; remove_orphan_transposes_ir collects it later).
   Encoding (harness/c02_passes.py): n_op as in TransposePairPass; a Transpose carries 1 :: perm; a ReduceMean carries
     [kd; form] ++ axes     kd = 0: no usable keepdims attribute, k+1: keepdims = k
                            form = 0: no INTS attribute axes, 1: INTS attribute axes = the list (integers z >= 0 as 2z, z < 0 as 2|z|-1)
   and constant integer tensors (what _value_const_ints resolves) are an annotation [rg_const].  When the axes come from
   the second INPUT, the pass creates a new initializer; the model gives it the first unused name. *)
From Coq Require Import ZArith String List Bool Arith Lia.
From J2O Require Import PyLib Tensor Graph Redirect ReshapePairPass TransposePairPass.
From J2OGen Require Import GenCast GenOpt.
Import ListNotations.

(* [rt_next]: every name the graph or its environment uses is below it (the real pass picks a name nothing else carries) *)
Record rgraphT := mkRT { rt_nodes : list node; rt_outputs : list name; rt_const : name -> option (list Z); rt_next : name }.
Definition rt_graph (g : rgraphT) : graph := mkGraph (rt_nodes g) (rt_outputs g).

Definition enc_z (z : Z) : nat := if (z <? 0)%Z then 2 * Z.to_nat (- z) - 1 else 2 * Z.to_nat z.
Definition dec_z (n : nat) : Z := if Nat.even n then Z.of_nat (Nat.div2 n) else (- Z.of_nat (Nat.div2 (S n)))%Z.

Definition is_rm (n : node) : bool := String.eqb (nop n) "ReduceMean".
Definition rm_keepdims (n : node) : option nat := match n_attrs n with S k :: _ => Some k | _ => None end.
Definition rm_axes_attr (n : node) : option (list Z) := match n_attrs n with _ :: 1 :: l => Some (map dec_z l) | _ => None end.

Definition robserved (g : rgraphT) (v : name) : bool :=
  mem v (rt_outputs g) || existsb (fun m => mem v (n_caps m)) (rt_nodes g).

(* normalise the axes against rank = len(perm1) and map them through perm1; None: an axis is out of range *)
Fixpoint map_axes (p : list nat) (axes : list Z) : option (list nat) :=
  match axes with
  | [] => Some []
  | a :: r =>
      let rank := Z.of_nat (length p) in
      let a' := if (a <? 0)%Z then (a + rank)%Z else a in
      if (a' <? 0)%Z || (rank <=? a')%Z then None
      else match map_axes p r with Some l => Some (nth (Z.to_nat a') p 0 :: l) | None => None end
  end.

Fixpoint insert_sorted (x : nat) (l : list nat) : list nat :=
  match l with [] => [x] | y :: r => if Nat.leb x y then x :: l else y :: insert_sorted x r end.
Definition sort_nat (l : list nat) : list nat := fold_right insert_sorted [] l.

Inductive axes_src := AxNone | AxAttr (l : list nat) | AxInput (l : list nat).      (* the RE-MAPPED, sorted axes *)

Record raction := mkRA { ra_T1 : node; ra_red : node; ra_T2 : node; ra_axes : axes_src }.

Definition decide_tr (g : rgraphT) (T2 : node) : option raction :=
  if negb (is_T T2) then None else
  match n_ins T2, n_outs T2 with
  | [x], _ :: _ =>
      match producer (rt_nodes g) x with
      | Some red =>
          if negb (is_rm red) then None else
          match n_ins red with
          | rin :: rrest =>
              match producer (rt_nodes g) rin with
              | Some T1 =>
                  if negb (is_T T1) then None else
                  match perm_of T1, perm_of T2 with
                  | Some p, Some q =>
                      if negb (inv_ok p q) then None else
                      match rm_keepdims red with
                      | Some 1 =>
                          (* where do the axes come from: second input (a constant, else give up), else the attribute *)
                          let axes_in := match rrest with a :: _ => Some (rt_const g a) | [] => None end in
                          match (match axes_in with
                                 | Some None => None                                           (* dynamic axes *)
                                 | Some (Some ax) => match map_axes p ax with Some l => Some (AxInput (sort_nat l)) | None => None end
                                 | None => match rm_axes_attr red with
                                           | Some ax => match map_axes p ax with Some l => Some (AxAttr (sort_nat l)) | None => None end
                                           | None => Some AxNone
                                           end
                                 end) with
                          | None => None
                          | Some axs =>
                              match out1 red, first_in T1 with
                              | Some ro, Some _ =>
                                  (* schema: a ReduceMean has at most two inputs and no nested graph *)
                                  if robserved g ro || negb (no_caps red) || Nat.ltb 2 (length (n_ins red)) then None else
                                  match consumers (rt_nodes g) ro with
                                  | [c] => if node_eqb c T2 then Some (mkRA T1 red T2 axs) else None
                                  | _ => None
                                  end
                              | _, _ => None
                              end
                          end
                      | _ => None
                      end
                  | _, _ => None
                  end
              | None => None
              end
          | [] => None
          end
      | None => None
      end
  | _, _ => None
  end.

Definition max_name (g : rgraphT) : nat :=
  fold_right Nat.max 0 (pred (rt_next g) :: rt_outputs g ++ flat_map (fun n => n_ins n ++ n_caps n ++ n_outs n) (rt_nodes g)).

(* the rewrite WITHOUT the node that defines the re-mapped axes (they are looked up under the created name) *)
Definition apply_tr_env (g : rgraphT) (a : raction) : rgraphT :=
  match first_in (ra_T1 a), out1 (ra_red a), out1 (ra_T2 a) with
  | Some src, Some ro, Some t2o =>
      let fresh := S (max_name g) in
      let red := ra_red a in
      let red' :=
        match ra_axes a with
        | AxNone => mkNode (n_op red) (n_attrs red) (src :: tl (n_ins red)) (n_caps red) (n_outs red)
        | AxAttr l => mkNode (n_op red) (match n_attrs red with kd :: _ => kd :: 1 :: map (fun k => 2 * k) l | [] => [] end)
                             (src :: tl (n_ins red)) (n_caps red) (n_outs red)
        | AxInput l => mkNode (n_op red) (n_attrs red) (src :: fresh :: tl (tl (n_ins red))) (n_caps red) (n_outs red)
        end in
      let ns1 := map (fun n => if node_eqb n red then red' else n) (rt_nodes g) in
      let g2 := replace_all_uses t2o ro (mkGraph ns1 (rt_outputs g)) in
      mkRT (filter (fun n => negb (leqb (n_outs n) (n_outs (ra_T2 a)))) (g_nodes g2)) (g_outputs g2)
           (match ra_axes a with
            | AxInput l => fun x => if Nat.eqb x fresh then Some (map Z.of_nat l) else rt_const g x
            | _ => rt_const g
            end)
           (match ra_axes a with AxInput _ => S fresh | _ => rt_next g end)
  | _, _, _ => g
  end.

(* THE REWRITE: when the axes were an input, a Constant node holding the re-mapped axes (payload encoded as 5 :: 2k ...) is
   inserted immediately before the reducer (an initializer would not survive in a function body) *)
Definition const_node (l : list nat) (x : name) : node := mkNode "Constant" (5 :: map (fun k => 2 * k) l) [] [] [x].
Definition insert_before (y : name) (c : node) (ns : list node) : list node :=
  flat_map (fun n => if existsb (Nat.eqb y) (n_outs n) then [c; n] else [n]) ns.
Definition apply_tr (g : rgraphT) (a : raction) : rgraphT :=
  match first_in (ra_T1 a), out1 (ra_red a), out1 (ra_T2 a), ra_axes a with
  | Some _, Some ro, Some _, AxInput l =>
      let gx := apply_tr_env g a in
      mkRT (insert_before ro (const_node l (S (max_name g))) (rt_nodes gx)) (rt_outputs gx) (rt_const gx) (rt_next gx)
  | _, _, _, _ => apply_tr_env g a
  end.


Definition tr_step (g : rgraphT) : option rgraphT := option_map (apply_tr g) (first_some (decide_tr g) (rt_nodes g)).
Fixpoint tr_pass (fuel : nat) (g : rgraphT) : rgraphT :=
  match fuel with O => g | S k => match tr_step g with Some g' => tr_pass k g' | None => g end end.

(* the declared shape of the reducer's output after a fold: that of T2's output, also when T2's output has none (then it is
   CLEARED: the old annotation describes the transposed layout; .scratch/c02p/defect_transpose_reduce_stale_shape.py) *)
Definition tr_shape_upd {B} (sh : name -> option B) (a : raction) : name -> option B :=
  match out1 (ra_red a), out1 (ra_T2 a) with
  | Some ro, Some t2o => fun y => if Nat.eqb y ro then sh t2o else sh y
  | _, _ => sh
  end.
Fixpoint tr_pass_sh {B} (fuel : nat) (g : rgraphT) (sh : name -> option B) : rgraphT * (name -> option B) :=
  match fuel with
  | O => (g, sh)
  | S k => match first_some (decide_tr g) (rt_nodes g) with
           | Some a => tr_pass_sh k (apply_tr g a) (tr_shape_upd sh a)
           | None => (g, sh)
           end
  end.
Lemma tr_pass_sh_fst {B} fuel : forall g (sh : name -> option B), fst (tr_pass_sh fuel g sh) = tr_pass fuel g.
Proof.
  induction fuel as [|k IH]; intros g sh; simpl; [reflexivity|]. unfold tr_step.
  destruct (first_some (decide_tr g) (rt_nodes g)); simpl; [apply IH | reflexivity].
Qed.

(* comparison of graphs up to the name of the created initializers: a ReduceMean is compared through the VALUE of its
   constant axes operand *)
Definition norm_rm (g : rgraphT) (n : node) : node :=
  if is_rm n then
    mkNode (n_op n) (n_attrs n ++ match n_ins n with
                                  | _ :: a :: _ => match rt_const g a with Some l => 7 :: map enc_z l | None => [8; a] end
                                  | _ => [] end)
           (firstn 1 (n_ins n)) (n_caps n) (n_outs n)
  else n.
